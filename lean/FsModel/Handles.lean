/-
  FsModel.Handles — the reference semantics WITH OPEN HANDLES (C01 + C16 together).

  `Ref.lean` is one call = one step: a file is opened and closed INSIDE a call.  Here a file
  object returned by `open` stays alive across other filesystem calls, several handles may be
  open on one file, and the file may be removed / moved / overwritten while they are.

  State
    * `fs : Ref.State`        the observable tree.  A file node holds the bytes of the inode that
                              is LINKED there (pyfilesystem has no hard links: a linked inode has
                              exactly one path), so `forget` is this field and every theorem about
                              `Ref.step` applies verbatim to the tree part.
    * `inodes : List Link`    the inode table (inode id = index), one entry per inode that has
                              ever been opened: `linked cs` — the inode is the file at component
                              path `cs` (its bytes are in the tree) — or `unlinked b` — no path
                              names it any more, its bytes `b` live until the last handle goes.
    * `handles : List Handle` the handle table (hid = index): inode, mode flags, position, closed.

  Operations
    * every `Ref.Op` (`treeStep`): verdict, value and tree are `Ref.step`'s; the inode table
      follows POSIX: `remove`/`removetree`/an overwriting `move` UNLINK the inodes they take out
      of the tree (content kept), `move` RE-LINKS the source inode at the destination, everything
      that overwrites a file in place (`writebytes`, `appendbytes`, `create(wipe)`, `open("w")`,
      `copy`/`copydir`/merging `movedir` onto an existing file) TRUNCATES/REWRITES THE SAME INODE.
      `movedir`: onto an existing directory every backend copies into it and removes the source
      (source inodes unlinked); onto a NEW destination the backends genuinely differ —
      `MovedirImpl.rename` (POSIX rename, MemoryFS: the directory entry is re-linked, handles
      follow) is the reference, `MovedirImpl.copy` (fs/base.py `move_dir` = `copy_dir` +
      `removetree`: OSFS, SubFS(OSFS), write archives) is the as-coded variant.
    * `open p mode → hid` (`openStep`): verdict and tree effect of `Ref.step (openbin p mode)`
      (create / truncate the same inode / FileExists …); the inode linked at `p` is interned.
    * every file-object call of `IoRef`, addressed by hid (`fileStep`): literally `IoRef.step` on
      (the inode's current bytes, the handle's position, its closed flag).  Two handles on one
      inode therefore see each other's writes; append mode writes at the current end.
    * closing the FILESYSTEM (`Ref.Op.close`) does not touch the handle table: handles keep working.

  No Mathlib imports (the driver links this module).
-/
import FsModel.Ref
import FsModel.File

namespace Fs.Handles
open Fs Fs.Ref Fs.File

/-- where an inode lives -/
inductive Link where
  | linked (cs : List Name)     -- it is the file at this component path; bytes in the tree
  | unlinked (b : Bytes)        -- no path names it any more; its bytes
  deriving DecidableEq, Repr, Inhabited

structure Handle where
  ino : Nat
  fl : Flags
  pos : Nat
  closed : Bool
  deriving DecidableEq, Repr, Inhabited

structure HState where
  fs : Ref.State
  inodes : List Link
  handles : List Handle
  deriving Repr, Inhabited

def HState.init (t : Node) : HState := { fs := { root := t, closed := false }, inodes := [], handles := [] }

/-- the projection onto the handle-free reference state -/
def forget (s : HState) : Ref.State := s.fs

/-! ### inode contents -/

/-- the bytes of the file at `cs`, if there is a file -/
def fileAt (t : Node) (cs : List Name) : Option Bytes :=
  match t.get cs with
  | some (.file b) => some b
  | _ => none

def Link.bytes (t : Node) : Link → Bytes
  | .linked cs => (fileAt t cs).getD []
  | .unlinked b => b

/-- current content of inode `ino` -/
def HState.inoBytes (s : HState) (ino : Nat) : Bytes :=
  match s.inodes[ino]? with
  | some l => l.bytes s.fs.root
  | none => []

/-- store `b` as the content of inode `ino` -/
def HState.setInoBytes (s : HState) (ino : Nat) (b : Bytes) : HState :=
  match s.inodes[ino]? with
  | some (.linked cs) =>
    (match fileAt s.fs.root cs with
     | some _ => { s with fs := { s.fs with root := s.fs.root.set cs (.file b) } }
     | none => s)
  | some (.unlinked _) => { s with inodes := s.inodes.set ino (.unlinked b) }
  | none => s

/-! ### results -/

inductive HOut where
  | tree (o : Ref.Out)        -- result of a filesystem call
  | opened (hid : Nat)        -- `open` returned a file object
  | openErr (e : Err)         -- `open` raised
  | file (o : File.Out)       -- result of a file-object call
  | badHandle                 -- no such hid (never produced by a well-formed history)
  deriving Repr, Inhabited, DecidableEq

/-! ### file-object calls -/

/-- what `IoRef` sees of handle `hid`: (inode bytes, position, closed) -/
def view (s : HState) (hid : Nat) : Option IoState :=
  match s.handles[hid]? with
  | none => none
  | some h => some ⟨s.inoBytes h.ino, h.pos, h.closed⟩

/-- one call on the file object `hid`: `IoRef.step` on the inode's current bytes -/
def fileStep (s : HState) (hid : Nat) (op : File.Op) : HState × HOut :=
  match s.handles[hid]? with
  | none => (s, .badHandle)
  | some h =>
    let b := s.inoBytes h.ino
    let r := IoRef.step h.fl ⟨b, h.pos, h.closed⟩ op
    let s1 := if r.1.bytes = b then s else s.setInoBytes h.ino r.1.bytes
    ({ s1 with handles := s1.handles.set hid { h with pos := r.1.pos, closed := r.1.closed } }, .file r.2)

/-! ### open -/

/-- index of the inode linked at `cs`, if one is in the table -/
def findLink (cs : List Name) : List Link → Option Nat
  | [] => none
  | l :: ls => if l = .linked cs then some 0 else (findLink cs ls).map (· + 1)

/-- the inode linked at `cs`: the existing table entry, or a new one -/
def intern (inodes : List Link) (cs : List Name) : List Link × Nat :=
  match findLink cs inodes with
  | some i => (inodes, i)
  | none => (inodes ++ [.linked cs], inodes.length)

/-- `open(p, mode)` keeping the file object: verdict and tree effect are those of the reference's
`openbin` (mode check, path validation, FileExpected / ResourceNotFound / FileExists, create,
truncate THE SAME inode); the handle starts at 0, or at the end in append mode. -/
def openStep (s : HState) (p mode : Str) : HState × HOut :=
  match Ref.step s.fs (.openbin p mode) with
  | (_, .err e) => (s, .openErr e)
  | (fs', .ok _) =>
    match validate p with
    | .err e => (s, .openErr e)
    | .ok cs =>
      let fl := Mode.flags mode
      let b := (fileAt fs'.root cs).getD []
      let it := intern s.inodes cs
      let h : Handle := { ino := it.2, fl := fl, pos := if fl.appending then b.length else 0, closed := false }
      ({ fs := fs', inodes := it.1, handles := s.handles ++ [h] }, .opened s.handles.length)

/-! ### filesystem calls -/

/-- how `movedir` onto a destination that does not exist yet treats the inodes below the source -/
inductive MovedirImpl where
  | rename     -- the directory is re-linked (POSIX rename; MemoryFS): handles follow.  THE REFERENCE.
  | copy       -- fs/base.py move_dir: copy_dir + removetree(src): source inodes are unlinked
  deriving DecidableEq, Repr, Inhabited

/-- every inode linked at or below `pre` leaves the tree, keeping the bytes it had in `t` -/
def unlinkUnder (t : Node) (pre : List Name) (inodes : List Link) : List Link :=
  inodes.map fun l =>
    match l with
    | .linked q => if isPrefix pre q then .unlinked ((fileAt t q).getD []) else .linked q
    | .unlinked b => .unlinked b

/-- every inode linked at or below `a` is re-linked at the same relative path below `b` -/
def relocate (a b : List Name) (inodes : List Link) : List Link :=
  inodes.map fun l =>
    match l with
    | .linked q => if isPrefix a q then .linked (b ++ q.drop a.length) else .linked q
    | .unlinked x => .unlinked x

/-- what a SUCCESSFUL filesystem call does to the inode table (`t` = the tree before the call) -/
def fixup (impl : MovedirImpl) (t : Node) (op : Ref.Op) (inodes : List Link) : List Link :=
  match op with
  | .remove p =>
    (match validate p with
     | .ok cs => unlinkUnder t cs inodes
     | .err _ => inodes)
  | .removetree p =>
    (match validate p with
     | .ok cs => unlinkUnder t cs inodes
     | .err _ => inodes)
  | .move s d _ =>
    (match validate s, validate d with
     | .ok a, .ok b => if a = b then inodes else relocate a b (unlinkUnder t b inodes)
     | _, _ => inodes)
  | .movedir s d _ =>
    (match validate s, validate d with
     | .ok a, .ok b =>
       if a = b then inodes
       else
         (match impl, t.get b with
          | .rename, none => relocate a b inodes
          | _, _ => unlinkUnder t a inodes)
     | _, _ => inodes)
  | _ => inodes

/-- one filesystem call: `Ref.step` on the tree; on success the inode table follows -/
def treeStep (impl : MovedirImpl) (s : HState) (op : Ref.Op) : HState × HOut :=
  let r := Ref.step s.fs op
  let inodes' :=
    match r.2 with
    | .ok _ => fixup impl s.fs.root op s.inodes
    | .err _ => s.inodes
  ({ s with fs := r.1, inodes := inodes' }, .tree r.2)

/-! ### histories -/

inductive HOp where
  | tree (op : Ref.Op)
  | open_ (p mode : Str)
  | file (hid : Nat) (op : File.Op)
  deriving Repr, Inhabited

def step (impl : MovedirImpl) (s : HState) : HOp → HState × HOut
  | .tree op => treeStep impl s op
  | .open_ p mode => openStep s p mode
  | .file hid op => fileStep s hid op

/-- `tell()` of handle `hid` (`none`: closed or no such handle) -/
def tellOf (s : HState) (hid : Nat) : Option Nat :=
  match s.handles[hid]? with
  | some h => if h.closed then none else some h.pos
  | none => none

/-- the handle a call addresses / returns -/
def subject : HOp → HOut → Option Nat
  | .file hid _, _ => some hid
  | .open_ _ _, .opened hid => some hid
  | _, _ => none

/-- `tell()` observed after the call on the handle it addressed (or returned) -/
def obsTell (s' : HState) (op : HOp) (o : HOut) : Option Nat :=
  match subject op o with
  | some hid => tellOf s' hid
  | none => none

def run (impl : MovedirImpl) : HState → List HOp → HState × List (HOut × Option Nat)
  | s, [] => (s, [])
  | s, op :: ops =>
    let r := step impl s op
    let rest := run impl r.1 ops
    (rest.1, (r.2, obsTell r.1 op r.2) :: rest.2)

/-! ### well-formedness of the tables -/

def linkPath : Link → Option (List Name)
  | .linked cs => some cs
  | .unlinked _ => none

def nodupB {α : Type} [DecidableEq α] : List α → Bool
  | [] => true
  | a :: as => !as.contains a && nodupB as

/-- the tree is a well-formed directory; (I1) every linked inode names a file of the tree (not the root);
(I2) no two inodes are linked at one path; (I3) every handle's inode is in the table -/
def HState.wf (s : HState) : Bool :=
  s.fs.root.isDir && s.fs.root.wf
  && s.inodes.all (fun l => match l with
    | .linked cs => !cs.isEmpty && (fileAt s.fs.root cs).isSome
    | .unlinked _ => true)
  && nodupB (s.inodes.filterMap linkPath)
  && s.handles.all (fun h => decide (h.ino < s.inodes.length))

/-- no handle is open -/
def HState.allClosed (s : HState) : Bool := s.handles.all (·.closed)

/-- executing `ops` from `s`: whenever a filesystem call or an `open` is reached, no handle is open -/
def quiescentAt (impl : MovedirImpl) : HState → List HOp → Bool
  | _, [] => true
  | s, op :: ops =>
    (match op with
     | .file _ _ => true
     | _ => s.allClosed) && quiescentAt impl (step impl s op).1 ops

/-- "every open is closed before the next filesystem call" (decidable, by execution): no handle is open
when a filesystem call or an `open` is reached, and none is left open at the end -/
def quiescent (impl : MovedirImpl) (s : HState) (ops : List HOp) : Bool :=
  quiescentAt impl s ops && (run impl s ops).1.allClosed

/-! ### the reference with sessions (a file opened, used and closed inside ONE call)

`Ref.step` treats `readbytes`, `writebytes`, `appendbytes`, `create`, `openbin` as single steps; each is
an instance of `refSession`: open verdict and tree effect of `Ref.step (openbin p mode)`, then the
`IoRef` session on the file's bytes, whose final bytes are stored back. -/

def refSession (st : Ref.State) (p mode : Str) (calls : List File.Op) :
    Ref.State × Res (List (File.Out × Option Nat)) :=
  match Ref.step st (.openbin p mode) with
  | (_, .err e) => (st, .err e)
  | (st', .ok _) =>
    match validate p with
    | .err e => (st, .err e)
    | .ok cs =>
      let fl := Mode.flags mode
      let b := (fileAt st'.root cs).getD []
      let r := IoRef.runFrom fl ⟨b, if fl.appending then b.length else 0, false⟩ (calls ++ [.close])
      ({ st' with root := st'.root.set cs (.file r.2) }, .ok r.1)

/-- a history in which no handle outlives the call that opened it -/
inductive Item where
  | tree (op : Ref.Op)
  | session (p mode : Str) (calls : List File.Op)
  deriving Repr, Inhabited

/-- the handle-level calls of an item, executed from a state whose next free hid is `hid` -/
def Item.flat (hid : Nat) : Item → List HOp
  | .tree op => [.tree op]
  | .session p mode calls => .open_ p mode :: (calls.map (.file hid) ++ [.file hid .close])

def runItems (impl : MovedirImpl) : HState → List Item → HState × List (List (HOut × Option Nat))
  | s, [] => (s, [])
  | s, it :: its =>
    let r := run impl s (it.flat s.handles.length)
    let rest := runItems impl r.1 its
    (rest.1, r.2 :: rest.2)

/-- the same history on the handle-free reference -/
inductive ItemOut where
  | tree (o : Ref.Out)
  | session (o : Res (List (File.Out × Option Nat)))
  deriving Repr, Inhabited, DecidableEq

def refItem (st : Ref.State) : Item → Ref.State × ItemOut
  | .tree op => let r := Ref.step st op; (r.1, .tree r.2)
  | .session p mode calls => let r := refSession st p mode calls; (r.1, .session r.2)

def refItems : Ref.State → List Item → Ref.State × List ItemOut
  | st, [] => (st, [])
  | st, it :: its =>
    let r := refItem st it
    let rest := refItems r.1 its
    (rest.1, r.2 :: rest.2)

/-- a trace entry of a file-object call -/
def fileEntry : HOut × Option Nat → Option (File.Out × Option Nat)
  | (.file o, t) => some (o, t)
  | _ => none

/-- what the handle-level trace of one item shows, in the vocabulary of `refItem` -/
def itemObs : Item → List (HOut × Option Nat) → Option ItemOut
  | .tree _, [(.tree o, _)] => some (.tree o)
  | .session _ _ _, (.openErr e, _) :: _ => some (.session (.err e))
  | .session _ _ _, (.opened _, _) :: tr => (tr.mapM fileEntry).map fun l => ItemOut.session (.ok l)
  | _, _ => none

end Fs.Handles
