/-
  FsModel.BulkDriver — line protocol for the Copier model.

    bulk.accepts <cfg> <tasks> <faults> <d0> <trace>
    bulk.run     <cfg> <tasks> <faults> <d0> <schedule>
    bulk.gate    <workers> <srcThreadSafe> <dstThreadSafe>

  cfg      = n.chunk.preserveTime.dstFirst                 e.g. 4.3.0.1
  tasks    = T<srchex>:<dsthex>:<datahex>;…                 (`-` = empty string)
  faults   = F<i>.<step>,…      step = os | od | r<k> | w<k> | cs | cd | t
  d0       = D<pathhex>:<datahex>;…
  trace    = X<label>:<ev>,…     label = p | w<k>
             ev = o.<i>.<s|d>.<0|1> | r.<i>.<k>.<n>.<0|1> | w.<i>.<k>.<0|1> | c.<i>.<s|d>.<0|1>
                | put.<i|n> | get.<i|n> | end.<i>.<0|1> | xw | j.<k> | t.<i>.<0|1> | qj
                | x.<ok|bulk|other>
  schedule = S<label>,…

  reply: `ok fin=<0|1> out=<ok|bulk|other|-> dest=… open=… errors=… timed=… done=… dropped=…
             nfail=<n> q=<queue length> trace=X…`
      or `rej <index of the first event the model cannot perform> want=<what thread would do>`
-/
import FsModel.Bulk
import FsModel.Proto

namespace Fs.BulkDriver
open Fs Fs.Bulk

def splitNE (s : String) (sep : String) : List String :=
  if s.isEmpty then [] else s.splitOn sep

def body (tag : String) (s : String) : Option String :=
  if s.startsWith tag then some (s.drop tag.length).toString else none

def parseCfg (s : String) : Option (Nat × Nat × Bool × Bool) :=
  match s.splitOn "." with
  | [n, ch, pt, df] => do
    let n ← n.toNat?; let ch ← ch.toNat?
    some (n, ch, pt == "1", df == "1")
  | _ => none

def parseTask (s : String) : Option Task :=
  match s.splitOn ":" with
  | [a, b, d] => do
    let a ← hexToStr a; let b ← hexToStr b; let d ← hexToBytes d
    some { src := a, dst := b, data := d }
  | _ => none

def parseTasks (s : String) : Option (List Task) := do
  let b ← body "T" s
  (splitNE b ";").mapM parseTask

def parseSide (s : String) : Option Side :=
  if s == "s" then some .src else if s == "d" then some .dst else none

def parseFStep (s : String) : Option FStep :=
  if s == "os" then some (.open .src) else if s == "od" then some (.open .dst)
  else if s == "cs" then some (.close .src) else if s == "cd" then some (.close .dst)
  else if s == "t" then some .ptime
  else if s.startsWith "r" then (s.drop 1).toString.toNat?.map .read
  else if s.startsWith "w" then (s.drop 1).toString.toNat?.map .write
  else none

def parseFault (s : String) : Option (Nat × FStep) :=
  match s.splitOn "." with
  | [i, st] => do let i ← i.toNat?; let st ← parseFStep st; some (i, st)
  | _ => none

def parseFaults (s : String) : Option (List (Nat × FStep)) := do
  let b ← body "F" s
  (splitNE b ",").mapM parseFault

def parseD0 (s : String) : Option (List (Str × Bytes)) := do
  let b ← body "D" s
  (splitNE b ";").mapM fun e =>
    match e.splitOn ":" with
    | [p, d] => do let p ← hexToStr p; let d ← hexToBytes d; some (p, d)
    | _ => none

def parseLabel (s : String) : Option Label :=
  if s == "p" then some .p
  else if s.startsWith "w" then (s.drop 1).toString.toNat?.map .w
  else none

def parseBool (s : String) : Option Bool :=
  if s == "1" then some true else if s == "0" then some false else none

def parseItem (s : String) : Option (Option Nat) :=
  if s == "n" then some none else s.toNat?.map some

def parseOutcome (s : String) : Option Outcome :=
  if s == "ok" then some .ok else if s == "bulk" then some .bulk
  else if s == "other" then some .other else none

def parseEv (s : String) : Option Ev :=
  match s.splitOn "." with
  | ["o", i, sd, ok] => do some (.open (← i.toNat?) (← parseSide sd) (← parseBool ok))
  | ["r", i, k, n, ok] => do some (.read (← i.toNat?) (← k.toNat?) (← n.toNat?) (← parseBool ok))
  | ["w", i, k, ok] => do some (.write (← i.toNat?) (← k.toNat?) (← parseBool ok))
  | ["c", i, sd, ok] => do some (.close (← i.toNat?) (← parseSide sd) (← parseBool ok))
  | ["put", x] => do some (.put (← parseItem x))
  | ["get", x] => do some (.get (← parseItem x))
  | ["end", i, r] => do some (.endTask (← i.toNat?) (← parseBool r))
  | ["xw"] => some .exitW
  | ["j", k] => do some (.join (← k.toNat?))
  | ["t", i, ok] => do some (.ptime (← i.toNat?) (← parseBool ok))
  | ["qj"] => some .qjoin
  | ["x", o] => do some (.exit (← parseOutcome o))
  | _ => none

def parseTrace (s : String) : Option Trace := do
  let b ← body "X" s
  (splitNE b ",").mapM fun e =>
    match e.splitOn ":" with
    | [l, ev] => do some (← parseLabel l, ← parseEv ev)
    | _ => none

def parseSched (s : String) : Option (List Label) := do
  let b ← body "S" s
  (splitNE b ",").mapM parseLabel

/-! rendering -/

def showSide : Side → String
  | .src => "s"
  | .dst => "d"

def showLabel : Label → String
  | .p => "p"
  | .w k => "w" ++ toString k

def showItem : Option Nat → String
  | none => "n"
  | some i => toString i

def showOutcome : Outcome → String
  | .ok => "ok"
  | .bulk => "bulk"
  | .other => "other"

def b01 (b : Bool) : String := if b then "1" else "0"

def showEv : Ev → String
  | .open i sd ok => s!"o.{i}.{showSide sd}.{b01 ok}"
  | .read i k n ok => s!"r.{i}.{k}.{n}.{b01 ok}"
  | .write i k ok => s!"w.{i}.{k}.{b01 ok}"
  | .close i sd ok => s!"c.{i}.{showSide sd}.{b01 ok}"
  | .put x => "put." ++ showItem x
  | .get x => "get." ++ showItem x
  | .endTask i r => s!"end.{i}.{b01 r}"
  | .exitW => "xw"
  | .join k => s!"j.{k}"
  | .ptime i ok => s!"t.{i}.{b01 ok}"
  | .qjoin => "qj"
  | .exit o => "x." ++ showOutcome o

def showTrace (t : Trace) : String :=
  "X" ++ ",".intercalate (t.map fun (l, e) => showLabel l ++ ":" ++ showEv e)

def showNats (l : List Nat) : String :=
  if l.isEmpty then "-" else ",".intercalate (l.map toString)

def dedup (l : List Str) : List Str :=
  l.foldl (fun acc p => if acc.contains p then acc else acc ++ [p]) []

def showDest (paths : List Str) (d : Store) : String :=
  if paths.isEmpty then "-" else
  ";".intercalate (paths.map fun p =>
    strToHex p ++ ":" ++ (match d.get p with | some b => bytesToHex b | none => "~"))

def showState (paths : List Str) (s : St) (t : Trace) : String :=
  let out := match s.prod.outcome? with | some o => showOutcome o | none => "-"
  let op := if s.opened.isEmpty then "-" else
    ",".intercalate (s.opened.map fun (i, sd) => s!"{i}.{showSide sd}")
  s!"ok fin={b01 s.prod.isFinished} out={out} dest={showDest paths s.dest} open={op} " ++
  s!"errors={showNats s.errors} timed={showNats s.timed} done={showNats s.done} " ++
  s!"dropped={showNats s.dropped} nfail={s.nfail} q={s.queue.length} trace={showTrace t}"

def mkCfg (args : List String) : Option (Cfg × List Str) := do
  let (n, ch, pt, df) ← parseCfg (← args[0]?)
  let tasks ← parseTasks (← args[1]?)
  let faults ← parseFaults (← args[2]?)
  let d0 ← parseD0 (← args[3]?)
  let c : Cfg := { n := n, tasks := tasks, faults := faults, chunk := ch, preserveTime := pt,
                   dstFirst := df, d0 := d0 }
  some (c, dedup (d0.map (·.1) ++ tasks.map (·.dst)))

def handle (cmd : String) (args : List String) : Option String :=
  match cmd with
  | "bulk.accepts" => do
    let (c, paths) ← mkCfg args
    let t ← parseTrace (← args[4]?)
    match replay c (init c) t 0 with
    | .ok s => some (showState paths s [])
    | .error (k, s) =>
      let want := match t[k]? with
        | some (l, _) => (match stepEv c s l with
            | some (_, e) => showLabel l ++ ":" ++ showEv e
            | none => showLabel l ++ ":blocked")
        | none => "?"
      some s!"rej {k} want={want}"
  | "bulk.run" => do
    let (c, paths) ← mkCfg args
    let sched ← parseSched (← args[4]?)
    let (s, t) := run c sched
    some (showState paths s t)
  | "bulk.gate" => do
    let w ← (← args[0]?).toNat?
    let a ← parseBool (← args[1]?)
    let b ← parseBool (← args[2]?)
    some s!"ok {effectiveWorkers w a b}"
  | _ => none

end Fs.BulkDriver
