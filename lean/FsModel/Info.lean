/-
  FsModel.Info — `fs/permissions.py`, `fs/time.py` and `fs/info.py` transcribed.

  * `Permissions`: the object state `_perms` is a Python `set` of arbitrary strings; here it is a
    `List Str` whose order and multiplicity carry no meaning — everything observable goes through
    `contains` (`in`), `dump` (`sorted(self._perms)`, the canonical form: strictly increasing by
    code point) and `eq` (`__eq__` compares dumps).  `_LINUX_PERMS` is the table `linuxPerms`.
    `parse` is transcribed as written: it slices the string into three triplets and turns *every*
    character other than `-` into the name `u_<c>` / `g_<c>` / `o_<c>` — so `s S t T` become the
    names `u_s`, `g_S`, `o_t`, … and not `setuid`/`setguid`/`sticky` (see `FsProofs/InfoLaws`).
  * `fs.time`: `epoch_to_datetime` = `datetime.fromtimestamp(t, tz=utc)`, `datetime_to_epoch` =
    `calendar.timegm(d.utctimetuple())`, as civil-date arithmetic on integers.  The calendar
    (`daysFromCivil`, `civilFromDays`, `validDate`, `epochOf`) is the one of `FsModel.FtpParse`
    (proved in `FsProofs/Lemmas/FtpLemmas`), not a second copy.  A float is its exact rational
    value `num/den`; CPython rounds `frac * 1e6` half-to-even to microseconds, which on the total
    is `roundHalfEven (num * 10^6 / den)` (10^6 is even, so the integral part does not disturb
    the tie rule).  The *double* rounding of the product `frac * 1e6` is outside the model: the
    harness only sends floats for which that product is exact.
  * `Info`: raw info = namespaces → keys → JSON-like values (`JVal`); accessors follow
    `fs/info.py` line by line, including `get`'s default, `_require_namespace`
    (`MissingInfoNamespace`), `_make_datetime`'s `is not None` test, Python truthiness in
    `is_file`, and the exception classes of conversions applied to values of the wrong type.
  * `memRaw`, `zipRaw`, `tarRaw`: the raw dictionaries the modelled `getinfo`s build.
-/
import FsModel.Basic
import FsModel.Path
import FsModel.FtpParse

namespace Fs.Info
open Fs Fs.Path Fs.FtpParse

/-- exceptions of this layer (`MissingInfoNamespace` is an `fs.errors` class the shared `Err`
    does not list; `rangeError` = `ValueError`/`OverflowError`/`OSError` of
    `datetime.fromtimestamp` outside years 1–9999; `outside` = a value shape the model does not
    cover — the harness never sends one) -/
inductive IErr where
  | missingNamespace | valueError | typeError | attributeError | rangeError | outside
  deriving DecidableEq, Repr, Inhabited

def IErr.name : IErr → String
  | .missingNamespace => "MissingInfoNamespace" | .valueError => "ValueError"
  | .typeError => "TypeError" | .attributeError => "AttributeError"
  | .rangeError => "RangeError" | .outside => "Outside"

abbrev IRes (α : Type) := Except IErr α

instance {α : Type} [DecidableEq α] : DecidableEq (IRes α) := fun a b =>
  match a, b with
  | .ok x, .ok y => if h : x = y then isTrue (by rw [h]) else isFalse (by intro h'; cases h'; exact h rfl)
  | .error x, .error y => if h : x = y then isTrue (by rw [h]) else isFalse (by intro h'; cases h'; exact h rfl)
  | .ok _, .error _ => isFalse (by intro h; cases h)
  | .error _, .ok _ => isFalse (by intro h; cases h)

/-! ## fs/permissions.py -/

/-- `Permissions._LINUX_PERMS` -/
def linuxPerms : List (Str × Nat) :=
  [ ("setuid".toList, 2048), ("setguid".toList, 1024), ("sticky".toList, 512),
    ("u_r".toList, 256), ("u_w".toList, 128), ("u_x".toList, 64),
    ("g_r".toList, 32), ("g_w".toList, 16), ("g_x".toList, 8),
    ("o_r".toList, 4), ("o_w".toList, 2), ("o_x".toList, 1) ]

/-- `Permissions._LINUX_PERMS_NAMES` -/
def linuxPermsNames : List Str := linuxPerms.map (·.1)

structure Permissions where
  /-- the set `_perms` -/
  perms : List Str
  deriving Repr

namespace Permissions

/-- `name in self` (`__contains__`) -/
def contains (p : Permissions) (n : Str) : Bool := p.perms.contains n

/-- `dump()`: `sorted(self._perms)` -/
def dump (p : Permissions) : List Str := sortedSet p.perms

/-- `__eq__` with another `Permissions` -/
def eq (p q : Permissions) : Bool := p.dump == q.dump

/-- `__eq__` with anything else (a list of names): `self.dump() == other` -/
def eqNames (p : Permissions) (names : List Str) : Bool := p.dump == names

/-- `Permissions(names=…)` / `load` -/
def ofNames (ns : List Str) : Permissions := ⟨ns⟩

/-- `{name for name, mask in _LINUX_PERMS if mode & mask}` for a non-negative mode -/
def ofMode (m : Nat) : Permissions :=
  ⟨(linuxPerms.filter fun nm => (m &&& nm.2) != 0).map (·.1)⟩

/-- the same for a Python `int` (two's complement `&` with masks below 4096) -/
def ofModeInt (m : Int) : Permissions := ofMode (m % 4096).toNat

/-- `"u_" + p for p in user or "" if p != "-"` -/
def ugo (pre : Char) (s : Str) : List Str := (s.filter (· != '-')).map fun p => [pre, '_', p]

/-- `Permissions.__init__` -/
def init (names : Option (List Str)) (mode : Option Int) (user group other : Option Str)
    (sticky setuid setguid : Bool) : Permissions :=
  let base : List Str :=
    match names with
    | some ns => ns
    | none =>
      match mode with
      | some m => (ofModeInt m).perms
      | none => ugo 'u' (user.getD []) ++ ugo 'g' (group.getD []) ++ ugo 'o' (other.getD [])
  ⟨base ++ (if sticky then ["sticky".toList] else []) ++ (if setuid then ["setuid".toList] else [])
        ++ (if setguid then ["setguid".toList] else [])⟩

/-- `Permissions(user=…, group=…, other=…)` -/
def ofUGO (user group other : Str) : Permissions :=
  init none none (some user) (some group) (some other) false false false

/-- `Permissions.parse(ls)` -/
def parse (ls : Str) : Permissions :=
  ofUGO (ls.take 3) ((ls.drop 3).take 3) ((ls.drop 6).take 3)

/-- the `mode` property -/
def mode (p : Permissions) : Nat :=
  linuxPerms.foldl (fun acc nm => if p.contains nm.1 then acc ||| nm.2 else acc) 0

/-- the `mode` setter -/
def setMode (_ : Permissions) (m : Int) : Permissions := ofModeInt m

/-- `as_str()` -/
def asStr (p : Permissions) : Str :=
  let perms := ((linuxPermsNames.drop (linuxPermsNames.length - 9)).zip "rwxrwxrwx".toList).map
    fun nc => if p.contains nc.1 then nc.2 else '-'
  let perms := if p.contains "setuid".toList then
      perms.set 2 (if p.contains "u_x".toList then 's' else 'S') else perms
  let perms := if p.contains "setguid".toList then
      perms.set 5 (if p.contains "g_x".toList then 's' else 'S') else perms
  if p.contains "sticky".toList then
    perms.set 8 (if p.contains "o_x".toList then 't' else 'T') else perms

/-- `add(*permissions)` -/
def add (p : Permissions) (ns : List Str) : Permissions := ⟨p.perms ++ ns⟩
/-- `remove(*permissions)` -/
def remove (p : Permissions) (ns : List Str) : Permissions := ⟨p.perms.filter fun n => !ns.contains n⟩
/-- `check(*permissions)` -/
def check (p : Permissions) (ns : List Str) : Bool := ns.all p.contains
/-- `copy()` -/
def copy (p : Permissions) : Permissions := ⟨p.perms⟩
/-- `_PermProperty.__set__` -/
def setFlag (p : Permissions) (n : Str) (v : Bool) : Permissions := if v then p.add [n] else p.remove [n]

/-- the argument of `create` / `get_mode` -/
inductive Init where
  | none | perm (p : Permissions) | mode (m : Int) | names (l : List Str) | other

/-- `Permissions.create(init)` -/
def create : Init → IRes Permissions
  | .none => .ok (ofModeInt 0o777)
  | .perm p => .ok p
  | .mode m => .ok (ofModeInt m)
  | .names l => .ok (ofNames l)
  | .other => .error .valueError

/-- `Permissions.get_mode(init)` / `make_mode` -/
def getMode (i : Init) : IRes Nat := (create i).map mode

end Permissions

/-! ## fs/time.py -/

/-- a `datetime` in UTC -/
structure DT where
  year : Nat
  month : Nat
  day : Nat
  hour : Nat
  minute : Nat
  second : Nat
  micro : Nat
  deriving DecidableEq, Repr

/-- `datetime(…)` is constructible -/
def DT.valid (t : DT) : Bool :=
  validDate t.year t.month t.day && t.hour < 24 && t.minute < 60 && t.second < 60 && t.micro < 1000000

/-- 0001-01-01T00:00:00Z -/
def minEpoch : Int := -62135596800
/-- 9999-12-31T23:59:59Z -/
def maxEpoch : Int := 253402300799

/-- round `num/den` to the nearest integer, ties to even (`den > 0`) -/
def roundHalfEven (num : Int) (den : Nat) : Int :=
  let q := num / (den : Int)
  let r := num % (den : Int)
  if 2 * r < den then q
  else if 2 * r > den then q + 1
  else if q % 2 = 0 then q else q + 1

/-- the civil fields of `secs` seconds and `micro` microseconds after the epoch -/
def dtOfSeconds (secs : Int) (micro : Nat) : DT :=
  let days := secs / 86400
  let sod := (secs % 86400).toNat
  let c := civilFromDays days
  ⟨c.1, c.2.1, c.2.2, sod / 3600, sod % 3600 / 60, sod % 60, micro⟩

/-- `datetime.fromtimestamp(num/den, tz=timezone.utc)` -/
def epochToDatetimeQ (num : Int) (den : Nat) : IRes DT :=
  if den = 0 then .error .rangeError
  else
    let us := roundHalfEven (num * 1000000) den
    let secs := us / 1000000
    if secs < minEpoch ∨ maxEpoch < secs then .error .rangeError
    else .ok (dtOfSeconds secs (us % 1000000).toNat)

/-- `epoch_to_datetime(t)` for an `int` (the `None` case is `Info.makeDatetime`'s) -/
def epochToDatetime (t : Int) : IRes DT := epochToDatetimeQ t 1

/-- `datetime_to_epoch(d)` = `timegm(d.utctimetuple())` for a UTC (or naive) datetime; an aware
    one is first shifted by its offset (whole seconds here) -/
def datetimeToEpoch (d : DT) (utcOffset : Int := 0) : Int :=
  epochOf d.year d.month d.day d.hour d.minute d.second - utcOffset

/-! ## raw info -/

/-- JSON-like values -/
inductive JVal where
  | null
  | bool (b : Bool)
  | int (i : Int)
  | float (num : Int) (den : Nat)      -- the exact value of the double
  | str (s : Str)
  | list (l : List JVal)
  deriving Repr, Inhabited

mutual
def JVal.beq : JVal → JVal → Bool
  | .null, .null => true
  | .bool a, .bool b => a == b
  | .int a, .int b => a == b
  | .float a b, .float c d => a == c && b == d
  | .str a, .str b => a == b
  | .list a, .list b => JVal.beqList a b
  | _, _ => false
def JVal.beqList : List JVal → List JVal → Bool
  | [], [] => true
  | a :: as, b :: bs => JVal.beq a b && JVal.beqList as bs
  | _, _ => false
end

instance : BEq JVal := ⟨JVal.beq⟩

abbrev NS := List (Str × JVal)
/-- the raw info dictionary (first binding of a key wins; Python dicts have unique keys) -/
abbrev Raw := List (Str × NS)

def dictGet? {β : Type} (k : Str) : List (Str × β) → Option β
  | [] => none
  | (k', v) :: rest => if k' = k then some v else dictGet? k rest

def kBasic : Str := "basic".toList
def kDetails : Str := "details".toList
def kAccess : Str := "access".toList
def kLink : Str := "link".toList

/-- Python truthiness -/
def JVal.truthy : JVal → Bool
  | .null => false
  | .bool b => b
  | .int i => i != 0
  | .float n _ => n != 0
  | .str s => !s.isEmpty
  | .list l => !l.isEmpty

/-- the number a value stands for where Python accepts "a real number": `bool` is an `int` -/
def JVal.num? : JVal → Option (Int × Nat)
  | .bool b => some (if b then 1 else 0, 1)
  | .int i => some (i, 1)
  | .float n d => some (n, d)
  | _ => none

/-! ## name functions (`suffix`, `suffixes`, `stem`): pure functions of the name -/

/-- `name.startswith(".")` -/
def dotStart (name : Str) : Bool := name.head? == some '.'

/-- `name.rpartition(".")` → (head, found, tail) -/
def rpartition (c : Char) (s : Str) : Str × Bool × Str :=
  match rsplit1 c s with
  | none => ([], false, s)
  | some (h, t) => (h, true, t)

/-- `Info.suffix` -/
def suffixOf (name : Str) : Str :=
  if dotStart name && name.count '.' == 1 then []
  else
    let r := rpartition '.' name
    if r.2.1 then '.' :: r.2.2 else []

/-- `Info.suffixes` -/
def suffixesOf (name : Str) : List Str :=
  if dotStart name && name.count '.' == 1 then []
  else ((splitOn '.' name).drop 1).map ('.' :: ·)

/-- `Info.stem` -/
def stemOf (name : Str) : Str :=
  if dotStart name then name else (splitOn '.' name).headD []

/-! ## fs/info.py -/

structure Info where
  raw : Raw
  deriving Repr

namespace Info

/-- `has_namespace(ns)` / `ns in self.raw` -/
def hasNamespace (i : Info) (ns : Str) : Bool := (dictGet? ns i.raw).isSome

/-- `self.namespaces` -/
def namespaces (i : Info) : List Str := sortedSet (i.raw.map (·.1))

/-- `get(namespace, key, default)` -/
def get (i : Info) (ns key : Str) (default : JVal := .null) : JVal :=
  match dictGet? ns i.raw with
  | none => default                        -- `except KeyError`
  | some d => (dictGet? key d).getD default

/-- `_require_namespace` -/
def requireNamespace (i : Info) (ns : Str) : IRes Unit :=
  if i.hasNamespace ns then .ok () else .error .missingNamespace

/-- `_make_datetime(t)` with the default `to_datetime = epoch_to_datetime` -/
def makeDatetime (t : JVal) : IRes (Option DT) :=
  match t with
  | .null => .ok none                      -- `if t is not None … else None`
  | v =>
    match v.num? with
    | some (n, d) => (epochToDatetimeQ n d).map some
    | none => .error .typeError

/-- `copy()`: a deep copy of the raw dictionary -/
def copy (i : Info) : Info := ⟨i.raw⟩

/-- `name` -/
def name (i : Info) : JVal := i.get kBasic "name".toList
/-- `is_dir` -/
def isDir (i : Info) : JVal := i.get kBasic "is_dir".toList
/-- `is_file`: `not self.get("basic", "is_dir")` -/
def isFile (i : Info) : Bool := !(i.get kBasic "is_dir".toList).truthy

def nameStr (i : Info) : IRes Str :=
  match i.name with
  | .str s => .ok s
  | .null | .bool _ | .int _ | .float _ _ => .error .attributeError    -- no `.startswith`
  | .list _ => .error .attributeError

/-- `suffix` -/
def suffix (i : Info) : IRes Str := i.nameStr.map suffixOf
/-- `suffixes` -/
def suffixes (i : Info) : IRes (List Str) := i.nameStr.map suffixesOf
/-- `stem` -/
def stem (i : Info) : IRes Str := i.nameStr.map stemOf

/-- `is_link` -/
def isLink (i : Info) : IRes Bool := do
  i.requireNamespace kLink
  pure (match i.get kLink "target".toList with | .null => false | _ => true)

/-- `target` -/
def target (i : Info) : IRes JVal := do
  i.requireNamespace kLink
  pure (i.get kLink "target".toList)

/-- `ResourceType(v)`: the member whose value equals `v` (so `True` is 1 and `2.0` is 2) -/
def resourceType (v : JVal) : IRes Nat :=
  match v.num? with
  | some (n, d) =>
    if d ≠ 0 ∧ n % (d : Int) = 0 ∧ 0 ≤ n / (d : Int) ∧ n / (d : Int) ≤ 7 then .ok (n / (d : Int)).toNat
    else .error .valueError
  | none => .error .valueError

/-- `type` -/
def type (i : Info) : IRes Nat := do
  i.requireNamespace kDetails
  resourceType (i.get kDetails "type".toList (.int 0))

/-- `size` -/
def size (i : Info) : IRes JVal := do
  i.requireNamespace kDetails
  pure (i.get kDetails "size".toList)

/-- `accessed` / `modified` / `created` / `metadata_changed` -/
def timeAcc (i : Info) (key : Str) : IRes (Option DT) := do
  i.requireNamespace kDetails
  makeDatetime (i.get kDetails key)

def accessed (i : Info) := i.timeAcc "accessed".toList
def modified (i : Info) := i.timeAcc "modified".toList
def created (i : Info) := i.timeAcc "created".toList
def metadataChanged (i : Info) := i.timeAcc "metadata_changed".toList

def strNames : List JVal → Option (List Str)
  | [] => some []
  | .str s :: rest => (strNames rest).map (s :: ·)
  | _ :: _ => none

/-- `permissions`: `Permissions(_perm_names)`; a string is iterated character by character, a
    non-iterable raises `TypeError` -/
def permissions (i : Info) : IRes (Option Permissions) := do
  i.requireNamespace kAccess
  match i.get kAccess "permissions".toList with
  | .null => pure none
  | .list l =>
    match strNames l with
    | some ns => pure (some (Permissions.ofNames ns))
    | none => .error .outside
  | .str s => pure (some (Permissions.ofNames (s.map fun c => [c])))
  | _ => .error .typeError

/-- `user` / `group` / `uid` / `gid` -/
def accessKey (i : Info) (key : Str) : IRes JVal := do
  i.requireNamespace kAccess
  pure (i.get kAccess key)

def user (i : Info) := i.accessKey "user".toList
def group (i : Info) := i.accessKey "group".toList
def uid (i : Info) := i.accessKey "uid".toList
def gid (i : Info) := i.accessKey "gid".toList

/-- `a in b` for strings -/
def isInfix : Str → Str → Bool
  | a, [] => a.isEmpty
  | a, b@(_ :: rest) => startsWith b a || isInfix a rest

/-- `is_writeable(namespace, key)`: `key in self.get(namespace, "_write", ())` -/
def isWriteable (i : Info) (ns key : Str) : IRes Bool :=
  match i.get ns "_write".toList (.list []) with
  | .list l => .ok (l.any fun v => v == .str key)
  | .str s => .ok (isInfix key s)
  | _ => .error .typeError

end Info

/-! ## the raw dictionaries built by the modelled `getinfo`s -/

def basicNS (name : Str) (isDir : Bool) : NS :=
  [("name".toList, .str name), ("is_dir".toList, .bool isDir)]

/-- `_DirEntry.to_info(namespaces)` of `MemoryFS`; the three times are whatever the entry holds
    (`time.time()` floats, or what `setinfo` stored) -/
def memRaw (r : Str × Bool × Nat) (details : Bool) (accessed modified created : JVal := .null) : Raw :=
  (kBasic, basicNS r.1 r.2.1) ::
  (if details then
    [(kDetails, [ ("_write".toList, .list [.str "accessed".toList, .str "modified".toList]),
                  ("type".toList, .int (if r.2.1 then 1 else 2)),
                  ("size".toList, .int r.2.2),
                  ("accessed".toList, accessed),
                  ("modified".toList, modified),
                  ("created".toList, created) ])]
   else [])

/-- the `basic` and `details` namespaces of `ReadZipFS.getinfo` / `ReadTarFS.getinfo`, from what
    `Archive.Details` carries (`size`/`modified` absent when the archive has no member) -/
def archiveRaw (name : Str) (isDir : Bool) (size : Option Nat) (modified : Option JVal) (details : Bool)
    (isRoot : Bool) : Raw :=
  (kBasic, basicNS name isDir) ::
  (if !details then []
   else if isRoot then [(kDetails, [("type".toList, .int 1)])]
   else match size with
     | none => []                           -- implied zip directory: namespace left out
     | some sz =>
       [(kDetails, [("size".toList, .int sz), ("type".toList, .int (if isDir then 1 else 2))] ++
          (match modified with | some t => [("modified".toList, t)] | none => []))])

/-- `basic` has `name` (a string) and `is_dir` (a bool) -/
def hasBasic (raw : Raw) : Bool :=
  match dictGet? kBasic raw with
  | some d =>
    (match dictGet? "name".toList d with | some (.str _) => true | _ => false) &&
    (match dictGet? "is_dir".toList d with | some (.bool _) => true | _ => false)
  | none => false

end Fs.Info
