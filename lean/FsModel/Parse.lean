/-
  FsModel.Parse — `fs.opener.parse.parse_fs_url` (fs/opener/parse.py) as written, over
  `Str = List Char`, together with the pieces of `urllib.parse` it calls
  (`unquote`, `parse_qs(keep_blank_values=True)`), `fs._url_tools`, and a URL builder that is
  the inverse of the parser.

  The verbose regex

      ^(.*?)://(?:(?:(.*?)@(.*?))|(.*?))(?:!(.*?)$)*$        (re.VERBOSE only, `.match`)

  is written as the explicit splitter it denotes (`reFsUrl`):
    * `.` does not match `\n` (no DOTALL) and `$` matches at the end or before one final `\n`,
      so the regex matches iff the string contains `://` and has no `\n` except possibly as
      its very last character (which belongs to no group);
    * group 1 is lazy: everything before the *first* `://`;
    * the first alternative is tried first: if the remainder contains `@`, group 2 is everything
      before the first `@` (it may contain `!`), group 3 runs to the first `!` after it;
      otherwise group 4 runs to the first `!`;
    * group 5 is everything after that first `!` (it may contain further `!`).
  Every one of these statements was checked against the real `re` module (harness, exhaustive
  over short strings).

  No Mathlib imports: the driver executable links this module.
-/
import FsModel.Basic
import FsModel.Path

namespace Fs.Parse
open Fs Fs.Path

/-! ### Python string primitives -/

/-- `s.partition(c)` for a one-character separator: `(before, found, after)`. -/
def partition (c : Char) : Str → Str × Bool × Str
  | [] => ([], false, [])
  | x :: xs =>
    if x = c then ([], true, xs)
    else
      let r := partition c xs
      (x :: r.1, r.2.1, r.2.2)

/-- `c in s` -/
def has (c : Char) (s : Str) : Bool := s.any (· == c)

/-- `s.replace(a, b)` for single characters -/
def replaceChar (a b : Char) (s : Str) : Str := s.map (fun c => if c = a then b else c)

/-- split at the first occurrence of `://`: `(before, after)` -/
def splitScheme : Str → Option (Str × Str)
  | [] => none
  | c :: rest =>
    match c, rest with
    | ':', '/' :: '/' :: r => some ([], r)
    | _, _ =>
      match splitScheme rest with
      | none => none
      | some (a, b) => some (c :: a, b)

/-- what `$` leaves out: one final line feed, if the string ends with one -/
def dropFinalNl : Str → Str
  | [] => []
  | [c] => if c = '\n' then [] else [c]
  | c :: d :: rest => c :: dropFinalNl (d :: rest)

/-! ### `urllib.parse.unquote` (UTF-8, errors="replace") -/

def isAscii (c : Char) : Bool := c.toNat < 128

def hexVal? (c : Char) : Option Nat :=
  let n := c.toNat
  if 48 ≤ n ∧ n ≤ 57 then some (n - 48)
  else if 97 ≤ n ∧ n ≤ 102 then some (n - 87)
  else if 65 ≤ n ∧ n ≤ 70 then some (n - 55)
  else none

/-- `_unquote_impl` on an ASCII run: bytes (as `Nat < 256`) after replacing `%XX` escapes.
    (`split('%')` + table lookup of `item[:2]` is the same as "a `%` followed by two hex digits".) -/
def unqBytes : Str → List Nat
  | [] => []
  | '%' :: a :: b :: r =>
    match hexVal? a, hexVal? b with
    | some x, some y => (16 * x + y) :: unqBytes r
    | _, _ => 37 :: unqBytes (a :: b :: r)
  | c :: rest => c.toNat :: unqBytes rest

def replChar : Char := Char.ofNat 0xFFFD

/-- decoder state: idle, or inside a multi-byte sequence with `acc` the bits read so far, `k`
    continuation bytes still expected, and `[lo, hi)` the admissible range of the next byte
    (narrower than `[0x80, 0xC0)` right after the leads E0/ED/F0/F4: overlong forms, surrogates
    and values above U+10FFFF are invalid). -/
inductive U8 where
  | idle
  | pend (acc k lo hi : Nat)
  deriving DecidableEq, Repr

/-- what the idle decoder does with one byte: emit a character (possibly U+FFFD) or start a
    sequence -/
def u8Start (b : Nat) : Option Char × U8 :=
  if b < 0x80 then (some (Char.ofNat b), .idle)
  else if b < 0xC2 then (some replChar, .idle)
  else if b < 0xE0 then (none, .pend (b - 0xC0) 1 0x80 0xC0)
  else if b < 0xF0 then
    (none, .pend (b - 0xE0) 2 (if b = 0xE0 then 0xA0 else 0x80) (if b = 0xED then 0xA0 else 0xC0))
  else if b < 0xF5 then
    (none, .pend (b - 0xF0) 3 (if b = 0xF0 then 0x90 else 0x80) (if b = 0xF4 then 0x90 else 0xC0))
  else (some replChar, .idle)

def emit (o : Option Char) (s : Str) : Str :=
  match o with
  | some c => c :: s
  | none => s

/-- `bytes.decode("utf-8", "replace")` as CPython does it: every maximal invalid prefix of a
    sequence becomes one U+FFFD and decoding resumes with the offending byte. -/
def u8Go : U8 → List Nat → Str
  | .idle, [] => []
  | .pend _ _ _ _, [] => [replChar]
  | .idle, b :: rest => emit (u8Start b).1 (u8Go (u8Start b).2 rest)
  | .pend acc k lo hi, b :: rest =>
    if lo ≤ b && b < hi then
      if k ≤ 1 then Char.ofNat (acc * 64 + (b - 0x80)) :: u8Go .idle rest
      else u8Go (.pend (acc * 64 + (b - 0x80)) (k - 1) 0x80 0xC0) rest
    else replChar :: emit (u8Start b).1 (u8Go (u8Start b).2 rest)

def utf8Dec (bs : List Nat) : Str := u8Go .idle bs

/-- UTF-8 encoding of one scalar value, bytes as `Nat` -/
def utf8Enc (c : Char) : List Nat :=
  let n := c.toNat
  if n < 0x80 then [n]
  else if n < 0x800 then [0xC0 + n / 64, 0x80 + n % 64]
  else if n < 0x10000 then [0xE0 + n / 4096, 0x80 + n / 64 % 64, 0x80 + n % 64]
  else [0xF0 + n / 262144, 0x80 + n / 4096 % 64, 0x80 + n / 64 % 64, 0x80 + n % 64]

/-- `_generate_unquoted_parts`: maximal ASCII runs are unquoted to bytes and decoded, non-ASCII
    characters pass through.  `acc` is the current ASCII run, reversed. -/
def unqRuns : Str → Str → Str
  | acc, [] => utf8Dec (unqBytes acc.reverse)
  | acc, c :: rest =>
    if isAscii c then unqRuns (c :: acc) rest
    else utf8Dec (unqBytes acc.reverse) ++ c :: unqRuns [] rest

/-- `urllib.parse.unquote(s)` -/
def unquote (s : Str) : Str := if has '%' s then unqRuns [] s else s

/-! ### `urllib.parse.quote` -/

def isAlnumAscii (c : Char) : Bool :=
  let n := c.toNat
  (48 ≤ n && n ≤ 57) || (65 ≤ n && n ≤ 90) || (97 ≤ n && n ≤ 122)

/-- `_ALWAYS_SAFE` -/
def isUnreserved (c : Char) : Bool :=
  isAlnumAscii c || c == '_' || c == '.' || c == '-' || c == '~'

def hexUp (n : Nat) : Char := if n < 10 then Char.ofNat (48 + n) else Char.ofNat (55 + n)

def pctByte (b : Nat) : Str := ['%', hexUp (b / 16), hexUp (b % 16)]

def quoteChar (safe : Char → Bool) (c : Char) : Str :=
  if isUnreserved c || (isAscii c && safe c) then [c] else (utf8Enc c).flatMap pctByte

/-- `urllib.parse.quote(s, safe=…)` -/
def quoteWith (safe : Char → Bool) (s : Str) : Str := s.flatMap (quoteChar safe)

/-- `quote(s, safe="")` -/
def quoteAll (s : Str) : Str := quoteWith (fun _ => false) s

/-! ### `fs._url_tools` (non-Windows) -/

/-- `url_quote(path_snippet)` = `pathname2url` = `quote(path)` with the default `safe="/"` -/
def urlQuote (s : Str) : Str := quoteWith (· == '/') s

/-- `_has_drive_letter`: `re.match(".:[/\\\\].*$", s)` -/
def hasDriveLetter : Str → Bool
  | a :: ':' :: c :: rest =>
    a != '\n' && (c == '/' || c == '\\') && !has '\n' (dropFinalNl rest)
  | _ => false

/-! ### `parse_qs(qs, keep_blank_values=True)` followed by the dict comprehension -/

/-- insert-if-absent into an insertion-ordered association list (Python `dict` semantics
    for "first value wins") -/
def insertFirst (k v : Str) : List (Str × Str) → List (Str × Str)
  | [] => [(k, v)]
  | (k', v') :: rest => if k' = k then (k', v') :: rest else (k', v') :: insertFirst k v rest

/-- `parse_qsl`: the `(name, value)` pairs in order -/
def parseQsl (qs : Str) : List (Str × Str) :=
  if qs = [] then []
  else
    ((splitOn '&' qs).filter (· ≠ [])).map fun nv =>
      let p := partition '=' nv
      (unquote (replaceChar '+' ' ' p.1), unquote (replaceChar '+' ' ' p.2.2))

/-- `{k: v[0] for k, v in parse_qs(qs, keep_blank_values=True).items()}` in dict insertion
    order (the first value of a repeated name wins; `parse_qs` has already percent-decoded names
    and values once) -/
def parseParams (qs : Str) : List (Str × Str) :=
  (parseQsl qs).foldl (fun d kv => insertFirst kv.1 kv.2 d) []

/-! ### The regex as a splitter -/

/-- the five groups of `_RE_FS_URL` (`none` = group did not participate) -/
structure UrlGroups where
  fsName : Str
  credentials : Option Str
  url1 : Option Str
  url2 : Option Str
  path : Option Str
  deriving DecidableEq, Repr

/-- `_RE_FS_URL.match(s)`; `none` = no match -/
def reFsUrl (s : Str) : Option UrlGroups :=
  match splitScheme s with
  | none => none
  | some (proto, rest) =>
    let body := dropFinalNl rest
    if has '\n' proto || has '\n' body then none
    else
      let pa := partition '@' body
      if pa.2.1 then
        let pb := partition '!' pa.2.2
        some ⟨proto, some pa.1, some pb.1, none, if pb.2.1 then some pb.2.2 else none⟩
      else
        let pb := partition '!' body
        some ⟨proto, none, none, some pb.1, if pb.2.1 then some pb.2.2 else none⟩

structure ParseResult where
  protocol : Str
  username : Option Str
  password : Option Str
  resource : Str
  params : List (Str × Str)
  path : Option Str
  deriving DecidableEq, Repr

/-- the tail of `parse_fs_url` once `url` is chosen -/
def finishUrl (fsName : Str) (username password : Option Str) (url : Str) (path : Option Str) :
    ParseResult :=
  let p := partition '?' url
  ⟨fsName, username, password, unquote p.1, if p.2.1 then parseParams p.2.2 else [], path⟩

/-- `parse_fs_url(fs_url)`.  `.err .ParseError` is the documented failure.  The credentials group
    is `None` exactly when the regex took the alternative without `@`, and then `url2` is set
    (`reFsUrl_shape`); an *empty* credentials group (`x://@host`) is handled like `x://:@host`. -/
def parseFsUrl (s : Str) : Res ParseResult :=
  match reFsUrl s with
  | none => .err .ParseError
  | some g =>
    match g.credentials with
    | some cred =>
      let p := partition ':' cred
      .ok (finishUrl g.fsName (some (unquote p.1)) (some (unquote p.2.2)) (g.url1.getD []) g.path)
    | none => .ok (finishUrl g.fsName none none (g.url2.getD []) g.path)

/-! ### URL dispatch by protocol (`fs/opener/registry.py`, `Registry.open`) -/

/-- `Registry.open(fs_url, default_protocol=…)` up to the call of the opener: a text without
    `://` is prefixed with the default protocol, parsed, and the opener is looked up by protocol
    (`protocol or self.default_opener`); `known` are the registered protocols
    (`load_extern=False`).  Result: the URL and `ParseResult` handed to `opener.open_fs` (the
    second component of `open`'s result is `ParseResult.path`).  `.err .Unsupported` stands for
    `fs.opener.errors.UnsupportedProtocol`. -/
def registryOpen (known : List Str) (defaultOpener defaultProtocol : Str) (url : Str) :
    Res (Str × ParseResult) :=
  let url' := if (splitScheme url).isSome then url else defaultProtocol ++ ':' :: '/' :: '/' :: url
  match parseFsUrl url' with
  | .err e => .err e
  | .ok r =>
    let proto := if r.protocol = [] then defaultOpener else r.protocol
    if known.contains proto then .ok (url', r) else .err .Unsupported

/-! ### The builder (inverse of the parser) -/

/-- `k=v`, both percent-encoded (what `urlencode` emits, with `%20` for a space) -/
def buildParam (kv : Str × Str) : Str := quoteAll kv.1 ++ '=' :: quoteAll kv.2

/-- FS URL from its parts: user, password, resource, parameter names and values percent-encoded
    (everything but `A-Za-z0-9_.-~`), protocol and sub-path verbatim. -/
def buildFsUrl (x : ParseResult) : Str :=
  x.protocol ++ [':', '/', '/']
  ++ (match x.username, x.password with
      | none, none => []
      | u, p => quoteAll (u.getD []) ++ ':' :: quoteAll (p.getD []) ++ ['@'])
  ++ quoteAll x.resource
  ++ (if x.params = [] then [] else '?' :: joinWith '&' (x.params.map buildParam))
  ++ (match x.path with
      | none => []
      | some p => '!' :: p)

/-! ### the builder's precondition (the hypotheses of the round-trip theorem) -/

/-- the `!` sub-path is copied verbatim, so it must not contain a line feed, and without
    credentials it must not contain `@` (the regex would read everything before it as
    credentials) -/
def pathOk (user : Option Str) : Option Str → Bool
  | none => true
  | some p => !has '\n' p && (user.isSome || !has '@' p)

/-- `WFParts`: the protocol starts no `://` (not even together with the separator that follows
    it) and has no line feed; user name and password are both present or both absent; parameter
    names are distinct; the sub-path is `pathOk`.  User, password, resource, parameter names
    and values are arbitrary. -/
def wfParts (x : ParseResult) : Bool :=
  (splitScheme (x.protocol ++ [':', '/'])).isNone && !has '\n' x.protocol
  && (x.username.isSome == x.password.isSome)
  && decide ((x.params.map Prod.fst).Nodup) && pathOk x.username x.path

end Fs.Parse
