/-
  Driver commands for the functor model of MultiFS (FsModel.MultiFs) over `Mem.step` (MemoryFS as coded)
  as the layer filesystem:

  multifs.step <auto_close 0|1> <closed 0|1> <specs> <tree_1> … <tree_n> <op…>
      -> <ok v|err E> | <closed'> | <layer_1> | … | <layer_k> | ov=<overlay tree>
  multifs.scan <auto_close> <closed> <specs> <tree_1> … <tree_n> <path-hex>
      -> <ok L<name>:<is_dir>:<size>,… | err E>        (the `Info`s of `MultiFS.scandir(path)`)

  `specs` = `L<name-hex>:<priority>:<write 0|1>:<layer closed 0|1>,…` — one entry per `add_fs` call, in call
  order; `tree_i` is the tree of the i-th added filesystem (flat format of `ref.step`).  A name that is
  added twice replaces the earlier layer in place (`_filesystems[name] = …`), as in the code.
  A reply layer is `<name-hex>:<closed 0|1>:<tree>`, in `_filesystems` (dict) order.
-/
import FsModel.MultiFs
import FsModel.Mem
import FsModel.RefDriver
import FsModel.Proto

namespace Fs.MultiFsDriver
open Fs Fs.Ref Fs.Proto Fs.MultiFs

/-- directories the walkers may visit in one call -/
def fuel : Nat := 4096

structure Spec where
  name : Str
  prio : Int
  write : Bool
  closed : Bool

def parseInt (s : String) : Option Int :=
  if s.startsWith "-" then (s.drop 1).toString.toNat?.map (fun n => - (Int.ofNat n))
  else s.toNat?.map Int.ofNat

def parseSpec (s : String) : Option Spec :=
  match s.splitOn ":" with
  | [n, p, w, c] => do
    let name ← if n == "-" then some [] else hexToStr n
    let prio ← parseInt p
    some { name := name, prio := prio, write := w == "1", closed := c == "1" }
  | _ => none

def parseSpecs (s : String) : Option (List Spec) :=
  if !s.startsWith "L" then none
  else
    let body := (s.drop 1).toString
    if body.isEmpty then some [] else (body.splitOn ",").mapM parseSpec

/-- `MultiFS(auto_close)` followed by one `add_fs` per spec -/
def build (autoClose closed : Bool) : List Spec → List Node → MState State → Option (MState State)
  | [], [], s => some { s with closed := closed, autoClose := autoClose }
  | sp :: sps, t :: ts, s =>
    build autoClose closed sps ts (addFs s sp.name { root := t, closed := sp.closed } sp.write sp.prio)
  | _, _, _ => none

def loadState (args : List String) : Option (MState State × List String) := do
  let ac ← args[0]?
  let cl ← args[1]?
  let specs ← parseSpecs (← args[2]?)
  let rest := args.drop 3
  let trees ← (rest.take specs.length).mapM RefDriver.loadTree
  if trees.length != specs.length then none
  let s ← build (ac == "1") (cl == "1") specs trees (init false)
  some (s, rest.drop specs.length)

def dumpLayer (l : Layer State) : String :=
  strToHex l.name ++ ":" ++ boolStr l.st.closed ++ ":" ++ RefDriver.dumpTree l.st.root

def infoStr (i : ScanInfo) : String :=
  strToHex i.1 ++ ":" ++ boolStr i.2.1 ++ ":" ++ toString i.2.2

def handle (cmd : String) (args : List String) : Option String :=
  match cmd with
  | "multifs.step" => do
    let (s, rest) ← loadState args
    let op ← RefDriver.parseOp rest
    let r := MultiFs.step fuel Mem.step s op
    some (" | ".intercalate
      ([res RefDriver.valStr r.2, boolStr r.1.closed] ++ r.1.layers.map dumpLayer ++
       ["ov=" ++ RefDriver.dumpTree (overlay r.1).root]))
  | "multifs.scan" => do
    let (s, rest) ← loadState args
    let p ← arg rest 0
    if s.closed then some "err FilesystemClosed"
    else match (scanM Mem.step s p).2 with
      | .ok l => some ("ok L" ++ ",".intercalate (l.map infoStr))
      | .err e => some ("err " ++ e.name)
  | "multifs.overlay" => do
    let (s, _) ← loadState args
    some (RefDriver.dumpTree (overlay s).root)
  | _ => none

end Fs.MultiFsDriver
