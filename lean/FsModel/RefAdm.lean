/-
  FsModel.RefAdm — for a state and an operation, every error class whose documented
  condition holds (C06).  Backends order their precondition checks differently, so when
  several conditions hold at once any of these classes is a truthful report.
-/
import FsModel.Ref

namespace Fs.Ref
open Fs Fs.Path

def kindAt (t : Node) (cs : List Name) : Option Bool :=   -- some true = dir, some false = file
  match t.get cs with
  | some (.dir _) => some true
  | some (.file _) => some false
  | none => none

/-- conditions on one path used as a *file* argument that must exist -/
def admFileArg (t : Node) (cs : List Name) : List Err :=
  -- the root has no name: backends report it as a missing file or as a directory
  (if kindAt t cs = none ∨ cs = [] then [.ResourceNotFound] else []) ++
  (if kindAt t cs = some true then [.FileExpected] else []) ++
  (if blockedByFile t [] cs then [.DirectoryExpected] else [])

/-- conditions on one path used as a *directory* argument that must exist -/
def admDirArg (t : Node) (cs : List Name) : List Err :=
  (if kindAt t cs = none then [.ResourceNotFound] else []) ++
  (if kindAt t cs = some false ∨ blockedByFile t [] cs then [.DirectoryExpected] else [])

/-- conditions on a path about to be created/overwritten as a file -/
def admFileTarget (t : Node) (cs : List Name) : List Err :=
  (if cs = [] ∨ kindAt t cs = some true then [.FileExpected] else []) ++
  (if cs ≠ [] ∧ kindAt t (parentOf cs) ≠ some true then [.ResourceNotFound] else []) ++
  (if blockedByFile t [] cs then [.DirectoryExpected] else [])

/-- every condition that can hold for one valid path on its own -/
def admAny (t : Node) (cs : List Name) : List Err :=
  (if kindAt t cs = none then [.ResourceNotFound] else [.DestinationExists, .DirectoryExists]) ++
  (if kindAt t cs = some true then [.FileExpected] else []) ++
  (if kindAt t cs = some false ∨ blockedByFile t [] cs then [.DirectoryExpected] else [])

def admPath (p : Str) : List Err :=
  match validate p with
  | .err e => [e]
  | .ok _ => []

def adm1 (t : Node) (cs : List Name) : Op → List Err
  | .listdir _ | .isempty _ => admDirArg t cs
  | .getsize _ | .gettype _ | .getinfo _ | .settimes _ =>
    (if kindAt t cs = none then [.ResourceNotFound] else []) ++
    (if blockedByFile t [] cs then [.DirectoryExpected] else [])
  | .readbytes _ => admFileArg t cs
  | .makedir _ recreate =>
    (if kindAt t cs ≠ none ∧ !recreate then [.DirectoryExists] else []) ++
    (if kindAt t cs = some false ∧ recreate then [.DirectoryExpected] else []) ++
    (if cs ≠ [] ∧ kindAt t (parentOf cs) = none then [.ResourceNotFound] else []) ++
    (if blockedByFile t [] cs then [.DirectoryExpected, .ResourceNotFound] else [])
  | .makedirs _ recreate =>
    (if kindAt t cs ≠ none ∧ !recreate then [.DirectoryExists] else []) ++
    (if kindAt t cs = some false then [.DirectoryExpected] else []) ++
    (if blockedByFile t [] cs then [.DirectoryExpected, .ResourceNotFound] else [])
  | .writebytes _ _ | .appendbytes _ _ | .create _ _ | .touch _ => admFileTarget t cs
  | .openbin _ m =>
    match parseBinMode m with
    | none => .ValueError :: admFileArg t cs   -- a backend may look at the path first
    | some md =>
      admFileTarget t cs ++
      (if md.exclusive ∧ kindAt t cs ≠ none then [.FileExists] else []) ++
      (if !md.create ∧ kindAt t cs = none then [.ResourceNotFound] else [])
  | .remove _ =>
    admFileArg t cs ++ (if cs = [] then [.ResourceNotFound, .RemoveRootError] else [])
  | .removedir _ =>
    admDirArg t cs ++ (if cs = [] then [.RemoveRootError] else []) ++
    (match t.get cs with
     | some (.dir es) => if es.isEmpty then [] else [.DirectoryNotEmpty]
     | _ => [])
  | .removetree _ => admDirArg t cs
  | _ => []

def adm2 (t : Node) (s d : List Name) : Op → List Err
  | .move _ _ ow =>
    admFileArg t s ++
    (if kindAt t d ≠ none ∧ !ow then [.DestinationExists] else []) ++
    (if s ≠ d then admFileTarget t d else [])
  | .copy _ _ ow =>
    admFileArg t s ++
    (if kindAt t d ≠ none ∧ !ow then [.DestinationExists] else []) ++
    (if s = d then [.IllegalDestination] else admFileTarget t d)
  | .movedir _ _ create =>
    if s = d then [] else
    admDirArg t s ++
    (if isPrefix s d then [.IllegalDestination] else []) ++
    (if kindAt t d = none ∧ (!create ∨ kindAt t (parentOf d) ≠ some true) then [.ResourceNotFound] else []) ++
    (if kindAt t d = some false ∨ blockedByFile t [] d then [.DirectoryExpected] else [])
  | .copydir _ _ create =>
    admDirArg t s ++
    (if isPrefix s d then [.IllegalDestination] else []) ++
    (if kindAt t d = none ∧ !create then [.ResourceNotFound] else []) ++
    (if kindAt t d = some false ∨ blockedByFile t [] d then [.DirectoryExpected] else [])
  | _ => []

/-- every error class that truthfully describes why `op` cannot succeed in state `s` -/
def adm (s : State) (op : Op) : List Err :=
  match op with
  | .close => []
  | _ =>
    if s.closed then [.FilesystemClosed]
    else
      let bad := op.paths.flatMap admPath
      if bad ≠ [] then
        -- some path argument is invalid: that is a truthful report, and so is any condition
        -- that holds for the remaining (valid) path argument on its own
        let others := op.paths.flatMap fun p =>
          match validate p with
          | .ok cs => admAny s.root cs
          | .err _ => []
        (match op with
         | .openbin _ m => if (parseBinMode m).isNone then .ValueError :: bad else bad
         | _ => bad ++ others)
      else match op.paths.mapM validate with
        | .ok [cs] => adm1 s.root cs op
        | .ok [a, b] => adm2 s.root a b op
        | _ => []

end Fs.Ref
