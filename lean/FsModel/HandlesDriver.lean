/-
  FsModel.HandlesDriver — line protocol for the reference with open handles.

  h.run <rename|copy> <tree> <op> ; <op> ; …
      executes a whole history from the tree (flat encoding of RefDriver) with empty tables.
      op:  t <ref-op name> <args…>         a filesystem call (arguments as in `ref.step`)
           o <path-hex> <mode-hex>         open, keeping the file object (hid = number of earlier successful opens)
           f <hid> <file-op token>         a file-object call (tokens of `file.run`)
      → `<out>@<tell>;…  |  <tree>  |  <closed 0|1>  |  <handle>;…  |  wf=<0|1>`
        out:    tok:<value> | terr:<Class> | opened:<hid> | oerr:<Class> | <file out> | badh
        tell:   tell() of the addressed / returned handle after the call, `-` when closed or none
        handle: <hid>:<ino>:<L|U>:<O|C>:<pos>:<hex of the inode's current bytes>
                (L = still linked in the tree, U = unlinked; O = open, C = closed) — for `U` + `O`
                these are the bytes only the surviving handles can still read
  h.items <rename|copy> <tree> <op> ; …   the same history must be made of closed sessions; runs it through
      `runItems` AND `refItems` and answers `same` / `differ` / `not-items` (the theorem `handles_refine_ref`, run)
-/
import FsModel.Handles
import FsModel.RefDriver
import FsModel.FileDriver

namespace Fs.HandlesDriver
open Fs Fs.Ref Fs.File Fs.Handles Fs.Proto

def splitOps (toks : List String) : List (List String) :=
  let rec go : List String → List String → List (List String) → List (List String)
    | [], cur, acc => (if cur.isEmpty then acc else cur.reverse :: acc).reverse
    | t :: ts, cur, acc => if t == ";" then go ts [] (cur.reverse :: acc) else go ts (t :: cur) acc
  go toks [] []

def parseHOp : List String → Option HOp
  | "t" :: rest => do pure (.tree (← RefDriver.parseOp rest))
  | ["o", p, m] => do pure (.open_ (← hexToStr p) (← hexToStr m))
  | ["f", hid, tok] => do pure (.file (← hid.toNat?) (← FileDriver.parseOp tok))
  | _ => none

def outStr : HOut → String
  | .tree (.ok v) => "tok:" ++ RefDriver.valStr v
  | .tree (.err e) => "terr:" ++ e.name
  | .opened hid => "opened:" ++ toString hid
  | .openErr e => "oerr:" ++ e.name
  | .file o => FileDriver.outStr o
  | .badHandle => "badh"

def handleStr (s : HState) (hid : Nat) (h : Handle) : String :=
  let link := match s.inodes[h.ino]? with
    | some (.linked _) => "L"
    | _ => "U"
  toString hid ++ ":" ++ toString h.ino ++ ":" ++ link ++ ":" ++ (if h.closed then "C" else "O") ++ ":" ++
    toString h.pos ++ ":" ++ bytesToHex (s.inoBytes h.ino)

def handlesStr (s : HState) : String :=
  if s.handles.isEmpty then "." else
  ";".intercalate ((List.range s.handles.length).zip s.handles |>.map fun (i, h) => handleStr s i h)

def implOf : String → Option MovedirImpl
  | "rename" => some .rename
  | "copy" => some .copy
  | _ => none

def traceStr (tr : List (HOut × Option Nat)) : String :=
  if tr.isEmpty then "." else
  ";".intercalate (tr.map fun (o, t) => outStr o ++ "@" ++ FileDriver.tellStr t)

/-- regroup a flat history into items (tree calls and closed sessions), hids counted as `run` assigns them -/
def toItems (impl : MovedirImpl) : Nat → HState → List HOp → Option (List Item)
  | _, _, [] => some []
  | 0, _, _ => none
  | fuel + 1, s, .tree op :: rest => do
    let its ← toItems impl fuel (step impl s (.tree op)).1 rest
    pure (.tree op :: its)
  | fuel + 1, s, .open_ p m :: rest =>
    let hid := s.handles.length
    -- the maximal run of calls on the handle this `open` returns; its last call must be `close`
    let mine := rest.takeWhile fun o => match o with
      | .file h _ => h == hid
      | _ => false
    let rest' := rest.drop mine.length
    let cs := mine.filterMap fun o => match o with | .file _ c => some c | _ => none
    match cs.getLast? with
    | some File.Op.close =>
      let it := Item.session p m cs.dropLast
      match toItems impl fuel (run impl s (it.flat hid)).1 rest' with
      | some its => some (it :: its)
      | none => none
    | _ => none
  | _, _, .file _ _ :: _ => none

def handle (cmd : String) (args : List String) : Option String :=
  match cmd with
  | "h.run" => do
    let impl ← implOf (← args[0]?)
    let t ← RefDriver.loadTree (← args[1]?)
    let ops ← (splitOps (args.drop 2)).mapM parseHOp
    let r := run impl (HState.init t) ops
    some (traceStr r.2 ++ " | " ++ RefDriver.dumpTree r.1.fs.root ++ " | " ++ boolStr r.1.fs.closed ++ " | " ++
      handlesStr r.1 ++ " | wf=" ++ boolStr r.1.wf)
  | "h.items" => do
    let impl ← implOf (← args[0]?)
    let t ← RefDriver.loadTree (← args[1]?)
    let ops ← (splitOps (args.drop 2)).mapM parseHOp
    let s0 := HState.init t
    match toItems impl (ops.length + 1) s0 ops with
    | none => some "not-items"
    | some its =>
      let a := runItems impl s0 its
      let b := refItems (forget s0) its
      let obs := (its.zip a.2).map fun (it, tr) => itemObs it tr
      let same := RefDriver.dumpTree a.1.fs.root == RefDriver.dumpTree b.1.root &&
        a.1.fs.closed == b.1.closed && obs == b.2.map some &&
        quiescent impl s0 ops
      some (if same then "same" else "differ")
  | _ => none

end Fs.HandlesDriver
