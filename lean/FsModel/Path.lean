/-
  FsModel.Path — every function of `fs/path.py`, transcribed as written (quirks included),
  over `Str = List Char`.  `FsModel.PathSpec` holds the independent component-list
  specification; `FsProofs.C12` relates the two.
-/
import FsModel.Basic

namespace Fs.Path
open Fs

/-! ### Python string primitives used by fs/path.py -/

/-- `s.split(c)` for a one-character separator: always at least one piece. -/
def splitOn (c : Char) : Str → List Str
  | [] => [[]]
  | x :: xs =>
    if x = c then [] :: splitOn c xs
    else match splitOn c xs with
      | [] => [[x]]
      | h :: t => (x :: h) :: t

/-- `sep.join(parts)` for a one-character separator. -/
def joinWith (c : Char) : List Str → Str
  | [] => []
  | [a] => a
  | a :: b :: rest => a ++ c :: joinWith c (b :: rest)

abbrev splitSlash := splitOn '/'
abbrev joinSlash := joinWith '/'

/-- `s.lstrip("/")` -/
def lstripSlash : Str → Str
  | [] => []
  | c :: cs => if c = '/' then lstripSlash cs else c :: cs

/-- `s.rstrip("/")` -/
def rstripSlash (s : Str) : Str := (lstripSlash s.reverse).reverse

/-- `s.strip("/")` -/
def stripSlash (s : Str) : Str := rstripSlash (lstripSlash s)

def startsWithSlash : Str → Bool
  | '/' :: _ => true
  | _ => false

def endsWithSlash (s : Str) : Bool := startsWithSlash s.reverse

/-- `a.startswith(b)` -/
def startsWith : Str → Str → Bool
  | _, [] => true
  | [], _ :: _ => false
  | a :: as, b :: bs => a == b && startsWith as bs

/-- Characters removed by Python's argument-less `str.lstrip()`. -/
def isPySpace (c : Char) : Bool :=
  let n := c.toNat
  (9 ≤ n && n ≤ 13) || (28 ≤ n && n ≤ 32) || n == 0x85 || n == 0xa0 || n == 0x1680 ||
  (0x2000 ≤ n && n ≤ 0x200a) || n == 0x2028 || n == 0x2029 || n == 0x202f || n == 0x205f ||
  n == 0x3000

def lstripSpace : Str → Str
  | [] => []
  | c :: cs => if isPySpace c then lstripSpace cs else c :: cs

/-- `component in ".."` (substring test): true exactly for `""`, `"."`, `".."`. -/
def inDotDot (c : Str) : Bool := c == [] || c == ['.'] || c == ['.', '.']

/-! ### `_requires_normalization`

The compiled regex is `(^|/)\.\.?($|/)|//` used with `.search`.  It finds a match iff the
text contains `//`, or some `/`-delimited component is `.` or `..` — where, because `$`
(without MULTILINE) also matches just before a final newline, a *last* component `.\n` or
`..\n` counts too.  Stated here on the component list. -/

def isDots (c : Str) : Bool := c == ['.'] || c == ['.', '.']

def isDotsNl (c : Str) : Bool := c == ['.', '\n'] || c == ['.', '.', '\n']

/-- an empty component that is neither first nor last ⇔ `//` occurs in the text -/
def hasInteriorEmpty : List Str → Bool
  | [] => false
  | _ :: rest => go rest
where
  go : List Str → Bool
    | [] => false
    | [_] => false
    | c :: d :: rest => c == [] || go (d :: rest)

def lastIsDotsNl : List Str → Bool
  | [] => false
  | [c] => isDotsNl c
  | _ :: d :: rest => lastIsDotsNl (d :: rest)

def requiresNormalization (p : Str) : Bool :=
  let cs := splitSlash p
  cs.any isDots || lastIsDotsNl cs || hasInteriorEmpty cs

/-! ### normpath -/

/-- The component loop of `normpath`; the accumulator is the `components` list reversed
(so `pop()` is `tail`).  `none` = `IndexError` from `pop()` on an empty list. -/
def normLoop : List Str → List Str → Option (List Str)
  | [], acc => some acc.reverse
  | c :: cs, acc =>
    if inDotDot c then
      if c == ['.', '.'] then
        match acc with
        | [] => none
        | _ :: acc' => normLoop cs acc'
      else normLoop cs acc
    else normLoop cs (c :: acc)

def normpath (p : Str) : Res Str :=
  if p == [] || p == ['/'] then .ok p            -- `path in "/"`
  else if !requiresNormalization p then .ok (rstripSlash p)
  else
    let pre : Str := if startsWithSlash p then ['/'] else []
    match normLoop (splitSlash p) [] with
    | none => .err .IllegalBackReference
    | some comps => .ok (pre ++ joinSlash comps)

def isabs (p : Str) : Bool := startsWithSlash p

def abspath (p : Str) : Str := if startsWithSlash p then p else '/' :: p

def relpath (p : Str) : Str := lstripSlash p

def iteratepath (p : Str) : Res (List Str) := do
  let n ← normpath p
  let r := relpath n
  if r == [] then pure [] else pure (splitSlash r)

/-- `path.find("/", pos)`: index of the first `/` at or after `pos`, or none (-1). -/
def findSlashFrom (s : Str) (pos : Nat) : Option Nat :=
  let rec go : Str → Nat → Option Nat
    | [], _ => none
    | c :: cs, i => if c = '/' then some i else go cs (i + 1)
  go (s.drop pos) pos

/-- the `while pos < len_path` loop of `recursepath`, with fuel = remaining length. -/
def recurseLoop (path : Str) : Nat → Nat → List Str → List Str
  | 0, _, acc => acc.reverse
  | fuel + 1, pos, acc =>
    if pos < path.length then
      match findSlashFrom path pos with
      | none => acc.reverse   -- unreachable: `path` ends with "/"
      | some i => recurseLoop path fuel (i + 1) (path.take i :: acc)
    else acc.reverse

def recursepath (p : Str) (reverse : Bool := false) : Res (List Str) :=
  if p == [] || p == ['/'] then .ok [['/']]
  else do
    let n ← normpath p
    let path := abspath n ++ ['/']
    let paths := recurseLoop path (path.length + 1) 1 [['/']]
    pure (if reverse then paths.reverse else paths)

/-- `join(*paths)` -/
def join (paths : List Str) : Res Str :=
  let rec go : List Str → Bool → List Str → Bool × List Str
    | [], absolute, rel => (absolute, rel.reverse)
    | p :: ps, absolute, rel =>
      match p with
      | [] => go ps absolute rel
      | c :: _ => if c = '/' then go ps true [p] else go ps absolute (p :: rel)
  let (absolute, rel) := go paths false []
  do
    let path ← normpath (joinSlash rel)
    pure (if absolute then abspath path else path)

/-- `combine(path1, path2)` -/
def combine (p1 p2 : Str) : Str :=
  if p1 == [] then p2
  else rstripSlash p1 ++ '/' :: lstripSlash p2

/-- `parts(path)` -/
def parts (p : Str) : Res (List Str) := do
  let n ← normpath p
  let comps := stripSlash n
  let hd : Str := if startsWithSlash n then ['/'] else ['.', '/']
  pure (if comps == [] then [hd] else hd :: splitSlash comps)

/-- `s.rsplit("/", 1)` when `/` occurs: (everything before the last slash, everything after). -/
def rsplit1 (c : Char) (s : Str) : Option (Str × Str) :=
  let rec go : Str → Str → Option (Str × Str)   -- scanning the reversed string
    | [], _ => none
    | x :: xs, tailAcc => if x = c then some (xs.reverse, tailAcc) else go xs (x :: tailAcc)
  go s.reverse []

/-- `split(path)` -/
def split (p : Str) : Str × Str :=
  match rsplit1 '/' p with
  | none => ([], p)
  | some (h, t) => (if h == [] then ['/'] else h, t)

def dirname (p : Str) : Str := (split p).1
def basename (p : Str) : Str := (split p).2

/-- `splitext(path)` -/
def splitext (p : Str) : Res (Str × Str) :=
  let (parent, name) := split p
  if name.head? == some '.' && name.count '.' == 1 then .ok (p, [])
  else match rsplit1 '.' name with
    | none => .ok (p, [])
    | some (stem, ext) => do
      let path ← join [parent, stem]
      pure (path, '.' :: ext)

def isdotfile (p : Str) : Bool := (basename p).head? == some '.'

def issamedir (p1 p2 : Str) : Res Bool := do
  let a ← normpath p1
  let b ← normpath p2
  pure (dirname a == dirname b)

def forcedir (p : Str) : Str := if endsWithSlash p then p else p ++ ['/']

/-- `isbase(path1, path2)` -/
def isbase (p1 p2 : Str) : Bool :=
  startsWith (forcedir (abspath p2)) (forcedir (abspath p1))

/-- drop trailing empty strings: `while bits1 and bits1[-1] == "": bits1.pop()` -/
def dropTrailingEmpty (l : List Str) : List Str :=
  (l.reverse.dropWhile (· == [])).reverse

def zipAllEq : List Str → List Str → Bool
  | a :: as, b :: bs => a == b && zipAllEq as bs
  | _, _ => true

/-- `isparent(path1, path2)` -/
def isparent (p1 p2 : Str) : Bool :=
  let bits1 := dropTrailingEmpty (splitSlash p1)
  let bits2 := splitSlash p2
  if bits1.length > bits2.length then false else zipAllEq bits1 bits2

/-- `frombase(path1, path2)`; `ValueError` when `path1` is not a parent. -/
def frombase (p1 p2 : Str) : Res Str :=
  if !isparent p1 p2 then .err .ValueError
  else if !startsWith p2 p1 then .ok (p2.drop (rstripSlash p1).length)   -- since 696468c
  else .ok (p2.drop p1.length)

def commonLen : List Str → List Str → Nat
  | a :: as, b :: bs => if a == b then commonLen as bs + 1 else 0
  | _, _ => 0

/-- `relativefrom(base, path)` -/
def relativefrom (base p : Str) : Res Str := do
  let bp ← iteratepath base
  let pp ← iteratepath p
  let common := commonLen bp pp
  pure (joinSlash (List.replicate (bp.length - common) ['.', '.'] ++ pp.drop common))

def wildChars : List Char := ['*', '?', '[', ']', '!', '{', '}']

def iswildcard (p : Str) : Bool := p.any (fun c => wildChars.contains c)

end Fs.Path
