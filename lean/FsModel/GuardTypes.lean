/-
  FsModel.GuardTypes — vocabulary of the generated `GuardTable` (DESIGN.md §4.6).
  Hand-written; imported by the generated file `FsModel/Generated/GuardTable.lean`.
-/

namespace Fs.Guard

/-- What happens first when a method is called on a *closed* filesystem (per control-flow path,
worst path wins).  See the docstring of `harness/extract/generate.py`. -/
inductive GuardV where
  | guarded      -- `check()` (or a self-call that is itself guarded) before any access to instance state
  | unguarded    -- some path reaches instance state without a check
  | unknown      -- the extractor could not tell
  | nodata       -- no path touches instance state
  | closedNoop   -- all accesses sit under `if not self.isclosed():`
  deriving DecidableEq, Repr, Inhabited

/-- Shape of the body that a public name of a read-only class resolves to. -/
inductive Shape where
  | raisesReadOnly                                   -- `self.check(); raise ResourceReadOnly(..)`
  | modeGuarded (chars : List Char) (passesMode : Bool) (validates : Bool)
      -- `if <mode contains one of chars>: raise ResourceReadOnly` before anything else;
      -- `passesMode`: is `mode` still used afterwards (handed on to the wrapped filesystem's open)?
      -- `validates`: the test is `check_writable(mode)` / `Mode(mode).writing`, whose `Mode(..)`
      --   constructor raises ValueError for an invalid mode string first
  | delegates                                        -- reaches the delegate / instance state
  | baseDefault                                      -- a default of fs/base.py: acts only through self-calls
  | abstract
  | other                                            -- touches no instance state at all
  | unknown
  | missing                                          -- not in the table
  deriving DecidableEq, Repr, Inhabited

def GuardV.name : GuardV → String
  | .guarded => "guarded" | .unguarded => "unguarded" | .unknown => "unknown"
  | .nodata => "nodata" | .closedNoop => "closedNoop"

def Shape.name : Shape → String
  | .raisesReadOnly => "raisesReadOnly"
  | .modeGuarded cs p v => "modeGuarded:" ++ String.ofList cs ++ (if p then ":passes" else ":drops") ++
      (if v then ":validates" else ":raw")
  | .delegates => "delegates" | .baseDefault => "baseDefault" | .abstract => "abstract"
  | .other => "other" | .unknown => "unknown" | .missing => "missing"

end Fs.Guard
