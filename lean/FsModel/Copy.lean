/-
  FsModel.Copy — `fs/copy.py` and `fs/mirror.py` over trees whose files carry an optional
  modification time (`none` = the filesystem cannot report one).

  Transcribed: `_copy_is_necessary` (all five conditions, the ResourceNotFound branch, the
  `None` branches, `ValueError` for any other condition string), `copy_file_if`,
  `copy_file_internal` (cross-filesystem path: upload + `copy_modified_time`), `copy_structure`
  (`makedirs(dst_root, recreate=True)` then `makedir(…, recreate=True)` for every directory the
  walker yields), `copy_dir_if` (structure, then the walker's files filtered by the condition,
  `on_copy` = the returned list), `mirror/_mirror/_compare` (per directory: files loop, dirs
  loop, removal of what is left of the destination listing; then the scanned sub-directories).

  The walker is abstract: a file predicate (`_check_file`), a directory predicate
  (`_check_open_dir`) — both see the directory path and the entry name — and `max_depth`
  (`_check_scan_dir`).  Listing order is the entry order of the tree (breadth-first order of the
  real walker is a permutation with the same parents-before-children property; results on
  success do not depend on it, the correspondence compares canonically sorted trees).
-/
import FsModel.Basic
import FsModel.Tree

namespace Fs.Copy
open Fs

/-- a resource: file bytes + reported modification time (whole seconds), or a directory -/
inductive CNode where
  | file (data : Bytes) (mtime : Option Int)
  | dir (ents : List (Name × CNode))
  deriving Repr, Inhabited

abbrev CEnts := List (Name × CNode)

/-! ### directories as association lists -/

def lookup (c : Name) : CEnts → Option CNode
  | [] => none
  | (k, v) :: es => if k = c then some v else lookup c es

/-- replace in place when the name exists (keeps its position), else append at the end -/
def put (c : Name) (n : CNode) : CEnts → CEnts
  | [] => [(c, n)]
  | (k, v) :: es => if k = c then (k, n) :: es else (k, v) :: put c n es

/-- remove the entry (every entry) of that name -/
def erase (c : Name) : CEnts → CEnts
  | [] => []
  | (k, v) :: es => if k = c then erase c es else (k, v) :: erase c es

def names (es : CEnts) : List Name := es.map (·.1)

namespace CNode

def isDir : CNode → Bool | dir _ => true | file _ _ => false

/-- the node at a component path -/
def get : List Name → CNode → Option CNode
  | [], n => some n
  | c :: cs, dir es => match lookup c es with
    | some ch => get cs ch
    | none => none
  | _ :: _, file _ _ => none

/-- `t.set cs v`: put `v` at the component path `cs` (no change when the parent is missing or
not a directory, or when `cs = []`) -/
def set : List Name → CNode → CNode → CNode
  | [], n, _ => n
  | [c], dir es, v => dir (put c v es)
  | c :: d :: cs, dir es, v => match lookup c es with
    | some ch => dir (put c (set (d :: cs) ch v) es)
    | none => dir es
  | _ :: _, file b m, _ => file b m

end CNode

mutual
/-- well-formedness: legal names, unique per directory, recursively -/
def CNode.wf : CNode → Bool
  | .file _ _ => true
  | .dir es => entsWf es
def entsWf : CEnts → Bool
  | [] => true
  | (k, v) :: es => cleanName k && (lookup k es).isNone && v.wf && entsWf es
end

/-- what is observable at a path: nothing, a directory, or a file with bytes and time -/
inductive View where
  | absent
  | dir
  | file (data : Bytes) (mtime : Option Int)
  deriving DecidableEq, Repr, Inhabited

def view : Option CNode → View
  | none => .absent
  | some (.dir _) => .dir
  | some (.file b m) => .file b m

/-- the view without the time (paths, types, bytes) -/
def View.noTime : View → View
  | .file b _ => .file b none
  | v => v

/-! ### environment: clock and what the destination filesystem reports -/

structure Env where
  /-- the time a freshly written file gets (later than every explicitly set time) -/
  now : Int
  /-- does the destination filesystem report modification times at all -/
  dstTimes : Bool
  deriving Repr

/-- `getmodified(path)`: `none` = ResourceNotFound, `some none` = no time reported.
Directories report the time of their last change (`now`). -/
def statTime (times : Bool) (now : Int) : Option CNode → Option (Option Int)
  | none => none
  | some (.file _ m) => some m
  | some (.dir _) => some (if times then some now else none)

/-! ### `_copy_is_necessary` -/

def cAlways : Str := ['a', 'l', 'w', 'a', 'y', 's']
def cNewer : Str := ['n', 'e', 'w', 'e', 'r']
def cOlder : Str := ['o', 'l', 'd', 'e', 'r']
def cExists : Str := ['e', 'x', 'i', 's', 't', 's']
def cNotExists : Str := ['n', 'o', 't', '_', 'e', 'x', 'i', 's', 't', 's']

/-- `src_modified is None or dst_modified is None or src_modified > dst_modified` -/
def newerThan (s d : Option Int) : Bool :=
  match s, d with
  | some a, some b => decide (a > b)
  | _, _ => true

def olderThan (s d : Option Int) : Bool :=
  match s, d with
  | some a, some b => decide (a < b)
  | _, _ => true

/-- `_copy_is_necessary(src_fs, src_path, dst_fs, dst_path, condition)`; `s`/`d` are what
`getmodified` gives for the two paths (`none` = ResourceNotFound) -/
def copyIsNecessary (cond : Str) (s d : Option (Option Int)) : Res Bool :=
  if cond = cAlways then .ok true
  else if cond = cNewer then
    match s, d with
    | some sm, some dm => .ok (newerThan sm dm)
    | _, _ => .ok true                       -- except ResourceNotFound: return True
  else if cond = cOlder then
    match s, d with
    | some sm, some dm => .ok (olderThan sm dm)
    | _, _ => .ok true
  else if cond = cExists then .ok d.isSome    -- dst_fs.exists(dst_path)
  else if cond = cNotExists then .ok (!d.isSome)
  else .err .ValueError

/-! ### writing one file (`copy_file_internal`, cross-filesystem path) -/

/-- the time the destination reports for a file just copied: the upload stamps `now`; with
`preserve_time`, `copy_modified_time` copies `details.modified` when the source has one -/
def newTime (e : Env) (preserve : Bool) (m : Option Int) : Option Int :=
  if e.dstTimes then
    (if preserve then (match m with | some t => some t | none => some e.now) else some e.now)
  else none

/-- `dst_fs.upload(dst_path, …)` (+ `copy_modified_time`) -/
def writeFile (e : Env) (preserve : Bool) (dst : CNode) (p : List Name) (b : Bytes) (m : Option Int) :
    Res CNode :=
  if p = [] then .err .FileExpected
  else match dst.get p.dropLast with
    | some (.dir _) =>
      (match dst.get p with
       | some (.dir _) => .err .FileExpected
       | _ => .ok (dst.set p (.file b (newTime e preserve m))))
    | _ => .err .ResourceNotFound

def copyFileInternal (e : Env) (preserve : Bool) (src : CNode) (sp : List Name) (dst : CNode)
    (dp : List Name) : Res CNode :=
  match src.get sp with
  | none => .err .ResourceNotFound
  | some (.dir _) => .err .FileExpected
  | some (.file b m) => writeFile e preserve dst dp b m

/-- `copy_file_if`: returns the destination and `do_copy` -/
def copyFileIf (e : Env) (srcTimes : Bool) (src : CNode) (sp : List Name) (dst : CNode) (dp : List Name)
    (cond : Str) (preserve : Bool) : Res (CNode × Bool) :=
  match copyIsNecessary cond (statTime srcTimes e.now (src.get sp)) (statTime e.dstTimes e.now (dst.get dp)) with
  | .err x => .err x
  | .ok false => .ok (dst, false)
  | .ok true =>
    match copyFileInternal e preserve src sp dst dp with
    | .ok t => .ok (t, true)
    | .err x => .err x

/-! ### directories -/

/-- `makedir(path, recreate=True)` -/
def makedirR (dst : CNode) (p : List Name) : Res CNode :=
  if p = [] then .ok dst
  else match dst.get p.dropLast with
    | some (.dir _) =>
      (match dst.get p with
       | some (.dir _) => .ok dst
       | some (.file _ _) => .err .DirectoryExpected
       | none => .ok (dst.set p (.dir [])))
    | _ => .err .ResourceNotFound

/-- `makedirs(path, recreate=True)`: `pre` = components already known to be directories -/
def makedirsR : List Name → List Name → CNode → Res CNode
  | _, [], t => .ok t
  | pre, c :: cs, t =>
    match t.get (pre ++ [c]) with
    | some (.dir _) => makedirsR (pre ++ [c]) cs t
    | some (.file _ _) => .err .DirectoryExpected
    | none => makedirsR (pre ++ [c]) cs (t.set (pre ++ [c]) (.dir []))

/-! ### the walker -/

structure Walker where
  /-- `_check_file(fs, dir_path, info)` -/
  fileOk : List Name → Name → Bool
  /-- `_check_open_dir(fs, dir_path, info)` -/
  dirOk : List Name → Name → Bool
  maxDepth : Option Nat

/-- the walker without filters -/
def Walker.all : Walker := { fileOk := fun _ _ => true, dirOk := fun _ _ => true, maxDepth := none }

/-- `_check_scan_dir(…, depth)` for a directory at relative depth `depth` (children of the
walk root have depth 1) -/
def Walker.scan (w : Walker) (depth : Nat) : Bool :=
  match w.maxDepth with
  | none => true
  | some m => decide (depth < m)

inductive Item where
  | dir
  | file (data : Bytes) (mtime : Option Int)
  deriving DecidableEq, Repr

mutual
/-- every resource the walker yields below a directory: path relative to the walk root and
what it is; `abs` is the path of the directory inside the source filesystem (what the
predicates see), `depth` its depth below the walk root -/
def walkNode (w : Walker) (abs : List Name) (depth : Nat) : CNode → List (List Name × Item)
  | .file _ _ => []
  | .dir es => walkEnts w abs depth es
def walkEnts (w : Walker) (abs : List Name) (depth : Nat) : CEnts → List (List Name × Item)
  | [] => []
  | (k, v) :: es =>
    (match v with
     | .file b m => if w.fileOk abs k then [([k], Item.file b m)] else []
     | .dir _ =>
       if w.dirOk abs k then
         ([k], Item.dir) ::
           (if w.scan (depth + 1) then
              (walkNode w (abs ++ [k]) (depth + 1) v).map (fun x => (k :: x.1, x.2))
            else [])
       else [])
    ++ walkEnts w abs depth es
end

/-- `walker.dirs(fs, root)` (relative paths) -/
def selDirs (w : Walker) (abs : List Name) (es : CEnts) : List (List Name) :=
  (walkEnts w abs 0 es).filterMap fun x => match x.2 with | .dir => some x.1 | .file _ _ => none

/-- `walker.files(fs, root)` (relative path, bytes, time) -/
def selFiles (w : Walker) (abs : List Name) (es : CEnts) : List (List Name × Bytes × Option Int) :=
  (walkEnts w abs 0 es).filterMap fun x => match x.2 with | .dir => none | .file b m => some (x.1, b, m)

/-! ### `copy_structure`, `copy_dir_if` -/

/-- a loop whose body may raise -/
def foldRes {σ α : Type} (f : σ → α → Res σ) : σ → List α → Res σ
  | s, [] => .ok s
  | s, a :: as => match f s a with
    | .ok s' => foldRes f s' as
    | .err e => .err e

/-- `copy_structure(src_fs, dst_fs, walker, src_root, dst_root)` between two filesystems -/
def copyStructure (w : Walker) (src : CNode) (sp : List Name) (dst : CNode) (dp : List Name) : Res CNode :=
  match makedirsR [] dp dst with
  | .err x => .err x
  | .ok d1 =>
    match src.get sp with
    | none => .err .ResourceNotFound
    | some (.file _ _) => .err .DirectoryExpected
    | some (.dir es) => foldRes (fun t rel => makedirR t (dp ++ rel)) d1 (selDirs w sp es)

/-- does the condition select the walked file `f` (relative path, bytes, time), judged against
destination state `t`: `_copy_is_necessary(src_fs, f, dst_fs, dst_path/f, condition)` is `True` -/
def wanted (e : Env) (cond : Str) (dp : List Name) (t : CNode) (f : List Name × Bytes × Option Int) : Bool :=
  copyIsNecessary cond (some f.2.2) (statTime e.dstTimes e.now (t.get (dp ++ f.1))) == .ok true

/-- body of the files loop of `copy_dir_if`; the state is the destination and the `on_copy` log -/
def copyFilesStep (e : Env) (cond : Str) (preserve : Bool) (dp : List Name)
    (st : CNode × List (List Name)) (f : List Name × Bytes × Option Int) : Res (CNode × List (List Name)) :=
  match copyIsNecessary cond (some f.2.2) (statTime e.dstTimes e.now (st.1.get (dp ++ f.1))) with
  | .err x => .err x
  | .ok false => .ok st
  | .ok true =>
    match writeFile e preserve st.1 (dp ++ f.1) f.2.1 f.2.2 with
    | .ok t => .ok (t, st.2 ++ [f.1])
    | .err x => .err x

/-- `copy_dir_if(src_fs, src_path, dst_fs, dst_path, condition, walker, on_copy, preserve_time)`:
the destination afterwards and the relative paths `on_copy` was called for -/
def copyDirIf (e : Env) (w : Walker) (src : CNode) (sp : List Name) (dst : CNode) (dp : List Name)
    (cond : Str) (preserve : Bool) : Res (CNode × List (List Name)) :=
  match copyStructure w src sp dst dp with
  | .err x => .err x
  | .ok d1 =>
    match src.get sp with
    | some (.dir es) => foldRes (copyFilesStep e cond preserve dp) (d1, []) (selFiles w sp es)
    | _ => .err .ResourceNotFound

/-! ### `mirror` -/

structure MOpts where
  copyIfNewer : Bool
  preserve : Bool
  deriving Repr

/-- `_compare(info1, info2)`: sizes differ, or a time is unknown, or the source is newer -/
def compare (b1 : Bytes) (m1 : Option Int) (b2 : Bytes) (m2 : Option Int) : Bool :=
  b1.length != b2.length || newerThan m1 m2

/-- is the source file copied, given what the destination listing had under its name -/
def fileCopied (o : MOpts) (b : Bytes) (m : Option Int) : Option CNode → Bool
  | some (.file b' m') => !(o.copyIfNewer && !compare b m b' m')
  | _ => true

/-- body of the files loop of `_mirror`; state = (destination directory, what is left of the
`dst` dictionary built from `scandir`) -/
def mirrorFile (e : Env) (o : MOpts) (st : CEnts × CEnts) (k : Name) (b : Bytes) (m : Option Int) :
    CEnts × CEnts :=
  let f := CNode.file b (newTime e o.preserve m)
  match lookup k st.2 with                               -- dst.pop(_file.name, None)
  | some (.dir _) => (put k f (erase k st.1), erase k st.2)   -- removetree, then copy
  | some (.file b' m') =>
    if o.copyIfNewer && !compare b m b' m' then (st.1, erase k st.2)   -- continue
    else (put k f st.1, erase k st.2)
  | none => (put k f st.1, erase k st.2)

/-- body of the dirs loop of `_mirror` -/
def mirrorDirEntry (st : CEnts × CEnts) (k : Name) : CEnts × CEnts :=
  match lookup k st.2 with
  | some (.dir _) => (st.1, erase k st.2)
  | some (.file _ _) => (put k (.dir []) (erase k st.1), erase k st.2)   -- remove it, makedir(recreate=True)
  | none => (put k (.dir []) st.1, st.2)                  -- makedir(recreate=True)

/-- `for _file in files:` — the walker's files of this directory -/
def filesBody (e : Env) (o : MOpts) (w : Walker) (abs : List Name) (st : CEnts × CEnts) (x : Name × CNode) :
    CEnts × CEnts :=
  match x.2 with
  | .file b m => if w.fileOk abs x.1 then mirrorFile e o st x.1 b m else st
  | .dir _ => st

/-- `for _dir in dirs:` — the walker's directories of this directory -/
def dirsBody (w : Walker) (abs : List Name) (st : CEnts × CEnts) (x : Name × CNode) : CEnts × CEnts :=
  match x.2 with
  | .dir _ => if w.dirOk abs x.1 then mirrorDirEntry st x.1 else st
  | .file _ _ => st

/-- one iteration of the `for path, dirs, files in walk` loop for a directory whose source
entries are `es` and whose destination listing is `ds` -/
def mirrorStep (e : Env) (o : MOpts) (w : Walker) (abs : List Name) (es : CEnts) (ds : CEnts) : CEnts :=
  let st1 := es.foldl (filesBody e o w abs) (ds, ds)
  let st2 := es.foldl (dirsBody w abs) st1
  st2.2.foldl (fun cur x => erase x.1 cur) st2.1         -- while dst: popitem, remove

/-- the listing the later step for sub-directory `k` starts from: `scandir`, or after
ResourceNotFound `makedir` and an empty listing -/
def childEnts : Option CNode → CEnts
  | some (.dir ds) => ds
  | _ => []

mutual
/-- `_mirror` below one directory: this directory's step, then the scanned sub-directories -/
def mirrorNode (e : Env) (o : MOpts) (w : Walker) (abs : List Name) (depth : Nat) : CNode → CEnts → CEnts
  | .file _ _, ds => ds
  | .dir es, ds => mirrorSubs e o w abs depth es (mirrorStep e o w abs es ds)
def mirrorSubs (e : Env) (o : MOpts) (w : Walker) (abs : List Name) (depth : Nat) : CEnts → CEnts → CEnts
  | [], cur => cur
  | (k, v) :: es, cur =>
    match v with
    | .file _ _ => mirrorSubs e o w abs depth es cur
    | .dir _ =>
      if w.dirOk abs k && w.scan (depth + 1) then
        mirrorSubs e o w abs depth es
          (put k (.dir (mirrorNode e o w (abs ++ [k]) (depth + 1) v (childEnts (lookup k cur)))) cur)
      else mirrorSubs e o w abs depth es cur
end

/-- files copied by this directory's step -/
def copiedHere (o : MOpts) (w : Walker) (abs : List Name) (es ds : CEnts) : List (List Name) :=
  es.filterMap fun x => match x.2 with
    | .file b m => if w.fileOk abs x.1 && fileCopied o b m (lookup x.1 ds) then some [x.1] else none
    | .dir _ => none

mutual
/-- the files `copy_file` is called for (relative paths) -/
def copiedNode (e : Env) (o : MOpts) (w : Walker) (abs : List Name) (depth : Nat) : CNode → CEnts → List (List Name)
  | .file _ _, _ => []
  | .dir es, ds => copiedHere o w abs es ds ++ copiedSubs e o w abs depth es (mirrorStep e o w abs es ds)
def copiedSubs (e : Env) (o : MOpts) (w : Walker) (abs : List Name) (depth : Nat) : CEnts → CEnts → List (List Name)
  | [], _ => []
  | (k, v) :: es, cur =>
    (match v with
     | .file _ _ => []
     | .dir _ =>
       if w.dirOk abs k && w.scan (depth + 1) then
         (copiedNode e o w (abs ++ [k]) (depth + 1) v (childEnts (lookup k cur))).map (k :: ·)
       else [])
    ++ copiedSubs e o w abs depth es cur
end

/-- `mirror(src_fs, dst_fs, walker, copy_if_newer, preserve_time)`: the destination root afterwards -/
def mirror (e : Env) (o : MOpts) (w : Walker) (src dst : CEnts) : CEnts :=
  mirrorNode e o w [] 0 (.dir src) dst

/-- …and the files it copied -/
def mirrorCopied (e : Env) (o : MOpts) (w : Walker) (src dst : CEnts) : List (List Name) :=
  copiedNode e o w [] 0 (.dir src) dst

/-- look a path up in a root listing -/
def getE (q : List Name) (es : CEnts) : Option CNode := (CNode.dir es).get q

/-- the hypothesis under which `copy_if_newer=True` is still exact: wherever both sides have a
file, `_compare` says "copy" or the bytes already agree -/
def newerSafe (src dst : CEnts) : Prop :=
  ∀ q b m b' m', getE q src = some (.file b m) → getE q dst = some (.file b' m') →
    compare b m b' m' = true ∨ b' = b

/-- how a source resource looks at the destination once copied: same type, same bytes, the
preserved (or fresh) time -/
def copyView (e : Env) (pt : Bool) : View → View
  | .file b m => .file b (newTime e pt m)
  | v => v


mutual
/-- every file below has a known modification time that is not in the future (or is preserved):
the situation in which a second `mirror(copy_if_newer=True)` has nothing to copy -/
def timesKnown (e : Env) (o : MOpts) : CNode → Bool
  | .file _ m => match m with
    | some t => o.preserve || decide (t ≤ e.now)
    | none => false
  | .dir es => timesKnownEnts e o es
def timesKnownEnts (e : Env) (o : MOpts) : CEnts → Bool
  | [] => true
  | (_, v) :: es => timesKnown e o v && timesKnownEnts e o es
end

end Fs.Copy
