/-
  FsModel.Archive — the archive writers of `fs/compress.py` and the read-only archive
  filesystems of `fs/zipfs.py` / `fs/tarfs.py`, transcribed as written.

  * writer side: `Walker._walk_breadth` (unfiltered, `Walker.info`) as the FIFO work-list it
    is, and the member list `write_zip` / `write_tar` hand to `zipfile` / `tarfile`
    (`zipMembers`, `tarMembers`): names relative, zip directories with a trailing `/`,
    file bytes, mtime quantised (zip: even seconds; tar: whole seconds);
  * `readZip`: `ReadZipFS._directory` — a `MemoryFS` built with `makedirs`/`create` per
    member name, literally a fold of `Ref.step` that stops at the first exception (the
    half-built directory stays cached) and remembers `normalised path ↦ stored name` for every
    member (`_zip_names`) — plus `_path_to_zip_name` and the way
    `getinfo/listdir/openbin/readbytes` resolve a path to a member (`NameToInfo`: the last
    member of a name wins; a missing name is a raw `KeyError` = `Err.Leak`);
  * `readTar`: `ReadTarFS._directory_entries` (strip `/`, `normpath`, drop names that raise
    `IllegalBackReference` or normalise to `""`, `OrderedDict`: first position, last value)
    and `isdir/isfile/getinfo/listdir/openbin` by `isbase/frombase/parts` over the keys
    (implicit parent directories; `Info.name` is the basename of the path asked for;
    the root is a directory even in an archive without members).

  EXTERNAL (not modelled, hypothesis of every theorem that composes writer and reader): the
  container bytes — `zipfile`/`tarfile` return exactly the `(name, kind, bytes, time)` list
  they were given, `ZipFile.namelist()` in archive order, `NameToInfo[name]` = the last member
  of that name, iteration over a `TarFile` in archive order.
-/
import FsModel.Tree
import FsModel.Ref

namespace Fs.Archive
open Fs Fs.Path

/-- one archive member as the container library hands it to / gets it from the code -/
structure Member where
  name : Str
  /-- tar: type flag is DIRTYPE (anything else is treated as a regular file here);
      zip: informative only — `ReadZipFS` decides by the trailing `/` of the name -/
  isDir : Bool
  data : Bytes
  /-- seconds since the epoch, already at the resolution of the format -/
  mtime : Int
  deriving Repr, DecidableEq, Inhabited

def fileBytes : Node → Bytes
  | .file b => b
  | .dir _ => []

/-! ## writer side -/

/-- the walker's work-list: directories still to be scanned (path, entries) -/
abbrev Queue := List (List Name × Ents)

/-- everything `_scan` yields for one directory, in scan order -/
def level (pre : List Name) (es : Ents) : List (List Name × Node) :=
  es.map fun e => (pre ++ [e.1], e.2)

/-- the sub-directories pushed on the queue while scanning one directory -/
def subdirs (pre : List Name) : Ents → Queue
  | [] => []
  | (k, .dir es) :: rest => (pre ++ [k], es) :: subdirs pre rest
  | (_, .file _) :: rest => subdirs pre rest

/-- `Walker._walk_breadth` regrouped by `Walker.info`: pop the oldest directory, yield all
its entries, push its sub-directories.  The fuel bounds the number of directories popped. -/
def bfs : Nat → Queue → List (List Name × Node)
  | 0, _ => []
  | _ + 1, [] => []
  | n + 1, (pre, es) :: q => level pre es ++ bfs n (q ++ subdirs pre es)

/-- `walker.info(src_fs)` from the root: every resource with its component path -/
def walkInfo (t : Node) : List (List Name × Node) := bfs t.count [([], t.entries)]

/-- the walker's absolute path of a resource (`combine(dir_path, info.name)` from `/`) -/
def absPath (cs : List Name) : Str := '/' :: joinSlash cs

/-- `relpath(path + "/" if info.is_dir else path)` -/
def zipName (cs : List Name) (isDir : Bool) : Str :=
  relpath (if isDir then absPath cs ++ ['/'] else absPath cs)

/-- `relpath(path)` -/
def tarName (cs : List Name) : Str := relpath (absPath cs)

/-- the DOS time of a zip member keeps even seconds only -/
def zipTime (m : Int) : Int := 2 * (m / 2)

/-- `int(mtime)` -/
def tarTime (m : Int) : Int := m

/-- the members `write_zip` emits for the tree `t` whose resources have mtimes `mt` -/
def zipMembers (mt : List Name → Int) (t : Node) : List Member :=
  (walkInfo t).map fun e =>
    { name := zipName e.1 e.2.isDir, isDir := e.2.isDir, data := fileBytes e.2, mtime := zipTime (mt e.1) }

/-- the members `write_tar` emits -/
def tarMembers (mt : List Name → Int) (t : Node) : List Member :=
  (walkInfo t).map fun e =>
    { name := tarName e.1, isDir := e.2.isDir, data := fileBytes e.2, mtime := tarTime (mt e.1) }

/-! ## ReadZipFS -/

structure ZipFS where
  /-- the `MemoryFS` behind `_directory` (structure only: files are empty) -/
  dir : Node
  /-- the exception the *first* access raises when building the directory aborted; every
      later access sees the half-built directory -/
  err : Option Err
  /-- `self._zip` -/
  members : List Member
  /-- `self._zip_names`: normalised path (directories with a trailing `/`) ↦ the name the member is
      stored under; most recent assignment first, so the first match is the dict's value -/
  names : List (Str × Str)
  deriving Repr

def outErr : Ref.Out → Option Err
  | .ok _ => none
  | .err e => some e

/-- the body of the loop in `ReadZipFS._directory` for one member name -/
def dirStep (s : Ref.State) (name : Str) : Ref.State × Option Err :=
  if endsWithSlash name then
    let r := Ref.step s (.makedirs name true)
    (r.1, outErr r.2)
  else
    let r1 := Ref.step s (.makedirs (dirname name) true)
    match r1.2 with
    | .err e => (r1.1, some e)
    | .ok _ =>
      let r2 := Ref.step r1.1 (.create name false)
      (r2.1, outErr r2.2)

/-- a Python dict as an association list, newest assignment first -/
def assocGet (k : Str) : List (Str × Str) → Option Str
  | [] => none
  | (k', v) :: r => if k' = k then some v else assocGet k r

/-- the key under which the loop remembers the stored name of a member:
`forcedir(relpath(normpath(name)))` for a directory name, `relpath(normpath(name))` otherwise -/
def zipKey (name : Str) : Res Str :=
  match normpath name with
  | .err e => .err e
  | .ok n => .ok (if endsWithSlash name then forcedir (relpath n) else relpath n)

/-- the loop: `makedirs`/`create`, then `self._zip_names[_name] = zip_name`; stops at the first
exception -/
def buildDir : Ref.State → List (Str × Str) → List Str → Ref.State × List (Str × Str) × Option Err
  | s, nm, [] => (s, nm, none)
  | s, nm, n :: ns =>
    match dirStep s n with
    | (s', some e) => (s', nm, some e)
    | (s', none) =>
      match zipKey n with
      | .err e => (s', nm, some e)
      | .ok k => buildDir s' ((k, n) :: nm) ns

def readZip (ms : List Member) : ZipFS :=
  let r := buildDir Ref.State.empty [] (ms.map (·.name))
  { dir := r.1.root, err := r.2.2, members := ms, names := r.2.1 }

/-- `ZipFile.NameToInfo[name]`: the last member written under that name -/
def lookupLast (ms : List Member) (name : Str) : Option Member :=
  ms.reverse.find? (fun m => m.name == name)

namespace ZipFS

/-- a query on the directory `MemoryFS` -/
def dq (z : ZipFS) (op : Ref.Op) : Ref.Out := (Ref.step { root := z.dir, closed := false } op).2

/-- the `basic` namespace of `ReadZipFS.getinfo` -/
def basic (z : ZipFS) (p : Str) : Res (Name × Bool) :=
  match normpath p with
  | .err e => .err e
  | .ok n =>
    let ap := abspath n
    if ap == ['/'] then .ok ([], true)
    else match z.dq (.getinfo ap) with
      | .ok (.info name d _) => .ok (name, d)
      | .ok _ => .err .Leak
      | .err e => .err e

/-- `FS.exists` over `getinfo` -/
def exists_ (z : ZipFS) (p : Str) : Res Bool :=
  match z.basic p with
  | .ok _ => .ok true
  | .err .ResourceNotFound => .ok false
  | .err e => .err e

/-- `FS.isdir` over `getinfo` -/
def isdir (z : ZipFS) (p : Str) : Res Bool :=
  match z.basic p with
  | .ok (_, d) => .ok d
  | .err .ResourceNotFound => .ok false
  | .err e => .err e

/-- `FS.isfile` over `getinfo` -/
def isfile (z : ZipFS) (p : Str) : Res Bool :=
  match z.basic p with
  | .ok (_, d) => .ok (!d)
  | .err .ResourceNotFound => .ok false
  | .err e => .err e

/-- `ReadZipFS.listdir` = the directory's listdir -/
def listdir (z : ZipFS) (p : Str) : Res (List Name) :=
  match z.dq (.listdir p) with
  | .ok (.names l) => .ok l
  | .ok _ => .err .Leak
  | .err e => .err e

/-- `self._zip_names.get(path)`, falling back to the path itself -/
def stored (z : ZipFS) (path : Str) : Str := (assocGet path z.names).getD path

/-- `_path_to_zip_name` -/
def zipNameOf (z : ZipFS) (p : Str) : Res Str :=
  match normpath p with
  | .err e => .err e
  | .ok n =>
    let r := relpath n
    match z.dq (.isdir r) with
    | .ok (.bool true) => .ok (z.stored (forcedir r))
    | .ok _ => .ok (z.stored r)
    | .err e => .err e

/-- the member a zip name resolves to; a missing name is `KeyError` -/
def memberOf (z : ZipFS) (zn : Str) : Res Member :=
  match lookupLast z.members zn with
  | some m => .ok m
  | none => .err .Leak

/-- `openbin(path, "r").read()` -/
def openRead (z : ZipFS) (p : Str) : Res Bytes :=
  match z.dq (.exists_ p) with
  | .err e => .err e
  | .ok (.bool false) => .err .ResourceNotFound
  | .ok _ =>
    match z.dq (.isdir p) with
    | .err e => .err e
    | .ok (.bool true) => .err .FileExpected
    | .ok _ =>
      match z.zipNameOf p with
      | .err e => .err e
      | .ok zn => (z.memberOf zn).map (·.data)

/-- `ReadZipFS.readbytes` (its own override: a directory is "not found") -/
def readbytes (z : ZipFS) (p : Str) : Res Bytes :=
  match z.dq (.isfile p) with
  | .err e => .err e
  | .ok (.bool true) =>
    (match z.zipNameOf p with
     | .err e => .err e
     | .ok zn => (z.memberOf zn).map (·.data))
  | .ok _ => .err .ResourceNotFound

end ZipFS

/-- what `getinfo(path, ["details"])` tells: name, is_dir, and size / modified when the
`details` namespace carries them -/
structure Details where
  name : Name
  isDir : Bool
  size : Option Nat
  modified : Option Int
  deriving Repr, DecidableEq

/-- `ReadZipFS.getinfo(path, ["details"])`; a `KeyError` of `self._zip.getinfo` is swallowed
("implied directory") and leaves the namespace out -/
def ZipFS.details (z : ZipFS) (p : Str) : Res Details :=
  match normpath p with
  | .err e => .err e
  | .ok n =>
    let ap := abspath n
    if ap == ['/'] then .ok ⟨[], true, none, none⟩
    else match z.dq (.getinfo ap) with
      | .err e => .err e
      | .ok (.info name d _) =>
        (match z.zipNameOf p with
         | .err e => .err e
         | .ok zn =>
           match lookupLast z.members zn with
           | none => .ok ⟨name, d, none, none⟩
           | some m => .ok ⟨name, d, some m.data.length, some m.mtime⟩)
      | .ok _ => .err .Leak

/-! ## ReadTarFS -/

/-- `OrderedDict.__setitem__`: an existing key keeps its position and takes the new value -/
def odPut (k : Str) (m : Member) : List (Str × Member) → List (Str × Member)
  | [] => [(k, m)]
  | (k', m') :: es => if k' = k then (k', m) :: es else (k', m') :: odPut k m es

def odGet (k : Str) : List (Str × Member) → Option Member
  | [] => none
  | (k', m') :: es => if k' = k then some m' else odGet k es

/-- the key `_list_tar` yields for a member name, if any -/
def tarKey (name : Str) : Option Str :=
  match normpath (stripSlash name) with
  | .err _ => none                       -- IllegalBackReference: "must be up to no good"
  | .ok n => if n == [] then none else some n

/-- `OrderedDict(_list_tar())` -/
def tarEntries (ms : List Member) : List (Str × Member) :=
  ms.foldl (fun acc m => match tarKey m.name with
    | none => acc
    | some k => odPut k m acc) []

structure TarFS where
  entries : List (Str × Member)
  deriving Repr

def readTar (ms : List Member) : TarFS := ⟨tarEntries ms⟩

/-- `OrderedDict.fromkeys(content)` as a list: first occurrences, in order -/
def dedupe : List Str → List Str
  | [] => []
  | x :: xs => x :: (dedupe xs).filter (fun y => y != x)

def mapRes (f : α → Res β) : List α → Res (List β)
  | [] => .ok []
  | x :: xs =>
    match f x with
    | .err e => .err e
    | .ok y => match mapRes f xs with
      | .err e => .err e
      | .ok ys => .ok (y :: ys)

namespace TarFS

/-- `relpath(self.validatepath(path))` (ReadTarFS declares no invalid path characters) -/
def rel (p : Str) : Res Str :=
  match normpath p with
  | .err e => .err e
  | .ok n => .ok (relpath (abspath n))

def isdir (z : TarFS) (p : Str) : Res Bool :=
  match rel p with
  | .err e => .err e
  | .ok r =>
    if r == [] then .ok true            -- the root is a directory even without members
    else match odGet r z.entries with
      | some m => .ok m.isDir
      | none => .ok (z.entries.any fun e => isbase r e.1)

def isfile (z : TarFS) (p : Str) : Res Bool :=
  match rel p with
  | .err e => .err e
  | .ok r =>
    match odGet r z.entries with
    | some m => .ok (!m.isDir)
    | none => .ok false

/-- `ReadTarFS.getinfo(path, ["details"])` -/
def details (z : TarFS) (p : Str) : Res Details :=
  match rel p with
  | .err e => .err e
  | .ok r =>
    if r == [] then .ok ⟨[], true, none, none⟩
    else match odGet r z.entries with
      | some m => .ok ⟨basename r, m.isDir, some m.data.length, some m.mtime⟩
      | none =>
        match z.isdir r with
        | .err e => .err e
        | .ok false => .err .ResourceNotFound
        | .ok true => .ok ⟨basename r, true, some 0, none⟩

/-- `FS.exists` over `getinfo` -/
def exists_ (z : TarFS) (p : Str) : Res Bool :=
  match z.details p with
  | .ok _ => .ok true
  | .err .ResourceNotFound => .ok false
  | .err e => .err e

/-- `parts(child)[1]` -/
def firstPart (child : Str) : Res Str :=
  match parts child with
  | .err e => .err e
  | .ok (_ :: x :: _) => .ok x
  | .ok _ => .err .IndexError

/-- the generator pipeline of `ReadTarFS.listdir`: the names directly below the relative
normalised path `r`, computed from the keys with `isbase` / `frombase` / `parts` -/
def childNames (z : TarFS) (r : Str) : Res (List Name) :=
  match mapRes (fun e => frombase r e.1) (z.entries.filter fun e => isbase r e.1) with
  | .err e => .err e
  | .ok children =>
    match mapRes firstPart (children.filter fun c => relpath c != []) with
    | .err e => .err e
    | .ok content => .ok (dedupe content)

def listdir (z : TarFS) (p : Str) : Res (List Name) :=
  match rel p with
  | .err e => .err e
  | .ok r =>
    match z.details p with
    | .err e => .err e
    | .ok d => if !d.isDir then .err .DirectoryExpected else z.childNames r

/-- `openbin(path, "r").read()` (also `readbytes`, which ReadTarFS inherits) -/
def openRead (z : TarFS) (p : Str) : Res Bytes :=
  match rel p with
  | .err e => .err e
  | .ok r =>
    match odGet r z.entries with
    | none => .err .ResourceNotFound
    | some m => if m.isDir then .err .FileExpected else .ok m.data

end TarFS

/-! ## what a client observes at one path, and what "the same tree" means -/

/-- the answers of a read-only archive filesystem at one path string -/
structure Obs where
  exists_ : Res Bool
  isdir : Res Bool
  isfile : Res Bool
  listdir : Res (List Name)
  /-- `openbin(path).read()` -/
  read : Res Bytes
  readbytes : Res Bytes
  /-- `getinfo(path, ["details"])` -/
  details : Res Details

def ZipFS.obs (z : ZipFS) (p : Str) : Obs :=
  ⟨z.exists_ p, z.isdir p, z.isfile p, z.listdir p, z.openRead p, z.readbytes p, z.details p⟩

def TarFS.obs (z : TarFS) (p : Str) : Obs :=
  ⟨z.exists_ p, z.isdir p, z.isfile p, z.listdir p, z.openRead p, z.openRead p, z.details p⟩

/-- The observations `o`, made at a path whose components are `cs`, are exactly those the source
tree `t` determines there: existence and type, the directory listing (as a set: listing order
is unspecified), the file bytes through both read paths, and name / size / mtime (`mtime` is
the source mtime at the resolution of the format).  `readbytes` of a directory is left open
(see `zip_readbytes_dir_counterexample`). -/
def Agree (t : Node) (mtime : Int) (cs : List Name) (o : Obs) : Prop :=
  match t.get cs with
  | none =>
    o.exists_ = .ok false ∧ o.isdir = .ok false ∧ o.isfile = .ok false ∧
    o.listdir = .err .ResourceNotFound ∧ o.read = .err .ResourceNotFound ∧
    o.readbytes = .err .ResourceNotFound ∧ o.details = .err .ResourceNotFound
  | some (.file b) =>
    o.exists_ = .ok true ∧ o.isdir = .ok false ∧ o.isfile = .ok true ∧
    o.listdir = .err .DirectoryExpected ∧ o.read = .ok b ∧ o.readbytes = .ok b ∧
    o.details = .ok ⟨Ref.lastName cs, false, some b.length, some mtime⟩
  | some (.dir es) =>
    o.exists_ = .ok true ∧ o.isdir = .ok true ∧ o.isfile = .ok false ∧
    (∃ l, o.listdir = .ok l ∧ l.Perm (Ents.names es)) ∧ o.read = .err .FileExpected ∧
    o.details = .ok (if cs = [] then ⟨[], true, none, none⟩
                     else ⟨Ref.lastName cs, true, some 0, some mtime⟩)

end Fs.Archive
