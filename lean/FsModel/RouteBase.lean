/-
  FsModel.RouteBase — what MountFS and MultiFS have in common (C17).

  A composite filesystem owns no data: every public method it defines itself (a *primitive*,
  `Prim`) forwards to one or several member filesystems, and every method it inherits from
  `fs/base.py` is a *program over those primitives* (`Prog`).  Members are `Ref.State`s; a
  member call is `Ref.step` with the member-relative path; every member call is recorded
  in a trace of `Call`s (member index, method received, path received) — the thing the
  logging proxies of the harness observe on the real code.
-/
import FsModel.Ref

namespace Fs.Route
open Fs Fs.Path Fs.Ref

/-- methods a member filesystem can receive from a composite -/
inductive Meth where
  | getinfo | listdir | scandir | makedir | makedirs | openbin | open_ | remove | removedir
  | readbytes | getsize | gettype | isdir | isfile | exists_ | setinfo | validatepath
  | upload | writebytes | close | readtext | writetext | download
  deriving DecidableEq, Repr, Inhabited

def Meth.name : Meth → String
  | .getinfo => "getinfo" | .listdir => "listdir" | .scandir => "scandir" | .makedir => "makedir"
  | .makedirs => "makedirs" | .openbin => "openbin" | .open_ => "open" | .remove => "remove"
  | .removedir => "removedir" | .readbytes => "readbytes" | .getsize => "getsize"
  | .gettype => "gettype" | .isdir => "isdir" | .isfile => "isfile" | .exists_ => "exists"
  | .setinfo => "setinfo" | .validatepath => "validatepath" | .upload => "upload"
  | .writebytes => "writebytes" | .close => "close" | .readtext => "readtext"
  | .writetext => "writetext" | .download => "download"

deriving instance DecidableEq for Ref.Op

/-- one call received by a member: which member, which method, which path argument, and the
call's effect on the member as a reference operation (on that path) -/
structure Call where
  fs : Nat
  meth : Meth
  path : Str
  op : Ref.Op
  deriving DecidableEq, Repr, Inhabited

/-- the member filesystems of a composite, by index -/
abbrev Fss := Nat → Ref.State

def Fss.set (f : Fss) (i : Nat) (v : Ref.State) : Fss := fun j => if j = i then v else f j

def Fss.ofList (l : List Ref.State) : Fss := fun i =>
  match l[i]? with
  | some s => s
  | none => Ref.State.empty

/-- The public methods MountFS / MultiFS define themselves, as invoked by clients and by the
inherited `fs/base.py` defaults.  `open(p, "rb" | "wb" | "ab")` appear as `openRead`
(read everything), `openWrite` (truncate/create, write nothing) and `openAppend`;
`scanFirst` is `next(iter(scandir(p)), None) is None` (how `FS.isempty` uses `scandir`). -/
inductive Prim where
  | getinfo (p : Str) | listdir (p : Str) | scandir (p : Str) | scanFirst (p : Str)
  | makedir (p : Str) (recreate : Bool) | makedirs (p : Str) (recreate : Bool)
  | openbin (p : Str) (mode : Str)
  | openRead (p : Str) | openWrite (p : Str) | openAppend (p : Str) (data : Bytes)
  | remove (p : Str) | removedir (p : Str) | readbytes (p : Str) | getsize (p : Str)
  | gettype (p : Str) | isdir (p : Str) | isfile (p : Str) | setinfo (p : Str)
  | upload (p : Str) (data : Bytes) | writebytes (p : Str) (data : Bytes)
  | readtext (p : Str) | download (p : Str) | writetext (p : Str) (data : Bytes)
  | open_ (p : Str) (mode : Str) (data : Option Bytes)
  deriving Repr, Inhabited

def Prim.path : Prim → Str
  | .getinfo p | .listdir p | .scandir p | .scanFirst p | .makedir p _ | .makedirs p _
  | .openbin p _ | .openRead p | .openWrite p | .openAppend p _ | .remove p | .removedir p
  | .readbytes p | .getsize p | .gettype p | .isdir p | .isfile p | .setinfo p
  | .upload p _ | .writebytes p _ | .readtext p | .download p | .writetext p _ | .open_ p _ _ => p

/-- the method name the member receives -/
def Prim.meth : Prim → Meth
  | .getinfo _ => .getinfo | .listdir _ => .listdir | .scandir _ => .scandir
  | .scanFirst _ => .scandir | .makedir _ _ => .makedir | .makedirs _ _ => .makedirs
  | .openbin _ _ => .openbin | .openRead _ => .open_ | .openWrite _ => .open_
  | .openAppend _ _ => .open_ | .remove _ => .remove | .removedir _ => .removedir
  | .readbytes _ => .readbytes | .getsize _ => .getsize | .gettype _ => .gettype
  | .isdir _ => .isdir | .isfile _ => .isfile | .setinfo _ => .setinfo
  | .upload _ _ => .upload | .writebytes _ _ => .writebytes
  | .readtext _ => .readtext | .download _ => .download | .writetext _ _ => .writetext
  | .open_ _ _ _ => .open_

/-- `mode.replace("t", "")`: the mode `FS.open` hands to `openbin` -/
def binMode (m : Str) : Str := m.filter (· != 't')

/-- `len(set(mode)) == len(mode)` -/
def noRepeat : Str → Bool
  | [] => true
  | c :: cs => !cs.contains c && noRepeat cs

/-- `Mode(mode)` (the constructor validates; also `validate_open_mode`): non-empty, characters
among `rwxtab+`, first character among `rwxa`, not both `t` and `b`, and (since 10e1506, the
rules of `io.open`) no repeated character and exactly one of `r w x a`; `false` = `ValueError` -/
def modeOk (m : Str) : Bool :=
  match m with
  | [] => false
  | c :: _ =>
    m.all (fun x => modeValidChars.contains x) && ['r', 'w', 'x', 'a'].contains c &&
      !(m.contains 't' && m.contains 'b') && noRepeat m &&
      (['r', 'w', 'x', 'a'].filter fun x => m.contains x).length == 1

/-- `check_writable(mode)` = `Mode(mode).writing` -/
def checkWritable (m : Str) : Bool :=
  m.contains 'w' || m.contains 'a' || m.contains '+' || m.contains 'x'

def modeWb : Str := ['w', 'b']

/-- the effect of the forwarded call on the member, as a reference operation on the
member-relative path `r` -/
def Prim.memberOp : Prim → Str → Ref.Op
  | .getinfo _, r => .getinfo r
  | .listdir _, r => .listdir r
  | .scandir _, r => .listdir r
  | .scanFirst _, r => .isempty r
  | .makedir _ rc, r => .makedir r rc
  | .makedirs _ rc, r => .makedirs r rc
  | .openbin _ m, r => .openbin r m
  | .openRead _, r => .readbytes r
  | .openWrite _, r => .openbin r modeWb
  | .openAppend _ d, r => .appendbytes r d
  | .remove _, r => .remove r
  | .removedir _, r => .removedir r
  | .readbytes _, r => .readbytes r
  | .getsize _, r => .getsize r
  | .gettype _, r => .gettype r
  | .isdir _, r => .isdir r
  | .isfile _, r => .isfile r
  | .setinfo _, r => .settimes r
  | .upload _ d, r => .writebytes r d
  | .writebytes _ d, r => .writebytes r d
  | .readtext _, r => .readbytes r
  | .download _, r => .readbytes r
  | .writetext _ d, r => .writebytes r d
  | .open_ _ m _, r => .openbin r (binMode m)   -- the open itself; what is then written: `openCall`

/-- does the primitive create or write data (the calls MultiFS must send to its write layer)? -/
def Prim.writes : Prim → Bool
  | .makedir _ _ | .makedirs _ _ | .openWrite _ | .openAppend _ _ | .setinfo _
  | .upload _ _ | .writebytes _ _ => true
  | .writetext _ _ => true
  | .openbin _ m | .open_ _ m _ => m.contains 'w' || m.contains 'a' || m.contains '+' || m.contains 'x'
  | _ => false

/-- `member.validatepath(r)` (FS.validatepath of a MemoryFS-like member): closed check, invalid
characters, then `abspath(normpath(r))` — it fails exactly when the reference `exists` does,
and like it changes nothing -/
def validateOp (r : Str) : Ref.Op := .exists_ r

def memberValidate (m : Ref.State) (r : Str) : Res Unit :=
  match (Ref.step m (validateOp r)).2 with
  | .err e => .err e
  | .ok _ => .ok ()

/-- forward one call to member `i`: the member makes a reference step -/
def memberCall (f : Fss) (i : Nat) (meth : Meth) (path : Str) (op : Ref.Op) : Fss × Out × Call :=
  let m := Ref.step (f i) op
  (f.set i m.1, m.2, ⟨i, meth, path, op⟩)

/-- What a client that got a file object from `open(r, mode)` and wrote `d` at the position the
mode starts at, then closed it, did to the file (`old` = its content when opened): `a` appends,
`w`/`x` start from an empty file, `r+` overwrites from the start.  `none`: nothing is written
(no data, or a mode that cannot write). -/
def writeEffect (r bm : Str) (data : Option Bytes) (old : Bytes) : Option Ref.Op :=
  match data with
  | none => none
  | some d =>
    if !checkWritable bm then none
    else if bm.contains 'a' then some (.appendbytes r d)
    else if bm.contains 'w' || bm.contains 'x' then some (.writebytes r d)
    else some (.writebytes r (d ++ old.drop d.length))

/-- `member.open(r, mode)`, then optionally one `write(d)`, then `close()`: the member opens the
file (`openbin` with `mode` without `t`: verdict, creation, truncation) and, if that succeeded,
the written data lands as `writeEffect` says.  One call in the trace. -/
def openCall (f : Fss) (i : Nat) (r bm : Str) (data : Option Bytes) : Fss × Out × Call :=
  let m1 := Ref.step (f i) (.openbin r bm)
  let c : Call := ⟨i, .open_, r, .openbin r bm⟩
  let old : Bytes := match (Ref.step m1.1 (.readbytes r)).2 with
    | .ok (.bytes b) => b
    | _ => []
  match m1.2, writeEffect r bm data old with
  | .ok _, some w =>
    let m2 := Ref.step m1.1 w
    (f.set i m2.1, m2.2, c)
  | _, _ => (f.set i m1.1, m1.2, c)

/-- forward the primitive to member `i` with the member-relative path -/
def forward (f : Fss) (i : Nat) (pr : Prim) (path : Str) : Fss × Out × Call :=
  match pr with
  | .open_ _ m d => openCall f i path (binMode m) d
  | _ => memberCall f i pr.meth path (pr.memberOp path)

/-- `abspath(normpath(p))` when it succeeds (the value `validatepath` returns) -/
def absnorm (p : Str) : Str :=
  match normpath p with
  | .ok n => abspath n
  | .err _ => p

/-! ### programs over the primitives: the inherited defaults of fs/base.py -/

/-- A client of a composite filesystem that only uses its public methods.  `validate p k` is
`self.validatepath(p)` (on failure the program ends with that error, on success it continues
with `k`; the returned value is always `absnorm p`); `check k` is `self.check()`. -/
inductive Prog where
  | ret (o : Out)
  | call (p : Prim) (k : Out → Prog)
  | validate (p : Str) (k : Prog)
  | check (k : Prog)

/-- what a composite has to provide: its primitives, its `validatepath`, its closed flag -/
structure Sem (σ : Type) where
  prim : σ → Prim → σ × Out × List Call
  validate : σ → Str → Res Unit × List Call
  closed : σ → Bool

def Prog.run (sem : Sem σ) : Prog → σ → σ × Out × List Call
  | .ret o, s => (s, o, [])
  | .call p k, s =>
    let r1 := sem.prim s p
    let r2 := (k r1.2.1).run sem r1.1
    (r2.1, r2.2.1, r1.2.2 ++ r2.2.2)
  | .validate p k, s =>
    match sem.validate s p with
    | (.err e, t) => (s, .err e, t)
    | (.ok _, t) =>
      let r2 := k.run sem s
      (r2.1, r2.2.1, t ++ r2.2.2)
  | .check k, s => if sem.closed s then (s, .err .FilesystemClosed, []) else k.run sem s

def one (p : Prim) : Prog := .call p .ret

/-- `FS.exists`: `try: self.getinfo(path) except ResourceNotFound: False else: True` -/
def existsThen (p : Str) (k : Bool → Prog) : Prog :=
  .call (.getinfo p) fun
    | .ok _ => k true
    | .err .ResourceNotFound => k false
    | .err e => .ret (.err e)

def baseExists (p : Str) : Prog := existsThen p fun b => .ret (.ok (.bool b))

/-- `FS.create(path, wipe)` continued by `k created` -/
def createThen (p : Str) (wipe : Bool) (k : Bool → Prog) : Prog :=
  let doCreate : Prog := .call (.openWrite p) fun
    | .ok _ => k true
    | .err e => .ret (.err e)
  if wipe then doCreate
  else existsThen p fun b => if b then k false else doCreate

def baseCreate (p : Str) (wipe : Bool) : Prog := createThen p wipe fun b => .ret (.ok (.bool b))

/-- `FS.touch`: `if not self.create(path): self.setinfo(path, {...times...})` -/
def baseTouch (p : Str) : Prog :=
  createThen p false fun created => if created then .ret (.ok .unit) else one (.setinfo p)

def isDirInfo : Val → Bool
  | .info _ d _ => d
  | _ => false

/-- the tail of `FS.makedirs`: `makedir` every missing intermediate directory, then the
directory itself (each time tolerating `DirectoryExists` when `recreate`), then `opendir` -/
def makeLoop (p : Str) (recreate : Bool) : List Str → Prog
  | [] =>
    .call (.makedir p false) fun o =>
      let opendir : Prog := .call (.getinfo p) fun
        | .ok v => if isDirInfo v then .ret (.ok .unit) else .ret (.err .DirectoryExpected)
        | .err e => .ret (.err e)
      match o with
      | .ok _ => opendir
      | .err .DirectoryExists => if recreate then opendir else .ret (.err .DirectoryExists)
      | .err e => .ret (.err e)
  | d :: ds =>
    .call (.makedir d false) fun
      | .ok _ => makeLoop p recreate ds
      | .err .DirectoryExists => if recreate then makeLoop p recreate ds else .ret (.err .DirectoryExists)
      | .err e => .ret (.err e)

/-- `tools.get_intermediate_dirs`: walk `recursepath(abspath(path), reverse=True)` until an
existing directory is met; `acc` is `intermediates` in append order -/
def interLoop (p : Str) (recreate : Bool) : List Str → List Str → Prog
  | [], acc => makeLoop p recreate acc.reverse.dropLast
  | q :: qs, acc =>
    .call (.getinfo q) fun
      | .err .ResourceNotFound => interLoop p recreate qs (acc ++ [abspath q])
      | .err e => .ret (.err e)
      | .ok v => if isDirInfo v then makeLoop p recreate acc.reverse.dropLast
                 else .ret (.err .DirectoryExpected)

/-- `FS.makedirs` (the base-class default, which MountFS inherits) -/
def baseMakedirs (p : Str) (recreate : Bool) : Prog :=
  .check <|
    match recursepath (abspath p) true with
    | .err e => .ret (.err e)
    | .ok paths => interLoop p recreate paths []

def bytesOf : Out → Bytes
  | .ok (.bytes b) => b
  | _ => []

/-- `FS.move` (no `supports_rename` in the meta of a composite: always copy + remove) -/
def baseMove (src dst : Str) (overwrite : Bool) : Prog :=
  .validate src <| .validate dst <|
    let ns := absnorm src
    let nd := absnorm dst
    let body : Prog :=
      .call (.getinfo ns) fun
        | .err e => .ret (.err e)
        | .ok v =>
          if isDirInfo v then .ret (.err .FileExpected)
          else if ns = nd then .ret (.ok .unit)
          else .call (.openRead ns) fun
            | .err e => .ret (.err e)
            | .ok rd => .call (.upload nd (bytesOf (.ok rd))) fun
              | .err e => .ret (.err e)
              | .ok _ => one (.remove ns)
    if overwrite then body
    else existsThen nd fun b => if b then .ret (.err .DestinationExists) else body

/-- `FS.copy` -/
def baseCopy (src dst : Str) (overwrite : Bool) : Prog :=
  .validate src <| .validate dst <|
    let ns := absnorm src
    let nd := absnorm dst
    let body : Prog :=
      if ns = nd then .ret (.err .IllegalDestination)
      else .call (.openRead ns) fun
        | .err e => .ret (.err e)
        | .ok rd => one (.upload nd (bytesOf (.ok rd)))
    if overwrite then body
    else existsThen nd fun b => if b then .ret (.err .DestinationExists) else body

/-- Reference operations as programs: the ones both composites inherit from `fs/base.py` or
define as a plain primitive.  `makedirs` differs (MountFS inherits it, MultiFS defines it);
`removetree`, `movedir`, `copydir` are walker-based bulk programs of `fs/base.py`,
`fs/copy.py`, `fs/move.py`: they are *some* `Prog` (covered by the frame theorems for
arbitrary programs) but are not transcribed here (`none`). -/
def commonProg : Ref.Op → Option Prog
  | .exists_ p => some (baseExists p)
  | .isdir p => some (one (.isdir p))
  | .isfile p => some (one (.isfile p))
  | .listdir p => some (one (.listdir p))
  | .getsize p => some (one (.getsize p))
  | .gettype p => some (one (.gettype p))
  | .isempty p => some (one (.scanFirst p))
  | .getinfo p => some (one (.getinfo p))
  | .readbytes p => some (one (.readbytes p))
  | .makedir p rc => some (one (.makedir p rc))
  | .makedirs _ _ => none
  | .writebytes p d => some (one (.writebytes p d))
  | .appendbytes p d => some (one (.openAppend p d))
  | .create p w => some (baseCreate p w)
  | .touch p => some (baseTouch p)
  | .settimes p => some (one (.setinfo p))
  | .openbin p m => some (one (.openbin p m))
  | .remove p => some (one (.remove p))
  | .removedir p => some (one (.removedir p))
  | .removetree _ => none
  | .move s d ow => some (baseMove s d ow)
  | .copy s d ow => some (baseCopy s d ow)
  | .movedir _ _ _ => none
  | .copydir _ _ _ => none
  | .close => none

/-- is the reference operation one that creates or writes (never removes) data? -/
def creatingOrWriting : Ref.Op → Bool
  | .makedir _ _ | .makedirs _ _ | .writebytes _ _ | .appendbytes _ _ | .create _ _
  | .touch _ | .settimes _ | .copy _ _ _ => true
  | .openbin _ m => m.contains 'w' || m.contains 'a' || m.contains '+' || m.contains 'x'
  | _ => false

end Fs.Route
