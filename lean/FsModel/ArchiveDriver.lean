/-
  FsModel.ArchiveDriver — line-protocol commands over the archive model.

    archive.members   zip|tar <tree> <mtimes>     → M<member>;<member>…
    archive.read      zip|tar <members>           → err=<E|-> | S<entry>;<entry>…
    archive.roundtrip zip|tar <tree> <mtimes>     → like archive.read on the members of <tree>
    archive.q         zip|tar <members> <hexpath> → every query of the read model on one path

  <tree>    : the flat format of RefDriver (`T…`)
  <mtimes>  : `-` or `;`-separated `<hexpath>:<int>` (component path `/`-joined); default 0
  <member>  : `<hexname>:<D|F>:<hexdata>:<int mtime>`
  <entry>   : `<D|F|E>,<hexpath>,<open>,<readbytes>,<details>` in the order a recursive
              `listdir` from the root meets them; `L,<hexpath>,<err>` = listdir failed there
-/
import FsModel.Archive
import FsModel.RefDriver
import FsModel.Proto

namespace Fs.ArchiveDriver
open Fs Fs.Archive Fs.Proto

def memberStr (m : Member) : String :=
  strToHex m.name ++ ":" ++ (if m.isDir then "D" else "F") ++ ":" ++ bytesToHex m.data ++ ":" ++ toString m.mtime

def membersStr (ms : List Member) : String := "M" ++ ";".intercalate (ms.map memberStr)

def parseMember (s : String) : Option Member :=
  match s.splitOn ":" with
  | [n, k, d, t] => do
    let name ← hexToStr n
    let data ← hexToBytes d
    let mt ← t.toInt?
    some { name := name, isDir := k == "D", data := data, mtime := mt }
  | _ => none

def parseMembers (s : String) : Option (List Member) :=
  if !s.startsWith "M" then none
  else
    let body := (s.drop 1).toString
    if body.isEmpty then some [] else (body.splitOn ";").mapM parseMember

def parseMtimes (s : String) : Option (List Name → Int) :=
  if s == "-" then some (fun _ => 0)
  else do
    let tbl ← (s.splitOn ";").mapM fun e =>
      match e.splitOn ":" with
      | [p, t] => do
        let path ← hexToStr p
        let v ← t.toInt?
        some (Path.splitSlash path, v)
      | _ => none
    some fun cs => ((tbl.find? fun e => e.1 == cs).map (·.2)).getD 0

/-- the queries a snapshot needs, as closures over one read model -/
structure View where
  err : Option Err
  listdir : Str → Res (List Name)
  isdir : Str → Res Bool
  isfile : Str → Res Bool
  exists_ : Str → Res Bool
  openRead : Str → Res Bytes
  readbytes : Str → Res Bytes
  details : Str → Res Details

def zipView (z : ZipFS) : View :=
  { err := z.err, listdir := z.listdir, isdir := z.isdir, isfile := z.isfile, exists_ := z.exists_,
    openRead := z.openRead, readbytes := z.readbytes, details := z.details }

def tarView (z : TarFS) : View :=
  { err := none, listdir := z.listdir, isdir := z.isdir, isfile := z.isfile, exists_ := z.exists_,
    openRead := z.openRead, readbytes := z.openRead, details := z.details }

def resStr (f : α → String) : Res α → String
  | .ok a => "ok:" ++ f a
  | .err e => "err:" ++ e.name

def optStr (f : α → String) : Option α → String
  | some a => f a
  | none => "-"

def detStr (d : Details) : String :=
  strToHex d.name ++ ":" ++ boolStr d.isDir ++ ":" ++ optStr toString d.size ++ ":" ++ optStr toString d.modified

/-- recursive listing from the root, like the harness' snapshot of the real filesystem -/
partial def snap (v : View) (path : Str) (depth : Nat) : List String :=
  match v.listdir (if path.isEmpty then ['/'] else path) with
  | .err e => ["L," ++ strToHex path ++ "," ++ e.name]
  | .ok names =>
    names.flatMap fun name =>
      let p := if path.isEmpty then name else path ++ '/' :: name
      let tail := "," ++ strToHex p ++ "," ++ resStr bytesToHex (v.openRead p) ++ "," ++
        resStr bytesToHex (v.readbytes p) ++ "," ++ resStr detStr (v.details p)
      match v.isdir p with
      | .err e => ["E" ++ tail ++ "," ++ e.name]
      | .ok true => ("D" ++ tail) :: (if depth < 12 then snap v p (depth + 1) else [])
      | .ok false => ["F" ++ tail]

def readReply (v : View) : String :=
  "err=" ++ optStr Err.name v.err ++ " | S" ++ ";".intercalate (snap v [] 0)

def queryReply (v : View) (p : Str) : String :=
  " | ".intercalate
    [ "exists=" ++ resStr boolStr (v.exists_ p), "isdir=" ++ resStr boolStr (v.isdir p),
      "isfile=" ++ resStr boolStr (v.isfile p), "listdir=" ++ resStr strList (v.listdir p),
      "open=" ++ resStr bytesToHex (v.openRead p), "readbytes=" ++ resStr bytesToHex (v.readbytes p),
      "details=" ++ resStr detStr (v.details p) ]

def viewOf (fmt : String) (ms : List Member) : Option View :=
  match fmt with
  | "zip" => some (zipView (readZip ms))
  | "tar" => some (tarView (readTar ms))
  | _ => none

def membersOf (fmt : String) (mt : List Name → Int) (t : Node) : Option (List Member) :=
  match fmt with
  | "zip" => some (zipMembers mt t)
  | "tar" => some (tarMembers mt t)
  | _ => none

def handle (cmd : String) (args : List String) : Option String :=
  match cmd with
  | "archive.members" => do
    let fmt ← args[0]?
    let t ← RefDriver.loadTree (← args[1]?)
    let mt ← parseMtimes (← args[2]?)
    let ms ← membersOf fmt mt t
    some (membersStr ms)
  | "archive.read" => do
    let fmt ← args[0]?
    let ms ← parseMembers (← args[1]?)
    let v ← viewOf fmt ms
    some (readReply v)
  | "archive.roundtrip" => do
    let fmt ← args[0]?
    let t ← RefDriver.loadTree (← args[1]?)
    let mt ← parseMtimes (← args[2]?)
    let ms ← membersOf fmt mt t
    let v ← viewOf fmt ms
    some (readReply v)
  | "archive.q" => do
    let fmt ← args[0]?
    let ms ← parseMembers (← args[1]?)
    let p ← arg args 2
    let v ← viewOf fmt ms
    some (queryReply v p)
  | _ => none

end Fs.ArchiveDriver
