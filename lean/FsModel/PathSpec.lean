/-
  FsModel.PathSpec — the independent component-list semantics of PyFilesystem paths.
  A path denotes a list of components; normalisation resolves `.`/`..`/empty components
  left to right and fails when `..` would climb above the starting point.
-/
import FsModel.Path

namespace Fs.PathSpec
open Fs Fs.Path

def dot : Str := ['.']
def dotdot : Str := ['.', '.']

/-- one resolution step on the (in-order) stack of components -/
def step (st : Option (List Str)) (c : Str) : Option (List Str) :=
  match st with
  | none => none
  | some s =>
    if c = [] ∨ c = dot then some s
    else if c = dotdot then (if s = [] then none else some s.dropLast)
    else some (s ++ [c])

/-- component-wise resolution; `none` = climbs above the starting point -/
def resolve (cs : List Str) : Option (List Str) := cs.foldl step (some [])

/-- does the component sequence climb above its starting point? -/
def climbs (cs : List Str) : Prop := resolve cs = none

/-- reference normalisation: resolve the `/`-separated components, keep absoluteness -/
def specNorm (p : Str) : Res Str :=
  match resolve (splitSlash p) with
  | none => .err .IllegalBackReference
  | some cs => .ok ((if startsWithSlash p then ['/'] else []) ++ joinSlash cs)

/-- a clean component: non-empty, not `.`/`..`, contains no `/` -/
def CleanComp (c : Str) : Prop := c ≠ [] ∧ c ≠ dot ∧ c ≠ dotdot ∧ '/' ∉ c

def Clean (cs : List Str) : Prop := ∀ c ∈ cs, CleanComp c

/-- a normalised path: what `normpath` returns -/
def Norm (p : Str) : Prop := normpath p = .ok p

/-- components of a path (leading slash ignored), by the spec -/
def comps (p : Str) : List Str := (splitSlash p).filter (· ≠ [])

end Fs.PathSpec
