/-
  FsModel.Guard — read-only wrappers (C04) and the closed protocol of wrappers (C18) over the
  *generated* `GuardTable` (FsModel/Generated/GuardTable.lean, rebuilt from the sources on every
  run by harness/extract/generate.py).

  * `kindOf`      hand-written classification of every public name into mutator / opener /
                  query / helper.  For the operations that `Ref.Op` has, the classification is
                  *proved* against `Ref.step` (`FsProofs/C04.lean: mutator_iff`); for the others
                  (text/file variants, deprecated aliases, setinfo, upload ...) it is declared
                  here and validated dynamically.
  * `harmlessN`   `Safe`: the method cannot change the state of the underlying filesystem —
                  decided from the shape table and the call graph of the base-class defaults.
  * `Exec`        a small operational semantics of "calling a method of the wrapper" in which a
                  base-class default is any sequence of the self-calls the extractor found
                  (or of *any* public method when `self` escapes); `Safe` is proved sound for it.
  * `RO.step`     the executable wrapper semantics over `Ref.step`, driven by the tables.
-/
import FsModel.Ref
import FsModel.GuardTypes
import FsModel.Generated.GuardTable

namespace Fs.Guard
open Fs Fs.Ref Fs.Generated

/-! ### classification of the public API -/

inductive Kind where
  | mutator   -- may change stored data or metadata
  | opener    -- open / openbin: a mutator exactly when the mode allows writing
  | query     -- reads stored data or metadata
  | helper    -- neither reads nor changes stored data (allow-list, each entry justified below)
  deriving DecidableEq, Repr, Inhabited

def Kind.name : Kind → String
  | .mutator => "mutator" | .opener => "opener" | .query => "query" | .helper => "helper"

def mutators : List String :=
  [ "appendbytes", "appendtext", "copy", "copydir", "create", "makedir", "makedirs", "move",
    "movedir", "remove", "removedir", "removetree", "setinfo", "settimes", "touch", "upload",
    "writebytes", "writefile", "writetext",
    -- deprecated aliases (`_new_name`) of writebytes / writetext / writefile / upload
    "setbytes", "settext", "setfile", "setbinfile" ]

def openers : List String := [ "open", "openbin" ]

def queries : List String :=
  [ "desc", "download", "exists", "filterdir", "getbasic", "getdetails", "getinfo", "getmodified",
    "getsize", "gettype", "hash", "isdir", "isempty", "isfile", "islink", "listdir", "opendir",
    "readbytes", "readtext", "scandir", "validatepath",
    -- deprecated aliases of readbytes / readtext / download
    "getbytes", "gettext", "getfile",
    -- MultiFS.which: tells which member holds a path (reads existence on the members)
    "which" ]

/-- The allow-list: public names that are *not* required to raise `FilesystemClosed` after
`close()` and are not mutators, with the reason. -/
def helpers : List (String × String) :=
  [ ("check", "the closed protocol itself: raises FilesystemClosed when closed"),
    ("isclosed", "the closed protocol itself"),
    ("close", "the closed protocol itself (idempotent)"),
    ("lock", "returns the lock object"),
    ("getmeta", "static capability metadata of the filesystem class, no stored data"),
    ("getsyspath", "computes a location string, reads no stored data"),
    ("getospath", "getsyspath, encoded"),
    ("geturl", "computes a location string, reads no stored data"),
    ("hassyspath", "does getsyspath succeed"),
    ("hasurl", "does geturl succeed"),
    ("match", "pure wildcard matching on the arguments"),
    ("match_glob", "pure glob matching on the arguments"),
    ("tree", "rendering helper: may print the error instead of raising"),
    ("walk", "property: returns a BoundWalker whose methods call the public API"),
    ("glob", "property: returns a BoundGlobber whose methods call the public API"),
    ("walker_class", "class attribute"),
    ("delegate_fs", "wrapper plumbing: hands back the wrapped filesystem object"),
    ("delegate_path", "wrapper plumbing: hands back the wrapped filesystem object and a path"),
    ("mount", "composite configuration: registers a member filesystem"),
    ("add_fs", "composite configuration: registers a member filesystem"),
    ("get_fs", "composite configuration: hands back a member filesystem object"),
    ("iterate_fs", "composite configuration: hands back the member filesystem objects"),
    ("clean", "TempFS finaliser (what close() runs); idempotent"),
    ("write_zip", "archive finaliser (what close() runs); does nothing once closed"),
    ("write_tar", "archive finaliser (what close() runs); does nothing once closed") ]

def kindOf (m : String) : Option Kind :=
  if mutators.contains m then some .mutator
  else if openers.contains m then some .opener
  else if queries.contains m then some .query
  else if (helpers.map (·.1)).contains m then some .helper
  else none

def isMutator (m : String) : Bool := kindOf m == some .mutator
def isOpener (m : String) : Bool := kindOf m == some .opener
/-- reads or changes stored data/metadata: must raise `FilesystemClosed` after `close()` -/
def dataOrMeta (m : String) : Bool :=
  kindOf m == some .mutator || kindOf m == some .opener || kindOf m == some .query
/-- does not change stored data whatever the arguments (on a filesystem that honours the contract) -/
def isPassive (m : String) : Bool := kindOf m == some .query || kindOf m == some .helper

/-! ### the generated tables as functions -/

def guardRowsOf (cls : String) : List (String × String × GuardV) :=
  match guardTable.find? (fun t => t.1 == cls) with
  | some t => t.2
  | none => []

def guardOf (cls m : String) : GuardV :=
  match (guardRowsOf cls).find? (fun r => r.1 == m) with
  | some r => r.2.2
  | none => .unknown

def definedIn (cls m : String) : String :=
  match (guardRowsOf cls).find? (fun r => r.1 == m) with
  | some r => r.2.1
  | none => ""

def shapeRowsOf (cls : String) : List (String × String × Shape) :=
  match shapeTable.find? (fun t => t.1 == cls) with
  | some t => t.2
  | none => []

/-- the public names visible on a read-only class (through its MRO) -/
def methodsOf (cls : String) : List String := (shapeRowsOf cls).map (·.1)

def shapeOf (cls m : String) : Shape :=
  match (shapeRowsOf cls).find? (fun r => r.1 == m) with
  | some r => r.2.2
  | none => .missing

/-- self-calls of a base-class default, and whether `self` escapes; a name that is not a
function of `FS` has no entry: treated as escaping -/
def callsOf (m : String) : List String × Bool :=
  match baseCalls.find? (fun r => r.1 == m) with
  | some r => r.2
  | none => ([], true)

/-- public names of a class according to the guard table -/
def publicOf (cls : String) : List String := (guardRowsOf cls).map (·.1)

/-! ### modes -/

def wchars : List Char := writingChars.getD []

/-- `Mode(mode).writing` -/
def isWritingMode (mode : Str) : Bool := mode.any (fun c => wchars.contains c)
/-- the guard `'c1' in mode or 'c2' in mode ...` -/
def rejects (chars : List Char) (mode : Str) : Bool := mode.any (fun c => chars.contains c)
/-- the `Mode(mode)` constructor (`Mode.validate`, fs/mode.py): `false` = ValueError -/
def modeValid (m : Str) : Bool :=
  match m with
  | [] => false
  | c :: _ =>
    m.all (fun x => Ref.modeValidChars.contains x) && ['r', 'w', 'x', 'a'].contains c &&
      !(m.contains 't' && m.contains 'b')

/-- the guard rejects every writing mode -/
def coversWriting (chars : List Char) : Bool :=
  writingChars.isSome && wchars.all (fun c => chars.contains c)

/-! ### `Safe` -/

/-- a method whose body is *not* a base-class default: harmless by its shape alone? -/
def harmlessShape (m : String) : Shape → Bool
  | .raisesReadOnly => true
  | .modeGuarded chars passes _ => isOpener m && (coversWriting chars || !passes)
  | .delegates => isPassive m
  | .other => isPassive m
  | .baseDefault => true        -- decided by its callees (see `harmlessN`)
  | _ => false

/-- every method of the class that is not a base-class default is harmless by its shape -/
def overriddenHarmless (cls : String) : Bool :=
  (methodsOf cls).all (fun m => harmlessShape m (shapeOf cls m))

/-- one unfolding of `Safe`: `f` decides the callees -/
def harmlessStep (cls : String) (f : String → Bool) (m : String) : Bool :=
  match shapeOf cls m with
  | .baseDefault =>
    (callsOf m).1.all f && (!(callsOf m).2 || overriddenHarmless cls)
  | s => harmlessShape m s

/-- `harmlessN cls n m`: within call depth `n`, calling `m` on an instance of the read-only class
`cls` cannot change the state of the underlying filesystem. -/
def harmlessN (cls : String) : Nat → String → Bool
  | 0 => fun _ => false
  | n + 1 => harmlessStep cls (harmlessN cls n)

/-- depth bound used for `Safe` (proved sufficient for the emitted graph in FsProofs/C04.lean) -/
def depthBound : Nat := 6

def Safe (cls m : String) : Bool := harmlessN cls depthBound m

/-- every public name of the class is harmless -/
def TableSafe (cls : String) : Bool := (methodsOf cls).all (Safe cls)

/-! ### an operational semantics of method calls on the wrapper -/

/-- the underlying filesystem as a labelled transition system -/
structure Inner (σ : Type) where
  call : String → σ → σ → Prop      -- `inner.m(..)` may take `s` to `s'`
  openAs : Str → σ → σ → Prop       -- `inner.open/openbin(.., mode)` may take `s` to `s'`

/-- reflexive-transitive closure of the steps `R c` for `c` in the allowed set `A` -/
inductive SeqOf {σ : Type} (R : String → σ → σ → Prop) (A : String → Prop) : σ → σ → Prop where
  | nil (s : σ) : SeqOf R A s s
  | cons {s s1 s2 : σ} (c : String) : A c → R c s s1 → SeqOf R A s1 s2 → SeqOf R A s s2

/-- the callees a base-class default may invoke: the self-calls the extractor found, and any
public name of the class when `self` escapes into other code -/
def mayCall (cls m c : String) : Prop :=
  c ∈ (callsOf m).1 ∨ ((callsOf m).2 = true ∧ c ∈ methodsOf cls)

/-- one call, given the relation `R` for nested calls -/
def execShape {σ : Type} (cls : String) (I : Inner σ) (R : String → σ → σ → Prop)
    (m : String) (s s' : σ) : Shape → Prop
  | .raisesReadOnly => s' = s
  | .modeGuarded chars passes validates =>
      ∃ mode : Str, if validates && !modeValid mode then s' = s
                    else if rejects chars mode then s' = s
                    else if passes then I.openAs mode s s' else I.openAs ['r'] s s'
  | .delegates => I.call m s s'
  | .other => s' = s
  | .baseDefault => SeqOf R (mayCall cls m) s s'
  | .abstract => True
  | .unknown => True
  | .missing => False            -- no such attribute

/-- `ExecN cls I n m s s'`: a call of `m` on the wrapper, of call depth at most `n`, may take the
underlying state from `s` to `s'`. -/
def ExecN {σ : Type} (cls : String) (I : Inner σ) : Nat → String → σ → σ → Prop
  | 0 => fun _ _ _ => False
  | n + 1 => fun m s s' => execShape cls I (ExecN cls I n) m s s' (shapeOf cls m)

def Exec {σ : Type} (cls : String) (I : Inner σ) (m : String) (s s' : σ) : Prop :=
  ∃ n, ExecN cls I n m s s'

/-! ### the executable wrapper over `Ref` -/

def opMeth : Op → String
  | .exists_ _ => "exists" | .isdir _ => "isdir" | .isfile _ => "isfile" | .listdir _ => "listdir"
  | .getsize _ => "getsize" | .gettype _ => "gettype" | .isempty _ => "isempty"
  | .getinfo _ => "getinfo" | .readbytes _ => "readbytes"
  | .makedir _ _ => "makedir" | .makedirs _ _ => "makedirs" | .writebytes _ _ => "writebytes"
  | .appendbytes _ _ => "appendbytes" | .create _ _ => "create" | .touch _ => "touch"
  | .settimes _ => "settimes" | .openbin _ _ => "openbin" | .remove _ => "remove"
  | .removedir _ => "removedir" | .removetree _ => "removetree"
  | .move _ _ _ => "move" | .copy _ _ _ => "copy" | .movedir _ _ _ => "movedir"
  | .copydir _ _ _ => "copydir" | .close => "close"

/-- the names `opMeth` can return -/
def refMethods : List String :=
  [ "exists", "isdir", "isfile", "listdir", "getsize", "gettype", "isempty", "getinfo", "readbytes",
    "makedir", "makedirs", "writebytes", "appendbytes", "create", "touch", "settimes", "openbin",
    "remove", "removedir", "removetree", "move", "copy", "movedir", "copydir", "close" ]

def opMode : Op → Str
  | .openbin _ m => m
  | _ => []

/-- the same call with the mode replaced by `"r"` (bodies that ignore `mode` after their guard) -/
def asRead : Op → Op
  | .openbin p _ => .openbin p ['r']
  | op => op

/-- would this call change a writable filesystem: a mutator, or an open with a (valid) writing
mode -/
def refMutating (op : Op) : Bool :=
  isMutator (opMeth op) ||
    (isOpener (opMeth op) && (parseBinMode (opMode op)).isSome && isWritingMode (opMode op))

namespace RO

structure State where
  inner : Ref.State      -- the wrapped filesystem
  closed : Bool          -- the wrapper's own `_closed`
  deriving Repr, Inhabited

/-- hand the call to the wrapped filesystem -/
def pass (st : State) (op : Op) : State × Out :=
  ({ st with inner := (Ref.step st.inner op).1 }, (Ref.step st.inner op).2)

/-- One call on an instance of class `cls` wrapping `st.inner`.

`close` is `FS.close`: it sets the wrapper's own flag and leaves the wrapped filesystem open.
A guarded method of a closed wrapper raises `FilesystemClosed`; an unguarded one goes on.
Then the shape decides.  For a *safe* base-class default the wrapped state is untouched and the
reported outcome is the nominal one (`ResourceReadOnly` for a mutator, the reference answer for
a query); the real default may fail earlier with another `fs.errors` class or return without
effect when the call would change nothing — the correspondence accepts exactly that. -/
def step (cls : String) (st : State) (op : Op) : State × Out :=
  match op with
  | .close => ({ st with closed := true }, .ok .unit)
  | _ =>
    if st.closed && guardOf cls (opMeth op) == .guarded then (st, .err .FilesystemClosed)
    else
      match shapeOf cls (opMeth op) with
      | .raisesReadOnly => (st, .err .ResourceReadOnly)
      | .modeGuarded chars passes validates =>
          if validates && !modeValid (opMode op) then (st, .err .ValueError)
          else if rejects chars (opMode op) then (st, .err .ResourceReadOnly)
          else if passes then pass st op else pass st (asRead op)
      | .baseDefault =>
          if Safe cls (opMeth op) then
            (st, if refMutating op then .err .ResourceReadOnly else (Ref.step st.inner op).2)
          else pass st op
      | .other => (st, (Ref.step st.inner op).2)
      | .missing => (st, .err .Unsupported)       -- no such attribute
      | _ => pass st op

def run (cls : String) (st : State) : List Op → State × List Out
  | [] => (st, [])
  | op :: ops =>
    let r := step cls st op
    let r' := run cls r.1 ops
    (r'.1, r.2 :: r'.2)

end RO

/-! ### plain wrappers (WrapFS, SubFS, ClosingSubFS, WrapCachedDir, the archive writers): C18 -/

namespace Wrap

/-- `ClosingSubFS.close` closes the filesystem it is a view of; every other wrapper's `close`
is `FS.close` (own flag only) -/
def closesInner (cls : String) : Bool := cls == "ClosingSubFS"

/-- One call on a delegating wrapper of class `cls`: a guarded method of a closed wrapper raises
`FilesystemClosed`; anything else is handed to the wrapped filesystem (which is *not* closed by
the wrapper's own `close`, so an unguarded method still reads or changes it). -/
def step (cls : String) (st : RO.State) (op : Op) : RO.State × Out :=
  match op with
  | .close =>
    ({ closed := true, inner := if closesInner cls then (Ref.step st.inner .close).1 else st.inner }, .ok .unit)
  | _ =>
    if st.closed && guardOf cls (opMeth op) == .guarded then (st, .err .FilesystemClosed)
    else RO.pass st op

end Wrap

/-! ### the closed protocol of the archive writers, TempFS and the composites (C18) -/

namespace Finalise

/-- `WriteZipFS` / `WriteTarFS`:
```
def close(self):
    if not self.isclosed():
        try:
            self.write_zip()           # if not self.isclosed(): write_zip(self._temp_fs, ...)
        finally:
            self._temp_fs.close()
    super().close()
```
-/
structure Arch where
  closed : Bool          -- `_closed` of the archive filesystem
  tempClosed : Bool      -- the temporary filesystem holding the content is closed (TempFS: removed)
  writes : Nat           -- completed archive writes
  attempts : Nat         -- calls of fs.compress.write_zip / write_tar
  deriving Repr, DecidableEq, Inhabited

def Arch.init : Arch := { closed := false, tempClosed := false, writes := 0, attempts := 0 }

inductive CloseOut where
  | ok             -- close() returned
  | writeError     -- the archive write raised; the exception propagates out of close()
  | fsClosed       -- FilesystemClosed from the (already closed) temporary filesystem propagates
  deriving Repr, DecidableEq, Inhabited

def CloseOut.name : CloseOut → String
  | .ok => "ok" | .writeError => "writeError" | .fsClosed => "FilesystemClosed"

/-- one `close()`; `fails` = the archive writer raises during this call -/
def Arch.close (s : Arch) (fails : Bool) : Arch × CloseOut :=
  if s.closed then (s, .ok)
  else if s.tempClosed then
    -- walking the closed temporary filesystem raises FilesystemClosed; `finally` closes it again
    ({ s with attempts := s.attempts + 1 }, .fsClosed)
  else if fails then
    ({ s with tempClosed := true, attempts := s.attempts + 1 }, .writeError)
  else
    ({ closed := true, tempClosed := true, writes := s.writes + 1, attempts := s.attempts + 1 }, .ok)

def Arch.run (s : Arch) : List Bool → Arch × List CloseOut
  | [] => (s, [])
  | f :: fs =>
    let r := s.close f
    let r' := Arch.run r.1 fs
    (r'.1, r.2 :: r'.2)

/-- `TempFS.close`: `if self._auto_clean: self.clean()`; then `OSFS.close` -/
structure Temp where
  closed : Bool
  cleaned : Bool
  dirExists : Bool
  autoClean : Bool
  deriving Repr, DecidableEq, Inhabited

def Temp.clean (s : Temp) : Temp :=
  if s.cleaned then s else { s with cleaned := true, dirExists := false }
def Temp.close (s : Temp) : Temp :=
  let s1 := if s.autoClean then s.clean else s
  { s1 with closed := true }

/-- `MountFS.close` / `MultiFS.close`: members are closed iff `auto_close` -/
structure Comp where
  closed : Bool
  autoClose : Bool
  members : List Bool      -- closed flag of each member filesystem
  deriving Repr, DecidableEq, Inhabited

def Comp.close (s : Comp) : Comp :=
  { s with closed := true, members := if s.autoClose then s.members.map (fun _ => true) else s.members }

/-- `SubFS` / `ClosingSubFS` over a parent: (own flag, parent flag) -/
structure Sub where
  closed : Bool
  parentClosed : Bool
  closing : Bool           -- ClosingSubFS
  deriving Repr, DecidableEq, Inhabited

def Sub.close (s : Sub) : Sub :=
  { s with closed := true, parentClosed := s.parentClosed || s.closing }

end Finalise

end Fs.Guard
