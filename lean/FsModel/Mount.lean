/-
  FsModel.Mount — `fs/mountfs.py` transcribed (C17).

  State: the member filesystems (`fs 0` is `default_fs`, a MemoryFS; mounted filesystems have
  the indices stored in the mount table), the mount table = insertion-ordered list of
  (`forcedir(abspath(normpath(path)))`, member index), the closed flag and `auto_close`.
-/
import FsModel.RouteBase

namespace Fs.Mount
open Fs Fs.Path Fs.Ref Fs.Route

abbrev Table := List (Str × Nat)

structure MState where
  fs : Fss
  mounts : Table
  closed : Bool
  autoClose : Bool

/-- `forcedir(abspath(normpath(path)))` — the key under which a mount is stored and with which
a path is compared -/
def mountKey (n : Str) : Str := forcedir (abspath n)

/-- the `for mount_path, fs in self.mounts` loop of `_delegate`: first entry whose stored
prefix string-prefixes the key; the remainder loses its trailing slashes -/
def findMount (key : Str) : Table → Option (Nat × Str)
  | [] => none
  | (mp, i) :: rest =>
    if startsWith key mp then some (i, rstripSlash (key.drop mp.length))
    else findMount key rest

/-- `MountFS._delegate(path)`: `(member, member-relative path)`; when no mount matches it is
`(default_fs, path)` with the *raw* argument (not the normalised one).  A path that contains NUL is refused
first (InvalidCharsInPath), whatever it normalises to. -/
def delegate (mounts : Table) (p : Str) : Res (Nat × Str) :=
  -- since /repo 48e26ed: `invalid_chars = self._meta.get("invalid_path_chars")` (= "\0");
  -- `if invalid_chars and set(path).intersection(invalid_chars): raise InvalidCharsInPath(path)` —
  -- the RAW path is looked at before it is normalised (a mounted filesystem only sees the remainder)
  if p.contains '\x00' then .err .InvalidCharsInPath
  else
  match normpath p with
  | .err e => .err e
  | .ok n =>
    match findMount (mountKey n) mounts with
    | some r => .ok r
    | none => .ok (0, p)

inductive MountOut where
  | ok
  | mountError            -- `MountError("mount point overlaps existing mount")`
  | err (e : Err)         -- from `normpath` or from `default_fs.makedirs`
  deriving DecidableEq, Repr

/-- `MountFS.mount(path, fs)` for an FS instance that is not the MountFS itself.  The overlap
check refuses a new key that *starts with* an existing key (the new mount point lies inside, or
equals, an existing one); the reverse containment is not checked.  The table is extended
*before* `default_fs.makedirs(key, recreate=True)` runs, so a failing `makedirs` leaves the
mount registered.  `mount` does not call `self.check()`. -/
def mount (s : MState) (p : Str) (i : Nat) : MState × MountOut :=
  match normpath p with
  | .err e => (s, .err e)
  | .ok n =>
    let key := mountKey n
    if s.mounts.any (fun m => startsWith key m.1) then (s, .mountError)
    else
      let r := Ref.step (s.fs 0) (.makedirs key true)
      ({ s with mounts := s.mounts ++ [(key, i)], fs := s.fs.set 0 r.1 },
        match r.2 with
        | .ok _ => .ok
        | .err e => .err e)

def closeAll (f : Fss) : List Nat → Fss × List Call
  | [] => (f, [])
  | i :: is =>
    let m := memberCall f i .close [] .close
    let r := closeAll m.1 is
    (r.1, m.2.2 :: r.2)

/-- `MountFS.close()`: the closed flag is set first (since bc21264), then with `auto_close` every
mounted member is closed in table order and the table emptied, then `default_fs` is closed; a
reference member's `close` cannot fail, so the order of the flag is not observable here -/
def close (s : MState) : MState × Out × List Call :=
  let r := if s.autoClose then closeAll s.fs (s.mounts.map (·.2)) else (s.fs, [])
  let mounts := if s.autoClose then [] else s.mounts
  let m := memberCall r.1 0 .close [] .close
  ({ s with fs := m.1, mounts := mounts, closed := true }, .ok .unit, r.2 ++ [m.2.2])

/-- the common body `fs, _path = self._delegate(path); return fs.<method>(_path, …)` -/
def routed (s : MState) (pr : Prim) (p : Str) : MState × Out × List Call :=
  match delegate s.mounts p with
  | .err e => (s, .err e, [])
  | .ok (i, r) =>
    let m := forward s.fs i pr r
    ({ s with fs := m.1 }, m.2.1, [m.2.2])

/-- `self.check()` -/
def checked (s : MState) (k : MState × Out × List Call) : MState × Out × List Call :=
  if s.closed then (s, .err .FilesystemClosed, []) else k

def normOf (p : Str) : Str :=
  match normpath p with
  | .ok n => n
  | .err _ => p

/-- the body of `MountFS.getinfo` after `check()`: the root of a mounted filesystem is reported
under the name of its mount point, `basename(normpath(path))` -/
def getinfoRouted (s : MState) (p : Str) : MState × Out × List Call :=
  match delegate s.mounts p with
  | .err e => (s, .err e, [])
  | .ok (i, r) =>
    let m := memberCall s.fs i .getinfo r (.getinfo r)
    let out : Out := match m.2.1 with
      | .ok (.info name d sz) =>
        if i ≠ 0 ∧ relpath r = [] then .ok (.info (basename (normOf p)) d sz)
        else .ok (.info name d sz)
      | o => o
    ({ s with fs := m.1 }, out, [m.2.2])

/-- `_scan_mount_points`: every yielded entry whose path is a mount point is replaced by
`self.getinfo(dir_path + name)` (one more routed call; the name is unchanged) -/
def scanMountPoints (s : MState) (dirKey : Str) : List Name → MState × Res Unit × List Call
  | [] => (s, .ok (), [])
  | name :: rest =>
    if s.mounts.any (fun m => m.1 = forcedir (dirKey ++ name)) then
      let r := checked s (getinfoRouted s (dirKey ++ name))
      match r.2.1 with
      | .err e => (r.1, .err e, r.2.2)
      | .ok _ =>
        let r2 := scanMountPoints r.1 dirKey rest
        (r2.1, r2.2.1, r.2.2 ++ r2.2.2)
    else scanMountPoints s dirKey rest

/-- the rest of `MountFS.scandir` once the member returned its scan: `viaDefault` = the scan is
of the default tree of a MountFS that has mounts, so it goes through `_scan_mount_points` -/
def scanAfter (s1 : MState) (p : Str) (firstOnly viaDefault : Bool) (o : Out) (c : Call) :
    MState × Out × List Call :=
  match o with
  | .ok (.names l) =>
    let fin : Out := if firstOnly then .ok (.bool l.isEmpty) else .ok (.names l)
    if viaDefault then
      let r2 := scanMountPoints s1 (mountKey (normOf p)) (if firstOnly then l.take 1 else l)
      (r2.1, (match r2.2.1 with
              | .err e => .err e
              | .ok _ => fin), c :: r2.2.2)
    else (s1, fin, [c])
  | o => (s1, o, [c])

/-- the body of `MountFS.scandir` after `check()`; `firstOnly` = the iterator is advanced once
(`FS.isempty`), else it is consumed. -/
def scanRouted (s : MState) (p : Str) (firstOnly : Bool) : MState × Out × List Call :=
  match delegate s.mounts p with
  | .err e => (s, .err e, [])
  | .ok (i, r) =>
    let m := memberCall s.fs i .scandir r (.listdir r)
    scanAfter { s with fs := m.1 } p firstOnly (decide (i = 0 ∧ s.mounts ≠ [])) m.2.1 m.2.2

/-- every method `MountFS` defines.  All are `check(); _delegate; forward` (since 8088539 also
`download` and `writetext`, which are not among the primitives), except:
`getinfo` and `scandir` (above); `openbin` validates the mode first; `removedir` delegates the raw
path first and refuses the root afterwards (since 48e26ed; before it normalised first and delegated the normalised path); `makedirs` is not a MountFS method
(the inherited default is the program `baseMakedirs`), so as a primitive it is `Unsupported`. -/
def prim (s : MState) (pr : Prim) : MState × Out × List Call :=
  match pr with
  | .getinfo p => checked s (getinfoRouted s p)
  | .scandir p => checked s (scanRouted s p false)
  | .scanFirst p => checked s (scanRouted s p true)
  | .openbin p m =>
    if (parseBinMode m).isNone then (s, .err .ValueError, [])
    else checked s (routed s pr p)
  | .open_ p m _ =>          -- `validate_open_mode(mode)` before `check()`
    if !modeOk m then (s, .err .ValueError, [])
    else checked s (routed s pr p)
  | .removedir p =>
    -- since /repo 48e26ed: `fs, _path = self._delegate(path)` FIRST (raw path: invalid characters refused),
    -- then `if normpath(path) in ("", "/"): raise RemoveRootError`, then `fs.removedir(_path)`
    checked s
      (match delegate s.mounts p with
       | .err e => (s, .err e, [])
       | .ok _ =>
         if normOf p = [] ∨ normOf p = ['/'] then (s, .err .RemoveRootError, [])
         else routed s pr p)
  | .makedirs _ _ => (s, .err .Unsupported, [])
  | _ => checked s (routed s pr pr.path)

/-- `MountFS.validatepath`: `check(); fs, _path = _delegate(path); fs.validatepath(_path)` and
then `abspath(normpath(path))` (which cannot fail after `_delegate` succeeded) -/
def validate (s : MState) (p : Str) : Res Unit × List Call :=
  if s.closed then (.err .FilesystemClosed, [])
  else match delegate s.mounts p with
    | .err e => (.err e, [])
    | .ok (i, r) => (memberValidate (s.fs i) r, [⟨i, .validatepath, r, validateOp r⟩])

def sem : Sem MState := { prim := prim, validate := validate, closed := fun s => s.closed }

/-- every reference operation as the program MountFS runs for it -/
def prog : Ref.Op → Option Prog
  | .makedirs p rc => some (baseMakedirs p rc)
  | op => commonProg op

/-- One call on a MountFS: new state, result, and the calls the members received.
`none` for the walker-based bulk defaults (`removetree`, `movedir`, `copydir`). -/
def step (s : MState) (op : Ref.Op) : Option (MState × Out × List Call) :=
  match op with
  | .close => some (close s)
  | _ => (prog op).map fun pr => pr.run sem s

end Fs.Mount
