/-
  FsModel.LockTypes — vocabulary of the GENERATED lock table (harness/extract/locktable.py
  writes `FsModel/Generated/LockTable.lean` over these types on every run) and the
  classification functions the table theorems of C08 are stated with.

  A method body is a sequence of *segments*.  A segment is `locked` when its statements sit
  inside `with self._lock:` / `with self.lock():` / `with a.lock(), b.lock():`; everything else
  is `unlocked`.  Each segment lists, in evaluation order, the accesses to shared state it makes.
-/

namespace Fs.Lock

inductive Access where
  | selfCall (name : String)    -- self.<method>(…)
  | superCall (name : String)   -- super(…).<method>(…)
  | dirMut (name : String)      -- <entry>.set_entry / remove_entry / clear  (_DirEntry mutators)
  | root                        -- self.root
  | getDirEntry                 -- self._get_dir_entry(…)
  | delegate (name : String)    -- <other filesystem>.<FS method>(…)
  | os (name : String)          -- os.* / shutil.* call
  | fileIO (name : String)      -- method of a file object opened by this method (incl. implicit close)
  | attr (name : String)        -- self.<mutable attribute> (mounts, _filesystems, write_fs, _closed, …) / raw dict step
  | libFn (name : String)       -- fs.copy / fs.move / fs.mirror / fs.tools function (takes locks itself)
  | entryUse (name : String)    -- attribute / method / `in` on a local that holds a shared _DirEntry
                                -- (assigned from self._get_dir_entry, self.root, <entry>.get_entry, …)
  deriving DecidableEq, Repr

structure Seg where
  locked : Bool
  /-- the lock expressions of the `with` statement(s), normalised (`self`, `src_fs`, `dst_fs`, …),
  in acquisition order -/
  locks : List String
  /-- a `yield` occurs inside the segment (a generator suspended with the lock held) -/
  yields : Bool
  /-- some access sits inside a `for`/`while` loop (it may happen any number of times) -/
  loops : Bool
  acc : List Access
  deriving DecidableEq, Repr

inductive Body where
  | segs (l : List Seg)
  | unknown (why : String)      -- syntax the extractor does not understand: never guessed
  deriving DecidableEq, Repr

structure Entry where
  cls : String                  -- class name, or module name for module-level functions
  method : String
  variant : Nat                 -- n-th definition of that name in the class body (conditional defs)
  body : Body
  deriving DecidableEq, Repr

/-! ### classification -/

/-- accesses that touch no state another thread can change through the FS API: path validation and
the closed-flag check (`close()` is outside the linearizability claim: stated assumption) -/
def pureSelf : List String :=
  ["validatepath", "check", "isclosed", "_make_dir_entry", "getmeta", "delegate_path", "delegate_fs",
   "_to_sys_path", "getsyspath"]

/-- `MountFS._delegate` only reads the mount table, which changes through `mount()` alone
(mounting concurrently with calls is outside the claim); `MultiFS._delegate` on the other hand
asks every member `exists(path)` — a genuine read of shared state, not listed here -/
def pureSelfOf (cls : String) : List String :=
  if cls == "MountFS" then "_delegate" :: pureSelf
  else if cls == "MultiFS" then "_writable_required" :: pureSelf   -- reads `write_fs`, set by add_fs() alone
  else pureSelf

def Access.isPure (cls : String) : Access → Bool
  | .selfCall n => (pureSelfOf cls).contains n
  | _ => false

/-- the accesses of a segment that matter -/
def Seg.shared (cls : String) (s : Seg) : List Access := s.acc.filter (fun a => !a.isPure cls)

inductive Shape where
  | noShared          -- touches no shared state at all
  | singleLocked      -- (pure unlocked prefix) + exactly one locked block + nothing after
  | singleCall        -- unlocked, exactly one shared access, not in a loop (atomic iff the callee is)
  | multi             -- several atomic pieces: check-then-act candidates
  | unknown
  deriving DecidableEq, Repr

/-- drop unlocked segments without shared accesses -/
def relevant (cls : String) (l : List Seg) : List Seg := l.filter (fun s => s.locked || !(s.shared cls).isEmpty)

def shapeOfSegs (cls : String) (l : List Seg) : Shape :=
  match relevant cls l with
  | [] => .noShared
  | [s] =>
    if s.locked then .singleLocked
    else if (s.shared cls).length == 1 && !s.loops then .singleCall
    else .multi
  | _ => .multi

def Body.shapeIn (cls : String) : Body → Shape
  | .segs l => shapeOfSegs cls l
  | .unknown _ => .unknown

def Entry.shape (e : Entry) : Shape := e.body.shapeIn e.cls

/-- the locks a method body acquires, in order, without repetition of an expression -/
def Body.lockSeq : Body → List String
  | .segs l => (l.flatMap (·.locks)).eraseDups
  | .unknown _ => []

/-- uses of an entry variable that navigate or change the shared tree structure (the others —
`to_info`, `is_dir`, `name`, `size`, … — read fields of the one entry) -/
def entryNav : List String :=
  ["get_entry", "set_entry", "remove_entry", "clear", "list", "in", "getitem", "_dir", "lock",
   "add_open_file", "remove_open_file", "_open_files"]

def Body.hasDirMut : Body → Bool
  | .segs l => l.any fun s => s.acc.any fun a => match a with | .dirMut _ => true | _ => false
  | .unknown _ => true

/-- a dir-entry mutator, the root, or a navigating use of an entry variable outside a locked segment -/
def Body.unlockedTreeAccess : Body → Bool
  | .segs l => l.any fun s => !s.locked && s.acc.any fun a =>
      match a with | .dirMut _ => true | .root => true | .entryUse n => entryNav.contains n | _ => false
  | .unknown _ => true

/-- ANY use of an entry variable (also a plain field read) outside a locked segment -/
def Body.unlockedEntryUse : Body → Bool
  | .segs l => l.any fun s => !s.locked && s.acc.any fun a =>
      match a with | .entryUse _ => true | _ => false
  | .unknown _ => true

def find? (t : List Entry) (c m : String) : Option Entry :=
  t.find? fun e => e.cls == c && e.method == m

/-- resolve a method through the (single-inheritance) base map, at most `fuel` steps up -/
def resolve (t : List Entry) (bases : List (String × String)) : Nat → String → String → Option Entry
  | 0, _, _ => none
  | fuel + 1, c, m =>
    match find? t c m with
    | some e => some e
    | none => match bases.lookup c with
      | some b => resolve t bases fuel b m
      | none => none

def shapeOf (t : List Entry) (bases : List (String × String)) (c m : String) : Shape :=
  match resolve t bases 8 c m with
  | some e => e.shape
  | none => .unknown

/-- for a `singleCall` body: the method the one shared access calls (`self.m(…)`, or the locked
`_get_dir_entry`); `none` when the access is of another kind (delegate, os, file I/O, …) -/
def Entry.singleCallee (e : Entry) : Option String :=
  match e.body with
  | .segs l =>
    match (relevant e.cls l).flatMap (Seg.shared e.cls) with
    | [.selfCall n] => some n
    | [.getDirEntry] => some "_get_dir_entry"
    | _ => none
  | .unknown _ => none

/-- the method is ONE atomic piece on class `c`: one locked block, or a single call to a method
that is (followed through the table, at most `fuel` calls deep) -/
def atomicIn (t : List Entry) (bases : List (String × String)) : Nat → String → String → Bool
  | 0, _, _ => false
  | fuel + 1, c, m =>
    match resolve t bases 8 c m with
    | some e =>
      (match e.shape with
       | .singleLocked => true
       | .singleCall => (match e.singleCallee with
          | some n => atomicIn t bases fuel c n
          | none => false)
       | _ => false)
    | none => false

end Fs.Lock
