import FsModel.Ref
import FsModel.RefAdm
import FsModel.Mem
import FsModel.Proto

namespace Fs.RefDriver
open Fs Fs.Ref Fs.Proto

/-- flat tree format: `T` then `;`-separated entries in walk order (parents first):
`D<hexpath>` or `F<hexpath>:<hexbytes>`; paths are `/`-joined components. -/
def dumpTree (t : Node) : String :=
  "T" ++ ";".intercalate ((t.walk []).map fun (p, n) =>
    match n with
    | .dir _ => "D" ++ strToHex (Path.joinSlash p)
    | .file b => "F" ++ strToHex (Path.joinSlash p) ++ ":" ++ bytesToHex b)

def loadTree (s : String) : Option Node := do
  if !s.startsWith "T" then none
  let body := (s.drop 1).toString
  if body.isEmpty then return .dir []
  let mut t : Node := .dir []
  for e in body.splitOn ";" do
    if e.startsWith "D" then
      let p ← hexToStr (e.drop 1).toString
      t := t.set (Path.splitSlash p) (.dir [])
    else if e.startsWith "F" then
      match (e.drop 1).toString.splitOn ":" with
      | [ph, bh] =>
        let p ← hexToStr ph
        let b ← hexToBytes bh
        t := t.set (Path.splitSlash p) (.file b)
      | _ => none
    else none
  return t

def valStr : Val → String
  | .unit => "unit"
  | .bool b => "bool:" ++ boolStr b
  | .bytes b => "bytes:" ++ bytesToHex b
  | .names l => "names:" ++ strList l
  | .nat n => "nat:" ++ toString n
  | .info n d sz => "info:" ++ strToHex n ++ ":" ++ boolStr d ++ ":" ++ toString sz

def parseOp (args : List String) : Option Op := do
  let name ← args[0]?
  let p (i : Nat) : Option Str := arg args i
  let b (i : Nat) : Option Bool := do let a ← args[i]?; pure (a == "1")
  let by_ (i : Nat) : Option Bytes := do let a ← args[i]?; hexToBytes a
  match name with
  | "exists" => do pure (.exists_ (← p 1))
  | "isdir" => do pure (.isdir (← p 1))
  | "isfile" => do pure (.isfile (← p 1))
  | "listdir" => do pure (.listdir (← p 1))
  | "getsize" => do pure (.getsize (← p 1))
  | "gettype" => do pure (.gettype (← p 1))
  | "isempty" => do pure (.isempty (← p 1))
  | "getinfo" => do pure (.getinfo (← p 1))
  | "readbytes" => do pure (.readbytes (← p 1))
  | "makedir" => do pure (.makedir (← p 1) (← b 2))
  | "makedirs" => do pure (.makedirs (← p 1) (← b 2))
  | "writebytes" => do pure (.writebytes (← p 1) (← by_ 2))
  | "appendbytes" => do pure (.appendbytes (← p 1) (← by_ 2))
  | "create" => do pure (.create (← p 1) (← b 2))
  | "touch" => do pure (.touch (← p 1))
  | "settimes" => do pure (.settimes (← p 1))
  | "openbin" => do pure (.openbin (← p 1) (← p 2))
  | "remove" => do pure (.remove (← p 1))
  | "removedir" => do pure (.removedir (← p 1))
  | "removetree" => do pure (.removetree (← p 1))
  | "move" => do pure (.move (← p 1) (← p 2) (← b 3))
  | "copy" => do pure (.copy (← p 1) (← p 2) (← b 3))
  | "movedir" => do pure (.movedir (← p 1) (← p 2) (← b 3))
  | "copydir" => do pure (.copydir (← p 1) (← p 2) (← b 3))
  | "close" => pure .close
  | _ => none

/-- `ref.step <closed 0|1> <tree> <op> <args…>` →
    `<ok v|err E> | <tree'> | <closed'> | adm=<E,E,…> | wf=<0|1>` -/
def handle (cmd : String) (args : List String) : Option String :=
  match cmd with
  | "ref.step" => do
    let c ← args[0]?
    let t ← loadTree (← args[1]?)
    let op ← parseOp (args.drop 2)
    let s : State := { root := t, closed := c == "1" }
    let (s', out) := step s op
    some (res valStr out ++ " | " ++ dumpTree s'.root ++ " | " ++ boolStr s'.closed ++ " | adm=" ++
      ",".intercalate ((adm s op).map Err.name) ++ " | wf=" ++ boolStr (s'.root.wf))
  | "mem.step" => do
    let c ← args[0]?
    let t ← loadTree (← args[1]?)
    let op ← parseOp (args.drop 2)
    let s : State := { root := t, closed := c == "1" }
    let (s', out) := Mem.step s op
    some (res valStr out ++ " | " ++ dumpTree s'.root ++ " | " ++ boolStr s'.closed ++ " | adm= | wf=" ++ boolStr (s'.root.wf))
  | "ref.roundtrip" => do
    let t ← loadTree (← args[0]?)
    some (dumpTree t)
  | _ => none

end Fs.RefDriver
