import FsModel.Ftp
import FsModel.FtpServer
import FsModel.RefDriver
import FsModel.Proto

namespace Fs.FtpDriver
open Fs Fs.Ref Fs.Proto Fs.RefDriver Fs.FtpServer

def comps (args : List String) (i : Nat) : Option (List Name) := do
  let p ← arg args i
  pure (Path.splitSlash p |>.filter (· ≠ []))

def profileOf (variant : String) (cy : Nat) : Option Profile :=
  match variant with
  | "mlsd" => some (pyftpdlib true cy)
  | "list" => some (pyftpdlib false cy)
  | _ => none

def cmdName : Cmd → String
  | .feat => "FEAT" | .mlst _ => "MLST" | .mlsd _ => "MLSD" | .list _ => "LIST"
  | .retr _ r => if r = 0 then "RETR" else "REST" ++ toString r ++ "+RETR"
  | .stor _ r _ => if r = 0 then "STOR" else "REST" ++ toString r ++ "+STOR"
  | .appe _ _ => "APPE" | .mkd _ => "MKD" | .rmd _ => "RMD" | .dele _ => "DELE" | .mfmt _ => "MFMT"

def cmdPath : Cmd → List Name
  | .feat => []
  | .mlst p | .mlsd p | .list p | .retr p _ | .stor p _ _ | .appe p _ | .mkd p | .rmd p | .dele p | .mfmt p => p

def replyCode : Reply → String
  | .ok c _ => toString c
  | .lines ls => "226/" ++ toString ls.length ++ "lines"
  | .data b => "226/" ++ toString b.length ++ "bytes"
  | .err c => toString c

/-- `CMD:<hex wire path>:<reply>` per command, `~<label>` per abstracted client loop, `;`-separated -/
def eventStr : Ftp.Event → String
  | .cmd c r => cmdName c ++ ":" ++ strToHex (wirePath (cmdPath c)) ++ ":" ++ replyCode r
  | .edit l ok => "~" ++ (l.replace " " "_").replace "|" "/" ++ (if ok then "" else "!FAILED")

def replyStr : Reply → String
  | .ok c t => toString c ++ " T" ++ strToHex t
  | .lines ls => "226 " ++ strList ls
  | .data b => "226 B" ++ bytesToHex b
  | .err c => toString c ++ " -"

/-- `ftp.step <mlsd|list> <current year> <closed 0|1> <tree> <op> <args…>` (FTPFS over the modelled server with
    pyftpdlib's profile) → the reply format of `mem.step` followed by the command / reply trace:
    `<ok v|err E> | <tree'> | <closed'> | adm= | wf=<0|1> | trace=<event;event;…>`

    `ftp.cmd <mlsd|list> <current year> <tree> <CMD> <path> [<rest> [<data>]]` (one raw command on the modelled
    server) → `<code> <payload> | <tree'>`; payload: `T<hex text>` (control reply), `L<hex line>,…` (listing),
    `B<hex bytes>` (RETR), `-`. -/
def handle (cmd : String) (args : List String) : Option String :=
  match cmd with
  | "ftp.step" => do
    let cy := (← args[1]?).toNat!
    let cfg ← profileOf (← args[0]?) cy
    let c ← args[2]?
    let t ← loadTree (← args[3]?)
    let op ← parseOp (args.drop 4)
    let s : State := { root := t, closed := c == "1" }
    let (s', out) := Ftp.step (exec cfg) cfg.cy s op
    let tr := Ftp.stepTrace (exec cfg) cfg.cy s op
    some (res valStr out ++ " | " ++ dumpTree s'.root ++ " | " ++ boolStr s'.closed ++ " | adm= | wf=" ++
      boolStr (s'.root.wf) ++ " | trace=" ++ ";".intercalate (tr.map eventStr))
  | "ftp.cmd" => do
    let cy := (← args[1]?).toNat!
    let cfg ← profileOf (← args[0]?) cy
    let t ← loadTree (← args[2]?)
    let name ← args[3]?
    let p ← comps args 4
    let rest : Nat := (args[5]?.map String.toNat!).getD 0
    let data : Bytes := (args[6]?.bind hexToBytes).getD []
    let c : Option Cmd := match name with
      | "FEAT" => some .feat | "MLST" => some (.mlst p) | "MLSD" => some (.mlsd p) | "LIST" => some (.list p)
      | "RETR" => some (.retr p rest) | "STOR" => some (.stor p rest data) | "APPE" => some (.appe p data)
      | "MKD" => some (.mkd p) | "RMD" => some (.rmd p) | "DELE" => some (.dele p) | "MFMT" => some (.mfmt p)
      | _ => none
    let (t', r) := exec cfg t (← c)
    some (replyStr r ++ " | " ++ dumpTree t')
  | _ => none

end Fs.FtpDriver
