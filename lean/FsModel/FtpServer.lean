/-
  FsModel.FtpServer — an FTP server as a small explicit state machine, the way `FsModel.Posix` is a
  small explicit kernel: the commands `fs/ftpfs.py` issues, each answered with a reply (code + what
  the data / control connection carries) and a new server tree.

  State.  The server's state is the directory tree it serves (`Node`, the user's home directory is
  the root `[]`).  Connection state that matters to the library is folded into the commands: a
  `REST k` that precedes `RETR` / `STOR` is the `rest` argument of that command (0 = no `REST`);
  `TYPE`, `PASV`, `USER`/`PASS`, `QUIT` carry nothing the library looks at and are not modelled.

  Commands (the exact set `fs/ftpfs.py` sends — `RNFR/RNTO`, `CWD`, `SIZE`, `NLST` are never sent;
  `MDTM` only by `getmodified`, which is outside the 25 operations of `FsModel.Ref`):
      FEAT · MLST p · MLSD p · LIST p · RETR p [REST k] · STOR p [REST k] · APPE p · MKD p · RMD p ·
      DELE p · MFMT t p
  A path argument is the component list of the absolute, normalised path text the library sends
  (`wirePath`): the server resolves `/c1/c2` to `[c1, c2]` (pyftpdlib: `ftp2fs` = `normpath` below the
  home directory).

  What the server does with the tree is *what a POSIX directory does*: pyftpdlib's handlers call
  `os.mkdir`, `os.rmdir`, `os.remove`, `open(.., 'rb'|'wb'|'ab'|'r+b')`, `os.stat`, `os.listdir`.  So every
  clause below is stated over `FsModel.Posix` (validated against the running kernel on every run) and
  any failure of the primitive is the permanent negative reply the handler sends: `550` (`MLSD` of a
  non-directory: `501`, as RFC 3659 demands; a `REST` beyond the end of the file: `554`; a command the
  server does not implement: `500`).

  What the server *says* — how a listing is rendered — is the `Profile`: which facts an MLSx entry
  states besides `type` and `size`, the columns of a `LIST` line, the FEAT lines.  The renderers are
  C20's (`FtpParse.renderMlsd`, `renderLinux`, `renderFeat`), so that the library's parsers are part of
  the loop.  `Conforming` collects, as named fields, every assumption about that text the refinement
  proof uses (RFC 3659 / RFC 959 well-formedness); the reply codes and tree effects are the clauses
  of `exec`.  Both are listed in `design.d/FTPMODEL.md` as trusted / validated: `harness/props/
  _ftpexact.py` compares `exec` with the real pyftpdlib server on a directed command corpus.
-/
import FsModel.Tree
import FsModel.Posix
import FsModel.FtpParse

namespace Fs.FtpServer
open Fs Fs.Path Fs.Parse Fs.FtpParse Fs.Posix

/-! ### commands and replies -/

inductive Cmd where
  | feat
  | mlst (p : List Name)
  | mlsd (p : List Name)
  | list (p : List Name)
  | retr (p : List Name) (rest : Nat)
  | stor (p : List Name) (rest : Nat) (data : Bytes)
  | appe (p : List Name) (data : Bytes)
  | mkd (p : List Name)
  | rmd (p : List Name)
  | dele (p : List Name)
  | mfmt (p : List Name)
  deriving Repr, Inhabited

/-- what `ftplib` hands to the library for one command:
    * `ok code text` — a positive control reply; `text` is the whole (possibly multi-line) reply with
      the lines joined by `\n`, as `FTP.getmultiline` builds it;
    * `lines ls` — a positive preliminary reply, the text lines received on the data connection (line
      terminators removed, as `FTP.retrlines` delivers them), then `226`;
    * `data b` — the same for a binary transfer (`RETR`);
    * `err code` — a `4xx` / `5xx` reply (`ftplib.error_temp` / `error_perm`). -/
inductive Reply where
  | ok (code : Nat) (text : Str)
  | lines (ls : List Str)
  | data (b : Bytes)
  | err (code : Nat)
  deriving Repr, Inhabited, DecidableEq

/-! ### the profile: how this server renders what it says -/

/-- decimal digits of a number (`"%d" % n`), with fuel `n + 1` -/
def decimalAux : Nat → Nat → Str
  | 0, _ => []
  | f + 1, n => if n < 10 then [digitChar n] else decimalAux f (n / 10) ++ [digitChar n]

def decimal (n : Nat) : Str := decimalAux (n + 1) n

def kMLST : Str := ['M', 'L', 'S', 'T']
def kMFMT : Str := ['M', 'F', 'M', 'T']

structure Profile where
  /-- `MLST`/`MLSD` are implemented and FEAT says so (the `ftp` variant; `false` = `ftp-nomlsd`) -/
  mlsd : Bool
  /-- `MFMT` is implemented and FEAT says so -/
  mfmt : Bool
  /-- the parameter text of the `MLST` feature line (`type*;perm*;size*;…`) -/
  mlstParams : Str
  /-- the other FEAT lines (`UTF8`, `TVFS`, `SIZE`, `MDTM`, `REST STREAM` …) -/
  feats : List (Str × Str)
  /-- the facts an MLSx entry states besides `type` and `size` (`modify`, `perm`, `unique`, …) -/
  facts : Name → Node → List (Str × Str)
  /-- the `size` fact / column of a directory (4096 on pyftpdlib; outside the observable tree) -/
  dirSize : Nat
  /-- `LIST` columns: permission characters, link count, owner, group, date -/
  perms : Node → Str
  links : Node → Str
  uid : Str
  gid : Str
  month : Nat
  day : Nat
  time : LTime
  /-- the calendar year of the exchange (what the LIST date parser substitutes for a missing year) -/
  cy : Nat

/-- the size the server states for an entry -/
def sizeOf (cfg : Profile) : Node → Nat
  | .file b => b.length
  | .dir _ => cfg.dirSize

/-- the facts of one MLSx entry: `type`, `size`, then the profile's -/
def entryFacts (cfg : Profile) (name : Name) (n : Node) : List (Str × Str) :=
  (kType, if n.isDir then kDir else kFile) :: (kSize, decimal (sizeOf cfg n)) :: cfg.facts name n

/-- one `MLSD` line: `type=…;size=…;…; name` (C20's renderer) -/
def mlsxLine (cfg : Profile) (name : Name) (n : Node) : Str :=
  renderMlsd (entryFacts cfg name n) name

/-- what a `LIST` line states about an entry -/
def listEntry (cfg : Profile) (name : Name) (n : Node) : LinuxEntry :=
  { ty := if n.isDir then 'd' else '-', perms := cfg.perms n, suffix := [], links := cfg.links n,
    uid := cfg.uid, gid := cfg.gid, size := decimal (sizeOf cfg n), month := cfg.month, day := cfg.day,
    time := cfg.time, name := name, target := none }

/-- one `LIST` line (C20's renderer: single blanks between the columns) -/
def listLine (cfg : Profile) (name : Name) (n : Node) : Str := renderLinux (listEntry cfg name n)

/-- the absolute path text of a component list: `/c1/c2`, the root is `/` -/
def wirePath : List Name → Str
  | [] => ['/']
  | cs => cs.flatMap fun c => '/' :: c

/-- the FEAT lines: `MLST <params>` iff the commands exist, `MFMT` iff it exists, then the rest -/
def allFeats (cfg : Profile) : List (Str × Str) :=
  (if cfg.mlsd then [(kMLST, cfg.mlstParams)] else []) ++ (if cfg.mfmt then [(kMFMT, [])] else []) ++ cfg.feats

/-- the control reply to `MLST p` for the node `n` found at `p` (RFC 3659 7.7: the entry line starts
    with one space and states the fully qualified pathname; pyftpdlib's first line quotes it too) -/
def mlstText (cfg : Profile) (p : List Name) (n : Node) : Str :=
  "250-Listing \"".toList ++ wirePath p ++ "\":".toList ++ '\n' ::
    (' ' :: renderMlsd (entryFacts cfg (p.getLast?.getD []) n) (wirePath p)) ++ '\n' :: "250 End MLST.".toList

/-! ### the step function -/

/-- flags of `open(path, 'rb' | 'wb' | 'ab' | 'r+b')` -/
def flRb : OFlags := ⟨true, false, false, false, false, false⟩
def flWb : OFlags := ⟨false, true, true, false, true, false⟩
def flAb : OFlags := ⟨false, true, true, false, false, true⟩
def flRwb : OFlags := ⟨true, true, false, false, false, false⟩

/-- the file content at a path (after a successful `open` there is one) -/
def contentAt (t : Node) (p : List Name) : Bytes :=
  match t.get p with
  | some (.file b) => b
  | _ => []

/-- writing `data` at offset `k ≤ old.length` of a file opened `r+b` (nothing is truncated) -/
def overwriteAt (old : Bytes) (k : Nat) (data : Bytes) : Bytes :=
  old.take k ++ data ++ old.drop (k + data.length)

/-- one command.  `(tree', reply)`; a failing command leaves the tree alone. -/
def exec (cfg : Profile) (t : Node) : Cmd → Node × Reply
  | .feat => (t, .ok 211 (renderFeat (allFeats cfg)))
  | .mlst p =>
    if !cfg.mlsd then (t, .err 500)
    else match Posix.stat t p with
      | .error _ => (t, .err 550)                       -- `format_mlsx(.., ignore_err=False)`: `os.stat` raised
      | .ok n => (t, .ok 250 (mlstText cfg p n))
  | .mlsd p =>
    if !cfg.mlsd then (t, .err 500)
    else match Posix.stat t p with
      | .ok (.dir es) => (t, .lines (es.map fun kv => mlsxLine cfg kv.1 kv.2))
      | _ => (t, .err 501)                              -- `if not self.fs.isdir(path)`: 501 (RFC 3659)
  | .list p =>
    match Posix.stat t p with
    | .error _ => (t, .err 550)                         -- `self.fs.lstat(path)` raised
    | .ok (.dir es) => (t, .lines (es.map fun kv => listLine cfg kv.1 kv.2))
    | .ok (.file b) => (t, .lines [listLine cfg (p.getLast?.getD []) (.file b)])   -- RFC 959: the file's own entry
  | .retr p rest =>
    match Posix.open_ t p flRb with
    | .error _ => (t, .err 550)
    | .ok _ =>
      let b := contentAt t p
      if rest > b.length then (t, .err 554) else (t, .data (b.drop rest))
  | .stor p rest data =>
    if rest = 0 then
      match Posix.open_ t p flWb with
      | .error _ => (t, .err 550)
      | .ok t1 => (t1.set p (.file data), .ok 226 [])
    else
      match Posix.open_ t p flRwb with                  -- a pending `REST`: `mode = 'r+'`
      | .error _ => (t, .err 550)
      | .ok _ =>
        let b := contentAt t p
        if rest > b.length then (t, .err 554) else (t.set p (.file (overwriteAt b rest data)), .ok 226 [])
  | .appe p data =>
    match Posix.open_ t p flAb with
    | .error _ => (t, .err 550)
    | .ok t1 => (t1.set p (.file (contentAt t1 p ++ data)), .ok 226 [])
  | .mkd p =>
    match Posix.mkdir t p with
    | .error _ => (t, .err 550)
    | .ok t1 => (t1, .ok 257 [])
  | .rmd p =>
    if p = [] then (t, .err 550)                        -- "Can't remove root directory."
    else match Posix.rmdir t p with
      | .error _ => (t, .err 550)
      | .ok t1 => (t1, .ok 250 [])
  | .dele p =>
    match Posix.unlink t p with
    | .error _ => (t, .err 550)
    | .ok t1 => (t1, .ok 250 [])
  | .mfmt p =>
    if !cfg.mfmt then (t, .err 500)
    else match Posix.stat t p with
      | .ok (.file _) => (t, .ok 213 [])                -- time stamps are outside the tree
      | _ => (t, .err 550)                              -- "… is not retrievable" (missing, or a directory)

/-! ### `Conforming`: the named assumptions about what a server says -/

/-- no CR / LF anywhere (a command line, a line of a listing) -/
def NoCrLf (s : Str) : Prop := '\r' ∉ s ∧ '\n' ∉ s

/-- every assumption about the *text* a server sends that `FsProofs/FtpRefines` uses.  (Its reply
    codes and what it does to the tree are the clauses of `exec`.) -/
structure Conforming (cfg : Profile) : Prop where
  /-- FEAT lines are `SP name [SP params]` on a line of their own, each feature once, and the
      profile's extra lines do not re-declare `MLST` / `MFMT` (so that FEAT tells the variant truthfully) -/
  feat_extra : ∀ kv ∈ cfg.feats, kv.1 ≠ kMLST ∧ kv.1 ≠ kMFMT
  feat_keys : ∀ kv ∈ allFeats cfg, ' ' ∉ kv.1
  feat_text : ∀ kv ∈ allFeats cfg, NoBreak kv.1 ∧ NoBreak kv.2
  feat_nodup : ((allFeats cfg).map Prod.fst).Nodup
  /-- RFC 3659 7.2: every fact is `factname "=" value` without `;` or space, the facts of one entry
      have distinct names (so the profile states neither `type` nor `size` again) -/
  facts_wf : ∀ name n, ∀ kv ∈ cfg.facts name n, WFFact kv
  facts_nodup : ∀ name n, ((entryFacts cfg name n).map fun kv => lower kv.1).Nodup
  /-- facts sit on one line of a control reply (`MLST`): no line feed inside -/
  facts_line : ∀ name n, ∀ kv ∈ cfg.facts name n, '\n' ∉ kv.1 ∧ '\n' ∉ kv.2
  /-- the size stated for a directory is a number `int()` accepts -/
  dir_size : (decimal cfg.dirSize).length ≤ maxStrDigits
  /-- RFC 959 / `ls -l` columns of a LIST line -/
  list_perms : ∀ n, permOk (cfg.perms n) = true
  list_links : ∀ n, cfg.links n ≠ [] ∧ ∀ c ∈ cfg.links n, isDigit c = true
  list_uid : WFId cfg.uid
  list_gid : WFId cfg.gid
  list_time : wfLTime cfg.cy cfg.month cfg.day cfg.time

/-! ### the names and sizes the listing formats carry faithfully -/

/-- a name both the listing format and the transport carry faithfully.
    * both variants: no CR / LF — a listing travels as lines (`ftplib` reads them in universal-newline
      mode, `_parse_mlsx` removes trailing CR / LF: C20's `NoEol`; the `MLST` reply is cut at `\n`), and FTPFS
      itself refuses such names in a path; C20's `WFName` is implied by `cleanName`;
    * LIST variant: additionally C20's `WFLinuxName` — no leading white space (it cannot be told from the
      column separator). -/
def NameOk (cfg : Profile) (n : Name) : Prop :=
  NoCrLf n ∧ (cfg.mlsd = false → Stops isSpace n)

/-- a file size the listing can state as a number `int()` accepts (fewer than 4301 digits) -/
def SizeOk : Node → Prop
  | .file b => (decimal b.length).length ≤ maxStrDigits
  | .dir _ => True

/-- every name in the tree is carried faithfully, every size can be stated -/
def TreeOk (cfg : Profile) (t : Node) : Prop :=
  ∀ cs n, t.get cs = some n → (∀ c ∈ cs, NameOk cfg c) ∧ SizeOk n

/-! ### a concrete profile: what pyftpdlib 1.5.10 says (used by the driver and the examples) -/

def pyftpdlib (mlsd : Bool) (cy : Nat) : Profile :=
  { mlsd := mlsd, mfmt := true,
    mlstParams := "type*;perm*;size*;modify*;unique*;unix.mode;unix.uid;unix.gid;".toList,
    feats := [("EPRT".toList, []), ("EPSV".toList, []), ("MDTM".toList, []), ("REST".toList, "STREAM".toList),
              ("SIZE".toList, []), ("TVFS".toList, []), ("UTF8".toList, [])],
    facts := fun _ n => [("modify".toList, "20000101000000".toList),
                         ("perm".toList, if n.isDir then "elcdfmMTp".toList else "radfwMT".toList)],
    dirSize := 4096,
    perms := fun n => if n.isDir then "rwxr-xr-x".toList else "rw-r--r--".toList,
    links := fun _ => ['1'], uid := "root".toList, gid := "root".toList,
    month := 1, day := 1, time := .year 2000, cy := cy }

end Fs.FtpServer
