/-
  FsModel.Text — the text half of C02 and the layer selection of `fs.iotools`.

  (a) `Newline`, `translateWrite`, `translateRead`, `firstLine`/`linesOf` : the universal-newline
      machinery of `io.TextIOWrapper` (write translation, read translation, `readline`/iteration)
      as pure functions on `List Char` (whole-file semantics: the "CR at a chunk boundary" state of
      `IncrementalNewlineDecoder` is invisible once the whole input has been fed).
  (b) `Codec` : codecs as abstract parameters with the explicit hypothesis `Codec.Roundtrip`;
      concrete strict `utf8` / `utf32le` / `utf16le` / `latin1` / `ascii` (+ errors handlers for the
      two single-byte ones); `BomCodec` : what `TextIOWrapper` does with a byte-order mark
      (written only when the underlying position is 0).
  (c) `makeStream` : `fs.iotools.make_stream` as a layer-selection function; `fsOpen` : `FS.open`
      of fs/base.py; `ioOpen` : the stack `io.open` documents (what `OSFS.open` returns);
      `RawWrapper.step` : the forwarding methods of `fs.iotools.RawWrapper` over `IoRef`;
      `Buffered` : a write-behind layer with an arbitrary flush policy (the specification of what
      buffering may do to the order of raw calls).
  (d) text sessions over the io reference: `storeText`, `fetchText`, `fetchLines`, `appendText`.

  No Mathlib imports (the driver links this module).
-/
import FsModel.File

namespace Fs.Text
open Fs Fs.File

/-! ## (a) universal newlines -/

/-- the `newline` argument of `io.open` / `TextIOWrapper`: `None`, `""`, `"\n"`, `"\r"`, `"\r\n"` -/
inductive Newline where
  | none | empty | lf | cr | crlf
  deriving DecidableEq, Repr, Inhabited

def Newline.all : List Newline := [.none, .empty, .lf, .cr, .crlf]

/-- `TextIOWrapper.__init__`: `writetranslate = newline != ""`, `writenl = newline or os.linesep`;
`write`: `if writetranslate and writenl != "\n": text = text.replace("\n", writenl)`.
`os.linesep` is `"\n"` (Linux, the supported platform): `none` = the text is written unchanged. -/
def writeNl : Newline → Option Str
  | .none => Option.none
  | .empty => Option.none
  | .lf => Option.none
  | .cr => some ['\r']
  | .crlf => some ['\r', '\n']

/-- `text.replace("\n", r)` -/
def replaceLf (r : Str) : Str → Str
  | [] => []
  | c :: cs => if c = '\n' then r ++ replaceLf r cs else c :: replaceLf r cs

/-- the characters handed to the encoder by `write(s)` -/
def translateWrite (nl : Newline) (s : Str) : Str :=
  match writeNl nl with
  | Option.none => s
  | some r => replaceLf r s

/-- `IncrementalNewlineDecoder(translate=True)` over the whole input: `"\r\n"` → `"\n"`, then a
remaining `"\r"` → `"\n"` -/
def univ : Str → Str
  | [] => []
  | [c] => if c = '\r' then ['\n'] else [c]
  | c :: d :: ds =>
    if c = '\r' then
      if d = '\n' then '\n' :: univ ds else '\n' :: univ (d :: ds)
    else c :: univ (d :: ds)

/-- what `read()` returns for decoded characters `s`: translated only when `newline=None`
(`readtranslate = newline is None`) -/
def translateRead (nl : Newline) (s : Str) : Str :=
  match nl with
  | .none => univ s
  | _ => s

/-- length of the line terminator that starts at the head of `s` under the setting (0 = none):
`_PyIO_find_line_ending` — translated (`None`): `"\n"`; universal (`""`): `"\r\n"`, else `"\r"`,
else `"\n"`; otherwise the literal `readnl`. -/
def termLen : Newline → Str → Nat
  | .none, s | .lf, s =>
    match s with
    | c :: _ => if c = '\n' then 1 else 0
    | [] => 0
  | .cr, s =>
    match s with
    | c :: _ => if c = '\r' then 1 else 0
    | [] => 0
  | .crlf, s =>
    match s with
    | c :: d :: _ => if c = '\r' && d = '\n' then 2 else 0
    | _ => 0
  | .empty, s =>
    match s with
    | c :: rest =>
      if c = '\n' then 1
      else if c = '\r' then
        match rest with
        | d :: _ => if d = '\n' then 2 else 1
        | [] => 1
      else 0
    | [] => 0

/-- the first line of `s` (terminator included) and what follows it; `t` recognises a terminator
at the head of its argument -/
def firstLine (t : Str → Nat) : Str → Str × Str
  | [] => ([], [])
  | c :: cs =>
    let k := t (c :: cs)
    if k = 0 then
      let r := firstLine t cs
      (c :: r.1, r.2)
    else ((c :: cs).take k, (c :: cs).drop k)

/-- repeated `readline()` until `""` (`fuel` bounds the number of lines) -/
def linesFuel (t : Str → Nat) : Nat → Str → List Str
  | 0, _ => []
  | fuel + 1, s =>
    if s.isEmpty then []
    else
      let r := firstLine t s
      r.1 :: linesFuel t fuel r.2

def linesOf (t : Str → Nat) (s : Str) : List Str := linesFuel t s.length s

/-- `readline()` on decoded characters `s`: the line and the decoded characters left -/
def readline (nl : Newline) (s : Str) : Str × Str := firstLine (termLen nl) (translateRead nl s)

/-- `list(f)` / `readlines()` / the `readline()` loop on decoded characters `s` -/
def readLines (nl : Newline) (s : Str) : List Str := linesOf (termLen nl) (translateRead nl s)

/-- the line ends with a terminator recognised under the setting -/
def EndsWith (nl : Newline) (l : Str) : Prop :=
  match nl with
  | .none => ∃ p, l = p ++ ['\n']
  | .lf => ∃ p, l = p ++ ['\n']
  | .cr => ∃ p, l = p ++ ['\r']
  | .crlf => ∃ p, l = p ++ ['\r', '\n']
  | .empty => ∃ p, l = p ++ ['\n'] ∨ l = p ++ ['\r']

/-! ## (b) codecs -/

/-- a codec as `TextIOWrapper` uses it on a whole file: `none` = `UnicodeError` -/
structure Codec where
  enc : Str → Option Bytes
  dec : Bytes → Option Str

/-- **the codec hypothesis**: decoding what was encoded gives the string back (for every
encodable string).  Codecs are external; this is the one fact about them the text theorems use. -/
def Codec.Roundtrip (c : Codec) : Prop := ∀ s b, c.enc s = some b → c.dec b = some s

/-- the codec is stateless: encoding piecewise is encoding the concatenation (what lets
`TextIOWrapper` encode write by write) -/
def Codec.Additive (c : Codec) : Prop :=
  ∀ s t a b, c.enc s = some a → c.enc t = some b → c.enc (s ++ t) = some (a ++ b)

def b8 (n : Nat) : UInt8 := UInt8.ofNat n

/-- prepend the character with scalar value `n` to a decoding result -/
def consO (n : Nat) (r : Option Str) : Option Str :=
  match r with
  | Option.none => Option.none
  | some s => some (Char.ofNat n :: s)

def scalar (n : Nat) : Bool := n < 0xD800 || (0xE000 ≤ n && n < 0x110000)

/-! ### UTF-8 (RFC 3629; strict, as `codecs.utf_8_decode(…, "strict")`) -/

def utf8EncChar (c : Char) : Bytes :=
  let n := c.toNat
  if n < 0x80 then [b8 n]
  else if n < 0x800 then [b8 (0xC0 + n / 64), b8 (0x80 + n % 64)]
  else if n < 0x10000 then [b8 (0xE0 + n / 4096), b8 (0x80 + n / 64 % 64), b8 (0x80 + n % 64)]
  else [b8 (0xF0 + n / 262144), b8 (0x80 + n / 4096 % 64), b8 (0x80 + n / 64 % 64), b8 (0x80 + n % 64)]

def utf8Enc : Str → Bytes
  | [] => []
  | c :: cs => utf8EncChar c ++ utf8Enc cs

def isCont (b : UInt8) : Bool := 0x80 ≤ b.toNat && b.toNat < 0xC0

/-- strict decoding: stray continuation bytes, overlong forms (`C0`/`C1` leads, 3-byte forms below
U+0800, 4-byte forms below U+10000), surrogates, values above U+10FFFF, leads `F5..FF` and truncated
sequences are all errors -/
def utf8Dec : Bytes → Option Str
  | [] => some []
  | b0 :: rest =>
    let n0 := b0.toNat
    if n0 < 0x80 then consO n0 (utf8Dec rest)
    else if n0 < 0xC2 then Option.none
    else if n0 < 0xE0 then
      match rest with
      | b1 :: r1 =>
        if isCont b1 then consO ((n0 - 0xC0) * 64 + (b1.toNat - 0x80)) (utf8Dec r1) else Option.none
      | _ => Option.none
    else if n0 < 0xF0 then
      match rest with
      | b1 :: b2 :: r2 =>
        let n := (n0 - 0xE0) * 4096 + (b1.toNat - 0x80) * 64 + (b2.toNat - 0x80)
        if isCont b1 && isCont b2 && 0x800 ≤ n && scalar n then consO n (utf8Dec r2) else Option.none
      | _ => Option.none
    else if n0 < 0xF5 then
      match rest with
      | b1 :: b2 :: b3 :: r3 =>
        let n := (n0 - 0xF0) * 262144 + (b1.toNat - 0x80) * 4096 + (b2.toNat - 0x80) * 64 + (b3.toNat - 0x80)
        if isCont b1 && isCont b2 && isCont b3 && 0x10000 ≤ n && n < 0x110000 then consO n (utf8Dec r3)
        else Option.none
      | _ => Option.none
    else Option.none

def utf8 : Codec := ⟨fun s => some (utf8Enc s), utf8Dec⟩

/-! ### UTF-32-LE and UTF-16-LE (the BOM-less bodies of `utf-32` / `utf-16` on a little-endian host) -/

def utf32EncChar (c : Char) : Bytes :=
  let n := c.toNat
  [b8 (n % 256), b8 (n / 256 % 256), b8 (n / 65536), 0]

def utf32Enc : Str → Bytes
  | [] => []
  | c :: cs => utf32EncChar c ++ utf32Enc cs

def utf32Dec : Bytes → Option Str
  | [] => some []
  | b0 :: b1 :: b2 :: b3 :: rest =>
    let n := b0.toNat + b1.toNat * 256 + b2.toNat * 65536 + b3.toNat * 16777216
    if scalar n then consO n (utf32Dec rest) else Option.none
  | _ => Option.none

def utf32le : Codec := ⟨fun s => some (utf32Enc s), utf32Dec⟩

def le16 (u : Nat) : Bytes := [b8 (u % 256), b8 (u / 256)]

def utf16EncChar (c : Char) : Bytes :=
  let n := c.toNat
  if n < 0x10000 then le16 n
  else le16 (0xD800 + (n - 0x10000) / 1024) ++ le16 (0xDC00 + (n - 0x10000) % 1024)

def utf16Enc : Str → Bytes
  | [] => []
  | c :: cs => utf16EncChar c ++ utf16Enc cs

def utf16Dec : Bytes → Option Str
  | [] => some []
  | b0 :: b1 :: rest =>
    let u := b0.toNat + b1.toNat * 256
    if u < 0xD800 || 0xE000 ≤ u then consO u (utf16Dec rest)
    else if u < 0xDC00 then
      match rest with
      | b2 :: b3 :: r2 =>
        let v := b2.toNat + b3.toNat * 256
        if 0xDC00 ≤ v && v < 0xE000 then consO (0x10000 + (u - 0xD800) * 1024 + (v - 0xDC00)) (utf16Dec r2)
        else Option.none
      | _ => Option.none
    else Option.none
  | _ => Option.none

def utf16le : Codec := ⟨fun s => some (utf16Enc s), utf16Dec⟩

/-! ### the single-byte codecs and their `errors` handlers -/

inductive ErrMode where
  | strict | replace | ignore
  deriving DecidableEq, Repr, Inhabited

/-- `latin-1` (`lim = 256`) / `ascii` (`lim = 128`) encoding -/
def byteEnc (lim : Nat) (em : ErrMode) : Str → Option Bytes
  | [] => some []
  | c :: cs =>
    match byteEnc lim em cs with
    | Option.none => Option.none
    | some r =>
      if c.toNat < lim then some (b8 c.toNat :: r)
      else match em with
        | .strict => Option.none
        | .replace => some (63 :: r)          -- "?"
        | .ignore => some r

/-- decoding: `replace` yields U+FFFD per offending byte, `ignore` drops it -/
def byteDec (lim : Nat) (em : ErrMode) : Bytes → Option Str
  | [] => some []
  | b :: bs =>
    match byteDec lim em bs with
    | Option.none => Option.none
    | some r =>
      if b.toNat < lim then some (Char.ofNat b.toNat :: r)
      else match em with
        | .strict => Option.none
        | .replace => some (Char.ofNat 0xFFFD :: r)
        | .ignore => some r

def latin1 (em : ErrMode := .strict) : Codec := ⟨byteEnc 256 em, byteDec 256 em⟩
def ascii (em : ErrMode := .strict) : Codec := ⟨byteEnc 128 em, byteDec 128 em⟩

/-! ### byte-order marks

`utf-16`, `utf-32`, `utf-8-sig`: the encoder emits the mark with the first piece it encodes,
unless `TextIOWrapper.__init__` found the underlying stream at a position other than 0
(`if self._seekable and self.writable(): position = self.buffer.tell(); if position != 0:
self._encoder.setstate(0)`).  The decoder strips one leading mark. -/

structure BomCodec where
  bom : Bytes
  body : Codec

/-- the bytes one handle produces for its `write` calls `ws` (in order); `atStart` = the
underlying position was 0 when the handle was made -/
def BomCodec.encSession (c : BomCodec) (atStart : Bool) (ws : List Str) : Option Bytes :=
  match ws.mapM c.body.enc with
  | Option.none => Option.none
  | some bs => some ((if atStart && !ws.isEmpty then c.bom else []) ++ bs.flatten)

def stripPrefix (p : Bytes) (b : Bytes) : Bytes := if p.isPrefixOf b then b.drop p.length else b

def BomCodec.dec (c : BomCodec) (b : Bytes) : Option Str := c.body.dec (stripPrefix c.bom b)

def Codec.plain (c : Codec) : BomCodec := ⟨[], c⟩
def utf8sig : BomCodec := ⟨[0xEF, 0xBB, 0xBF], utf8⟩
def utf16 : BomCodec := ⟨[0xFF, 0xFE], utf16le⟩
def utf32 : BomCodec := ⟨[0xFF, 0xFE, 0, 0], utf32le⟩

/-! ## (c) layers: `make_stream`, `FS.open`, `io.open`, `RawWrapper`, buffering -/

inductive BufKind where
  | reader | writer | random
  deriving DecidableEq, Repr, Inhabited

inductive Layer where
  | fileIO                                  -- `io.FileIO` (the raw file `io.open` makes)
  | rawWrapper                              -- `fs.iotools.RawWrapper`
  | buffered (k : BufKind) (size : Nat)     -- `io.BufferedReader/Writer/Random(raw, size)`
  | textIO (lineBuffering : Bool)           -- `io.TextIOWrapper(buffer, …, line_buffering)`
  deriving DecidableEq, Repr, Inhabited

/-- what the wrapped binary file answers to `readable()`, `writable()`, `seekable()` -/
structure Caps where
  readable : Bool
  writable : Bool
  seekable : Bool
  deriving DecidableEq, Repr, Inhabited

/-- `io.DEFAULT_BUFFER_SIZE` -/
def defaultBufferSize : Nat := 8192

/-- the constructor checks of `io.BufferedReader/Writer/Random` (`io.UnsupportedOperation`) -/
def bufferedOk (k : BufKind) (caps : Caps) : Bool :=
  match k with
  | .reader => caps.readable
  | .writer => caps.writable
  | .random => caps.seekable && caps.readable && caps.writable

/-- `fs.iotools.make_stream(name, bin_file, mode, buffering, …, line_buffering)`: the stack of
layers it builds around `bin_file`, innermost first.

    reading = "r" in mode; writing = "w" in mode; appending = "a" in mode; binary = "b" in mode
    if "+" in mode: reading = True; writing = True
    io_object = RawWrapper(bin_file, mode=mode, name=name)
    if buffering >= 0:
        if reading and writing: io_object = io.BufferedRandom(io_object, buffering or DEFAULT_BUFFER_SIZE)
        elif reading:           io_object = io.BufferedReader(…)
        elif writing or appending: io_object = io.BufferedWriter(…)
    if not binary: io_object = io.TextIOWrapper(io_object, …, line_buffering=line_buffering)
-/
def makeStream (mode : Str) (buffering : Int) (lineBuffering : Bool) (caps : Caps) : Res (List Layer) :=
  let plus := mode.contains '+'
  let reading := mode.contains 'r' || plus
  let writing := mode.contains 'w' || plus
  let appending := mode.contains 'a'
  let binary := mode.contains 'b'
  let size : Nat := if buffering = 0 then defaultBufferSize else buffering.toNat
  let kind : Option BufKind :=
    if buffering < 0 then Option.none
    else if reading && writing then some .random
    else if reading then some .reader
    else if writing || appending then some .writer
    else Option.none
  let text : List Layer := if binary then [] else [.textIO lineBuffering]
  match kind with
  | Option.none => .ok (.rawWrapper :: text)
  | some k =>
    if bufferedOk k caps then .ok (.rawWrapper :: .buffered k size :: text)
    else .err .UnsupportedOperation

/-- the capabilities of the file `openbin(path, mode.replace("t", ""))` returns -/
def capsOfMode (mode : Str) : Caps :=
  ⟨Mode.reading mode, Mode.writing mode, true⟩

/-- `FS.open` (fs/base.py): `validate_open_mode(mode)`; `bin_file = self.openbin(path,
mode.replace("t", ""), buffering)`; `make_stream(path, bin_file, mode=mode, buffering=buffering, …)` -/
def fsOpen (mode : Str) (buffering : Int) : Res (List Layer) :=
  match Mode.validate mode with
  | .err e => .err e
  | .ok _ => makeStream mode buffering false (capsOfMode (mode.filter fun c => c != 't'))

/-- `io.open(file, mode, buffering)` on a regular file (what `OSFS.open` returns), innermost first.
`blksize` = `raw._blksize` (`st_blksize`, or `DEFAULT_BUFFER_SIZE`).

    if buffering == 1 or buffering < 0 and raw.isatty(): buffering = -1; line_buffering = True
    if buffering < 0: buffering = raw._blksize
    if buffering == 0: if binary: return raw; raise ValueError("can't have unbuffered text I/O")
    if updating: BufferedRandom elif creating or writing or appending: BufferedWriter
    elif reading: BufferedReader
    if binary: return buffer
    return TextIOWrapper(buffer, encoding, errors, newline, line_buffering)
-/
def ioOpen (mode : Str) (buffering : Int) (blksize : Nat) : Res (List Layer) :=
  match PyMode.ioOpenRawMode mode with
  | Option.none => .err .ValueError
  | some _ =>
    let binary := mode.contains 'b'
    let lineBuffering := buffering = 1
    let size : Nat := if buffering = 1 || buffering < 0 then blksize else buffering.toNat
    if size = 0 then (if binary then .ok [.fileIO] else .err .ValueError)
    else
      let kind : BufKind :=
        if mode.contains '+' then .random
        else if mode.contains 'x' || mode.contains 'w' || mode.contains 'a' then .writer
        else .reader
      .ok (.fileIO :: .buffered kind size :: (if binary then [] else [.textIO lineBuffering]))

/-- `OSFS.open`: `Mode(mode)` validates first (`fs.mode.Mode.validate`), then `io.open` -/
def osOpen (mode : Str) (buffering : Int) (blksize : Nat) : Res (List Layer) :=
  match Mode.validate mode with
  | .err e => .err e
  | .ok _ => ioOpen mode buffering blksize

/-- the class-level shape of a stack: raw kind and buffer sizes forgotten -/
inductive Shape where
  | raw | buf (k : BufKind) | text (lb : Bool)
  deriving DecidableEq, Repr, Inhabited

def Layer.shape : Layer → Shape
  | .fileIO => .raw
  | .rawWrapper => .raw
  | .buffered k _ => .buf k
  | .textIO lb => .text lb

def shapeOf : Res (List Layer) → Option (List Shape)
  | .ok l => some (l.map Layer.shape)
  | .err _ => Option.none

/-! ### `RawWrapper` — the forwarding methods over the wrapped file -/

namespace RawWrapper

/-- the call `RawWrapper.<method>` makes on `self._f`.  `hasReadinto`: does the wrapped object
have a `readinto` attribute (otherwise `readinto(b)` falls back to `self._f.read(len(b))`).

    read(n=-1):      `if n == -1: return self.readall()` (= `self._f.read()`) else `self._f.read(n)`
    readall():       `self._f.read()`
    readinto(b):     `self._f.readinto(b)`, on AttributeError `data = self._f.read(len(b)); b[:len(data)] = data`
    readline(limit): `self._f.readline(-1 if limit is None else limit)`
    readlines(hint): `self._f.readlines(-1 if hint is None else hint)`
    truncate(size):  `self._f.truncate(size)`
    __iter__:        `for line in self._f: yield line`
    __next__:        `IOBase.__next__` → `self.readline()`; `""` → StopIteration
    write/writelines/seek/tell/flush: forwarded; close(): closes the wrapper, then `self._f`
-/
def forward (hasReadinto : Bool) : Op → Op
  | .read n => if n = some (-1) then .read Option.none else .read n
  | .readall => .read Option.none
  | .readinto k => if hasReadinto then .readinto k else .read (some (Int.ofNat k))
  | .readline n => .readline (some (match n with | Option.none => -1 | some z => z))
  | op => op

def step (hasReadinto : Bool) (fl : Flags) (s : IoState) (op : Op) : IoState × Out :=
  IoRef.step fl s (forward hasReadinto op)

def runFrom (hasReadinto : Bool) (fl : Flags) : IoState → List Op → List (Out × Option Nat) × Bytes
  | s, [] => ([], s.bytes)
  | s, op :: ops =>
    let (s', o) := step hasReadinto fl s op
    let (tr, fin) := runFrom hasReadinto fl s' ops
    ((o, IoRef.obsTell s') :: tr, fin)

def run (hasReadinto : Bool) (mode : Str) (existing : Option Bytes) (ops : List Op) :
    Res (List (Out × Option Nat) × Bytes) :=
  match Mode.validateBin mode with
  | .err e => .err e
  | .ok _ =>
    match IoRef.openFile (Mode.flags mode) existing with
    | .err e => .err e
    | .ok s => .ok (runFrom hasReadinto (Mode.flags mode) s ops)

end RawWrapper

/-! ### buffering as write-behind with an arbitrary flush policy

A `Buffered*` (or `TextIOWrapper`) layer may hold back accepted writes and issue them later, in
order, re-chunked; it must issue them before it forwards any other call, and at `close`.  The
policy (`flushNow` per write) stands for "the buffer filled up" / `line_buffering` / `flush()`
inside `write`.  Read-ahead keeps a logical position and restores it before forwarding; it is
represented by that logical position (`raw.pos`). -/

structure BufState where
  raw : IoState
  pending : List Bytes
  deriving Repr, Inhabited

namespace Buffered

/-- issue the pending writes -/
def flush (fl : Flags) (b : BufState) : IoState := b.pending.foldl (IoRef.write1 fl) b.raw

def step (fl : Flags) (flushNow : Bool) (b : BufState) (op : Op) : BufState × Out :=
  match op with
  | .write d =>
    if b.raw.closed then (b, .err .closed)
    else if !fl.writing then (b, .err .notPermitted)
    else
      let b' : BufState := { b with pending := b.pending ++ [d] }
      (if flushNow then ⟨flush fl b', []⟩ else b', .nat d.length)
  | op =>
    let r := IoRef.step fl (flush fl b) op
    (⟨r.1, []⟩, r.2)

/-- results of the calls, and the bytes of the file once the handle is closed (which flushes) -/
def runFrom (fl : Flags) : BufState → List (Op × Bool) → List Out × Bytes
  | b, [] => ([], (flush fl b).bytes)
  | b, (op, f) :: ops =>
    let r := step fl f b op
    let rest := runFrom fl r.1 ops
    (r.2 :: rest.1, rest.2)

end Buffered

/-! ## (d) text sessions over the io reference -/

/-- `open(path, "w", encoding, newline)`; `write(s)`; `close()` — through any byte-level write
path `w` (the buffered layers cut the encoded bytes into raw writes as they please) -/
def storeText (c : Codec) (nl : Newline) (w : WritePath) (existing : Option Bytes) (s : Str) : Option Bytes :=
  (c.enc (translateWrite nl s)).bind (w.store existing)

/-- `open(path, "r", encoding, newline).read()` / `readtext` — through any byte-level read path -/
def fetchText (c : Codec) (nl : Newline) (r : ReadPath) (file : Bytes) : Option Str :=
  ((r.fetch file).bind c.dec).map (translateRead nl)

/-- `list(open(path, "r", encoding, newline))` -/
def fetchLines (c : Codec) (nl : Newline) (r : ReadPath) (file : Bytes) : Option (List Str) :=
  ((r.fetch file).bind c.dec).map (readLines nl)

/-- `appendtext` / `open(path, "a", encoding, newline).write(s)`: the file afterwards.  The mark is
written only when the file was empty or missing (position 0 when the text layer was built). -/
def appendText (c : BomCodec) (nl : Newline) (existing : Option Bytes) (s : Str) : Option Bytes :=
  let old := existing.getD []
  (c.encSession old.isEmpty [translateWrite nl s]).bind fun b =>
    finalOf (IoRef.run modeA existing [.write b, .close])

/-- `writetext` / `open(path, "w", …).write(s)` with a codec that may write a mark -/
def writeTextBom (c : BomCodec) (nl : Newline) (existing : Option Bytes) (s : Str) : Option Bytes :=
  (c.encSession true [translateWrite nl s]).bind fun b =>
    finalOf (IoRef.run modeW existing [.write b, .close])

def fetchTextBom (c : BomCodec) (nl : Newline) (file : Bytes) : Option Str :=
  ((ReadPath.readbytes.fetch file).bind c.dec).map (translateRead nl)

end Fs.Text
