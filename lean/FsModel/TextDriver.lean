/-
  FsModel.TextDriver — line protocol for the text-layer model (FsModel/Text.lean).

  Text travels as code points, not as UTF-8 (the UTF-8 codec is one of the things under test):
  `<cps>` = `-` (empty) or hex scalar values joined by `,`;  `<nl>` = N | E | LF | CR | CRLF
  (`None`, `""`, `"\n"`, `"\r"`, `"\r\n"`).

  text.write <nl> <cps>                 → `ok <cps>`       characters handed to the encoder
  text.read  <nl> <cps>                 → `ok <cps>`       what read() returns for these decoded chars
  text.lines <nl> <cps>                 → `ok L<cps>;<cps>…`  readline loop / iteration / readlines
  text.utf8enc <cps>                    → `ok <hex>`
  text.utf8dec <hex>                    → `ok <cps>` | `err`
  text.enc <codec> <errors> <cps>       → `ok <hex>` | `err`      (body codec, no mark)
  text.dec <codec> <errors> <hex>       → `ok <cps>` | `err`
  text.layers <mode-hex> <buffering> <caps: 3 bits r,w,s> <lb>  → `ok <layer>;…` | `err <Class>`
  text.fsopen <mode-hex> <buffering>    → same, `FS.open`
  text.ioopen <mode-hex> <buffering> <blksize> → same, `io.open`
  text.osopen <mode-hex> <buffering> <blksize> → same, `OSFS.open` (Mode.validate, then `io.open`)
  text.raw <hasReadinto> <mode-hex> <init> <op>…   → as `file.run` (RawWrapper over IoRef)
  text.buf <mode-hex> <init> <[!]op>…  → `ok <out>;… | <final-hex>` (`!` = flush inside this write)
  text.store <codec> <errors> <nl> <w|a> <existing: N|hex> <cps> → `ok <hex>` | `err`
  text.fetch <codec> <errors> <nl> <hex> → `ok <cps> | L<cps>;…` | `err`
-/
import FsModel.Text
import FsModel.FileDriver

namespace Fs.TextDriver
open Fs Fs.File Fs.Text

def hexNat (s : String) : Option Nat :=
  if s.isEmpty then none
  else s.toList.foldlM (fun acc c => (hexVal c).map fun v => acc * 16 + v) 0

def natHex (n : Nat) : String := String.ofList (Nat.toDigits 16 n)

def parseCps (s : String) : Option Str :=
  if s == "-" then some []
  else (s.splitOn ",").mapM fun t => do
    let n ← hexNat t
    if scalar n then some (Char.ofNat n) else none

def cpsStr (s : Str) : String :=
  if s.isEmpty then "-" else ",".intercalate (s.map fun c => natHex c.toNat)

def linesStr (l : List Str) : String := "L" ++ ";".intercalate (l.map cpsStr)

def parseNl (s : String) : Option Newline :=
  match s with
  | "N" => some .none | "E" => some .empty | "LF" => some .lf | "CR" => some .cr | "CRLF" => some .crlf
  | _ => none

def parseErr (s : String) : Option ErrMode :=
  match s with
  | "strict" => some .strict | "replace" => some .replace | "ignore" => some .ignore
  | _ => none

def parseCodec (name : String) (em : ErrMode) : Option BomCodec :=
  match name with
  | "utf-8" => some utf8.plain
  | "utf-8-sig" => some utf8sig
  | "utf-16" => some utf16
  | "utf-16-le" => some utf16le.plain
  | "utf-32" => some utf32
  | "utf-32-le" => some utf32le.plain
  | "latin-1" => some (latin1 em).plain
  | "ascii" => some (ascii em).plain
  | _ => none

def kindStr : BufKind → String
  | .reader => "reader" | .writer => "writer" | .random => "random"

def layerStr : Layer → String
  | .fileIO => "fileio"
  | .rawWrapper => "rawwrapper"
  | .buffered k n => "buffered:" ++ kindStr k ++ ":" ++ toString n
  | .textIO lb => "text:" ++ boolStr lb

def layersStr : Res (List Layer) → String
  | .ok l => "ok " ++ ";".intercalate (l.map layerStr)
  | .err e => "err " ++ e.name

def parseBit (s : String) : Option Bool :=
  match s with
  | "1" => some true | "0" => some false | _ => none

def parseCaps (s : String) : Option Caps :=
  match s.toList with
  | [r, w, k] => do
    pure ⟨← parseBit (String.singleton r), ← parseBit (String.singleton w), ← parseBit (String.singleton k)⟩
  | _ => none

def optBytes : Option Bytes → String
  | none => "err"
  | some b => "ok " ++ bytesToHex b

def parseFlagged (tok : String) : Option (Op × Bool) :=
  if tok.startsWith "!" then (FileDriver.parseOp (tok.drop 1).toString).map fun o => (o, true)
  else (FileDriver.parseOp tok).map fun o => (o, false)

def handle (cmd : String) (args : List String) : Option String :=
  match cmd with
  | "text.write" => do
      let nl ← parseNl (← args[0]?)
      let s ← parseCps (← args[1]?)
      some ("ok " ++ cpsStr (translateWrite nl s))
  | "text.read" => do
      let nl ← parseNl (← args[0]?)
      let s ← parseCps (← args[1]?)
      some ("ok " ++ cpsStr (translateRead nl s))
  | "text.lines" => do
      let nl ← parseNl (← args[0]?)
      let s ← parseCps (← args[1]?)
      some ("ok " ++ linesStr (readLines nl s))
  | "text.utf8enc" => do
      let s ← parseCps (← args[0]?)
      some ("ok " ++ bytesToHex (utf8Enc s))
  | "text.utf8dec" => do
      let b ← hexToBytes (← args[0]?)
      match utf8Dec b with
      | none => some "err"
      | some s => some ("ok " ++ cpsStr s)
  | "text.enc" => do
      let c ← parseCodec (← args[0]?) (← parseErr (← args[1]?))
      let s ← parseCps (← args[2]?)
      some (optBytes (c.body.enc s))
  | "text.dec" => do
      let c ← parseCodec (← args[0]?) (← parseErr (← args[1]?))
      let b ← hexToBytes (← args[2]?)
      match c.body.dec b with
      | none => some "err"
      | some s => some ("ok " ++ cpsStr s)
  | "text.layers" => do
      let mode ← Proto.arg args 0
      let buffering ← (← args[1]?).toInt?
      let caps ← parseCaps (← args[2]?)
      let lb ← parseBit (← args[3]?)
      some (layersStr (makeStream mode buffering lb caps))
  | "text.fsopen" => do
      let mode ← Proto.arg args 0
      let buffering ← (← args[1]?).toInt?
      some (layersStr (fsOpen mode buffering))
  | "text.ioopen" => do
      let mode ← Proto.arg args 0
      let buffering ← (← args[1]?).toInt?
      let blk ← (← args[2]?).toNat?
      some (layersStr (ioOpen mode buffering blk))
  | "text.osopen" => do
      let mode ← Proto.arg args 0
      let buffering ← (← args[1]?).toInt?
      let blk ← (← args[2]?).toNat?
      some (layersStr (osOpen mode buffering blk))
  | "text.raw" => do
      let hr ← parseBit (← args[0]?)
      let mode ← Proto.arg args 1
      let init ← FileDriver.parseInit (← args[2]?)
      let ops ← (args.drop 3).mapM FileDriver.parseOp
      some (FileDriver.runStr (RawWrapper.run hr mode init ops))
  | "text.buf" => do
      let mode ← Proto.arg args 0
      let init ← FileDriver.parseInit (← args[1]?)
      let ops ← (args.drop 2).mapM parseFlagged
      match Mode.validateBin mode with
      | .err e => some ("err " ++ e.name)
      | .ok _ =>
        match IoRef.openFile (Mode.flags mode) init with
        | .err e => some ("err " ++ e.name)
        | .ok s =>
          let r := Buffered.runFrom (Mode.flags mode) ⟨s, []⟩ ops
          some ("ok " ++ (if r.1.isEmpty then "." else ";".intercalate (r.1.map FileDriver.outStr)) ++
                " | " ++ bytesToHex r.2)
  | "text.store" => do
      let c ← parseCodec (← args[0]?) (← parseErr (← args[1]?))
      let nl ← parseNl (← args[2]?)
      let how ← args[3]?
      let ex ← FileDriver.parseInit (← args[4]?)
      let s ← parseCps (← args[5]?)
      match how with
      | "w" => some (optBytes (writeTextBom c nl ex s))
      | "a" => some (optBytes (appendText c nl ex s))
      | _ => none
  | "text.fetch" => do
      let c ← parseCodec (← args[0]?) (← parseErr (← args[1]?))
      let nl ← parseNl (← args[2]?)
      let b ← hexToBytes (← args[3]?)
      match (ReadPath.readbytes.fetch b).bind c.dec with
      | none => some "err"
      | some s => some ("ok " ++ cpsStr (translateRead nl s) ++ " | " ++ linesStr (readLines nl s))
  | _ => none

end Fs.TextDriver
