/-
  FsModel.Walk — fs/walk.py: the two work-list machines of `Walker` (`_walk_breadth`,
  `_walk_depth`), the per-entry predicates, `walk`'s regrouping into Steps and
  `files / dirs / info`; and `WalkSpec`: the recursive definition of the documented subset.

  Conventions of this model
  * The filesystem is a `Node` tree.  A directory path is the list of its components from the
    root (`WPath`); the Python strings are obtained by `render` (`"/" + "/".join(cs)`), and the
    two places where the code builds a path *string* for glob matching are transcribed on
    strings: `combine(path, name)` for directories and (since the fix a47d87a) for files too.
    The raw start-path string is normalised by `_iter_walk` (`abspath(normpath(path))`, fix
    429ed79): `startOf` / `iterWalkStr`.
  * A work-list element carries, next to the directory path, the listing `_scan(fs, path)`
    returns for it (the entries of that directory in listing order).  `FsProofs.C13.paths_correct`
    shows that for a well-formed tree this is `get path t`, i.e. exactly what a fresh `scandir`
    reads.  Carrying the listing makes both machines total by an explicit measure (total size of
    the sub-trees still in the work-list) without any well-formedness assumption.
  * Name matchers are parameters: an option that is `None` in Python is `none`; otherwise it is
    the predicate `fs.match(patterns, ·)` / `fs.match_glob(patterns, ·)`.  `filter_glob` is used in
    two ways — exactly for files, with `accept_prefix=True` for directories — so it carries both
    predicates (`GlobFilter`).
  * `ignore_errors` / `on_error` are outside the model (a static tree has no scan errors except at
    the start path, which `iterWalk` reports).
-/
import FsModel.Tree

namespace Fs.Walk
open Fs Fs.Path

abbrev WPath := List Name

/-- the absolute path string of a component list: `"/" + "/".join(cs)` -/
def render (p : WPath) : Str := '/' :: joinSlash p

/-- `Walker._calculate_depth(path)`: `_path = path.strip("/"); _path.count("/") + 1 if _path else 0` -/
def calculateDepth (path : Str) : Nat :=
  let p := stripSlash path
  if p == [] then 0 else p.count '/' + 1

inductive Search where
  | breadth | depth
  deriving DecidableEq, Repr

/-- `filter_glob`, as the walker consults it -/
structure GlobFilter where
  /-- `fs.match_glob(filter_glob, ·)` — used for files -/
  exact : Str → Bool
  /-- `fs.match_glob(filter_glob, ·, accept_prefix=True)` — used for directories -/
  pref : Str → Bool

/-- the option record of `Walker.__init__` (`ignore_errors`/`on_error` aside; `search` is passed
separately). -/
structure Opts where
  filter      : Option (Name → Bool) := none
  exclude     : Option (Name → Bool) := none
  filterDirs  : Option (Name → Bool) := none
  excludeDirs : Option (Name → Bool) := none
  filterGlob  : Option GlobFilter := none
  /-- `fs.match_glob(exclude_glob, ·)` -/
  excludeGlob : Option (Str → Bool) := none
  maxDepth    : Option Int := none

/-- `opt is not None and m(x)` -/
def optAny {α : Type} (f : Option (α → Bool)) (x : α) : Bool :=
  match f with | none => false | some g => g x

/-- `opt is None or m(x)` -/
def optAll {α : Type} (f : Option (α → Bool)) (x : α) : Bool :=
  match f with | none => true | some g => g x

/-- the string `_check_open_dir` matches globs against: `combine(path, info.name)` -/
def dirGlobPath (dir : WPath) (k : Name) : Str := combine (render dir) k

/-- the string `_check_file` matches globs against: `full_path = combine(dir_path, info.name)` -/
def fileGlobPath (dir : WPath) (k : Name) : Str := combine (render dir) k

/-- `self.filter_glob is None or fs.match_glob(self.filter_glob, s, accept_prefix=True)` -/
def globDirOk (o : Opts) (s : Str) : Bool :=
  match o.filterGlob with | none => true | some g => g.pref s

/-- `self.filter_glob is None or fs.match_glob(self.filter_glob, s)` -/
def globFileOk (o : Opts) (s : Str) : Bool :=
  match o.filterGlob with | none => true | some g => g.exact s

/-- `Walker._check_open_dir` (the overridable `check_open_dir` returns True) -/
def checkOpenDir (o : Opts) (dir : WPath) (k : Name) : Bool :=
  if optAny o.excludeDirs k then false
  else if optAny o.excludeGlob (dirGlobPath dir k) then false
  else if !optAll o.filterDirs k then false
  else if !globDirOk o (dirGlobPath dir k) then false
  else true

/-- `Walker._check_scan_dir`: `if self.max_depth is not None and depth >= self.max_depth: return False` -/
def checkScanDir (o : Opts) (depth : Int) : Bool :=
  match o.maxDepth with
  | some m => !(decide (depth ≥ m))
  | none => true

/-- `Walker._check_file` (the overridable `check_file` returns True) -/
def checkFile (o : Opts) (dir : WPath) (k : Name) : Bool :=
  if optAny o.exclude k then false
  else if optAny o.excludeGlob (fileGlobPath dir k) then false
  else if !optAll o.filter k then false
  else if !globFileOk o (fileGlobPath dir k) then false
  else true

/-- `_depth = _calculate_depth(dir_path) - depth + 1` for an entry of directory `dir`, where
`d0 = _calculate_depth(start)`.  On rendered component paths `_calculate_depth` is the number
of components (`FsProofs.C13.calculateDepth_render`). -/
def relDepth (d0 : Nat) (dir : WPath) : Int := (dir.length : Int) - (d0 : Int) + 1

abbrev Info := Name × Node

/-- what `_walk_breadth` / `_walk_depth` yield: `(dir_path, info)` or the end marker `(dir_path, None)` -/
abbrev Event := WPath × Option Info

/-! ### breadth first -/

abbrev Queue := List (WPath × Ents)

def qsize : Queue → Nat
  | [] => 0
  | (_, es) :: q => 1 + entsCount es + qsize q

/-- the inner `for info in _scan(fs, dir_path)` of `_walk_breadth`: the events yielded and the
directories pushed on the queue, both in listing order -/
def scanBreadth (o : Opts) (d0 : Nat) (dir : WPath) : Ents → List Event × Queue
  | [] => ([], [])
  | (k, .dir sub) :: es =>
    let r := scanBreadth o d0 dir es
    if checkOpenDir o dir k then
      ((dir, some (k, .dir sub)) :: r.1,
        if checkScanDir o (relDepth d0 dir) then (dir ++ [k], sub) :: r.2 else r.2)
    else r
  | (k, .file b) :: es =>
    let r := scanBreadth o d0 dir es
    if checkFile o dir k then ((dir, some (k, .file b)) :: r.1, r.2) else r

theorem scanBreadth_qsize (o : Opts) (d0 : Nat) (dir : WPath) (es : Ents) :
    qsize (scanBreadth o d0 dir es).2 ≤ entsCount es := by
  induction es with
  | nil => simp [scanBreadth, qsize, entsCount]
  | cons e es ih =>
    obtain ⟨k, v⟩ := e
    cases v with
    | file b =>
      simp only [scanBreadth, entsCount, Node.count]
      split <;> (try dsimp only) <;> omega
    | dir sub =>
      simp only [scanBreadth, entsCount, Node.count]
      split
      · split
        · simp only [qsize]; omega
        · (try dsimp only); omega
      · omega

theorem qsize_append (a b : Queue) : qsize (a ++ b) = qsize a + qsize b := by
  induction a with
  | nil => simp [qsize]
  | cons x a ih => obtain ⟨p, es⟩ := x; simp only [List.cons_append, qsize, ih]; omega

/-- `_walk_breadth`: `queue = deque([path])`, pop from one end, push on the other (FIFO);
the head of the list is the next directory to pop. -/
def walkBreadth (o : Opts) (d0 : Nat) : Queue → List Event
  | [] => []
  | (dir, es) :: q =>
    let r := scanBreadth o d0 dir es
    r.1 ++ (dir, none) :: walkBreadth o d0 (q ++ r.2)
termination_by q => qsize q
decreasing_by
  have := scanBreadth_qsize o d0 dir es
  simp only [qsize_append, qsize]
  omega

/-! ### breadth first, the queue holding paths only -/

/-- `_walk_breadth` with the queue holding directory *paths only*; every popped directory is
re-read from the tree (`scandir` = `get`).  `fuel` bounds the number of directories popped. -/
def walkBreadthPaths (o : Opts) (d0 : Nat) (t : Node) : Nat → List WPath → List Event
  | 0, _ => []
  | _ + 1, [] => []
  | fuel + 1, dir :: q =>
    match t.get dir with
    | some (.dir es) =>
      let r := scanBreadth o d0 dir es
      r.1 ++ (dir, none) :: walkBreadthPaths o d0 t fuel (q ++ r.2.map (·.1))
    | _ => []

/-! ### depth first -/

/-- a stack element of `_walk_depth`: `(dir_path, iter_files, parent)` -/
abbrev Frame := WPath × Ents × Option (WPath × Info)

def ssize : List Frame → Nat
  | [] => 0
  | (_, es, _) :: st => 1 + 2 * entsCount es + ssize st

/-- `_walk_depth`: the head of the list is `stack[-1]`. -/
def walkDepth (o : Opts) (d0 : Nat) : List Frame → List Event
  | [] => []
  | (dir, [], parent) :: st =>
    -- `info is None`: the iterator is exhausted
    (match parent with
      | some p => [(p.1, some p.2)]
      | none => []) ++ (dir, none) :: walkDepth o d0 st
  | (dir, (k, .dir sub) :: es, parent) :: st =>
    if checkOpenDir o dir k then
      if checkScanDir o (relDepth d0 dir) then
        walkDepth o d0 ((dir ++ [k], sub, some (dir, (k, .dir sub))) :: (dir, es, parent) :: st)
      else
        (dir, some (k, .dir sub)) :: walkDepth o d0 ((dir, es, parent) :: st)
    else walkDepth o d0 ((dir, es, parent) :: st)
  | (dir, (k, .file b) :: es, parent) :: st =>
    if checkFile o dir k then
      (dir, some (k, .file b)) :: walkDepth o d0 ((dir, es, parent) :: st)
    else walkDepth o d0 ((dir, es, parent) :: st)
termination_by st => ssize st
decreasing_by
  all_goals simp only [ssize, entsCount, Node.count]
  all_goals omega

/-! ### entry points -/

/-- `Walker._iter_walk(fs, path)`; the error is what the first `scandir` raises -/
def iterWalk (o : Opts) (s : Search) (t : Node) (start : WPath) : Res (List Event) :=
  match t.get start with
  | none => .err .ResourceNotFound
  | some (.file _) => .err .DirectoryExpected
  | some (.dir es) =>
    .ok (match s with
      | .breadth => walkBreadth o start.length [(start, es)]
      | .depth => walkDepth o start.length [(start, es, none)])

/-- `_iter_walk` in breadth order with the paths-only queue (every directory re-read from the tree) -/
def iterWalkPaths (o : Opts) (t : Node) (start : WPath) : List Event :=
  walkBreadthPaths o start.length t t.count [start]

/-- `abspath(normpath(path))` of `_iter_walk` (and of `walk`), as the component list of the result;
the error is `IllegalBackReference` of `normpath` -/
def startOf (path : Str) : Res WPath :=
  (normpath path).map fun p => PathSpec.comps (abspath p)

/-- `Walker._iter_walk(fs, path)` for a raw path string -/
def iterWalkStr (o : Opts) (s : Search) (t : Node) (path : Str) : Res (List Event) :=
  (startOf path).bind (iterWalk o s t)

/-- the resources of an event sequence: `(combine(dir, info.name), info)` for the non-markers -/
def resources (evs : List Event) : List (WPath × Node) :=
  evs.filterMap fun e => match e.2 with
    | some i => some (e.1 ++ [i.1], i.2)
    | none => none

/-- `Walker.info` -/
def info (o : Opts) (s : Search) (t : Node) (start : WPath) : Res (List (WPath × Node)) :=
  (iterWalk o s t start).map resources

/-- `Walker.files`: `if info is not None and not info.is_dir: yield combine(_path, info.name)` -/
def files (o : Opts) (s : Search) (t : Node) (start : WPath) : Res (List WPath) :=
  (iterWalk o s t start).map fun evs => evs.filterMap fun e => match e.2 with
    | some i => if !i.2.isDir then some (e.1 ++ [i.1]) else none
    | none => none

/-- `Walker.dirs` -/
def dirs (o : Opts) (s : Search) (t : Node) (start : WPath) : Res (List WPath) :=
  (iterWalk o s t start).map fun evs => evs.filterMap fun e => match e.2 with
    | some i => if i.2.isDir then some (e.1 ++ [i.1]) else none
    | none => none

structure Step where
  path : WPath
  dirs : List Info
  files : List Info

/-- `dir_info` of `Walker.walk`: a dict from directory path to the infos seen so far -/
abbrev Pending := List (WPath × List Info)

def pendGet (d : WPath) : Pending → List Info
  | [] => []
  | (k, v) :: r => if k = d then v else pendGet d r

/-- `dir_info[dir_path].append(info)` on a `defaultdict(list)` -/
def pendAdd (d : WPath) (i : Info) : Pending → Pending
  | [] => [(d, [i])]
  | (k, v) :: r => if k = d then (k, v ++ [i]) :: r else (k, v) :: pendAdd d i r

/-- `del dir_info[dir_path]` -/
def pendDel (d : WPath) (p : Pending) : Pending := p.filter (fun kv => kv.1 ≠ d)

/-- the loop of `Walker.walk`; also returns what is left in `dir_info` at the end -/
def regroup : List Event → Pending → List Step × Pending
  | [], pend => ([], pend)
  | (d, none) :: evs, pend =>
    let infos := pendGet d pend
    let r := regroup evs (pendDel d pend)
    (⟨d, infos.filter (fun i => i.2.isDir), infos.filter (fun i => !i.2.isDir)⟩ :: r.1, r.2)
  | (d, some i) :: evs, pend => regroup evs (pendAdd d i pend)

/-- `Walker.walk` (the start path is already `abspath(normpath(path))`, a component list) -/
def walk (o : Opts) (s : Search) (t : Node) (start : WPath) : Res (List Step) :=
  (iterWalk o s t start).map fun evs => (regroup evs []).1

/-! the four entry points on a raw start-path string (all go through `_iter_walk`'s normalisation) -/

def infoStr (o : Opts) (s : Search) (t : Node) (path : Str) : Res (List (WPath × Node)) :=
  (startOf path).bind (info o s t)
def filesStr (o : Opts) (s : Search) (t : Node) (path : Str) : Res (List WPath) :=
  (startOf path).bind (files o s t)
def dirsStr (o : Opts) (s : Search) (t : Node) (path : Str) : Res (List WPath) :=
  (startOf path).bind (dirs o s t)
def walkStr (o : Opts) (s : Search) (t : Node) (path : Str) : Res (List Step) :=
  (startOf path).bind (walk o s t)

end Fs.Walk

/-! ## WalkSpec — the documented subset, by recursion over the tree -/

namespace Fs.WalkSpec
open Fs Fs.Walk

/-- a file is returned iff its name passes `filter`, is not matched by `exclude`, and its path
passes `filter_glob` / is not matched by `exclude_glob` -/
def fileSel (o : Opts) (dir : WPath) (k : Name) : Bool :=
  optAll o.filter k && !optAny o.exclude k &&
  globFileOk o (fileGlobPath dir k) && !optAny o.excludeGlob (fileGlobPath dir k)

/-- a directory is opened (returned, and its contents considered) iff its name passes
`filter_dirs`, is not matched by `exclude_dirs`, and its path passes the globs -/
def dirSel (o : Opts) (dir : WPath) (k : Name) : Bool :=
  optAll o.filterDirs k && !optAny o.excludeDirs k &&
  globDirOk o (dirGlobPath dir k) && !optAny o.excludeGlob (dirGlobPath dir k)

/-- the contents of a directory at relative depth `r` below the start (`r ≥ 1`) are walked iff
`r < max_depth` -/
def depthOk (o : Opts) (r : Int) : Bool :=
  match o.maxDepth with
  | some m => decide (r < m)
  | none => true

/-- the selected resources below directory `dir` (whose entries are the argument), parents
before children, in listing order -/
def selEnts (o : Opts) (d0 : Nat) (dir : WPath) : Ents → List (WPath × Node)
  | [] => []
  | (k, .file b) :: es =>
    (if fileSel o dir k then [(dir ++ [k], Node.file b)] else []) ++ selEnts o d0 dir es
  | (k, .dir sub) :: es =>
    (if dirSel o dir k then
      (dir ++ [k], Node.dir sub) ::
        (if depthOk o (relDepth d0 dir) then selEnts o d0 (dir ++ [k]) sub else [])
     else []) ++ selEnts o d0 dir es

/-- the same set in post-order: a directory after everything selected inside it -/
def selEntsPost (o : Opts) (d0 : Nat) (dir : WPath) : Ents → List (WPath × Node)
  | [] => []
  | (k, .file b) :: es =>
    (if fileSel o dir k then [(dir ++ [k], Node.file b)] else []) ++ selEntsPost o d0 dir es
  | (k, .dir sub) :: es =>
    (if dirSel o dir k then
      (if depthOk o (relDepth d0 dir) then selEntsPost o d0 (dir ++ [k]) sub else []) ++
        [(dir ++ [k], Node.dir sub)]
     else []) ++ selEntsPost o d0 dir es

/-- `selected opts t start`: the documented subset of the resources below `start` -/
def selected (o : Opts) (t : Node) (start : WPath) : List (WPath × Node) :=
  match t.get start with
  | some (.dir es) => selEnts o start.length start es
  | _ => []

def selectedPost (o : Opts) (t : Node) (start : WPath) : List (WPath × Node) :=
  match t.get start with
  | some (.dir es) => selEntsPost o start.length start es
  | _ => []

/-- every resource strictly below `start`, parents first (`Node.walk`) -/
def allBelow (t : Node) (start : WPath) : List (WPath × Node) :=
  match t.get start with
  | some n => n.walk start
  | none => []

/-- The documented subset stated *per resource*, by recursion over the relative path only:
`rel` leads from directory `dir` to a node `n`; every directory on the way is opened
(`dirSel`) and scanned (`depthOk`), and the last component passes the file or directory test. -/
def chain (o : Opts) (d0 : Nat) (n : Node) : WPath → WPath → Bool
  | _, [] => false
  | dir, [k] => if n.isDir then dirSel o dir k else fileSel o dir k
  | dir, k :: k' :: rest =>
    dirSel o dir k && depthOk o (relDepth d0 dir) && chain o d0 n (dir ++ [k]) (k' :: rest)

/-- the directory names on the way from the start to a resource at relative path `rel` (the
resource itself included when it is a directory) -/
def dirComps (n : Node) (rel : WPath) : WPath := if n.isDir then rel else rel.dropLast

/-- the path of a resource relative to the start directory -/
def relOf (start p : WPath) : WPath := p.drop start.length

/-- the `(directory, info)` pairs a Step stands for -/
def stepFlat (s : Step) : List (WPath × Info) := (s.dirs ++ s.files).map (fun i => (s.path, i))

/-- the non-marker events of an event sequence -/
def infoEvents (evs : List Event) : List (WPath × Info) := evs.filterMap (fun e => e.2.map (fun i => (e.1, i)))

/-- the directories of the end markers, in order -/
def markers (evs : List Event) : List WPath := evs.filterMap (fun e => if e.2.isNone then some e.1 else none)

/-- **What the prefix matcher must provide.**  Prefix acceptance (`match_glob(…,
accept_prefix=True)`) is *complete* for the exact matcher (`match_glob(…)`): whenever the path
string of a file matches exactly, the path string of every directory on the way to it is accepted
as a prefix.  This is the property `glob.get_matcher(accept_prefix=True)` is meant to have (fix
a715270); the matcher being a parameter of the model, it is a hypothesis of `prune_sound_glob` and
is validated on the real `fs.glob.get_matcher` by the harness for every pattern list / path explored. -/
def PrefixComplete (g : GlobFilter) : Prop :=
  ∀ (dir : WPath) (k : Name) (rest : WPath) (name : Name),
    g.exact (fileGlobPath (dir ++ k :: rest) name) = true → g.pref (dirGlobPath dir k) = true

end Fs.WalkSpec
