/-
  Driver command for the functor model of MountFS (FsModel.MountFs) with `Mem.step` (MemoryFS as
  coded) as `default_fs` and, as mounted members, MemoryFS objects or — one level of nesting — MountFS
  objects over MemoryFS members (the functor applied twice).

  mountfs.step <state> <op…>   ->   <ok v|err E> | <state'>
  mountfs.mount <state> <hex path>   (mounts a fresh empty MemoryFS)   ->   <ok|MountError|err E> | <state'>

  <state>  = <closed 0|1> <auto_close 0|1> <default closed 0|1> <default tree> <n> <member>{n} <r> <member>{r}
             (the second list = members released by `close()`: `del self.mounts[:]`; input may give `0`)
  <member> = m <hex key> <closed 0|1> <tree>                         a MemoryFS
           | n <hex key> <state>                                      a MountFS (its members must be `m`)
  keys are the stored mount keys (`forcedir(abspath(normpath(path)))`), trees as in `ref.step`, ops as in
  `ref.step` (+ `scandir <p>`, `validatepath <p>`).
-/
import FsModel.MountFs
import FsModel.Mem
import FsModel.RefDriver
import FsModel.Proto

namespace Fs.MountFsDriver
open Fs Fs.Ref Fs.Route Fs.Proto Fs.MountFs

/-- a mounted member of the outer MountFS -/
inductive Member where
  | mem (s : State)
  | mnt (m : MState State)

def innerStep : FS (MState State) := MountFs.step Mem.step Mem.step

def memberStep : FS Member
  | .mem s, op => let r := Mem.step s op; (.mem r.1, r.2)
  | .mnt m, op => let r := innerStep m op; (.mnt r.1, r.2)

def outerStep : FS (MState Member) := MountFs.step Mem.step memberStep

abbrev Toks := List String

def parseState1 (parseMember : Toks → Option ((Str × σ) × Toks)) (t : Toks) : Option (MState σ × Toks) := do
  match t with
  | c :: a :: dc :: dt :: n :: rest =>
    let d ← RefDriver.loadTree dt
    let rec many : Nat → Toks → List (Str × σ) → Option (List (Str × σ) × Toks)
      | 0, ts, acc => some (acc.reverse, ts)
      | k + 1, ts, acc => do
        let (m, ts') ← parseMember ts
        many k ts' (m :: acc)
    let (ms, rest1) ← many n.toNat! rest []
    match rest1 with
    | r :: rest2 =>
      if r.all Char.isDigit && !r.isEmpty then do
        let (rs, rest3) ← many r.toNat! rest2 []
        pure ({ closed := c == "1", autoClose := a == "1", dflt := { root := d, closed := dc == "1" },
                mounts := ms, released := rs }, rest3)
      else none
    | [] => none
  | _ => none

def parseMem : Toks → Option ((Str × State) × Toks)
  | "m" :: k :: c :: t :: rest => do
    let key ← hexToStr k
    let tr ← RefDriver.loadTree t
    pure ((key, { root := tr, closed := c == "1" }), rest)
  | _ => none

def parseMember : Toks → Option ((Str × Member) × Toks)
  | "n" :: k :: rest => do
    let key ← hexToStr k
    let (m, rest') ← parseState1 parseMem rest
    pure ((key, .mnt m), rest')
  | ts => do
    let ((k, s), rest) ← parseMem ts
    pure ((k, .mem s), rest)

def dumpMem (e : Str × State) : String :=
  "m " ++ strToHex e.1 ++ " " ++ boolStr e.2.closed ++ " " ++ RefDriver.dumpTree e.2.root

def dumpState1 (dumpMember : Str × σ → String) (ms : MState σ) : String :=
  " ".intercalate ([boolStr ms.closed, boolStr ms.autoClose, boolStr ms.dflt.closed, RefDriver.dumpTree ms.dflt.root,
    toString ms.mounts.length] ++ ms.mounts.map dumpMember ++ [toString ms.released.length] ++
    ms.released.map dumpMember)

def dumpMember : Str × Member → String
  | (k, .mem s) => dumpMem (k, s)
  | (k, .mnt m) => "n " ++ strToHex k ++ " " ++ dumpState1 dumpMem m

def mountOutStr : Mount.MountOut → String
  | .ok => "ok"
  | .mountError => "MountError"
  | .err e => "err " ++ e.name

def handle (cmd : String) (args : List String) : Option String :=
  match cmd with
  | "mountfs.step" => do
    let (ms, rest) ← parseState1 parseMember args
    let name ← rest[0]?
    let r ← (match name with
      | "scandir" => do
        let p ← arg rest 1
        let x := MountFs.prim Mem.step memberStep ms (.scandir p)
        pure x
      | "validatepath" => do
        let p ← arg rest 1
        pure (ms, match MountFs.validatepath Mem.step memberStep ms p with
          | .ok _ => (.ok .unit : Out)
          | .err e => .err e)
      | _ => do
        let op ← RefDriver.parseOp rest
        pure (outerStep ms op))
    some (res RefDriver.valStr r.2 ++ " | " ++ dumpState1 dumpMember r.1)
  | "mountfs.mount" => do
    let (ms, rest) ← parseState1 parseMember args
    let p ← arg rest 0
    let r := MountFs.mountOne Mem.step ms p (.mem { root := .dir [], closed := false })
    some (mountOutStr r.2 ++ " | " ++ dumpState1 dumpMember r.1)
  | _ => none

end Fs.MountFsDriver
