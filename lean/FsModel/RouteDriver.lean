/-
  FsModel.RouteDriver — line protocol for the MountFS / MultiFS routing models (C17).

  mount.delegate <Lkeys> <path>                       → ok <member> <hex relpath> | err E
  mount.table <Lraw mount paths>                      → <r1,r2,…> | <Lkeys> | <default tree>
  mount.mount <Lkeys> <default tree> <new path>       → <ok|MountError|err E> | <Lkeys'> | <tree'>
  mount.step <closed> <auto> <Lkeys> <flags> <n> <tree0>…<tree n-1> <op…>
  multi.order <prio:idx,…>                            → ok <idx,idx,…>
  multi.build <hexname:prio:write:member,…>           → <entries> | <write|-> | <sort index> | <Lnames in iterate_fs order>
  multi.step <closed> <auto> <write|-> <entries|-> <flags> <n> <tree0>…<tree n-1> <op…>
      entries = <hexname>:<prio>:<idx>:<member>,…  (dict order); flags = one 0/1 per member (closed)
  step replies: none | <ok v|err E> | <calls> | <tree0> … | <flags'> | <closed'> | <table'/entries'> | adm=<E,…>
      calls = <member>:<method>:<hexpath>,…  (`-` when empty)
  op = the operations of `ref.step`, plus `scandir <p>`, `validatepath <p>`, `open <p> <mode> [<data>]`
       (open, optionally write the data once, close), `readtext <p>`, `download <p>`, `writetext <p> <data>`.
  Mount table entry k (0-based) refers to member k+1; member 0 is `default_fs`.
-/
import FsModel.Mount
import FsModel.Multi
import FsModel.RefDriver
import FsModel.Proto

namespace Fs.RouteDriver
open Fs Fs.Ref Fs.Route Fs.Proto

def tableOf (keys : List Str) : Mount.Table :=
  (List.range keys.length).zip keys |>.map fun (k, key) => (key, k + 1)

def keysStr (t : Mount.Table) : String := strList (t.map (·.1))

def callsStr (cs : List Call) : String :=
  if cs.isEmpty then "-" else
  ",".intercalate (cs.map fun c => toString c.fs ++ ":" ++ c.meth.name ++ ":" ++ strToHex c.path)

def flagsOf (s : String) : List Bool := s.toList.map (· == '1')

def loadFss (flags : List Bool) (trees : List String) : Option (List Ref.State) := do
  let ts ← trees.mapM RefDriver.loadTree
  pure ((List.range ts.length).zip ts |>.map fun (i, t) =>
    { root := t, closed := (flags[i]?).getD false })

def dumpFss (f : Fss) (n : Nat) : String :=
  " ".intercalate ((List.range n).map fun i => RefDriver.dumpTree (f i).root)

def flagsStr (f : Fss) (n : Nat) : String :=
  String.ofList ((List.range n).map fun i => if (f i).closed then '1' else '0')

def mountOutStr : Mount.MountOut → String
  | .ok => "ok"
  | .mountError => "MountError"
  | .err e => "err " ++ e.name

/-- operations: reference ops, plus the two primitive-level extras -/
def parseProg (progOf : Ref.Op → Option Prog) (args : List String) : Option (Option Prog ⊕ Unit) := do
  let name ← args[0]?
  match name with
  | "scandir" => do let p ← arg args 1; pure (.inl (some (one (.scandir p))))
  | "validatepath" => do let p ← arg args 1; pure (.inl (some (.validate p (.ret (.ok .unit)))))
  | "open" => do
    let p ← arg args 1
    let m ← arg args 2
    let d : Option Bytes := match args[3]? with
      | some h => hexToBytes h
      | none => none
    pure (.inl (some (one (.open_ p m d))))
  | "readtext" => do let p ← arg args 1; pure (.inl (some (one (.readtext p))))
  | "download" => do let p ← arg args 1; pure (.inl (some (one (.download p))))
  | "writetext" => do
    let p ← arg args 1
    let d ← hexToBytes (← args[2]?)
    pure (.inl (some (one (.writetext p d))))
  | "close" => pure (.inr ())
  | _ => do
    let op ← RefDriver.parseOp args
    pure (.inl (progOf op))

def entryStr (e : Multi.Entry) : String :=
  strToHex e.name ++ ":" ++ toString e.prio ++ ":" ++ toString e.idx ++ ":" ++ toString e.fs

def parseEntry (s : String) : Option Multi.Entry :=
  match s.splitOn ":" with
  | [n, p, i, f] => do
    let name ← hexToStr n
    let prio ← p.toInt?
    let idx ← i.toNat?
    let fs ← f.toNat?
    pure ⟨name, prio, idx, fs⟩
  | _ => none

def parseEntries (s : String) : Option (List Multi.Entry) :=
  if s == "-" then some [] else (s.splitOn ",").mapM parseEntry

def entriesStr (es : List Multi.Entry) : String :=
  if es.isEmpty then "-" else ",".intercalate (es.map entryStr)

def parseOrder (a : String) : Option (List Multi.Entry) :=
  if a == "-" then some [] else
  (a.splitOn ",").mapM fun x =>
    match x.splitOn ":" with
    | [p, i] => do
      let prio ← p.toInt?
      let idx ← i.toNat?
      pure (⟨[], prio, idx, idx⟩ : Multi.Entry)
    | _ => none

def parseAdd (x : String) : Option (Str × Int × Bool × Nat) :=
  match x.splitOn ":" with
  | [n, p, w, f] => do
    let name ← hexToStr n
    let prio ← p.toInt?
    let fs ← f.toNat?
    pure (name, prio, w == "1", fs)
  | _ => none

/-- member states just before the last call of a trace, and that call -/
def beforeLast (f : Fss) : List Call → Option (Fss × Call)
  | [] => none
  | [c] => some (f, c)
  | c :: d :: rest => beforeLast (f.set c.fs (Ref.step (f c.fs) c.op).1) (d :: rest)

/-- When the call ends with an error raised by the last member call, every error class whose
documented condition holds for that member call (backends order their checks differently:
C06); otherwise just the error itself. -/
def admOf (f0 : Fss) (out : Out) (calls : List Call) : List Err :=
  match out with
  | .ok _ => []
  | .err e =>
    match beforeLast f0 calls with
    | none => [e]
    | some (f, c) =>
      match (Ref.step (f c.fs) c.op).2 with
      | .err e' => if e' = e then e :: Ref.adm (f c.fs) c.op else [e]
      | .ok _ => [e]

def stepReply (f0 : Fss) (r : Option (Fss × Out × List Call × Bool × String)) (n : Nat) : String :=
  match r with
  | none => "none"
  | some (f, out, calls, closed, cfg) =>
    res RefDriver.valStr out ++ " | " ++ callsStr calls ++ " | " ++ dumpFss f n ++ " | " ++
      flagsStr f n ++ " | " ++ boolStr closed ++ " | " ++ cfg ++ " | adm=" ++
      ",".intercalate ((admOf f0 out calls).map Err.name)

def handle (cmd : String) (args : List String) : Option String :=
  match cmd with
  | "mount.delegate" => do
    let keys ← argList args 0
    let p ← arg args 1
    some (match Mount.delegate (tableOf keys) p with
      | .ok (i, r) => "ok " ++ toString i ++ " " ++ str r
      | .err e => "err " ++ e.name)
  | "mount.table" => do
    let raws ← argList args 0
    let s0 : Mount.MState := { fs := Fss.ofList [], mounts := [], closed := false, autoClose := true }
    let (s, outs) := raws.foldl (fun (acc : Mount.MState × List String) raw =>
      let r := Mount.mount acc.1 raw (acc.1.mounts.length + 1)
      (r.1, acc.2 ++ [mountOutStr r.2])) (s0, [])
    some (",".intercalate outs ++ " | " ++ keysStr s.mounts ++ " | " ++ RefDriver.dumpTree (s.fs 0).root)
  | "mount.mount" => do
    let keys ← argList args 0
    let t ← RefDriver.loadTree (← args[1]?)
    let p ← arg args 2
    let s0 : Mount.MState :=
      { fs := Fss.ofList [{ root := t, closed := false }], mounts := tableOf keys, closed := false,
        autoClose := true }
    let r := Mount.mount s0 p (keys.length + 1)
    some (mountOutStr r.2 ++ " | " ++ keysStr r.1.mounts ++ " | " ++ RefDriver.dumpTree (r.1.fs 0).root)
  | "mount.step" => do
    let closed ← args[0]?
    let auto ← args[1]?
    let keys ← argList args 2
    let flags ← args[3]?
    let n ← (← args[4]?).toNat?
    let fss ← loadFss (flagsOf flags) ((args.drop 5).take n)
    let s : Mount.MState :=
      { fs := Fss.ofList fss, mounts := tableOf keys, closed := closed == "1", autoClose := auto == "1" }
    let pr ← parseProg Mount.prog (args.drop (5 + n))
    let r := match pr with
      | .inr () => some (Mount.close s)
      | .inl none => none
      | .inl (some p) => some (p.run Mount.sem s)
    some (stepReply s.fs (r.map fun (s', o, c) => (s'.fs, o, c, s'.closed, keysStr s'.mounts)) n)
  | "multi.order" => do
    let a ← args[0]?
    let es ← parseOrder a
    some ("ok " ++ ",".intercalate ((Multi.sortDesc es).map fun e => toString e.idx))
  | "multi.build" => do
    let a ← args[0]?
    let adds ← if a == "-" then some [] else (a.splitOn ",").mapM parseAdd
    let s0 : Multi.MState :=
      { fs := Fss.ofList [], entries := [], sortIndex := 0, writeFs := none, closed := false,
        autoClose := true }
    let s := adds.foldl (fun acc (x : Str × Int × Bool × Nat) =>
      Multi.addFs acc x.1 x.2.2.2 x.2.2.1 x.2.1) s0
    some (entriesStr s.entries ++ " | " ++
      (match s.writeFs with | some i => toString i | none => "-") ++ " | " ++ toString s.sortIndex ++
      " | " ++ strList ((Multi.iterateFs s).map (·.name)))
  | "multi.step" => do
    let closed ← args[0]?
    let auto ← args[1]?
    let w ← args[2]?
    let es ← parseEntries (← args[3]?)
    let flags ← args[4]?
    let n ← (← args[5]?).toNat?
    let fss ← loadFss (flagsOf flags) ((args.drop 6).take n)
    let s : Multi.MState :=
      { fs := Fss.ofList fss, entries := es, sortIndex := es.length,
        writeFs := if w == "-" then none else w.toNat?, closed := closed == "1", autoClose := auto == "1" }
    let pr ← parseProg Multi.prog (args.drop (6 + n))
    let r := match pr with
      | .inr () => some (Multi.close s)
      | .inl none => none
      | .inl (some p) => some (p.run Multi.sem s)
    some (stepReply s.fs (r.map fun (s', o, c) => (s'.fs, o, c, s'.closed, entriesStr s'.entries)) n)
  | _ => none

end Fs.RouteDriver
