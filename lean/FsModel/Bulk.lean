/-
  FsModel.Bulk — the bulk `Copier` of fs/_bulk.py as a labelled transition system.

  Transcribed from
    * fs/_bulk.py   `Copier.__init__/start/stop/__enter__/__exit__/copy/add_error`,
                    `_Worker.run`, `_CopyTask.__call__`
    * fs/copy.py    `copy_file_internal` (the inline path taken when `num_workers == 0`),
                    `copy_dir_if` (the `with Copier(...)` loop, the thread-safe gate)
    * fs/base.py    `FS.upload` / `FS.download` (the two `with openbin(..)` orders of the inline path)
    * fs/tools.py   `copy_file_data` (read until an empty chunk; one write per chunk), `is_thread_safe`
    * fs/mirror.py  `mirror` (same gate, same Copier)

  Threads: the producer `p` (the thread that called copy_fs/copy_dir/mirror/move_fs) and the
  workers `w 0 .. w (n-1)`.  Each thread is deterministic given the shared state and the fault
  oracle, so a *schedule* is a list of thread labels; `stepEv c s l` is the unique next transition
  of thread `l` (or `none` when `l` is blocked / finished) together with the event it emits.

  Granularity: one transition per observable primitive call: `openbin`, `read`, `write`, `close`
  of a file object, `Queue.put`, `Queue.get`, return of `_CopyTask.__call__`, return of
  `_Worker.run`, `Thread.join`, `copy_modified_time` (`setinfo` on the destination),
  `Queue.join`, and the return / raise of `Copier.__exit__`.

  Tasks are identified by their index in `Cfg.tasks`; a file handle is `(task index, side)`.
  No Mathlib imports (the driver executable links this module).
-/
import FsModel.Basic

namespace Fs.Bulk
open Fs

/-! ## Vocabulary -/

inductive Side where
  | src | dst
  deriving DecidableEq, Repr, Inhabited

def Side.other : Side → Side
  | .src => .dst
  | .dst => .src

/-- the primitive calls into which a failure can be injected, per task -/
inductive FStep where
  | open (sd : Side)
  | read (k : Nat)      -- the k-th `read` of the source handle (k = 0, 1, …)
  | write (k : Nat)     -- the write of chunk k
  | close (sd : Side)
  | ptime               -- `copy_modified_time` (setinfo on the destination)
  deriving DecidableEq, Repr

/-- one `(src, dst)` pair handed to `Copier.copy`; `data` is the content of the source file
    (the source tree is not modified while the Copier runs) -/
structure Task where
  src : Str
  dst : Str
  data : Bytes
  deriving DecidableEq, Repr, Inhabited

/-- the destination filesystem restricted to files: path ↦ content, as an association list in
    which the first entry for a path is the current one (only `Store.get` observes a store) -/
abbrev Store := List (Str × Bytes)

def Store.get : Store → Str → Option Bytes
  | [], _ => none
  | (q, v) :: d, p => if q = p then some v else Store.get d p

def Store.set (d : Store) (p : Str) (v : Bytes) : Store := (p, v) :: d

/-- a `write` on a handle opened with mode "w" and only ever written sequentially: append -/
def Store.append (d : Store) (p : Str) (ch : Bytes) : Store :=
  match d.get p with
  | some old => d.set p (old ++ ch)
  | none => d.set p ch

/-- what the single-threaded copy of one file does to the destination -/
def copyOne (d : Store) (t : Task) : Store := d.set t.dst t.data

structure Cfg where
  /-- `Copier.num_workers` (already after the thread-safe gate, see `effectiveWorkers`) -/
  n : Nat
  tasks : List Task
  /-- fault oracle: the listed `(task, step)` calls raise -/
  faults : List (Nat × FStep)
  /-- maximal number of bytes a `read` returns (1 MiB in `_CopyTask`; the harness' proxy files
      return short reads so that small files need several chunks) -/
  chunk : Nat
  preserveTime : Bool
  /-- inline path only: `dst_fs.hassyspath(dst_path)` (download order) -/
  dstFirst : Bool
  /-- destination before the call -/
  d0 : Store

def Cfg.fails (c : Cfg) (i : Nat) (st : FStep) : Bool := c.faults.contains (i, st)

def Cfg.data (c : Cfg) (i : Nat) : Bytes :=
  match c.tasks[i]? with
  | some t => t.data
  | none => []

def Cfg.dstp (c : Cfg) (i : Nat) : Str :=
  match c.tasks[i]? with
  | some t => t.dst
  | none => []

/-- the bytes returned by the k-th read of task i -/
def Cfg.chunkOf (c : Cfg) (i k : Nat) : Bytes := ((c.data i).drop (k * c.chunk)).take c.chunk

/-- `fs.tools.is_thread_safe` + `num_workers=workers if _thread_safe else 0`
    (fs/copy.py copy_dir_if, fs/mirror.py mirror) -/
def isThreadSafe (metas : List Bool) : Bool := metas.all id

def effectiveWorkers (workers : Nat) (srcThreadSafe dstThreadSafe : Bool) : Nat :=
  if isThreadSafe [srcThreadSafe, dstThreadSafe] then workers else 0

/-! ## Control states -/

/-- `_CopyTask.__call__` / the body of `upload`/`download`:
    `try: copy_file_data finally: try: A.close() finally: B.close()` -/
inductive Phase where
  | reading (k : Nat)          -- about to call `read` for the k-th time
  | writing (k : Nat)          -- chunk k was read (non-empty), about to `write` it
  | closeA (exc : Bool)        -- about to close the first handle; `exc` = an exception is in flight
  | closeB (exc : Bool)        -- about to close the second handle
  deriving DecidableEq, Repr

inductive W where
  | idle                              -- blocked in / about to call `queue.get(block=True)`
  | run (i : Nat) (ph : Phase)        -- inside `task()`
  | ending (i : Nat) (exc : Bool)     -- `task()` returned / raised: `add_error`, `task_done`
  | stopping                          -- got the sentinel, `break`, about to return from `run`
  | exited
  deriving DecidableEq, Repr

def W.task? : W → Option Nat
  | .run i _ => some i
  | .ending i _ => some i
  | _ => none

/-- stages of `copy_file_internal` (the inline path, `num_workers == 0`) -/
inductive Inl where
  | second                    -- the first file is open, about to open the second
  | failClose                 -- opening the second failed: `with` closes the first, then raise
  | body (ph : Phase)
  | ptime                     -- `copy_modified_time` after a successful copy
  deriving DecidableEq, Repr

inductive Outcome where
  | ok        -- the call returns normally
  | bulk      -- `BulkCopyFailed` raised by `Copier.__exit__`
  | other     -- another exception propagates (the one in flight, or one raised by `stop()`)
  deriving DecidableEq, Repr

/-- producer program counter.  `rest` = the tasks not yet reached by the `for` loop. -/
inductive Prod where
  | loop (i : Nat) (rest : List Nat)        -- `copier.copy(task i)` is about to be called
  | srcOpen (i : Nat) (rest : List Nat)     -- n>0: source handle open, about to open dst
  | failClose (i : Nat) (rest : List Nat)   -- n>0: `openbin(dst)` raised: `src_file.close(); raise`
  | bothOpen (i : Nat) (rest : List Nat)    -- n>0: about to `queue.put(task)`
  | inl (i : Nat) (st : Inl) (rest : List Nat)
  | sentinels (k : Nat) (exc : Bool)        -- `stop()`: k sentinels put so far
  | joining (k : Nat) (exc : Bool)          -- `stop()`: workers 0..k-1 joined
  | ptimes (i : Nat) (todo : List Nat) (exc : Bool)   -- `stop()`: preserve-time loop over `all_tasks`
  | qjoin (exc : Bool)                      -- `stop()`: `self.queue.join()`
  | exiting (exc : Bool)                    -- end of `__exit__`; `exc` = a non-bulk exception propagates
  | finished (o : Outcome)
  deriving DecidableEq, Repr

structure St where
  prod : Prod
  queue : List (Option Nat)          -- FIFO; `none` = sentinel; capacity `n` (`Queue(maxsize=num_workers)`)
  workers : List W
  opened : List (Nat × Side)         -- handles opened and not yet closed
  errors : List Nat                  -- `Copier.errors` (the task whose exception was added)
  allTasks : List Nat                -- `Copier.all_tasks`
  dest : Store
  timed : List Nat                   -- tasks whose modification time was copied
  done : List Nat                    -- ghost: tasks whose transfer body ran to its end (ok or not)
  dropped : List Nat                 -- ghost: tasks abandoned because the producer raised
  nfail : Nat                        -- ghost: number of injected failures that fired

/-- thread labels: a schedule is a list of these -/
inductive Label where
  | p
  | w (k : Nat)
  deriving DecidableEq, Repr

inductive Ev where
  | open (i : Nat) (sd : Side) (ok : Bool)
  | read (i k n : Nat) (ok : Bool)       -- n = number of bytes returned
  | write (i k : Nat) (ok : Bool)
  | close (i : Nat) (sd : Side) (ok : Bool)
  | put (item : Option Nat)
  | get (item : Option Nat)
  | endTask (i : Nat) (raised : Bool)
  | exitW
  | join (k : Nat)
  | ptime (i : Nat) (ok : Bool)
  | qjoin
  | exit (o : Outcome)
  deriving DecidableEq, Repr

/-! ## Transitions -/

/-- `Copier.__exit__` once the loop is over (or raised): with no workers `stop()` does nothing -/
def afterBody (c : Cfg) (exc : Bool) : Prod :=
  if c.n = 0 then .exiting exc else .sentinels 0 exc

def nextLoop (c : Cfg) (rest : List Nat) : Prod :=
  match rest with
  | [] => afterBody c false
  | i :: r => .loop i r

/-- head of the preserve-time loop over `all_tasks`; after it, `queue.join()` -/
def ptimesNext (todo : List Nat) (exc : Bool) : Prod :=
  match todo with
  | [] => .qjoin exc
  | j :: r => .ptimes j r exc

/-- after the last `join`: the preserve-time loop, then `queue.join()` -/
def afterJoin (c : Cfg) (all : List Nat) (exc : Bool) : Prod :=
  if c.preserveTime then ptimesNext all exc else .qjoin exc

/-- the producer's loop body raised: tasks `dropped` will never be handed over -/
def raiseP (c : Cfg) (s : St) (dropped : List Nat) : St :=
  { s with prod := afterBody c true, dropped := s.dropped ++ dropped }

/-- `openbin(dst, "w")` creates / truncates the destination file at once -/
def openEffect (c : Cfg) (d : Store) (i : Nat) (sd : Side) : Store :=
  match sd with
  | .src => d
  | .dst => d.set (c.dstp i) []

/-- result of one step of a transfer body -/
inductive BNext where
  | cont (ph : Phase)
  | fin (exc : Bool)     -- body over; `exc` = it raised

/-- One step of `try: copy_file_data(src, dst) finally: try: A.close() finally: B.close()`
    for task `i`; `a` is the handle closed first.  Touches only `dest`, `opened`, `nfail`. -/
def bodyStep (c : Cfg) (s : St) (i : Nat) (a : Side) : Phase → BNext × Ev × St
  | .reading k =>
    if c.fails i (.read k) then
      (.cont (.closeA true), .read i k 0 false, { s with nfail := s.nfail + 1 })
    else if (c.chunkOf i k).isEmpty then
      (.cont (.closeA false), .read i k 0 true, s)
    else
      (.cont (.writing k), .read i k (c.chunkOf i k).length true, s)
  | .writing k =>
    if c.fails i (.write k) then
      (.cont (.closeA true), .write i k false, { s with nfail := s.nfail + 1 })
    else
      (.cont (.reading (k + 1)), .write i k true,
        { s with dest := s.dest.append (c.dstp i) (c.chunkOf i k) })
  | .closeA exc =>
    if c.fails i (.close a) then
      (.cont (.closeB true), .close i a false,
        { s with opened := s.opened.erase (i, a), nfail := s.nfail + 1 })
    else
      (.cont (.closeB exc), .close i a true, { s with opened := s.opened.erase (i, a) })
  | .closeB exc =>
    if c.fails i (.close a.other) then
      (.fin true, .close i a.other false,
        { s with opened := s.opened.erase (i, a.other), nfail := s.nfail + 1 })
    else
      (.fin exc, .close i a.other true, { s with opened := s.opened.erase (i, a.other) })

/-- `_Worker.run` -/
def workerStep (c : Cfg) (s : St) (w : Nat) : Option (St × Ev) :=
  match s.workers[w]? with
  | none => none
  | some .idle =>
    match s.queue with
    | [] => none                                  -- `get(block=True)` blocks
    | some i :: q =>
      some ({ s with queue := q, workers := s.workers.set w (.run i (.reading 0)) }, .get (some i))
    | none :: q =>
      some ({ s with queue := q, workers := s.workers.set w .stopping }, .get none)
  | some (.run i ph) =>
    -- `_CopyTask.__call__`: the source handle is closed first
    match bodyStep c s i .src ph with
    | (.cont ph', e, s') => some ({ s' with workers := s'.workers.set w (.run i ph') }, e)
    | (.fin exc, e, s') => some ({ s' with workers := s'.workers.set w (.ending i exc) }, e)
  | some (.ending i exc) =>
    -- `except Exception as error: self.copier.add_error(error)`; `finally: queue.task_done()`
    some ({ s with workers := s.workers.set w .idle,
                   errors := if exc then s.errors ++ [i] else s.errors,
                   done := s.done ++ [i] }, .endTask i exc)
  | some .stopping => some ({ s with workers := s.workers.set w .exited }, .exitW)
  | some .exited => none

/-- first file opened by `copy_file_internal`: the destination when it has a syspath -/
def firstSide (c : Cfg) : Side := if c.dstFirst then .dst else .src

/-- number of `put`s not yet matched by a `task_done` (what `Queue.join` waits for) -/
def busy : W → Bool
  | .run _ _ => true
  | .ending _ _ => true
  | .stopping => true
  | _ => false

def unfinished (s : St) : Nat := s.queue.length + (s.workers.filter busy).length

/-- the producer: `for … : copier.copy(…)` inside `with Copier(…) as copier`, then `__exit__` -/
def prodStep (c : Cfg) (s : St) : Option (St × Ev) :=
  match s.prod with
  | .loop i rest =>
    if c.n = 0 then
      -- `self.queue is None`: copy_file_internal; opens `firstSide` first
      if c.fails i (.open (firstSide c)) then
        some (raiseP c { s with nfail := s.nfail + 1 } (i :: rest), .open i (firstSide c) false)
      else
        some ({ s with prod := .inl i .second rest,
                       opened := (i, firstSide c) :: s.opened,
                       dest := openEffect c s.dest i (firstSide c) }, .open i (firstSide c) true)
    else
      -- `src_file = src_fs.openbin(src_path, "r")`
      if c.fails i (.open .src) then
        some (raiseP c { s with nfail := s.nfail + 1 } (i :: rest), .open i .src false)
      else
        some ({ s with prod := .srcOpen i rest, opened := (i, .src) :: s.opened }, .open i .src true)
  | .srcOpen i rest =>
    if c.fails i (.open .dst) then
      some ({ s with prod := .failClose i rest, nfail := s.nfail + 1 }, .open i .dst false)
    else
      -- both files are open: `self.all_tasks.append(...)` (only started transfers are recorded)
      some ({ s with prod := .bothOpen i rest, allTasks := s.allTasks ++ [i],
                     opened := (i, .dst) :: s.opened,
                     dest := openEffect c s.dest i .dst }, .open i .dst true)
  | .failClose i rest =>
    -- `except Exception: src_file.close(); raise` — raises whether or not the close fails
    if c.fails i (.close .src) then
      some (raiseP c { s with opened := s.opened.erase (i, .src), nfail := s.nfail + 1 } (i :: rest),
            .close i .src false)
    else
      some (raiseP c { s with opened := s.opened.erase (i, .src) } (i :: rest), .close i .src true)
  | .bothOpen i rest =>
    -- `self.queue.put(task)` blocks while the queue holds `maxsize = num_workers` items
    if s.queue.length < c.n then
      some ({ s with prod := nextLoop c rest, queue := s.queue ++ [some i] }, .put (some i))
    else none
  | .inl i .second rest =>
    if c.fails i (.open (firstSide c).other) then
      some ({ s with prod := .inl i .failClose rest, nfail := s.nfail + 1 },
            .open i (firstSide c).other false)
    else
      some ({ s with prod := .inl i (.body (.reading 0)) rest,
                     opened := (i, (firstSide c).other) :: s.opened,
                     dest := openEffect c s.dest i (firstSide c).other },
            .open i (firstSide c).other true)
  | .inl i .failClose rest =>
    if c.fails i (.close (firstSide c)) then
      some (raiseP c { s with opened := s.opened.erase (i, firstSide c), nfail := s.nfail + 1 }
              (i :: rest), .close i (firstSide c) false)
    else
      some (raiseP c { s with opened := s.opened.erase (i, firstSide c) } (i :: rest),
            .close i (firstSide c) true)
  | .inl i (.body ph) rest =>
    -- nested `with`: the file opened second is closed first
    match bodyStep c s i (firstSide c).other ph with
    | (.cont ph', e, s') => some ({ s' with prod := .inl i (.body ph') rest }, e)
    | (.fin true, e, s') => some (raiseP c { s' with done := s'.done ++ [i] } rest, e)
    | (.fin false, e, s') =>
      if c.preserveTime then some ({ s' with prod := .inl i .ptime rest }, e)
      else some ({ s' with prod := nextLoop c rest, done := s'.done ++ [i] }, e)
  | .inl i .ptime rest =>
    if c.fails i .ptime || (s.dest.get (c.dstp i)).isNone then
      some (raiseP c { s with done := s.done ++ [i], nfail := s.nfail + 1 } rest, .ptime i false)
    else
      some ({ s with prod := nextLoop c rest, done := s.done ++ [i], timed := s.timed ++ [i] },
            .ptime i true)
  | .sentinels k exc =>
    -- `for _worker in self.workers: self.queue.put(None)`
    if s.queue.length < c.n then
      some ({ s with prod := if k + 1 < c.n then .sentinels (k + 1) exc else .joining 0 exc,
                     queue := s.queue ++ [none] }, .put none)
    else none
  | .joining k exc =>
    -- `worker.join()` returns once worker k's `run` has returned
    if s.workers[k]? = some .exited then
      some ({ s with prod := if k + 1 < c.n then .joining (k + 1) exc
                             else afterJoin c s.allTasks exc }, .join k)
    else none
  | .ptimes i todo exc =>
    -- `copy_modified_time(*args)`; an exception here propagates out of `stop()` and `__exit__`
    if c.fails i .ptime || (s.dest.get (c.dstp i)).isNone then
      some ({ s with prod := .exiting true, nfail := s.nfail + 1 }, .ptime i false)
    else
      some ({ s with prod := ptimesNext todo exc, timed := s.timed ++ [i] }, .ptime i true)
  | .qjoin exc =>
    -- `self.queue.join()` returns when every `put` has had its `task_done`
    if unfinished s = 0 then some ({ s with prod := .exiting exc }, .qjoin) else none
  | .exiting exc =>
    -- `if traceback is None and self.errors: raise BulkCopyFailed(self.errors)`
    let o : Outcome := if exc then .other else if s.errors.isEmpty then .ok else .bulk
    some ({ s with prod := .finished o }, .exit o)
  | .finished _ => none

def stepEv (c : Cfg) (s : St) : Label → Option (St × Ev)
  | .p => prodStep c s
  | .w k => workerStep c s k

def step (c : Cfg) (s : St) (l : Label) : Option St := (stepEv c s l).map (·.1)

def init (c : Cfg) : St :=
  { prod := nextLoop c (List.range c.tasks.length)
    queue := []
    workers := List.replicate c.n .idle     -- `Copier.start`: workers started, blocked in `get`
    opened := []
    errors := []
    allTasks := []
    dest := c.d0
    timed := []
    done := []
    dropped := []
    nfail := 0 }

/-! ## Observations of a state (used by the theorems of C09) -/

/-- tasks the producer still has to hand over (the one it is working on included) -/
def Prod.pending : Prod → List Nat
  | .loop i rest => i :: rest
  | .srcOpen i rest => i :: rest
  | .failClose i rest => i :: rest
  | .bothOpen i rest => i :: rest
  | .inl _ _ rest => rest
  | _ => []

/-- the task being transferred inline by the producer -/
def Prod.inflight : Prod → List Nat
  | .inl i _ _ => [i]
  | _ => []

def W.tasks (w : W) : List Nat := w.task?.toList

def St.pending (s : St) : List Nat := s.prod.pending
def St.queued (s : St) : List Nat := s.queue.filterMap id
def St.inflight (s : St) : List Nat := s.prod.inflight ++ s.workers.flatMap W.tasks

/-- every task of the run, wherever it currently is -/
def St.allTasksView (s : St) : List Nat :=
  s.pending ++ s.queued ++ s.inflight ++ s.done ++ s.dropped

def St.allExited (s : St) : Prop := ∀ w ∈ s.workers, w = W.exited

/-! ## Reachability, traces, schedules -/

/-- the states the Copier can be in: closure of `init` under every enabled transition of
    every thread — all schedules -/
inductive Reach (c : Cfg) : St → Prop where
  | init : Reach c (init c)
  | step {s s' : St} {l : Label} {e : Ev} : Reach c s → stepEv c s l = some (s', e) → Reach c s'

abbrev Trace := List (Label × Ev)

/-- the event reports a primitive call that raised -/
def Ev.failed : Ev → Bool
  | .open _ _ ok => !ok
  | .read _ _ _ ok => !ok
  | .write _ _ ok => !ok
  | .close _ _ ok => !ok
  | .ptime _ ok => !ok
  | _ => false

/-- executions with their event trace (most recent event first) -/
inductive Exec (c : Cfg) : Trace → St → Prop where
  | init : Exec c [] (init c)
  | step {t : Trace} {s s' : St} {l : Label} {e : Ev} :
      Exec c t s → stepEv c s l = some (s', e) → Exec c ((l, e) :: t) s'

/-- replay a recorded trace on the model: state reached, or the index of the first event
    the model cannot perform -/
def replay (c : Cfg) : St → Trace → Nat → Except (Nat × St) St
  | s, [], _ => .ok s
  | s, (l, e) :: t, k =>
    match stepEv c s l with
    | some (s', e') => if e = e' then replay c s' t (k + 1) else .error (k, s)
    | none => .error (k, s)

/-- is this recorded event trace a path of the model? -/
def accepts (c : Cfg) (t : Trace) : Bool :=
  match replay c (init c) t 0 with
  | .ok _ => true
  | .error _ => false

def Prod.isFinished : Prod → Bool
  | .finished _ => true
  | _ => false

def Prod.outcome? : Prod → Option Outcome
  | .finished o => some o
  | _ => none

/-- all thread labels of a configuration, producer first -/
def labels (c : Cfg) : List Label := .p :: (List.range c.n).map .w

/-- the first enabled thread in `ls` -/
def firstEnabled (c : Cfg) (s : St) : List Label → Option (Label × St × Ev)
  | [] => none
  | l :: ls =>
    match stepEv c s l with
    | some (s', e) => some (l, s', e)
    | none => firstEnabled c s ls

/-- run to completion with the default policy (lowest enabled thread first) -/
def drain (c : Cfg) : Nat → St → Trace → St × Trace
  | 0, s, acc => (s, acc)
  | fuel + 1, s, acc =>
    match firstEnabled c s (labels c) with
    | some (l, s', e) => drain c fuel s' ((l, e) :: acc)
    | none => (s, acc)

/-- Deterministic execution of a schedule: labels that are not enabled are skipped; when the
    schedule is exhausted the run is completed with the default policy (bounded by `fuel`). -/
def runSchedule (c : Cfg) (fuel : Nat) : St → List Label → Trace → St × Trace
  | s, [], acc =>
    let r := drain c fuel s acc
    (r.1, r.2.reverse)
  | s, l :: ls, acc =>
    match stepEv c s l with
    | some (s', e) => runSchedule c fuel s' ls ((l, e) :: acc)
    | none => runSchedule c fuel s ls acc

/-- a bound on the number of transitions of any run (each task: 2 opens, ≤ len+1 reads,
    ≤ len writes, 2 closes, put, get, end, ptime; each worker: sentinel put/get, exit, join) -/
def fuelFor (c : Cfg) : Nat :=
  (c.tasks.map fun t => 2 * t.data.length + 12).sum + 4 * c.n + 8

def run (c : Cfg) (sched : List Label) : St × Trace :=
  runSchedule c (fuelFor c) (init c) sched []

end Fs.Bulk
