import FsProofs.C12
import FsProofs.C01
