import FsProofs.C12
