import FsProofs.C12
import FsProofs.C01
import FsProofs.C05
import FsProofs.C06
import FsProofs.C10
import FsProofs.C11
