/-
  C10 — all query methods agree with each other in every state (reference semantics).
-/
import FsModel.Ref
import FsProofs.Lemmas.QueryLemmas

namespace Fs.C10
open Fs Fs.Ref

/-- queries never change the state -/
theorem queries_pure (s : State) (p : Str) :
    (step s (.exists_ p)).1 = s ∧ (step s (.isdir p)).1 = s ∧ (step s (.isfile p)).1 = s ∧
    (step s (.listdir p)).1 = s ∧ (step s (.getsize p)).1 = s ∧ (step s (.gettype p)).1 = s ∧
    (step s (.isempty p)).1 = s ∧ (step s (.getinfo p)).1 = s ∧ (step s (.readbytes p)).1 = s := by
  sorry

theorem exists_eq_isdir_or_isfile (s : State) (p : Str) (e d f : Bool)
    (he : (step s (.exists_ p)).2 = .ok (.bool e)) (hd : (step s (.isdir p)).2 = .ok (.bool d))
    (hf : (step s (.isfile p)).2 = .ok (.bool f)) : e = (d || f) ∧ (d && f) = false := by
  sorry

theorem isempty_iff_listdir_nil (s : State) (p : Str) (l : List Name)
    (h : (step s (.listdir p)).2 = .ok (.names l)) :
    (step s (.isempty p)).2 = .ok (.bool l.isEmpty) := by
  sorry

theorem listdir_ok_iff_isdir (s : State) (p : Str) (hc : s.closed = false) :
    (∃ l, (step s (.listdir p)).2 = .ok (.names l)) ↔ (step s (.isdir p)).2 = .ok (.bool true) := by
  sorry

theorem listdir_nodup (s : State) (p : Str) (l : List Name) (hwf : s.root.wf = true)
    (h : (step s (.listdir p)).2 = .ok (.names l)) : l.Nodup := by
  sorry

theorem getsize_eq_len_readbytes (s : State) (p : Str) (b : Bytes)
    (h : (step s (.readbytes p)).2 = .ok (.bytes b)) :
    (step s (.getsize p)).2 = .ok (.nat b.length) ∧
    ∃ n, (step s (.getinfo p)).2 = .ok (.info n false b.length) := by
  sorry

theorem gettype_isdir_isfile_agree (s : State) (p : Str) (t : Nat)
    (h : (step s (.gettype p)).2 = .ok (.nat t)) :
    (t = 1 ∧ (step s (.isdir p)).2 = .ok (.bool true) ∧ (step s (.isfile p)).2 = .ok (.bool false)) ∨
    (t = 2 ∧ (step s (.isdir p)).2 = .ok (.bool false) ∧ (step s (.isfile p)).2 = .ok (.bool true)) := by
  sorry

theorem getinfo_isdir_agree (s : State) (p : Str) (n : Name) (d : Bool) (sz : Nat)
    (h : (step s (.getinfo p)).2 = .ok (.info n d sz)) :
    (step s (.isdir p)).2 = .ok (.bool d) ∧ (step s (.exists_ p)).2 = .ok (.bool true) := by
  sorry

/-- every listed name is an existing child, and every existing child is listed (on the tree) -/
theorem listed_iff_child (t : Node) (cs : List Name) (es : Ents) (n : Name)
    (h : t.get cs = some (.dir es)) : n ∈ Ents.names es ↔ (t.get (cs ++ [n])).isSome = true := by
  sorry

example : (step State.empty (.isempty "/".toList)).2 = .ok (.bool true) := by decide

end Fs.C10
