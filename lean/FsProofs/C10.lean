/-
  C10 — all query methods agree with each other in every state (reference semantics).
-/
import FsModel.Ref
import FsProofs.Lemmas.QueryLemmas

namespace Fs.C10
open Fs Fs.Ref Fs.QueryLemmas

/-- queries never change the state -/
theorem queries_pure (s : State) (p : Str) :
    (step s (.exists_ p)).1 = s ∧ (step s (.isdir p)).1 = s ∧ (step s (.isfile p)).1 = s ∧
    (step s (.listdir p)).1 = s ∧ (step s (.getsize p)).1 = s ∧ (step s (.gettype p)).1 = s ∧
    (step s (.isempty p)).1 = s ∧ (step s (.getinfo p)).1 = s ∧ (step s (.readbytes p)).1 = s := by
  simp only [step_q s (.exists_ p) p rfl (by simp), step_q s (.isdir p) p rfl (by simp),
    step_q s (.isfile p) p rfl (by simp), step_q s (.listdir p) p rfl (by simp),
    step_q s (.getsize p) p rfl (by simp), step_q s (.gettype p) p rfl (by simp),
    step_q s (.isempty p) p rfl (by simp), step_q s (.getinfo p) p rfl (by simp),
    step_q s (.readbytes p) p rfl (by simp)]
  cases s.closed <;> cases validate p <;> simp [fail, done, step1]
  generalize Node.get _ s.root = g
  rcases g with _ | ⟨_ | _⟩ <;> simp

theorem exists_eq_isdir_or_isfile (s : State) (p : Str) (e d f : Bool)
    (he : (step s (.exists_ p)).2 = .ok (.bool e)) (hd : (step s (.isdir p)).2 = .ok (.bool d))
    (hf : (step s (.isfile p)).2 = .ok (.bool f)) : e = (d || f) ∧ (d && f) = false := by
  obtain ⟨cs, hc, hv⟩ := step_q_ok s _ p _ rfl (by simp) he
  rw [step_q_of s _ p cs rfl (by simp) hc hv] at he hd hf
  simp only [step1, done, Res.ok.injEq, Val.bool.injEq] at he hd hf
  subst he hd hf
  rcases Node.get cs s.root with _ | ⟨_ | _⟩ <;> simp

theorem isempty_iff_listdir_nil (s : State) (p : Str) (l : List Name)
    (h : (step s (.listdir p)).2 = .ok (.names l)) :
    (step s (.isempty p)).2 = .ok (.bool l.isEmpty) := by
  obtain ⟨cs, hc, hv⟩ := step_q_ok s _ p _ rfl (by simp) h
  rw [step_q_of s _ p cs rfl (by simp) hc hv] at h ⊢
  simp only [step1] at h ⊢
  generalize Node.get cs s.root = g at h ⊢
  rcases g with _ | ⟨_ | es⟩ <;> simp [fail, done] at h ⊢
  subst h
  cases es <;> simp [Ents.names]

theorem listdir_ok_iff_isdir (s : State) (p : Str) (hc : s.closed = false) :
    (∃ l, (step s (.listdir p)).2 = .ok (.names l)) ↔ (step s (.isdir p)).2 = .ok (.bool true) := by
  rw [step_one s _ p hc rfl (by simp), step_one s _ p hc rfl (by simp)]
  cases validate p with
  | err e => simp [fail]
  | ok cs =>
    simp only [step1]
    rcases Node.get cs s.root with _ | ⟨_ | es⟩ <;> simp [fail, done]

theorem listdir_nodup (s : State) (p : Str) (l : List Name) (hwf : s.root.wf = true)
    (h : (step s (.listdir p)).2 = .ok (.names l)) : l.Nodup := by
  obtain ⟨cs, hc, hv⟩ := step_q_ok s _ p _ rfl (by simp) h
  rw [step_q_of s _ p cs rfl (by simp) hc hv] at h
  simp only [step1] at h
  cases hg : Node.get cs s.root with
  | none => rw [hg] at h; simp [fail] at h
  | some n =>
    rw [hg] at h
    cases n with
    | file b => simp [fail] at h
    | dir es =>
      simp [done] at h
      subst h
      have := get_wf cs s.root _ hwf hg
      exact entsWf_names_nodup es (by simpa [Node.wf] using this)

theorem getsize_eq_len_readbytes (s : State) (p : Str) (b : Bytes)
    (h : (step s (.readbytes p)).2 = .ok (.bytes b)) :
    (step s (.getsize p)).2 = .ok (.nat b.length) ∧
    ∃ n, (step s (.getinfo p)).2 = .ok (.info n false b.length) := by
  obtain ⟨cs, hc, hv⟩ := step_q_ok s _ p _ rfl (by simp) h
  rw [step_q_of s _ p cs rfl (by simp) hc hv] at h ⊢
  rw [step_q_of s (.getinfo p) p cs rfl (by simp) hc hv]
  simp only [step1] at h ⊢
  generalize Node.get cs s.root = g at h ⊢
  rcases g with _ | ⟨_ | es⟩ <;> simp [fail, done] at h ⊢
  subst h; rfl

theorem gettype_isdir_isfile_agree (s : State) (p : Str) (t : Nat)
    (h : (step s (.gettype p)).2 = .ok (.nat t)) :
    (t = 1 ∧ (step s (.isdir p)).2 = .ok (.bool true) ∧ (step s (.isfile p)).2 = .ok (.bool false)) ∨
    (t = 2 ∧ (step s (.isdir p)).2 = .ok (.bool false) ∧ (step s (.isfile p)).2 = .ok (.bool true)) := by
  obtain ⟨cs, hc, hv⟩ := step_q_ok s _ p _ rfl (by simp) h
  rw [step_q_of s _ p cs rfl (by simp) hc hv] at h
  rw [step_q_of s (.isdir p) p cs rfl (by simp) hc hv, step_q_of s (.isfile p) p cs rfl (by simp) hc hv]
  simp only [step1] at h ⊢
  generalize Node.get cs s.root = g at h ⊢
  rcases g with _ | ⟨_ | es⟩ <;> simp [fail, done] at h ⊢ <;> omega

theorem getinfo_isdir_agree (s : State) (p : Str) (n : Name) (d : Bool) (sz : Nat)
    (h : (step s (.getinfo p)).2 = .ok (.info n d sz)) :
    (step s (.isdir p)).2 = .ok (.bool d) ∧ (step s (.exists_ p)).2 = .ok (.bool true) := by
  obtain ⟨cs, hc, hv⟩ := step_q_ok s _ p _ rfl (by simp) h
  rw [step_q_of s _ p cs rfl (by simp) hc hv] at h
  rw [step_q_of s (.isdir p) p cs rfl (by simp) hc hv, step_q_of s (.exists_ p) p cs rfl (by simp) hc hv]
  simp only [step1] at h ⊢
  generalize Node.get cs s.root = g at h ⊢
  rcases g with _ | ⟨_ | es⟩ <;> simp [fail, done] at h ⊢ <;> simp [h]

/-- every listed name is an existing child, and every existing child is listed (on the tree) -/
theorem listed_iff_child (t : Node) (cs : List Name) (es : Ents) (n : Name)
    (h : t.get cs = some (.dir es)) : n ∈ Ents.names es ↔ (t.get (cs ++ [n])).isSome = true := by
  rw [get_append, h, Option.bind_some, get_single_dir, lookup_isSome_iff]

example : (step State.empty (.isempty "/".toList)).2 = .ok (.bool true) := by decide

end Fs.C10
