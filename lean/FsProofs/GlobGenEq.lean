/-
  GlobGenEq — the definitions regenerated from `$VERIF_REPO/fs/glob.py` on every run
  (`FsModel/Generated/GlobGen.lean`, written by `harness/extract/puregen.py`) against the hand model
  `FsModel/Glob.lean` that the C14 (and, for the prefix expansion, C13) theorems are stated over.

  * `split_pattern_by_sep_eq`: the index-collecting loop + slice comprehension = `Glob.splitPatternBySep`.
  * `translate_eq` / `translate_res`: `_translate` = `Glob.translateText` (text, ValueError on `**`; never
    IndexError, fuel hints suffice).
  * `translate_glob_eq`: `_translate_glob` = `(levels, text)` of `Glob.translateGlobText` (`iteratepath` is
    the generated `PathGen.iteratepath`, identified with `Path.iteratepath` by `PathGenEq`).
  * `match` / `imatch` / `match_any` / `imatch_any` / `get_matcher` (modulo the LRU cache): equal to the hand
    model `Glob.gmatch` / `Glob.matchAny` / `Glob.getMatcher` (`match_eq_gmatch`, …): through the regex text and
    the model of Python's parser (`Glob.translateGlobViaText`), then by `RegexRoundTrip.glob_text_parses`
    (the parse of the text is the compiled pattern of `Glob.translateGlob`, proved for every pattern).
    `get_matcher_eq` covers `accept_prefix=True`: the three nested loops build `Glob.prefixPatterns`.
-/
import FsModel.Generated.GlobGen
import FsProofs.Lemmas.GlobGenLemmas
import FsProofs.PathGenEq
import FsProofs.RegexRoundTrip

namespace Fs.GlobGenEq
open Fs Fs.PyStr Fs.PyRe Fs.PyStrLemmas Fs.PathGenLemmas Fs.WildGenLemmas Fs.GlobGenLemmas Fs.Regex

/-- exactly the pure functions the hand model transcribes were found and translated -/
theorem coverage : GlobGen.translated =
    ["_split_pattern_by_sep", "_translate", "_translate_glob", "get_matcher", "imatch", "imatch_any", "match",
     "match_any"] := by decide +kernel

theorem nothing_refused : GlobGen.refused = [] := by decide +kernel

theorem translate_res (pat : Str) : GlobGen._translate pat = ofTR (Glob.translateText pat) := by
  simp only [GlobGen._translate, Glob.translateText]
  generalize hW : pyWhile _ _ _ = w
  have key : gout [] (Glob.textGo pat 0) w := by
    have := pyWhile_gstep' pat _ ?_ _ 0 [] ?_ w hW
    · simpa using this
    · intro s
      obtain ⟨i, res⟩ := s
      simp only [gstep]
      by_cases hi : i < pat.length
      · obtain ⟨c, hc⟩ := getElem?_of_lt pat i hi
        have hidx : pyStrIdx pat (Int.ofNat i) = .ok [c] := by rw [pyStrIdx_ofNat, hc]
        simp only [hi, decide_true, if_true, hidx, hc]
        by_cases h1 : c = '*'
        · subst h1
          have e1 : ((['*'] : Str) == ['*']) = true := by decide
          simp only [e1, if_true, pyStrIdx_ofNat]
          by_cases hj : i + 1 < pat.length
          · obtain ⟨d, hd⟩ := getElem?_of_lt pat (i + 1) hj
            by_cases hdd : d = '*' <;> simp [hj, hd, hdd]
          · have : pat[i + 1]? = none := List.getElem?_eq_none (by omega)
            simp [hj, this]
        · by_cases h2 : c = '?'
          · simp [h2]
          · by_cases h3 : c = '['
            · subst h3
              have e1 : ((['['] : Str) == ['*']) = false := by decide
              have e2 : ((['['] : Str) == ['?']) = false := by decide
              have e3 : ((['['] : Str) == ['[']) = true := by decide
              simp only [e1, e2, e3, Bool.false_eq_true, if_false, if_true, h1, h2]
              split
              · next e' heq => have := (bumpR_eq pat '!' (i + 1)).symm.trans heq; cases this
              · next j1 heq =>
                have := (bumpR_eq pat '!' (i + 1)).symm.trans heq
                cases this
                split
                · next e' heq => have := (bumpR_eq pat ']' _).symm.trans heq; cases this
                · next j2 heq =>
                  have := (bumpR_eq pat ']' _).symm.trans heq
                  cases this
                  rw [pyWhile_scanStep pat _ ?_ _ _ (by omega)]
                  · have hb : scanTo pat (bump pat ']' (bump pat '!' (i + 1))) = bracketEnd pat (i + 1) := rfl
                    simp only [hb]
                    by_cases hk : bracketEnd pat (i + 1) < pat.length
                    · have hge : ¬ bracketEnd pat (i + 1) ≥ pat.length := by omega
                      simp only [hk, hge, decide_false, if_true, Bool.false_eq_true, if_false]
                      obtain ⟨c, r, hst⟩ := pyReplace_ne_nil _ (stuff_ne_nil pat (i + 1) hk)
                      simp only [Wild.classText, escBackslash_eq, hst, pyStrIdx_cons_zero]
                      by_cases hc1 : c = '!'
                      · subst hc1; simp
                      · by_cases hc2 : c = '^'
                        · subst hc2; simp
                        · simp [hc1, hc2]
                    · have hge : bracketEnd pat (i + 1) ≥ pat.length := by omega
                      simp [hk, hge]
                  · intro j
                    simp only [scanStep, pyStrIdx_ofNat]
                    by_cases hj : j < pat.length
                    · obtain ⟨d, hd⟩ := getElem?_of_lt pat j hj
                      by_cases hdd : d = ']' <;> simp [hj, hd, hdd]
                    · have : pat[j]? = none := List.getElem?_eq_none (by omega)
                      simp [hj, this]
            · simp [h1, h2, h3, pyReEscape]
      · have : pat[i]? = none := List.getElem?_eq_none (by omega)
        simp [hi, this]
    · omega
  cases hr : Glob.textGo pat 0 with
  | ok t =>
    rw [hr] at key
    obtain ⟨i', res', rfl, e⟩ := key
    simp [ofTR, pyJoinS_nil, e]
  | err e =>
    rw [hr] at key
    obtain ⟨rfl, rfl⟩ := key
    rfl

theorem translate_eq (pat : Str) : toTR (GlobGen._translate pat) = Glob.translateText pat := by
  rw [translate_res, toTR_ofTR]

theorem iteratepath_err (p : Str) (e : Err) (h : Path.iteratepath p = .err e) : e = .IllegalBackReference := by
  unfold Path.iteratepath at h
  cases hn : Path.normpath p with
  | ok n => rw [hn] at h; simp only [PathLemmas.bind_ok] at h; split at h <;> cases h
  | err e' =>
    rw [hn] at h
    simp only [PathLemmas.bind_err] at h
    cases h
    rw [PathLemmas.normpath_eq_specNorm, PathSpec.specNorm] at hn
    cases hr : PathSpec.resolve (Path.splitSlash p) with
    | none => rw [hr] at hn; cases hn; rfl
    | some cs => rw [hr] at hn; cases hn

theorem translate_glob_res (pat : Str) :
    GlobGen._translate_glob pat =
      ofTR ((Glob.translateGlobText pat).map (fun r => (r.1.map Int.ofNat, r.2.2))) := by
  simp only [GlobGen._translate_glob, Glob.translateGlobText, PathGenEq.iteratepath_eq]
  cases hi : Path.iteratepath pat with
  | err e =>
    have := iteratepath_err pat e hi; subst this
    rfl
  | ok comps =>
    simp only [Glob.liftRes]
    rw [pyFor_compStep]
    · cases hm : Glob.mapM' Glob.compText comps with
      | err e => cases e <;> rfl
      | ok pieces =>
        simp only [ofTR, TR.map, Bool.false_or, pyJoinS_nil, pyEndsWith_slash, Glob.levelsOf,
          Glob.countSlash, pyCount]
        cases comps.any Glob.hasSS <;> cases Path.endsWithSlash pat <;> simp
    · intro c s
      simp only [compStep, Glob.compText, pyIn_ss, pySplitS_ss, translate_res]
      by_cases h1 : c = ['*', '*']
      · subst h1
        have hh : Glob.hasSS ['*', '*'] = true := by decide
        simp [ofTR, hh]
      · have h1' : (c == ['*', '*']) = false := by simpa using h1
        simp only [h1, h1', if_false, Bool.false_eq_true]
        by_cases h2 : Glob.hasSS c = true
        · simp only [h2, if_true, Bool.or_true]
          generalize hg : pyMapM _ _ = m
          have hm : m = ofTR (Glob.mapM' Glob.translateText (Glob.splitSS c)) := by
            rw [← hg, ← pyMapM_ofTR]
            congr 1
            funext x
            cases ofTR (Glob.translateText x) <;> rfl
          rw [hm]
          cases Glob.mapM' Glob.translateText (Glob.splitSS c) with
          | err e => rfl
          | ok l => simp [ofTR, TR.map, pyJoinS_eq_joinStr]
        · have h2' : Glob.hasSS c = false := by simpa using h2
          simp only [h2', Bool.false_eq_true, if_false, Bool.or_false]
          cases Glob.translateText c with
          | err e => rfl
          | ok t => simp [ofTR, Glob.tappend, TR.map]

/-- `_translate_glob`: `(levels, regex text)`, for every pattern -/
theorem translate_glob_eq (pat : Str) :
    toTR (GlobGen._translate_glob pat) =
      (Glob.translateGlobText pat).map (fun r => (r.1.map Int.ofNat, r.2.2)) := by
  rw [translate_glob_res, toTR_ofTR]

/-! ### `match` / `imatch` / `match_any` / `imatch_any` / `get_matcher` through the regex text -/

/-- `glob.match` / `imatch` of the hand model through the text and the model of Python's parser
(`Glob.translateGlobViaText`, then the match on the fixed-up path) -/
def gmatchViaText (pat path : Str) (cs : Bool) : TR Bool :=
  (Glob.translateGlobViaText pat cs).map fun c => c.re.matches (Glob.fixPath path)

theorem fixPath_res (path : Str) (r : Regex) :
    (if (!path.isEmpty) = true then
      (match pyStrIdx path (0 : Int) with
       | .err e' => Res.err e'
       | .ok t4' => if (t4' != ['/']) = true then Res.ok (pyReMatch r (['/'] ++ path)) else Res.ok (pyReMatch r path))
     else Res.ok (pyReMatch r path)) = Res.ok (r.matches (Glob.fixPath path)) := by
  cases path with
  | nil => rfl
  | cons c rest =>
    simp only [List.isEmpty_cons, Bool.not_false, if_true, pyStrIdx_cons_zero, Glob.fixPath, pyReMatch]
    by_cases hc : c = '/'
    · subst hc; simp
    · simp [hc]

theorem match_res (p path : Str) (cs : Bool) (g : Res Bool)
    (hg : g = (match GlobGen._translate_glob p with
      | .err e' => Res.err e'
      | .ok t1' =>
        match pyReCompile t1'.2 (!cs) with
        | .err e' => Res.err e'
        | .ok r => Res.ok (r.matches (Glob.fixPath path)))) :
    toTR g = gmatchViaText p path cs := by
  subst hg
  rw [translate_glob_res]
  simp only [gmatchViaText, Glob.translateGlobViaText]
  cases Glob.translateGlobText p with
  | err e => cases e <;> rfl
  | ok v =>
    obtain ⟨lv, rec_, text⟩ := v
    simp only [TR.map, ofTR]
    rw [← toTR_pyReCompile]
    cases pyReCompile text (!cs) <;> rfl


theorem match_eq (p path : Str) : toTR (GlobGen.match p path) = gmatchViaText p path true := by
  apply match_res p path true
  simp only [GlobGen.match]
  cases GlobGen._translate_glob p with
  | err e => rfl
  | ok v =>
    obtain ⟨lv, text⟩ := v
    simp only [Bool.not_true]
    cases pyReCompile text false with
    | err e => rfl
    | ok r => exact fixPath_res path r

theorem imatch_eq (p path : Str) : toTR (GlobGen.imatch p path) = gmatchViaText p path false := by
  apply match_res p path false
  simp only [GlobGen.imatch]
  cases GlobGen._translate_glob p with
  | err e => rfl
  | ok v =>
    obtain ⟨lv, text⟩ := v
    simp only [Bool.not_false]
    cases pyReCompile text true with
    | err e => rfl
    | ok r => exact fixPath_res path r

def matchAnyViaText (pats : List Str) (path : Str) (cs : Bool) : TR Bool :=
  if pats.isEmpty then .ok true else Wild.anyMatch (fun p => gmatchViaText p path cs) pats

theorem match_any_eq (ps : List Str) (n : Str) :
    toTR (GlobGen.match_any ps n) = matchAnyViaText ps n true := by
  simp only [GlobGen.match_any, matchAnyViaText]
  cases hps : ps.isEmpty with
  | true => rfl
  | false =>
    simp only [Bool.false_eq_true, if_false]
    rw [pyFor_anyStep (fun p => GlobGen.match p n) _ ?_]
    · refine (congrArg toTR (any_final _ ps)).trans ?_
      rw [toTR_anyRes]
      congr 1; funext p; exact match_eq p n
    · intro p s
      simp only [anyStep]
      cases GlobGen.match p n with
      | err e => rfl
      | ok b => cases b <;> rfl

theorem imatch_any_eq (ps : List Str) (n : Str) :
    toTR (GlobGen.imatch_any ps n) = matchAnyViaText ps n false := by
  simp only [GlobGen.imatch_any, matchAnyViaText]
  cases hps : ps.isEmpty with
  | true => rfl
  | false =>
    simp only [Bool.false_eq_true, if_false]
    rw [pyFor_anyStep (fun p => GlobGen.imatch p n) _ ?_]
    · refine (congrArg toTR (any_final _ ps)).trans ?_
      rw [toTR_anyRes]
      congr 1; funext p; exact imatch_eq p n
    · intro p s
      simp only [anyStep]
      cases GlobGen.imatch p n with
      | err e => rfl
      | ok b => cases b <;> rfl


/-- `get_matcher(patterns, case_sensitive, accept_prefix)` of the hand model, through the text -/
def getMatcherViaText (pats : List Str) (cs ap : Bool) (path : Str) : TR Bool :=
  if pats.isEmpty then .ok true
  else matchAnyViaText (if ap then Glob.prefixPatterns pats else pats) path cs

theorem get_matcher_eq (ps : List Str) (cs ap : Bool) :
    ∃ m, GlobGen.get_matcher ps cs ap = .ok m ∧ ∀ path, toTR (m path) = getMatcherViaText ps cs ap path := by
  simp only [GlobGen.get_matcher, getMatcherViaText]
  cases hps : ps.isEmpty with
  | true => exact ⟨_, rfl, fun path => by simp [toTR]⟩
  | false =>
    simp only [Bool.false_eq_true, if_false]
    cases ap with
    | false =>
      simp only [Bool.false_eq_true, if_false]
      refine ⟨_, rfl, fun path => ?_⟩
      cases cs with
      | true => simpa using match_any_eq ps path
      | false => simpa using imatch_any_eq ps path
    | true =>
      simp only [if_true]
      rw [pyFor_append prefixOf _ ?_]
      · simp only [List.nil_append, ← prefixPatterns_eq]
        refine ⟨_, rfl, fun path => ?_⟩
        cases cs with
        | true => simpa using match_any_eq _ path
        | false => simpa using imatch_any_eq _ path
      · intro pattern acc
        rw [pyFor_append (fun i => [Path.joinSlash ((Path.splitSlash pattern).take i),
              Path.joinSlash ((Path.splitSlash pattern).take i) ++ ['/']]) _ ?_]
        · simp only [pyEnumerate_eq]
          rw [pyFor_firstSS (fun i => Path.joinSlash ((Path.splitSlash pattern).take i ++ [['*', '*']])) _ ?_]
          · simp only [prefixOf, range'_one_eq_tail, List.append_assoc]
          · intro x s
            simp only [pyIn_ss]
        · intro i s
          simp


theorem split_pattern_by_sep_eq (p : Str) :
    GlobGen._split_pattern_by_sep p = .ok (Glob.splitPatternBySep p) := by
  simp only [GlobGen._split_pattern_by_sep]
  generalize hW : pyFor _ _ _ = w
  have key : ∃ o', w = .done ([(-1 : Int)] ++ (sepIdx p false 0).map Int.ofNat, o') := by
    refine pyFor_sepStep' _ ?_ p [(-1 : Int)] false w hW
    intro x s
    obtain ⟨i, c⟩ := x
    obtain ⟨idx, o⟩ := s
    simp only [sepStep]
    by_cases h1 : c = ['/'] <;> by_cases h2 : c = ['['] <;> by_cases h3 : c = [']'] <;> cases o <;>
      simp_all
  obtain ⟨o', rfl⟩ := key
  simp only []
  rw [slices_final p _ rfl]

/-! ### against the AST model, unconditionally (`RegexRoundTrip.glob_text_parses`) -/

theorem gmatchViaText_eq (p path : Str) (cs : Bool) : gmatchViaText p path cs = Glob.gmatch p path cs := by
  simp only [gmatchViaText, Glob.gmatch, Glob.compile, RegexRoundTrip.glob_text_parses]

theorem matchAnyViaText_eq (ps : List Str) (path : Str) (cs : Bool) :
    matchAnyViaText ps path cs = Glob.matchAny ps path cs := by
  have e : (fun p => gmatchViaText p path cs) = (fun p => Glob.gmatch p path cs) := by
    funext p; exact gmatchViaText_eq p path cs
  simp only [matchAnyViaText, Glob.matchAny, e]

theorem match_eq_gmatch (p path : Str) : toTR (GlobGen.match p path) = Glob.gmatch p path true := by
  rw [match_eq, gmatchViaText_eq]

theorem imatch_eq_gmatch (p path : Str) : toTR (GlobGen.imatch p path) = Glob.gmatch p path false := by
  rw [imatch_eq, gmatchViaText_eq]

theorem match_any_eq_matchAny (ps : List Str) (path : Str) :
    toTR (GlobGen.match_any ps path) = Glob.matchAny ps path true := by
  rw [match_any_eq, matchAnyViaText_eq]

theorem imatch_any_eq_matchAny (ps : List Str) (path : Str) :
    toTR (GlobGen.imatch_any ps path) = Glob.matchAny ps path false := by
  rw [imatch_any_eq, matchAnyViaText_eq]

/-- `get_matcher(patterns, case_sensitive, accept_prefix)` returns the matcher of the hand model -/
theorem get_matcher_eq_getMatcher (ps : List Str) (cs ap : Bool) :
    ∃ m, GlobGen.get_matcher ps cs ap = .ok m ∧ ∀ path, toTR (m path) = Glob.getMatcher ps cs ap path := by
  obtain ⟨m, hm, h⟩ := get_matcher_eq ps cs ap
  refine ⟨m, hm, fun path => ?_⟩
  rw [h path]
  simp only [getMatcherViaText, Glob.getMatcher, matchAnyViaText_eq]
  cases ps.isEmpty <;> rfl

end Fs.GlobGenEq
