/-
  C16 — file objects from every filesystem behave like Python io files.

  Property theorems only (helpers: FsProofs/Lemmas/FileLemmas.lean).  The reference `IoRef` is
  `io.FileIO` on a regular file restated as a pure state machine (validated against the real
  `io.FileIO` on every run); `MemFile` is `_MemoryFile` of fs/memoryfs.py (tree at 4a1749f) line by
  line over a model of the shared `io.BytesIO`.  All statements quantify over every mode string / flag
  combination, every initial content, every position and every finite sequence of calls.
-/
import FsModel.File
import FsProofs.Lemmas.FileLemmas

namespace Fs.C16
open Fs Fs.File Fs.FileLemmas

set_option linter.unusedSimpArgs false

/-! ## mode flags -/

/-- For every mode string that both `fs.mode.Mode.validate` and Python's `open` accept, the
flags `Mode` derives (by membership tests) are the ones `io.open`/`io.FileIO.__init__` compute
by scanning the string — up to `Mode.truncate`, which `Mode` also sets for `x` (unobservable:
an exclusively created file is new and empty). All strings, no length bound. -/
theorem mode_flags_correct (m : Str) (fl : Flags)
    (hp : PyMode.pyOpen m = some fl) :
    Mode.flags m = { fl with truncate := fl.truncate || fl.exclusive } := by
  unfold PyMode.pyOpen at hp
  cases hraw : PyMode.ioOpenRawMode m with
  | none => simp [hraw] at hp
  | some raw =>
    simp only [hraw] at hp
    unfold PyMode.ioOpenRawMode at hraw
    simp only [Mode.flags, Mode.reading, Mode.writing, Mode.appending, Mode.truncate, Mode.exclusive,
      Mode.create, Mode.has]
    generalize m.contains 'x' = bx at hraw ⊢
    generalize m.contains 'r' = br at hraw ⊢
    generalize m.contains 'w' = bw at hraw ⊢
    generalize m.contains 'a' = ba at hraw ⊢
    generalize m.contains '+' = bp at hraw ⊢
    simp at hraw
    obtain ⟨_, _, _, hsum, hraw⟩ := hraw
    subst hraw
    cases bx <;> cases br <;> cases bw <;> cases ba <;> cases bp <;>
      simp [PyMode.b2n] at hsum <;>
      (simp [PyMode.fileioParse, PyMode.fileioFold, PyMode.fileioChar] at hp
       subst hp; rfl)

/-- `Mode.validate` accepts strings Python's `open` rejects (`"rw"`: Python raises ValueError,
`MemoryFS.openbin` opens it as read/write/truncate). -/
theorem mode_validate_wider_than_python_counterexample :
    Mode.validate ['r', 'w'] = .ok () ∧ PyMode.pyOpen ['r', 'w'] = none ∧
    (Mode.flags ['r', 'w']).truncate = true := by decide

/-- `to_platform_bin` yields a binary mode with the same flags. -/
theorem to_platform_bin_flags (m : Str) (h : Mode.validateBin m = .ok ()) :
    Mode.flags (Mode.toPlatformBin m) = Mode.flags m ∧ Mode.has (Mode.toPlatformBin m) 'b' = true := by
  have ht : Mode.has m 't' = false := by
    unfold Mode.validateBin at h
    split at h
    · simp at h
    · split at h
      · simp at h
      · next hh => simpa using hh
  have hf : m.filter (fun c => c != 't') = m := by
    apply List.filter_eq_self.mpr
    intro c hc
    simp only [Mode.has, List.contains_eq_mem, decide_eq_false_iff_not] at ht
    simp only [bne_iff_ne, ne_eq]
    intro hct; subst hct; exact ht hc
  unfold Mode.toPlatformBin
  simp only [hf]
  split
  · next hb => exact ⟨rfl, hb⟩
  · simp [Mode.flags, Mode.reading, Mode.writing, Mode.appending, Mode.truncate, Mode.exclusive,
      Mode.create, Mode.has]

example : Mode.validateBin ['r', '+'] = .ok () := by decide
example : PyMode.pyOpen ['a', 'b', '+'] = some ⟨true, true, true, false, false, true⟩ := by decide

/-! ## `_MemoryFile` refines the io reference -/

/-- the sessions excluded from the refinement: some call falls (along the reference run) into one
of the three classes of `File.devClass` — the two documented tolerances (a vacuous `readline(0)`
on a closed/unreadable handle, a vacuous `writelines([])` on a read-only handle: `io.FileIO` lets
them through, `_MemoryFile` rejects them, and the property text asks handles without permission to
reject) and the open finding `appendEmptyWrite` -/
def sessionAvoids (mode : Str) (init : Option Bytes) (ops : List Op) : Bool :=
  match IoRef.openFile (Mode.flags mode) init with
  | .ok s => avoids (Mode.flags mode) s ops
  | .err _ => true

/-- opening: same verdict, and the handle starts in related states (any flags with x ⇒ create) -/
theorem open_refines (fl : Flags) (hx : fl.exclusive = true → fl.create = true) (ex : Option Bytes) :
    match MemFile.openFile fl ex, IoRef.openFile fl ex with
    | .ok m, .ok r => R m r
    | .err e, .err e' => e = e'
    | _, _ => False := by
  obtain ⟨r, w, a, t, x, c⟩ := fl
  cases ex <;> cases x <;> cases c <;> cases t <;> cases a <;>
    simp_all [MemFile.openFile, IoRef.openFile, R, Bio.seekSet, Bio.seekEnd, Bio.truncate]

/-- one call (outside the three classes): same result, related states — open or closed handle,
any flags, any position (also beyond EOF), any arguments -/
theorem step_refines (fl : Flags) (m : MemState) (r : IoState) (op : Op)
    (hR : R m r) (hd : deviates fl r op = false) :
    R (MemFile.step fl m op).1 (IoRef.step fl r op).1 ∧
    (MemFile.step fl m op).2 = (IoRef.step fl r op).2 :=
  FileLemmas.step_refines fl m r op hR hd

/-- any sequence of calls from related states: same results, same `tell()` after every call,
same final bytes -/
theorem runFrom_refines (fl : Flags) (ops : List Op) (m : MemState) (r : IoState)
    (hR : R m r) (ha : avoids fl r ops = true) :
    MemFile.runFrom fl m ops = IoRef.runFrom fl r ops := by
  induction ops generalizing m r with
  | nil => simp [MemFile.runFrom, IoRef.runFrom, hR.1]
  | cons op ops ih =>
    simp only [avoids, Bool.and_eq_true, Bool.not_eq_true'] at ha
    obtain ⟨hR', ho⟩ := FileLemmas.step_refines fl m r op hR ha.1
    have hrest := ih _ _ hR' ha.2
    simp only [MemFile.runFrom, IoRef.runFrom]
    rw [hrest, ho]
    simp [MemFile.obsTell, IoRef.obsTell, hR'.2.1, hR'.2.2]

/-
  FULL STATEMENT

    theorem memfile_refines_ioref (mode : Str) (init : Option Bytes) (ops : List Op) :
        MemFile.run mode init ops = IoRef.run mode init ops

  Since the repairs d2dd72d / c173fc2 / dee803f / 4a1749f it fails only in the three classes of
  `devClass`.  Two of them are the documented tolerance (the reference is laxer than the property
  text on a vacuous call; rejecting is conformant), one — a zero-length write in append mode moves
  the position — is an open finding (`memfile_refines_ioref_counterexample`).  What is proved is the
  statement under the decidable hypothesis `sessionAvoids`; once the finding is repaired the
  hypothesis reduces to the tolerance alone.
-/
theorem memfile_refines_ioref_partial (mode : Str) (init : Option Bytes) (ops : List Op)
    (h : sessionAvoids mode init ops = true) :
    MemFile.run mode init ops = IoRef.run mode init ops := by
  unfold MemFile.run IoRef.run
  cases hv : Mode.validateBin mode with
  | err e => rfl
  | ok u =>
    simp only
    have hx : (Mode.flags mode).exclusive = true → (Mode.flags mode).create = true := by
      simp [Mode.flags, Mode.exclusive, Mode.create]
      intro h; simp [h]
    have ho := open_refines (Mode.flags mode) hx init
    unfold sessionAvoids at h
    cases hm : MemFile.openFile (Mode.flags mode) init with
    | err e =>
      cases hr : IoRef.openFile (Mode.flags mode) init with
      | err e' => simp [hm, hr] at ho; simp [ho]
      | ok r => simp [hm, hr] at ho
    | ok m =>
      cases hr : IoRef.openFile (Mode.flags mode) init with
      | err e' => simp [hm, hr] at ho
      | ok r =>
        simp only [hm, hr] at ho h
        simp [runFrom_refines (Mode.flags mode) ops m r ho h]

/-- a static sufficient condition: a session without `readline(0)`, without an all-empty
`writelines` and without `write(b"")` avoids all three classes — for every mode, content, and
whatever else it does (use after close, seeks anywhere, truncates, iteration, …) -/
def noVacuousCall : Op → Bool
  | .readline (some z) => z != 0
  | .writelines ls => !ls.all (·.isEmpty)
  | .write d => !d.isEmpty
  | _ => true

theorem avoids_of_noVacuousCall (fl : Flags) (ops : List Op) (s : IoState)
    (h : ops.all noVacuousCall = true) : avoids fl s ops = true := by
  induction ops generalizing s with
  | nil => rfl
  | cons op ops ih =>
    simp only [List.all_cons, Bool.and_eq_true] at h
    simp only [avoids, Bool.and_eq_true, Bool.not_eq_true']
    refine ⟨?_, ih _ h.2⟩
    have h1 := h.1
    cases op with
    | readline n =>
      cases n with
      | none => simp [deviates, devClass]
      | some z =>
        have hz : (z == 0) = false := by simpa [noVacuousCall] using h1
        simp [deviates, devClass, hz]
    | writelines ls =>
      have hall : ls.all (·.isEmpty) = false := by simpa [noVacuousCall] using h1
      have hne : ls.isEmpty = false := by
        cases ls with
        | nil => simp at hall
        | cons x xs => rfl
      simp [deviates, devClass, hall, hne]
    | write d =>
      have hd : d.isEmpty = false := by simpa [noVacuousCall] using h1
      simp [deviates, devClass, hd]
    | read n => simp [deviates, devClass]
    | readall => simp [deviates, devClass]
    | readlines => simp [deviates, devClass]
    | readinto k => simp [deviates, devClass]
    | seek o w => simp [deviates, devClass]
    | tell => simp [deviates, devClass]
    | truncate z => simp [deviates, devClass]
    | flush => simp [deviates, devClass]
    | close => simp [deviates, devClass]
    | next => simp [deviates, devClass]
    | iter => simp [deviates, devClass]

theorem memfile_refines_ioref_of_noVacuousCall (mode : Str) (init : Option Bytes) (ops : List Op)
    (h : ops.all noVacuousCall = true) :
    MemFile.run mode init ops = IoRef.run mode init ops := by
  apply memfile_refines_ioref_partial
  unfold sessionAvoids
  split
  · exact avoids_of_noVacuousCall _ _ _ h
  · rfl

/-- the hypotheses are satisfiable by non-trivial sessions (the second one runs through every
class that used to deviate: clamped seek, truncate() beyond EOF, iteration, use after close) -/
example : sessionAvoids ['r', '+'] (some [48, 49, 10, 50])
    [.seek 2 0, .truncate (some 8), .tell, .write [88], .seek (-3) 2, .readline none, .close] = true := by
  decide
example : List.all [Op.seek (-1) 1, .seek 9 0, .truncate none, .seek 0 0, .iter, .read none, .close,
    .write [88], .tell] noVacuousCall = true := by decide

/-! ### what remains outside the theorem: one witness per class -/

/-- F5 (open finding): in append mode a zero-length write moves `_MemoryFile`'s position to EOF;
`a+`: `seek(0); write(b""); read()` then returns nothing instead of the file -/
theorem memfile_refines_ioref_counterexample :
    MemFile.run ['a', '+'] (some [48, 49]) [.seek 0 0, .write [], .read none] ≠
    IoRef.run ['a', '+'] (some [48, 49]) [.seek 0 0, .write [], .read none] := by decide

theorem append_empty_write_counterexample :
    MemFile.run ['a', '+'] (some [48, 49]) [.seek 0 0, .write [], .read none] =
      .ok ([(.nat 0, some 0), (.nat 0, some 2), (.bytes [], some 2)], [48, 49]) ∧
    IoRef.run ['a', '+'] (some [48, 49]) [.seek 0 0, .write [], .read none] =
      .ok ([(.nat 0, some 0), (.nat 0, some 0), (.bytes [48, 49], some 2)], [48, 49]) :=
  ⟨by decide, by decide⟩

/-- T0/T1 (documented tolerance): `readline(0)` on a write-only or closed handle and
`writelines([])` on a read-only handle are rejected by `_MemoryFile` and let through by `io.FileIO`;
nothing else differs (state, position and bytes are the same afterwards) -/
theorem tolerated_classes_counterexample :
    MemFile.run ['w'] none [.readline (some 0)] = .ok ([(.err .notPermitted, some 0)], []) ∧
    IoRef.run ['w'] none [.readline (some 0)] = .ok ([(.bytes [], some 0)], []) ∧
    MemFile.run ['r'] (some [48]) [.close, .readline (some 0)] = .ok ([(.none, none), (.err .closed, none)], [48]) ∧
    IoRef.run ['r'] (some [48]) [.close, .readline (some 0)] = .ok ([(.none, none), (.bytes [], none)], [48]) ∧
    MemFile.run ['r'] (some []) [.writelines []] = .ok ([(.err .notPermitted, some 0)], []) ∧
    IoRef.run ['r'] (some []) [.writelines []] = .ok ([(.none, some 0)], []) :=
  ⟨by decide, by decide, by decide, by decide, by decide, by decide⟩

/-- in the tolerated classes only the result of that call differs: the states stay related -/
theorem tolerated_calls_keep_state (fl : Flags) (m : MemState) (r : IoState) (op : Op) (hR : R m r)
    (ht : devClass fl r op = some .readlineZero ∨ devClass fl r op = some .writelinesEmptyRO) :
    R (MemFile.step fl m op).1 (IoRef.step fl r op).1 ∧ (MemFile.step fl m op).1 = m ∧
    (IoRef.step fl r op).1 = r := by
  obtain ⟨⟨b, bp⟩, p, c⟩ := m
  obtain ⟨b', p', c'⟩ := r
  obtain ⟨h1, h2, h3⟩ := hR
  simp only at h1 h2 h3
  subst h1 h2 h3
  cases op with
  | readline n =>
    cases n with
    | none => simp [devClass] at ht
    | some z =>
      simp [devClass] at ht
      obtain ⟨hz, hcr⟩ := ht
      subst hz
      cases c <;> simp_all [MemFile.step, MemFile.stepClosed, MemFile.stepOpen, IoRef.step,
        IoRef.isReadline0, R]
  | writelines ls =>
    cases c <;> cases hw : fl.writing <;> cases ls <;>
      simp_all [devClass, MemFile.step, MemFile.stepClosed, MemFile.stepOpen, IoRef.step, IoRef.stepOpen,
        IoRef.isReadline0, R]
    all_goals (split at ht <;> simp_all)
  | write d =>
    exfalso
    simp only [devClass] at ht
    rcases ht with ht | ht <;> (split at ht <;> (try split at ht) <;> simp_all)
  | read n => simp [devClass] at ht
  | readall => simp [devClass] at ht
  | readlines => simp [devClass] at ht
  | readinto k => simp [devClass] at ht
  | seek o w => simp [devClass] at ht
  | tell => simp [devClass] at ht
  | truncate z => simp [devClass] at ht
  | flush => simp [devClass] at ht
  | close => simp [devClass] at ht
  | next => simp [devClass] at ht
  | iter => simp [devClass] at ht

/-! ### regression theorems: the repaired defects stay repaired (each was a `…_counterexample`
of the previous tree; now both machines agree on the very same witness) -/

/-- 4a1749f: a closed `_MemoryFile` rejects reads and writes and leaves the stored file alone -/
theorem use_after_close_repaired :
    MemFile.run ['r', '+'] (some [48, 49]) [.close, .write [88], .read none, .tell, .flush, .close] =
      .ok ([(.none, none), (.err .closed, none), (.err .closed, none), (.err .closed, none),
            (.err .closed, none), (.none, none)], [48, 49]) ∧
    MemFile.run ['r', '+'] (some [48, 49]) [.close, .write [88], .read none, .tell, .flush, .close] =
      IoRef.run ['r', '+'] (some [48, 49]) [.close, .write [88], .read none, .tell, .flush, .close] :=
  ⟨by decide, by decide⟩

/-- c173fc2: a relative seek to a negative offset is rejected and does not move -/
theorem seek_negative_repaired :
    MemFile.run ['r'] (some [48]) [.seek (-1) 1, .seek (-2) 2] =
      .ok ([(.err .invalid, some 0), (.err .invalid, some 0)], [48]) ∧
    MemFile.run ['r'] (some [48]) [.seek (-1) 1, .seek (-2) 2] =
      IoRef.run ['r'] (some [48]) [.seek (-1) 1, .seek (-2) 2] :=
  ⟨by decide, by decide⟩

/-- d2dd72d: `seek(3); truncate()` extends the file with zeros -/
theorem truncate_none_past_eof_repaired :
    MemFile.run ['r', '+'] (some [48]) [.seek 3 0, .truncate none] =
      .ok ([(.nat 3, some 3), (.nat 3, some 3)], [48, 0, 0]) ∧
    MemFile.run ['r', '+'] (some [48]) [.seek 3 0, .truncate none] =
      IoRef.run ['r', '+'] (some [48]) [.seek 3 0, .truncate none] :=
  ⟨by decide, by decide⟩

/-- dee803f: iteration advances the position and honours the mode -/
theorem iteration_repaired :
    MemFile.run ['r'] (some [97, 10, 98]) [.iter, .read none] =
      .ok ([(.lines [[97, 10], [98]], some 3), (.bytes [], some 3)], [97, 10, 98]) ∧
    MemFile.run ['a'] (some [97, 10, 98]) [.seek 0 0, .next, .iter] =
      .ok ([(.nat 0, some 0), (.err .notPermitted, some 0), (.err .notPermitted, some 0)], [97, 10, 98]) ∧
    MemFile.run ['r'] (some [97, 10, 98]) [.iter, .read none] =
      IoRef.run ['r'] (some [97, 10, 98]) [.iter, .read none] ∧
    MemFile.run ['a'] (some [97, 10, 98]) [.seek 0 0, .next, .iter] =
      IoRef.run ['a'] (some [97, 10, 98]) [.seek 0 0, .next, .iter] :=
  ⟨by decide, by decide, by decide, by decide⟩

/-- 5781f51: truncate(size) keeps the position, append writes at EOF, read-only handles reject
truncate and writelines -/
theorem repaired_defects_agree :
    MemFile.run ['r', '+'] (some [48, 49, 50, 51]) [.seek 2 0, .truncate (some 8), .tell] =
      IoRef.run ['r', '+'] (some [48, 49, 50, 51]) [.seek 2 0, .truncate (some 8), .tell] ∧
    MemFile.run ['a'] (some [48, 49]) [.seek 0 0, .write [88]] = .ok ([(.nat 0, some 0), (.nat 1, some 3)], [48, 49, 88]) ∧
    MemFile.run ['r'] (some [48]) [.truncate (some 0)] = .ok ([(.err .notPermitted, some 0)], [48]) ∧
    MemFile.run ['r'] (some [48]) [.writelines [[88]]] = .ok ([(.err .notPermitted, some 0)], [48]) :=
  ⟨by decide, by decide, by decide, by decide⟩

/-! ## the corollaries named by the property (stated on the implementation model `MemFile`,
and on the reference where it reads differently) -/

/-- append mode: wherever the position is, the data goes to the end of the file and the
position ends up after it -/
theorem append_writes_at_end (fl : Flags) (m : MemState) (d : Bytes)
    (hw : fl.writing = true) (ha : fl.appending = true) (ho : m.closed = false) :
    (MemFile.step fl m (.write d)).1.bio.bytes = m.bio.bytes ++ d ∧
    (MemFile.step fl m (.write d)).1.pos = (m.bio.bytes ++ d).length ∧
    (MemFile.step fl m (.write d)).2 = .nat d.length := by
  obtain ⟨⟨b, bp⟩, p, c⟩ := m
  simp only at ho; subst ho
  by_cases hd : d.isEmpty = true
  · have : d = [] := by simpa using hd
    subst this
    simp [MemFile.step, MemFile.stepOpen, hw, ha, MemFile.seekLock, Bio.write, Bio.seekSet, Bio.seekEnd,
      Out.isErr]
  · simp [MemFile.step, MemFile.stepOpen, hw, ha, MemFile.seekLock, Bio.write, Bio.seekSet, Bio.seekEnd,
      Out.isErr, hd, writeAt_end]

theorem append_writes_at_end_ref (fl : Flags) (s : IoState) (d : Bytes)
    (hw : fl.writing = true) (ha : fl.appending = true) (ho : s.closed = false) (hd : d ≠ []) :
    (IoRef.step fl s (.write d)).1.bytes = s.bytes ++ d ∧
    (IoRef.step fl s (.write d)).1.pos = (s.bytes ++ d).length := by
  have hd' : d.isEmpty = false := by cases d <;> simp_all
  simp [IoRef.step, IoRef.stepOpen, IoRef.isReadline0, ho, hw, ha, IoRef.write1, hd', writeAt_end]

/-- `writelines` in append mode: all pieces go to the end, in order -/
theorem append_writelines_at_end (fl : Flags) (m : MemState) (ls : List Bytes)
    (hw : fl.writing = true) (ha : fl.appending = true) (ho : m.closed = false) :
    (MemFile.step fl m (.writelines ls)).1.bio.bytes = m.bio.bytes ++ ls.flatten := by
  obtain ⟨⟨b, bp⟩, p, c⟩ := m
  simp only at ho; subst ho
  have := (foldl_write_at_end fl ls b false).2
  simp [MemFile.step, MemFile.stepOpen, hw, ha, MemFile.seekLock, Bio.seekSet, Bio.seekEnd, Out.isErr, this]

/-- `truncate(size)` and `truncate()` (= `truncate(tell())`): the position does not move; the file
keeps its first `size` bytes and is extended with zero bytes when it was shorter -/
theorem truncate_keeps_pos_zero_extends (fl : Flags) (m : MemState) (size : Option Int)
    (hw : fl.writing = true) (hz : ∀ z, size = some z → 0 ≤ z) (ho : m.closed = false) :
    let n : Nat := match size with | none => m.pos | some z => z.toNat
    (MemFile.step fl m (.truncate size)).1.pos = m.pos ∧
    (MemFile.step fl m (.truncate size)).1.bio.bytes =
      m.bio.bytes.take n ++ zeros (n - m.bio.bytes.length) ∧
    (MemFile.step fl m (.truncate size)).2 = .nat n := by
  have hR : R m ⟨m.bio.bytes, m.pos, false⟩ := ⟨rfl, rfl, ho⟩
  have hd : deviates fl ⟨m.bio.bytes, m.pos, false⟩ (.truncate size) = false := by
    simp [deviates, devClass]
  obtain ⟨⟨h1, h2, _⟩, h3⟩ := FileLemmas.step_refines fl m _ _ hR hd
  cases size with
  | none =>
    simp only [IoRef.step, IoRef.stepOpen, IoRef.isReadline0, hw] at h1 h2 h3
    simp at h1 h2 h3
    exact ⟨h2, by rw [h1, resize_eq], h3⟩
  | some z =>
    have hz' : ¬ z < 0 := by have := hz z rfl; omega
    simp only [IoRef.step, IoRef.stepOpen, IoRef.isReadline0, hw, hz'] at h1 h2 h3
    simp at h1 h2 h3
    exact ⟨h2, by rw [h1, resize_eq], h3⟩

/-- opening with `w` empties an existing file (both machines), whatever the other flags -/
theorem w_truncates (mode : Str) (b : Bytes) (hv : Mode.validateBin mode = .ok ())
    (hw : Mode.has mode 'w' = true) (hx : Mode.has mode 'x' = false) :
    MemFile.run mode (some b) [] = .ok ([], []) ∧ IoRef.run mode (some b) [] = .ok ([], []) := by
  constructor
  · simp [MemFile.run, hv, MemFile.openFile, Mode.flags, Mode.truncate, Mode.exclusive, Mode.create, hw, hx,
      MemFile.runFrom, Bio.truncate, Bio.seekSet]
  · simp [IoRef.run, hv, IoRef.openFile, Mode.flags, Mode.truncate, Mode.exclusive, hw, hx, IoRef.runFrom]

/-- opening with `x` fails with FileExists when the file exists (both machines) -/
theorem x_fails_if_exists (mode : Str) (b : Bytes) (ops : List Op) (hv : Mode.validateBin mode = .ok ())
    (hx : Mode.has mode 'x' = true) :
    MemFile.run mode (some b) ops = .err .FileExists ∧ IoRef.run mode (some b) ops = .err .FileExists := by
  constructor
  · simp [MemFile.run, hv, MemFile.openFile, Mode.flags, Mode.exclusive, Mode.create, hx]
  · simp [IoRef.run, hv, IoRef.openFile, Mode.flags, Mode.exclusive, hx]

/-- … and creates the file when it does not exist -/
theorem x_creates_if_missing (mode : Str) (hv : Mode.validateBin mode = .ok ())
    (hx : Mode.has mode 'x' = true) :
    MemFile.run mode none [] = .ok ([], []) ∧ IoRef.run mode none [] = .ok ([], []) := by
  constructor
  · simp [MemFile.run, hv, MemFile.openFile, Mode.flags, Mode.exclusive, Mode.create, Mode.truncate, hx,
      MemFile.runFrom, Bio.truncate, Bio.seekSet]
  · simp [IoRef.run, hv, IoRef.openFile, Mode.flags, Mode.exclusive, Mode.create, hx, IoRef.runFrom]

/-- `r`/`r+` on a missing file: ResourceNotFound -/
theorem r_fails_if_missing (mode : Str) (ops : List Op) (hv : Mode.validateBin mode = .ok ())
    (hc : Mode.create mode = false) :
    MemFile.run mode none ops = .err .ResourceNotFound ∧ IoRef.run mode none ops = .err .ResourceNotFound := by
  constructor
  · simp [MemFile.run, hv, MemFile.openFile, Mode.flags, hc]
  · simp [IoRef.run, hv, IoRef.openFile, Mode.flags, hc]

/-- a handle without write permission rejects write, writelines (even of nothing) and truncate
and changes nothing -/
theorem no_write_rejects_write_writelines_truncate (fl : Flags) (m : MemState) (hw : fl.writing = false)
    (ho : m.closed = false) (d : Bytes) (ls : List Bytes) (z : Option Int) :
    MemFile.step fl m (.write d) = (m, .err .notPermitted) ∧
    MemFile.step fl m (.writelines ls) = (m, .err .notPermitted) ∧
    MemFile.step fl m (.truncate z) = (m, .err .notPermitted) := by
  simp [MemFile.step, MemFile.stepOpen, hw, ho]

theorem no_write_rejects_write_writelines_truncate_ref (fl : Flags) (s : IoState) (hw : fl.writing = false)
    (ho : s.closed = false) (d : Bytes) (ls : List Bytes) (hls : ls ≠ []) (z : Option Int) :
    IoRef.step fl s (.write d) = (s, .err .notPermitted) ∧
    IoRef.step fl s (.writelines ls) = (s, .err .notPermitted) ∧
    IoRef.step fl s (.truncate z) = (s, .err .notPermitted) := by
  have : ls.isEmpty = false := by cases ls <;> simp_all
  simp [IoRef.step, IoRef.stepOpen, IoRef.isReadline0, hw, ho, this]

/-- a handle without read permission rejects every reading call — read, readall, readinto,
readline, readlines, `next` and iteration — and changes nothing -/
theorem no_read_rejects_reads (fl : Flags) (m : MemState) (hr : fl.reading = false)
    (ho : m.closed = false) (n : Option Int) (k : Nat) :
    MemFile.step fl m (.read n) = (m, .err .notPermitted) ∧
    MemFile.step fl m .readall = (m, .err .notPermitted) ∧
    MemFile.step fl m (.readinto k) = (m, .err .notPermitted) ∧
    MemFile.step fl m (.readline n) = (m, .err .notPermitted) ∧
    MemFile.step fl m .readlines = (m, .err .notPermitted) ∧
    MemFile.step fl m .next = (m, .err .notPermitted) ∧
    MemFile.step fl m .iter = (m, .err .notPermitted) := by
  simp [MemFile.step, MemFile.stepOpen, MemFile.nextStep, MemFile.iterLoop, hr, ho]

theorem no_read_rejects_reads_ref (fl : Flags) (s : IoState) (hr : fl.reading = false)
    (ho : s.closed = false) (n : Option Int) (hn : n ≠ some 0) (k : Nat) :
    IoRef.step fl s (.read n) = (s, .err .notPermitted) ∧
    IoRef.step fl s .readall = (s, .err .notPermitted) ∧
    IoRef.step fl s (.readinto k) = (s, .err .notPermitted) ∧
    IoRef.step fl s (.readline n) = (s, .err .notPermitted) ∧
    IoRef.step fl s .readlines = (s, .err .notPermitted) ∧
    IoRef.step fl s .next = (s, .err .notPermitted) ∧
    IoRef.step fl s .iter = (s, .err .notPermitted) := by
  have h0 : IoRef.isReadline0 (.readline n) = false := by
    cases n with
    | none => rfl
    | some z =>
      simp only [IoRef.isReadline0, beq_eq_false_iff_ne, ne_eq]
      intro hz; subst hz; exact hn rfl
  simp [IoRef.step, IoRef.stepOpen, hr, ho, h0]
  simp [IoRef.isReadline0]

/-- close() is final: every call on a closed `_MemoryFile` except `close()` itself is rejected
with the closed-file error and neither the handle nor the stored file changes -/
theorem closed_rejects_everything (fl : Flags) (m : MemState) (hc : m.closed = true) (op : Op)
    (h1 : op ≠ .close) :
    MemFile.step fl m op = (m, .err .closed) ∧ MemFile.step fl m .close = (m, .none) := by
  cases op <;> simp_all [MemFile.step, MemFile.stepClosed]

theorem closed_rejects_everything_ref (fl : Flags) (s : IoState) (hc : s.closed = true) (op : Op)
    (h1 : op ≠ .close) (h2 : IoRef.isReadline0 op = false) :
    IoRef.step fl s op = (s, .err .closed) := by
  cases op <;> simp_all [IoRef.step, IoRef.stepClosed]

/-- a relative seek whose target would be negative is rejected and moves nothing -/
theorem seek_negative_rejected (fl : Flags) (m : MemState) (off : Int) (ho : m.closed = false) :
    (Int.ofNat m.pos + off < 0 → (MemFile.step fl m (.seek off 1)).2 = .err .invalid ∧
      (MemFile.step fl m (.seek off 1)).1.pos = m.pos) ∧
    (Int.ofNat m.bio.bytes.length + off < 0 → (MemFile.step fl m (.seek off 2)).2 = .err .invalid ∧
      (MemFile.step fl m (.seek off 2)).1.pos = m.pos) := by
  obtain ⟨⟨b, bp⟩, p, c⟩ := m
  simp only at ho; subst ho
  constructor
  · intro h
    have h' : (p : Int) + off < 0 := h
    simp [MemFile.step, MemFile.stepOpen, MemFile.seekLock, Bio.seekSet, Out.isErr, h']
  · intro h
    have h' : (b.length : Int) + off < 0 := h
    simp [MemFile.step, MemFile.stepOpen, MemFile.seekLock, Bio.seekSet, Bio.seekEnd, Out.isErr, h']

/-- seeking beyond EOF and writing fills the gap with zero bytes -/
theorem seek_past_end_write_zero_fills (fl : Flags) (m : MemState) (k : Nat) (d : Bytes)
    (hw : fl.writing = true) (ha : fl.appending = false) (hd : d ≠ []) (ho : m.closed = false)
    (hp : m.pos = m.bio.bytes.length + k) :
    (MemFile.step fl m (.write d)).1.bio.bytes = m.bio.bytes ++ zeros k ++ d := by
  obtain ⟨⟨b, bp⟩, p, c⟩ := m
  simp only at hp ho
  subst hp ho
  have hd' : d.isEmpty = false := by cases d <;> simp_all
  have ht : List.take (b.length + k) (b ++ List.replicate k (0 : UInt8)) = b ++ List.replicate k 0 :=
    List.take_of_length_le (by simp)
  have hdr : List.drop (b.length + k + d.length) b = [] := List.drop_eq_nil_of_le (by omega)
  simp [MemFile.step, MemFile.stepOpen, hw, ha, MemFile.seekLock, Bio.write, Bio.seekSet, Out.isErr, hd',
    writeAt, zeros, ht, hdr]

/-- reads at or beyond EOF return nothing and do not move -/
theorem read_at_eof_empty (fl : Flags) (m : MemState) (n : Option Int)
    (hr : fl.reading = true) (ho : m.closed = false) (hp : m.bio.bytes.length ≤ m.pos) :
    (MemFile.step fl m (.read n)).2 = .bytes [] ∧ (MemFile.step fl m (.read n)).1.pos = m.pos := by
  obtain ⟨⟨b, bp⟩, p, c⟩ := m
  simp only at hp ho
  subst ho
  have hdrop : List.drop p b = [] := List.drop_eq_nil_of_le hp
  cases n with
  | none =>
    simp [MemFile.step, MemFile.stepOpen, hr, MemFile.seekLock, Bio.read, Bio.seekSet, Out.isErr, limit, hdrop]
  | some z =>
    by_cases hz : z < 0 <;>
      simp [MemFile.step, MemFile.stepOpen, hr, MemFile.seekLock, Bio.read, Bio.seekSet, Out.isErr, limit,
        hdrop, hz]

/-! non-vacuity of the corollaries' hypotheses -/
example : (Mode.flags ['a', '+']).writing = true ∧ (Mode.flags ['a', '+']).appending = true := by decide
example : (Mode.flags ['r']).writing = false ∧ (Mode.flags ['w']).reading = false := by decide
example : Mode.validateBin ['x', 'b'] = .ok () ∧ Mode.has ['x', 'b'] 'x' = true := by decide
example : Mode.validateBin ['w', '+'] = .ok () ∧ Mode.has ['w', '+'] 'w' = true ∧ Mode.has ['w', '+'] 'x' = false := by
  decide
example : deviates (Mode.flags ['r', '+']) ⟨[1, 2, 3], 1, false⟩ (.truncate (some 7)) = false := by decide
example : deviates (Mode.flags ['r', '+']) ⟨[1, 2, 3], 9, true⟩ (.truncate none) = false := by decide
example : devClass (Mode.flags ['w']) ⟨[], 0, false⟩ (.readline (some 0)) = some .readlineZero := by decide
example : R ⟨⟨[1, 2, 3], 0⟩, 2, false⟩ ⟨[1, 2, 3], 2, false⟩ := ⟨rfl, rfl, rfl⟩

end Fs.C16
