/-
  C16 — file objects from every filesystem behave like Python io files.

  Property theorems only (helpers: FsProofs/Lemmas/FileLemmas.lean).  The reference `IoRef` is
  `io.FileIO` on a regular file restated as a pure state machine (validated against the real
  `io.FileIO` on every run); `MemFile` is `_MemoryFile` of fs/memoryfs.py (tree at c4647cd) line by
  line over a model of the shared `io.BytesIO`.  All statements quantify over every mode string / flag
  combination, every initial content, every position and every finite sequence of calls.
-/
import FsModel.File
import FsProofs.Lemmas.FileLemmas

namespace Fs.C16
open Fs Fs.File Fs.FileLemmas

set_option linter.unusedSimpArgs false

/-! ## mode flags -/

/-- For every mode string that both `fs.mode.Mode.validate` and Python's `open` accept, the
flags `Mode` derives (by membership tests) are the ones `io.open`/`io.FileIO.__init__` compute
by scanning the string — up to `Mode.truncate`, which `Mode` also sets for `x` (unobservable:
an exclusively created file is new and empty). All strings, no length bound. -/
theorem mode_flags_correct (m : Str) (fl : Flags)
    (hp : PyMode.pyOpen m = some fl) :
    Mode.flags m = { fl with truncate := fl.truncate || fl.exclusive } := by
  unfold PyMode.pyOpen at hp
  cases hraw : PyMode.ioOpenRawMode m with
  | none => simp [hraw] at hp
  | some raw =>
    simp only [hraw] at hp
    unfold PyMode.ioOpenRawMode at hraw
    simp only [Mode.flags, Mode.reading, Mode.writing, Mode.appending, Mode.truncate, Mode.exclusive,
      Mode.create, Mode.has]
    generalize m.contains 'x' = bx at hraw ⊢
    generalize m.contains 'r' = br at hraw ⊢
    generalize m.contains 'w' = bw at hraw ⊢
    generalize m.contains 'a' = ba at hraw ⊢
    generalize m.contains '+' = bp at hraw ⊢
    simp at hraw
    obtain ⟨_, _, _, hsum, hraw⟩ := hraw
    subst hraw
    cases bx <;> cases br <;> cases bw <;> cases ba <;> cases bp <;>
      simp [PyMode.b2n] at hsum <;>
      (simp [PyMode.fileioParse, PyMode.fileioFold, PyMode.fileioChar] at hp
       subst hp; rfl)

/-- REPAIRED (was `mode_validate_wider_than_python_counterexample`: `Mode.validate` accepted `"rw"`,
which Python's `open` rejects and `MemoryFS.openbin` opened as read/write/truncate).  Since
`fix: Mode.validate rejects the mode strings io.open rejects`, `Mode.validate` is no wider than
Python: every string it accepts — all strings, no length bound — is one `io.open` +
`FileIO.__init__` accept; the old witness is now a `ValueError` on both sides. -/
theorem mode_validate_wider_than_python_repaired :
    (∀ m : Str, Mode.validate m = .ok () → (PyMode.pyOpen m).isSome = true) ∧
    Mode.validate ['r', 'w'] = .err .ValueError ∧ PyMode.pyOpen ['r', 'w'] = none := by
  refine ⟨?_, by decide, by decide⟩
  intro m h
  unfold Mode.validate at h
  split at h
  · cases h
  · rename_i c0 rest
    split at h
    · cases h
    · rename_i hall
      split at h
      · cases h
      · split at h
        · cases h
        · rename_i htb
          split at h
          · cases h
          · rename_i hdup
            split at h
            · cases h
            · rename_i hone
              have hall' : ((c0 :: rest).all fun c => ['a', 'x', 'r', 'w', 'b', '+', 't'].contains c) = true := by
                simp only [Bool.not_eq_true, Bool.not_eq_false'] at hall
                rw [List.all_eq_true] at hall ⊢
                intro c hc
                have := hall c hc
                simp only [Mode.validChars, List.contains_eq_mem, List.mem_cons, List.not_mem_nil, or_false,
                  decide_eq_true_eq] at this ⊢
                rcases this with h | h | h | h | h | h | h <;> simp [h]
              have hdup' : ¬ ((c0 :: rest).eraseDups.length < (c0 :: rest).length) := by
                simp only [bne_iff_ne, ne_eq, Decidable.not_not] at hdup
                omega
              unfold PyMode.pyOpen PyMode.ioOpenRawMode
              simp only [hall', Bool.not_true, Bool.false_eq_true, if_false, hdup', decide_false]
              simp only [Mode.has] at htb hone
              simp only [Mode.firstChars, List.filter] at hone
              generalize (c0 :: rest).contains 'x' = bx at hone htb ⊢
              generalize (c0 :: rest).contains 'r' = br at hone htb ⊢
              generalize (c0 :: rest).contains 'w' = bw at hone htb ⊢
              generalize (c0 :: rest).contains 'a' = ba at hone htb ⊢
              generalize (c0 :: rest).contains '+' = bp at hone htb ⊢
              generalize (c0 :: rest).contains 't' = bt at hone htb ⊢
              generalize (c0 :: rest).contains 'b' = bb at hone htb ⊢
              cases bx <;> cases br <;> cases bw <;> cases ba <;> simp at hone <;>
                cases bp <;> cases bt <;> cases bb <;> simp at htb <;>
                simp [PyMode.b2n, PyMode.fileioParse, PyMode.fileioFold, PyMode.fileioChar]

/-- `to_platform_bin` yields a binary mode with the same flags. -/
theorem to_platform_bin_flags (m : Str) (h : Mode.validateBin m = .ok ()) :
    Mode.flags (Mode.toPlatformBin m) = Mode.flags m ∧ Mode.has (Mode.toPlatformBin m) 'b' = true := by
  have ht : Mode.has m 't' = false := by
    unfold Mode.validateBin at h
    split at h
    · simp at h
    · split at h
      · simp at h
      · next hh => simpa using hh
  have hf : m.filter (fun c => c != 't') = m := by
    apply List.filter_eq_self.mpr
    intro c hc
    simp only [Mode.has, List.contains_eq_mem, decide_eq_false_iff_not] at ht
    simp only [bne_iff_ne, ne_eq]
    intro hct; subst hct; exact ht hc
  unfold Mode.toPlatformBin
  simp only [hf]
  split
  · next hb => exact ⟨rfl, hb⟩
  · simp [Mode.flags, Mode.reading, Mode.writing, Mode.appending, Mode.truncate, Mode.exclusive,
      Mode.create, Mode.has]

example : Mode.validateBin ['r', '+'] = .ok () := by decide
example : PyMode.pyOpen ['a', 'b', '+'] = some ⟨true, true, true, false, false, true⟩ := by decide

/-! ## `_MemoryFile` refines the io reference -/

/-- opening: same verdict, and the handle starts in related states (any flags with x ⇒ create) -/
theorem open_refines (fl : Flags) (hx : fl.exclusive = true → fl.create = true) (ex : Option Bytes) :
    match MemFile.openFile fl ex, IoRef.openFile fl ex with
    | .ok m, .ok r => R m r
    | .err e, .err e' => e = e'
    | _, _ => False := by
  obtain ⟨r, w, a, t, x, c⟩ := fl
  cases ex <;> cases x <;> cases c <;> cases t <;> cases a <;>
    simp_all [MemFile.openFile, IoRef.openFile, R, Bio.seekSet, Bio.seekEnd, Bio.truncate]

/-- one call outside the two tolerated vacuous calls: same result, related states — open or
closed handle, any flags, any position (also beyond EOF), any arguments -/
theorem step_refines (fl : Flags) (m : MemState) (r : IoState) (op : Op)
    (hR : R m r) (hd : deviates fl r op = false) :
    R (MemFile.step fl m op).1 (IoRef.step fl r op).1 ∧
    (MemFile.step fl m op).2 = (IoRef.step fl r op).2 :=
  FileLemmas.step_refines fl m r op hR hd

/-- the implementation rejects exactly the calls the reference's tolerance names -/
theorem deviates_iff_mayReject (fl : Flags) (r : IoState) (op : Op) :
    deviates fl r op = (IoRef.mayReject fl r op).isSome := by
  cases op with
  | readline n =>
    cases n with
    | none => simp [deviates, devClass, IoRef.mayReject]
    | some z =>
      by_cases hz : z = 0
      · subst hz
        cases hc : r.closed <;> cases hr : fl.reading <;> simp [deviates, devClass, IoRef.mayReject, hc, hr]
      · simp [deviates, devClass, IoRef.mayReject, hz]
  | writelines ls =>
    cases hc : r.closed <;> cases hw : fl.writing <;> cases ls <;>
      simp [deviates, devClass, IoRef.mayReject, hc, hw]
  | read n => simp [deviates, devClass, IoRef.mayReject]
  | readall => simp [deviates, devClass, IoRef.mayReject]
  | readlines => simp [deviates, devClass, IoRef.mayReject]
  | readinto k => simp [deviates, devClass, IoRef.mayReject]
  | write d => simp [deviates, devClass, IoRef.mayReject]
  | seek o w => simp [deviates, devClass, IoRef.mayReject]
  | tell => simp [deviates, devClass, IoRef.mayReject]
  | truncate z => simp [deviates, devClass, IoRef.mayReject]
  | flush => simp [deviates, devClass, IoRef.mayReject]
  | close => simp [deviates, devClass, IoRef.mayReject]
  | next => simp [deviates, devClass, IoRef.mayReject]
  | iter => simp [deviates, devClass, IoRef.mayReject]

/-- in the two tolerated classes only the result of that call differs: the implementation
rejects it with the error the tolerance names, the reference lets it through, and neither
changes its state (so the states stay related) -/
theorem tolerated_calls_keep_state (fl : Flags) (m : MemState) (r : IoState) (op : Op) (hR : R m r)
    (ht : deviates fl r op = true) :
    (MemFile.step fl m op).1 = m ∧ (IoRef.step fl r op).1 = r ∧
    ∃ e, IoRef.mayReject fl r op = some e ∧ (MemFile.step fl m op).2 = .err e := by
  obtain ⟨⟨b, bp⟩, p, c⟩ := m
  obtain ⟨b', p', c'⟩ := r
  obtain ⟨h1, h2, h3⟩ := hR
  simp only at h1 h2 h3
  subst h1 h2 h3
  cases op with
  | readline n =>
    cases n with
    | none => simp [deviates, devClass] at ht
    | some z =>
      simp [deviates, devClass] at ht
      obtain ⟨hz, hcr⟩ := ht
      subst hz
      cases c <;> simp_all [MemFile.step, MemFile.stepClosed, MemFile.stepOpen, IoRef.step,
        IoRef.isReadline0, IoRef.mayReject]
  | writelines ls =>
    cases c <;> cases hw : fl.writing <;> cases ls <;>
      simp_all [deviates, devClass, MemFile.step, MemFile.stepClosed, MemFile.stepOpen, IoRef.step,
        IoRef.stepOpen, IoRef.isReadline0, IoRef.mayReject]
  | read n => simp [deviates, devClass] at ht
  | readall => simp [deviates, devClass] at ht
  | readlines => simp [deviates, devClass] at ht
  | readinto k => simp [deviates, devClass] at ht
  | write d => simp [deviates, devClass] at ht
  | seek o w => simp [deviates, devClass] at ht
  | tell => simp [deviates, devClass] at ht
  | truncate z => simp [deviates, devClass] at ht
  | flush => simp [deviates, devClass] at ht
  | close => simp [deviates, devClass] at ht
  | next => simp [deviates, devClass] at ht
  | iter => simp [deviates, devClass] at ht

/-- one call, any call: the states stay related and the implementation's result is admitted by
the reference (its own result, or the tolerated rejection) -/
theorem step_admits (fl : Flags) (m : MemState) (r : IoState) (op : Op) (hR : R m r) :
    R (MemFile.step fl m op).1 (IoRef.step fl r op).1 ∧
    IoRef.admitsOut fl r op (MemFile.step fl m op).2 = true := by
  cases hd : deviates fl r op with
  | false =>
    obtain ⟨hR', ho⟩ := FileLemmas.step_refines fl m r op hR hd
    exact ⟨hR', by simp [IoRef.admitsOut, ho]⟩
  | true =>
    obtain ⟨hm, hr, e, he, ho⟩ := tolerated_calls_keep_state fl m r op hR hd
    refine ⟨by rw [hm, hr]; exact hR, ?_⟩
    simp [IoRef.admitsOut, he, ho]

/-- any sequence of calls from related states is admitted by the reference -/
theorem runFrom_admits (fl : Flags) (ops : List Op) (m : MemState) (r : IoState) (hR : R m r) :
    IoRef.admitsFrom fl r ops (MemFile.runFrom fl m ops) = true := by
  induction ops generalizing m r with
  | nil => simp [MemFile.runFrom, IoRef.admitsFrom, hR.1]
  | cons op ops ih =>
    obtain ⟨hR', ho⟩ := step_admits fl m r op hR
    have hrest := ih _ _ hR'
    simp only [MemFile.runFrom]
    cases hrun : MemFile.runFrom fl (MemFile.step fl m op).1 ops with
    | mk tr fin =>
      rw [hrun] at hrest
      simp only [IoRef.admitsFrom, Bool.and_eq_true, decide_eq_true_eq]
      exact ⟨⟨ho, by simp [MemFile.obsTell, IoRef.obsTell, hR'.2.1, hR'.2.2]⟩, hrest⟩

/-- **The refinement theorem, unconditional.**  For every mode string, every initial content (or a
missing file) and every finite sequence of calls, what a MemoryFS file object does is admitted by
the io reference: the open verdict is the same; every call returns the reference's result — or,
for exactly `readline(0)` on a closed/unreadable handle and `writelines([])` on a read-only handle,
the rejection the documented tolerance allows (`IoRef.mayReject`); `tell()` after every call and the
bytes of the file at the end are the reference's. -/
theorem memfile_refines_ioref (mode : Str) (init : Option Bytes) (ops : List Op) :
    IoRef.admits mode init ops (MemFile.run mode init ops) = true := by
  unfold MemFile.run IoRef.admits
  cases hv : Mode.validateBin mode with
  | err e => simp
  | ok u =>
    have hx : (Mode.flags mode).exclusive = true → (Mode.flags mode).create = true := by
      simp [Mode.flags, Mode.exclusive, Mode.create]
      intro h; simp [h]
    have ho := open_refines (Mode.flags mode) hx init
    cases hm : MemFile.openFile (Mode.flags mode) init with
    | err e =>
      cases hr : IoRef.openFile (Mode.flags mode) init with
      | err e' => simp [hm, hr] at ho; simp [ho]
      | ok r => simp [hm, hr] at ho
    | ok m =>
      cases hr : IoRef.openFile (Mode.flags mode) init with
      | err e' => simp [hm, hr] at ho
      | ok r =>
        simp only [hm, hr] at ho
        simpa using runFrom_admits (Mode.flags mode) ops m r ho

/-- `admits` is not vacuous: a wrong result, a wrong position, wrong final bytes or a rejection
outside the tolerance are not admitted -/
theorem admits_is_strict :
    IoRef.admits ['r'] (some [48]) [.read none] (.ok ([(.bytes [], some 1)], [48])) = false ∧
    IoRef.admits ['r'] (some [48]) [.read none] (.ok ([(.bytes [48], some 0)], [48])) = false ∧
    IoRef.admits ['r', '+'] (some [48]) [.write [49]] (.ok ([(.nat 1, some 1)], [48])) = false ∧
    IoRef.admits ['r'] (some [48]) [.read none] (.ok ([(.err .notPermitted, some 0)], [48])) = false ∧
    IoRef.admits ['w'] none [.readline (some 0)] (.ok ([(.err .closed, some 0)], [])) = false ∧
    IoRef.admits ['x'] (some [48]) [] (.ok ([], [48])) = false :=
  ⟨by decide, by decide, by decide, by decide, by decide, by decide⟩

/-! ### exact equality outside the tolerance -/

/-- no call of the session is one of the two tolerated vacuous calls (along the reference run) -/
def sessionAvoids (mode : Str) (init : Option Bytes) (ops : List Op) : Bool :=
  match IoRef.openFile (Mode.flags mode) init with
  | .ok s => avoids (Mode.flags mode) s ops
  | .err _ => true

/-- any sequence of calls from related states: same results, same `tell()` after every call,
same final bytes -/
theorem runFrom_refines (fl : Flags) (ops : List Op) (m : MemState) (r : IoState)
    (hR : R m r) (ha : avoids fl r ops = true) :
    MemFile.runFrom fl m ops = IoRef.runFrom fl r ops := by
  induction ops generalizing m r with
  | nil => simp [MemFile.runFrom, IoRef.runFrom, hR.1]
  | cons op ops ih =>
    simp only [avoids, Bool.and_eq_true, Bool.not_eq_true'] at ha
    obtain ⟨hR', ho⟩ := FileLemmas.step_refines fl m r op hR ha.1
    have hrest := ih _ _ hR' ha.2
    simp only [MemFile.runFrom, IoRef.runFrom]
    rw [hrest, ho]
    simp [MemFile.obsTell, IoRef.obsTell, hR'.2.1, hR'.2.2]

/-- when the tolerance is not exercised, "admitted" is plain equality of all observations
(formerly `memfile_refines_ioref_partial`; the hypothesis now names the tolerance only) -/
theorem memfile_eq_ioref_of_avoids (mode : Str) (init : Option Bytes) (ops : List Op)
    (h : sessionAvoids mode init ops = true) :
    MemFile.run mode init ops = IoRef.run mode init ops := by
  unfold MemFile.run IoRef.run
  cases hv : Mode.validateBin mode with
  | err e => rfl
  | ok u =>
    simp only
    have hx : (Mode.flags mode).exclusive = true → (Mode.flags mode).create = true := by
      simp [Mode.flags, Mode.exclusive, Mode.create]
      intro h; simp [h]
    have ho := open_refines (Mode.flags mode) hx init
    unfold sessionAvoids at h
    cases hm : MemFile.openFile (Mode.flags mode) init with
    | err e =>
      cases hr : IoRef.openFile (Mode.flags mode) init with
      | err e' => simp [hm, hr] at ho; simp [ho]
      | ok r => simp [hm, hr] at ho
    | ok m =>
      cases hr : IoRef.openFile (Mode.flags mode) init with
      | err e' => simp [hm, hr] at ho
      | ok r =>
        simp only [hm, hr] at ho h
        simp [runFrom_refines (Mode.flags mode) ops m r ho h]

/-- a static sufficient condition: a session without `readline(0)` and without `writelines([])`
is equal on all observations — for every mode, content, and whatever else it does (zero-length
writes, use after close, seeks anywhere, truncates, iteration, …) -/
def noVacuousCall : Op → Bool
  | .readline (some z) => z != 0
  | .writelines ls => !ls.isEmpty
  | _ => true

theorem avoids_of_noVacuousCall (fl : Flags) (ops : List Op) (s : IoState)
    (h : ops.all noVacuousCall = true) : avoids fl s ops = true := by
  induction ops generalizing s with
  | nil => rfl
  | cons op ops ih =>
    simp only [List.all_cons, Bool.and_eq_true] at h
    simp only [avoids, Bool.and_eq_true, Bool.not_eq_true']
    refine ⟨?_, ih _ h.2⟩
    have h1 := h.1
    cases op with
    | readline n =>
      cases n with
      | none => simp [deviates, devClass]
      | some z =>
        have hz : (z == 0) = false := by simpa [noVacuousCall] using h1
        simp [deviates, devClass, hz]
    | writelines ls =>
      have hne : ls.isEmpty = false := by simpa [noVacuousCall] using h1
      simp [deviates, devClass, hne]
    | write d => simp [deviates, devClass]
    | read n => simp [deviates, devClass]
    | readall => simp [deviates, devClass]
    | readlines => simp [deviates, devClass]
    | readinto k => simp [deviates, devClass]
    | seek o w => simp [deviates, devClass]
    | tell => simp [deviates, devClass]
    | truncate z => simp [deviates, devClass]
    | flush => simp [deviates, devClass]
    | close => simp [deviates, devClass]
    | next => simp [deviates, devClass]
    | iter => simp [deviates, devClass]

theorem memfile_eq_ioref_of_noVacuousCall (mode : Str) (init : Option Bytes) (ops : List Op)
    (h : ops.all noVacuousCall = true) :
    MemFile.run mode init ops = IoRef.run mode init ops := by
  apply memfile_eq_ioref_of_avoids
  unfold sessionAvoids
  split
  · exact avoids_of_noVacuousCall _ _ _ h
  · rfl

/-- the hypotheses are satisfiable by non-trivial sessions (the second one runs through every
class that used to deviate: clamped seek, truncate() beyond EOF, iteration, zero-length append
write, use after close) -/
example : sessionAvoids ['r', '+'] (some [48, 49, 10, 50])
    [.seek 2 0, .truncate (some 8), .tell, .write [88], .seek (-3) 2, .readline none, .close] = true := by
  decide
example : List.all [Op.seek (-1) 1, .seek 9 0, .truncate none, .seek 0 0, .iter, .write [], .read none,
    .close, .write [88], .tell] noVacuousCall = true := by decide

/-- the tolerance is really exercised by the code: plain equality fails on exactly these calls
(T0 `readline(0)` on a write-only / closed handle, T1 `writelines([])` on a read-only handle) -/
theorem tolerated_classes_counterexample :
    MemFile.run ['w'] none [.readline (some 0)] = .ok ([(.err .notPermitted, some 0)], []) ∧
    IoRef.run ['w'] none [.readline (some 0)] = .ok ([(.bytes [], some 0)], []) ∧
    MemFile.run ['r'] (some [48]) [.close, .readline (some 0)] = .ok ([(.none, none), (.err .closed, none)], [48]) ∧
    IoRef.run ['r'] (some [48]) [.close, .readline (some 0)] = .ok ([(.none, none), (.bytes [], none)], [48]) ∧
    MemFile.run ['r'] (some []) [.writelines []] = .ok ([(.err .notPermitted, some 0)], []) ∧
    IoRef.run ['r'] (some []) [.writelines []] = .ok ([(.none, some 0)], []) :=
  ⟨by decide, by decide, by decide, by decide, by decide, by decide⟩

/-! ### regression theorems: the repaired defects stay repaired (each was a `…_counterexample`
of the previous tree; now both machines agree on the very same witness) -/

/-- 4a1749f: a closed `_MemoryFile` rejects reads and writes and leaves the stored file alone -/
theorem use_after_close_repaired :
    MemFile.run ['r', '+'] (some [48, 49]) [.close, .write [88], .read none, .tell, .flush, .close] =
      .ok ([(.none, none), (.err .closed, none), (.err .closed, none), (.err .closed, none),
            (.err .closed, none), (.none, none)], [48, 49]) ∧
    MemFile.run ['r', '+'] (some [48, 49]) [.close, .write [88], .read none, .tell, .flush, .close] =
      IoRef.run ['r', '+'] (some [48, 49]) [.close, .write [88], .read none, .tell, .flush, .close] :=
  ⟨by decide, by decide⟩

/-- c173fc2: a relative seek to a negative offset is rejected and does not move -/
theorem seek_negative_repaired :
    MemFile.run ['r'] (some [48]) [.seek (-1) 1, .seek (-2) 2] =
      .ok ([(.err .invalid, some 0), (.err .invalid, some 0)], [48]) ∧
    MemFile.run ['r'] (some [48]) [.seek (-1) 1, .seek (-2) 2] =
      IoRef.run ['r'] (some [48]) [.seek (-1) 1, .seek (-2) 2] :=
  ⟨by decide, by decide⟩

/-- d2dd72d: `seek(3); truncate()` extends the file with zeros -/
theorem truncate_none_past_eof_repaired :
    MemFile.run ['r', '+'] (some [48]) [.seek 3 0, .truncate none] =
      .ok ([(.nat 3, some 3), (.nat 3, some 3)], [48, 0, 0]) ∧
    MemFile.run ['r', '+'] (some [48]) [.seek 3 0, .truncate none] =
      IoRef.run ['r', '+'] (some [48]) [.seek 3 0, .truncate none] :=
  ⟨by decide, by decide⟩

/-- dee803f: iteration advances the position and honours the mode -/
theorem iteration_repaired :
    MemFile.run ['r'] (some [97, 10, 98]) [.iter, .read none] =
      .ok ([(.lines [[97, 10], [98]], some 3), (.bytes [], some 3)], [97, 10, 98]) ∧
    MemFile.run ['a'] (some [97, 10, 98]) [.seek 0 0, .next, .iter] =
      .ok ([(.nat 0, some 0), (.err .notPermitted, some 0), (.err .notPermitted, some 0)], [97, 10, 98]) ∧
    MemFile.run ['r'] (some [97, 10, 98]) [.iter, .read none] =
      IoRef.run ['r'] (some [97, 10, 98]) [.iter, .read none] ∧
    MemFile.run ['a'] (some [97, 10, 98]) [.seek 0 0, .next, .iter] =
      IoRef.run ['a'] (some [97, 10, 98]) [.seek 0 0, .next, .iter] :=
  ⟨by decide, by decide, by decide, by decide⟩

/-- c4647cd (was `append_empty_write_counterexample`): a zero-length write / writelines in
append mode leaves the position alone; `a+`: `seek(0); write(b""); read()` returns the file -/
theorem append_empty_write_repaired :
    MemFile.run ['a', '+'] (some [48, 49]) [.seek 0 0, .write [], .writelines [[], []], .read none] =
      .ok ([(.nat 0, some 0), (.nat 0, some 0), (.none, some 0), (.bytes [48, 49], some 2)], [48, 49]) ∧
    MemFile.run ['a', '+'] (some [48, 49]) [.seek 0 0, .write [], .writelines [[], []], .read none] =
      IoRef.run ['a', '+'] (some [48, 49]) [.seek 0 0, .write [], .writelines [[], []], .read none] ∧
    MemFile.run ['a'] (some [48]) [.seek 0 0, .writelines [[], [88]], .tell] =
      .ok ([(.nat 0, some 0), (.none, some 2), (.nat 2, some 2)], [48, 88]) :=
  ⟨by decide, by decide, by decide⟩

/-- 5781f51: truncate(size) keeps the position, append writes at EOF, read-only handles reject
truncate and writelines -/
theorem repaired_defects_agree :
    MemFile.run ['r', '+'] (some [48, 49, 50, 51]) [.seek 2 0, .truncate (some 8), .tell] =
      IoRef.run ['r', '+'] (some [48, 49, 50, 51]) [.seek 2 0, .truncate (some 8), .tell] ∧
    MemFile.run ['a'] (some [48, 49]) [.seek 0 0, .write [88]] = .ok ([(.nat 0, some 0), (.nat 1, some 3)], [48, 49, 88]) ∧
    MemFile.run ['r'] (some [48]) [.truncate (some 0)] = .ok ([(.err .notPermitted, some 0)], [48]) ∧
    MemFile.run ['r'] (some [48]) [.writelines [[88]]] = .ok ([(.err .notPermitted, some 0)], [48]) :=
  ⟨by decide, by decide, by decide, by decide⟩

/-! ## the corollaries named by the property (stated on the implementation model `MemFile`,
and on the reference where it reads differently) -/

/-- append mode: wherever the position is, the data goes to the end of the file and the
position ends up after it -/
theorem append_writes_at_end (fl : Flags) (m : MemState) (d : Bytes)
    (hw : fl.writing = true) (ha : fl.appending = true) (ho : m.closed = false) :
    (MemFile.step fl m (.write d)).1.bio.bytes = m.bio.bytes ++ d ∧
    (d ≠ [] → (MemFile.step fl m (.write d)).1.pos = (m.bio.bytes ++ d).length) ∧
    (d = [] → (MemFile.step fl m (.write d)).1.pos = m.pos) ∧
    (MemFile.step fl m (.write d)).2 = .nat d.length := by
  obtain ⟨⟨b, bp⟩, p, c⟩ := m
  simp only at ho; subst ho
  by_cases hd : d.isEmpty = true
  · have : d = [] := by simpa using hd
    subst this
    simp [MemFile.step, MemFile.stepOpen, hw, ha, MemFile.seekLock, Bio.write, Bio.seekSet, Bio.seekEnd,
      Out.isErr]
  · have hne : d ≠ [] := by intro h; simp [h] at hd
    simp [MemFile.step, MemFile.stepOpen, hw, ha, MemFile.seekLock, Bio.write, Bio.seekSet, Bio.seekEnd,
      Out.isErr, hd, writeAt_end, hne]

theorem append_writes_at_end_ref (fl : Flags) (s : IoState) (d : Bytes)
    (hw : fl.writing = true) (ha : fl.appending = true) (ho : s.closed = false) (hd : d ≠ []) :
    (IoRef.step fl s (.write d)).1.bytes = s.bytes ++ d ∧
    (IoRef.step fl s (.write d)).1.pos = (s.bytes ++ d).length := by
  have hd' : d.isEmpty = false := by cases d <;> simp_all
  simp [IoRef.step, IoRef.stepOpen, IoRef.isReadline0, ho, hw, ha, IoRef.write1, hd', writeAt_end]

/-- `writelines` in append mode: all pieces go to the end, in order -/
theorem append_writelines_at_end (fl : Flags) (m : MemState) (ls : List Bytes)
    (hw : fl.writing = true) (ha : fl.appending = true) (ho : m.closed = false) :
    (MemFile.step fl m (.writelines ls)).1.bio.bytes = m.bio.bytes ++ ls.flatten := by
  have hR : R m ⟨m.bio.bytes, m.pos, false⟩ := ⟨rfl, rfl, ho⟩
  have hd : deviates fl ⟨m.bio.bytes, m.pos, false⟩ (.writelines ls) = false := by
    simp [deviates, devClass, hw]
  obtain ⟨⟨h1, _, _⟩, _⟩ := FileLemmas.step_refines fl m _ _ hR hd
  rw [h1]
  have hf := foldl_write_append fl ha ls m.bio.bytes m.pos false
  cases ls with
  | nil => simp [IoRef.step, IoRef.stepOpen, IoRef.isReadline0]
  | cons l ls =>
    simp only [IoRef.step, IoRef.stepOpen, IoRef.isReadline0, hw]
    simp only [List.isEmpty_cons, Bool.false_eq_true, if_false, Bool.not_true]
    rw [hf]
    split
    · next hall =>
      have : (l :: ls).flatten = [] := by
        simp only [List.all_eq_true] at hall
        simp only [List.flatten_eq_nil_iff]
        intro x hx; simpa using hall x hx
      simp [this]
    · simp

/-- `truncate(size)` and `truncate()` (= `truncate(tell())`): the position does not move; the file
keeps its first `size` bytes and is extended with zero bytes when it was shorter -/
theorem truncate_keeps_pos_zero_extends (fl : Flags) (m : MemState) (size : Option Int)
    (hw : fl.writing = true) (hz : ∀ z, size = some z → 0 ≤ z) (ho : m.closed = false) :
    let n : Nat := match size with | none => m.pos | some z => z.toNat
    (MemFile.step fl m (.truncate size)).1.pos = m.pos ∧
    (MemFile.step fl m (.truncate size)).1.bio.bytes =
      m.bio.bytes.take n ++ zeros (n - m.bio.bytes.length) ∧
    (MemFile.step fl m (.truncate size)).2 = .nat n := by
  have hR : R m ⟨m.bio.bytes, m.pos, false⟩ := ⟨rfl, rfl, ho⟩
  have hd : deviates fl ⟨m.bio.bytes, m.pos, false⟩ (.truncate size) = false := by
    simp [deviates, devClass]
  obtain ⟨⟨h1, h2, _⟩, h3⟩ := FileLemmas.step_refines fl m _ _ hR hd
  cases size with
  | none =>
    simp only [IoRef.step, IoRef.stepOpen, IoRef.isReadline0, hw] at h1 h2 h3
    simp at h1 h2 h3
    exact ⟨h2, by rw [h1, resize_eq], h3⟩
  | some z =>
    have hz' : ¬ z < 0 := by have := hz z rfl; omega
    simp only [IoRef.step, IoRef.stepOpen, IoRef.isReadline0, hw, hz'] at h1 h2 h3
    simp at h1 h2 h3
    exact ⟨h2, by rw [h1, resize_eq], h3⟩

/-- opening with `w` empties an existing file (both machines), whatever the other flags -/
theorem w_truncates (mode : Str) (b : Bytes) (hv : Mode.validateBin mode = .ok ())
    (hw : Mode.has mode 'w' = true) (hx : Mode.has mode 'x' = false) :
    MemFile.run mode (some b) [] = .ok ([], []) ∧ IoRef.run mode (some b) [] = .ok ([], []) := by
  constructor
  · simp [MemFile.run, hv, MemFile.openFile, Mode.flags, Mode.truncate, Mode.exclusive, Mode.create, hw, hx,
      MemFile.runFrom, Bio.truncate, Bio.seekSet]
  · simp [IoRef.run, hv, IoRef.openFile, Mode.flags, Mode.truncate, Mode.exclusive, hw, hx, IoRef.runFrom]

/-- opening with `x` fails with FileExists when the file exists (both machines) -/
theorem x_fails_if_exists (mode : Str) (b : Bytes) (ops : List Op) (hv : Mode.validateBin mode = .ok ())
    (hx : Mode.has mode 'x' = true) :
    MemFile.run mode (some b) ops = .err .FileExists ∧ IoRef.run mode (some b) ops = .err .FileExists := by
  constructor
  · simp [MemFile.run, hv, MemFile.openFile, Mode.flags, Mode.exclusive, Mode.create, hx]
  · simp [IoRef.run, hv, IoRef.openFile, Mode.flags, Mode.exclusive, hx]

/-- … and creates the file when it does not exist -/
theorem x_creates_if_missing (mode : Str) (hv : Mode.validateBin mode = .ok ())
    (hx : Mode.has mode 'x' = true) :
    MemFile.run mode none [] = .ok ([], []) ∧ IoRef.run mode none [] = .ok ([], []) := by
  constructor
  · simp [MemFile.run, hv, MemFile.openFile, Mode.flags, Mode.exclusive, Mode.create, Mode.truncate, hx,
      MemFile.runFrom, Bio.truncate, Bio.seekSet]
  · simp [IoRef.run, hv, IoRef.openFile, Mode.flags, Mode.exclusive, Mode.create, hx, IoRef.runFrom]

/-- `r`/`r+` on a missing file: ResourceNotFound -/
theorem r_fails_if_missing (mode : Str) (ops : List Op) (hv : Mode.validateBin mode = .ok ())
    (hc : Mode.create mode = false) :
    MemFile.run mode none ops = .err .ResourceNotFound ∧ IoRef.run mode none ops = .err .ResourceNotFound := by
  constructor
  · simp [MemFile.run, hv, MemFile.openFile, Mode.flags, hc]
  · simp [IoRef.run, hv, IoRef.openFile, Mode.flags, hc]

/-- a handle without write permission rejects write, writelines (even of nothing) and truncate
and changes nothing -/
theorem no_write_rejects_write_writelines_truncate (fl : Flags) (m : MemState) (hw : fl.writing = false)
    (ho : m.closed = false) (d : Bytes) (ls : List Bytes) (z : Option Int) :
    MemFile.step fl m (.write d) = (m, .err .notPermitted) ∧
    MemFile.step fl m (.writelines ls) = (m, .err .notPermitted) ∧
    MemFile.step fl m (.truncate z) = (m, .err .notPermitted) := by
  simp [MemFile.step, MemFile.stepOpen, hw, ho]

theorem no_write_rejects_write_writelines_truncate_ref (fl : Flags) (s : IoState) (hw : fl.writing = false)
    (ho : s.closed = false) (d : Bytes) (ls : List Bytes) (hls : ls ≠ []) (z : Option Int) :
    IoRef.step fl s (.write d) = (s, .err .notPermitted) ∧
    IoRef.step fl s (.writelines ls) = (s, .err .notPermitted) ∧
    IoRef.step fl s (.truncate z) = (s, .err .notPermitted) := by
  have : ls.isEmpty = false := by cases ls <;> simp_all
  simp [IoRef.step, IoRef.stepOpen, IoRef.isReadline0, hw, ho, this]

/-- a handle without read permission rejects every reading call — read, readall, readinto,
readline, readlines, `next` and iteration — and changes nothing -/
theorem no_read_rejects_reads (fl : Flags) (m : MemState) (hr : fl.reading = false)
    (ho : m.closed = false) (n : Option Int) (k : Nat) :
    MemFile.step fl m (.read n) = (m, .err .notPermitted) ∧
    MemFile.step fl m .readall = (m, .err .notPermitted) ∧
    MemFile.step fl m (.readinto k) = (m, .err .notPermitted) ∧
    MemFile.step fl m (.readline n) = (m, .err .notPermitted) ∧
    MemFile.step fl m .readlines = (m, .err .notPermitted) ∧
    MemFile.step fl m .next = (m, .err .notPermitted) ∧
    MemFile.step fl m .iter = (m, .err .notPermitted) := by
  simp [MemFile.step, MemFile.stepOpen, MemFile.nextStep, MemFile.iterLoop, hr, ho]

theorem no_read_rejects_reads_ref (fl : Flags) (s : IoState) (hr : fl.reading = false)
    (ho : s.closed = false) (n : Option Int) (hn : n ≠ some 0) (k : Nat) :
    IoRef.step fl s (.read n) = (s, .err .notPermitted) ∧
    IoRef.step fl s .readall = (s, .err .notPermitted) ∧
    IoRef.step fl s (.readinto k) = (s, .err .notPermitted) ∧
    IoRef.step fl s (.readline n) = (s, .err .notPermitted) ∧
    IoRef.step fl s .readlines = (s, .err .notPermitted) ∧
    IoRef.step fl s .next = (s, .err .notPermitted) ∧
    IoRef.step fl s .iter = (s, .err .notPermitted) := by
  have h0 : IoRef.isReadline0 (.readline n) = false := by
    cases n with
    | none => rfl
    | some z =>
      simp only [IoRef.isReadline0, beq_eq_false_iff_ne, ne_eq]
      intro hz; subst hz; exact hn rfl
  simp [IoRef.step, IoRef.stepOpen, hr, ho, h0]
  simp [IoRef.isReadline0]

/-- close() is final: every call on a closed `_MemoryFile` except `close()` itself is rejected
with the closed-file error and neither the handle nor the stored file changes -/
theorem closed_rejects_everything (fl : Flags) (m : MemState) (hc : m.closed = true) (op : Op)
    (h1 : op ≠ .close) :
    MemFile.step fl m op = (m, .err .closed) ∧ MemFile.step fl m .close = (m, .none) := by
  cases op <;> simp_all [MemFile.step, MemFile.stepClosed]

theorem closed_rejects_everything_ref (fl : Flags) (s : IoState) (hc : s.closed = true) (op : Op)
    (h1 : op ≠ .close) (h2 : IoRef.isReadline0 op = false) :
    IoRef.step fl s op = (s, .err .closed) := by
  cases op <;> simp_all [IoRef.step, IoRef.stepClosed]

/-- a relative seek whose target would be negative is rejected and moves nothing -/
theorem seek_negative_rejected (fl : Flags) (m : MemState) (off : Int) (ho : m.closed = false) :
    (Int.ofNat m.pos + off < 0 → (MemFile.step fl m (.seek off 1)).2 = .err .invalid ∧
      (MemFile.step fl m (.seek off 1)).1.pos = m.pos) ∧
    (Int.ofNat m.bio.bytes.length + off < 0 → (MemFile.step fl m (.seek off 2)).2 = .err .invalid ∧
      (MemFile.step fl m (.seek off 2)).1.pos = m.pos) := by
  obtain ⟨⟨b, bp⟩, p, c⟩ := m
  simp only at ho; subst ho
  constructor
  · intro h
    have h' : (p : Int) + off < 0 := h
    simp [MemFile.step, MemFile.stepOpen, MemFile.seekLock, Bio.seekSet, Out.isErr, h']
  · intro h
    have h' : (b.length : Int) + off < 0 := h
    simp [MemFile.step, MemFile.stepOpen, MemFile.seekLock, Bio.seekSet, Bio.seekEnd, Out.isErr, h']

/-- seeking beyond EOF and writing fills the gap with zero bytes -/
theorem seek_past_end_write_zero_fills (fl : Flags) (m : MemState) (k : Nat) (d : Bytes)
    (hw : fl.writing = true) (ha : fl.appending = false) (hd : d ≠ []) (ho : m.closed = false)
    (hp : m.pos = m.bio.bytes.length + k) :
    (MemFile.step fl m (.write d)).1.bio.bytes = m.bio.bytes ++ zeros k ++ d := by
  obtain ⟨⟨b, bp⟩, p, c⟩ := m
  simp only at hp ho
  subst hp ho
  have hd' : d.isEmpty = false := by cases d <;> simp_all
  have ht : List.take (b.length + k) (b ++ List.replicate k (0 : UInt8)) = b ++ List.replicate k 0 :=
    List.take_of_length_le (by simp)
  have hdr : List.drop (b.length + k + d.length) b = [] := List.drop_eq_nil_of_le (by omega)
  simp [MemFile.step, MemFile.stepOpen, hw, ha, MemFile.seekLock, Bio.write, Bio.seekSet, Out.isErr, hd',
    writeAt, zeros, ht, hdr]

/-- reads at or beyond EOF return nothing and do not move -/
theorem read_at_eof_empty (fl : Flags) (m : MemState) (n : Option Int)
    (hr : fl.reading = true) (ho : m.closed = false) (hp : m.bio.bytes.length ≤ m.pos) :
    (MemFile.step fl m (.read n)).2 = .bytes [] ∧ (MemFile.step fl m (.read n)).1.pos = m.pos := by
  obtain ⟨⟨b, bp⟩, p, c⟩ := m
  simp only at hp ho
  subst ho
  have hdrop : List.drop p b = [] := List.drop_eq_nil_of_le hp
  cases n with
  | none =>
    simp [MemFile.step, MemFile.stepOpen, hr, MemFile.seekLock, Bio.read, Bio.seekSet, Out.isErr, limit, hdrop]
  | some z =>
    by_cases hz : z < 0 <;>
      simp [MemFile.step, MemFile.stepOpen, hr, MemFile.seekLock, Bio.read, Bio.seekSet, Out.isErr, limit,
        hdrop, hz]

/-! non-vacuity of the corollaries' hypotheses -/
example : (Mode.flags ['a', '+']).writing = true ∧ (Mode.flags ['a', '+']).appending = true := by decide
example : (Mode.flags ['r']).writing = false ∧ (Mode.flags ['w']).reading = false := by decide
example : Mode.validateBin ['x', 'b'] = .ok () ∧ Mode.has ['x', 'b'] 'x' = true := by decide
example : Mode.validateBin ['w', '+'] = .ok () ∧ Mode.has ['w', '+'] 'w' = true ∧ Mode.has ['w', '+'] 'x' = false := by
  decide
example : deviates (Mode.flags ['r', '+']) ⟨[1, 2, 3], 1, false⟩ (.truncate (some 7)) = false := by decide
example : deviates (Mode.flags ['r', '+']) ⟨[1, 2, 3], 9, true⟩ (.truncate none) = false := by decide
example : devClass (Mode.flags ['w']) ⟨[], 0, false⟩ (.readline (some 0)) = some .readlineZero := by decide
example : R ⟨⟨[1, 2, 3], 0⟩, 2, false⟩ ⟨[1, 2, 3], 2, false⟩ := ⟨rfl, rfl, rfl⟩

end Fs.C16
