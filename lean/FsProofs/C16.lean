/-
  C16 — file objects from every filesystem behave like Python io files.

  Property theorems only (helpers: FsProofs/Lemmas/FileLemmas.lean).  The reference `IoRef` is
  `io.FileIO` on a regular file restated as a pure state machine (validated against the real
  `io.FileIO` on every run); `MemFile` is `_MemoryFile` of fs/memoryfs.py line by line over a
  model of the shared `io.BytesIO`.  All statements quantify over every mode string / flag
  combination, every initial content, every position and every finite sequence of calls.
-/
import FsModel.File
import FsProofs.Lemmas.FileLemmas

namespace Fs.C16
open Fs Fs.File Fs.FileLemmas

/-! ## mode flags -/

/-- For every mode string that both `fs.mode.Mode.validate` and Python's `open` accept, the
flags `Mode` derives (by membership tests) are the ones `io.open`/`io.FileIO.__init__` compute
by scanning the string — up to `Mode.truncate`, which `Mode` also sets for `x` (unobservable:
an exclusively created file is new and empty). All strings, no length bound. -/
theorem mode_flags_correct (m : Str) (fl : Flags)
    (hp : PyMode.pyOpen m = some fl) :
    Mode.flags m = { fl with truncate := fl.truncate || fl.exclusive } := by
  unfold PyMode.pyOpen at hp
  cases hraw : PyMode.ioOpenRawMode m with
  | none => simp [hraw] at hp
  | some raw =>
    simp only [hraw] at hp
    unfold PyMode.ioOpenRawMode at hraw
    simp only [Mode.flags, Mode.reading, Mode.writing, Mode.appending, Mode.truncate, Mode.exclusive,
      Mode.create, Mode.has]
    generalize m.contains 'x' = bx at hraw ⊢
    generalize m.contains 'r' = br at hraw ⊢
    generalize m.contains 'w' = bw at hraw ⊢
    generalize m.contains 'a' = ba at hraw ⊢
    generalize m.contains '+' = bp at hraw ⊢
    simp at hraw
    obtain ⟨_, _, _, hsum, hraw⟩ := hraw
    subst hraw
    cases bx <;> cases br <;> cases bw <;> cases ba <;> cases bp <;>
      simp [PyMode.b2n] at hsum <;>
      (simp [PyMode.fileioParse, PyMode.fileioFold, PyMode.fileioChar] at hp
       subst hp; rfl)

/-- `Mode.validate` accepts strings Python's `open` rejects (`"rw"`: Python raises ValueError,
`MemoryFS.openbin` opens it as read/write/truncate). -/
theorem mode_validate_wider_than_python_counterexample :
    Mode.validate ['r', 'w'] = .ok () ∧ PyMode.pyOpen ['r', 'w'] = none ∧
    (Mode.flags ['r', 'w']).truncate = true := by decide

/-- `to_platform_bin` yields a binary mode with the same flags. -/
theorem to_platform_bin_flags (m : Str) (h : Mode.validateBin m = .ok ()) :
    Mode.flags (Mode.toPlatformBin m) = Mode.flags m ∧ Mode.has (Mode.toPlatformBin m) 'b' = true := by
  have ht : Mode.has m 't' = false := by
    unfold Mode.validateBin at h
    split at h
    · simp at h
    · split at h
      · simp at h
      · next hh => simpa using hh
  have hf : m.filter (fun c => c != 't') = m := by
    apply List.filter_eq_self.mpr
    intro c hc
    simp only [Mode.has, List.contains_eq_mem, decide_eq_false_iff_not] at ht
    simp only [bne_iff_ne, ne_eq]
    intro hct; subst hct; exact ht hc
  unfold Mode.toPlatformBin
  simp only [hf]
  split
  · next hb => exact ⟨rfl, hb⟩
  · simp [Mode.flags, Mode.reading, Mode.writing, Mode.appending, Mode.truncate, Mode.exclusive,
      Mode.create, Mode.has]

example : Mode.validateBin ['r', '+'] = .ok () := by decide
example : PyMode.pyOpen ['a', 'b', '+'] = some ⟨true, true, true, false, false, true⟩ := by decide

/-! ## `_MemoryFile` refines the io reference -/

/-- the exact class of sessions excluded from the refinement: some call falls (along the
reference run) into one of the deviation classes of `File.devClass` -/
def sessionAvoids (mode : Str) (init : Option Bytes) (ops : List Op) : Bool :=
  match IoRef.openFile (Mode.flags mode) init with
  | .ok s => avoids (Mode.flags mode) s ops
  | .err _ => true

/-- opening: same verdict, and the handle starts in related states (any flags with x ⇒ create) -/
theorem open_refines (fl : Flags) (hx : fl.exclusive = true → fl.create = true) (ex : Option Bytes) :
    match MemFile.openFile fl ex, IoRef.openFile fl ex with
    | .ok m, .ok r => R m r
    | .err e, .err e' => e = e'
    | _, _ => False := by
  obtain ⟨r, w, a, t, x, c⟩ := fl
  cases ex <;> cases x <;> cases c <;> cases t <;> cases a <;>
    simp_all [MemFile.openFile, IoRef.openFile, R, Bio.seekSet, Bio.seekEnd, Bio.truncate]

/-- one call (outside the deviation classes): same result, related states -/
theorem step_refines (fl : Flags) (m : MemState) (r : IoState) (op : Op)
    (hR : R m r) (hd : deviates fl r op = false) :
    R (MemFile.step fl m op).1 (IoRef.step fl r op).1 ∧
    (MemFile.step fl m op).2 = (IoRef.step fl r op).2 :=
  FileLemmas.step_refines fl m r op hR hd

/-- any sequence of calls from related states: same results, same `tell()` after every call,
same final bytes -/
theorem runFrom_refines (fl : Flags) (ops : List Op) (m : MemState) (r : IoState)
    (hR : R m r) (ha : avoids fl r ops = true) :
    MemFile.runFrom fl m ops = IoRef.runFrom fl r ops := by
  induction ops generalizing m r with
  | nil => simp [MemFile.runFrom, IoRef.runFrom, hR.1]
  | cons op ops ih =>
    simp only [avoids, Bool.and_eq_true, Bool.not_eq_true'] at ha
    obtain ⟨hR', ho⟩ := FileLemmas.step_refines fl m r op hR ha.1
    have hrest := ih _ _ hR' ha.2
    simp only [MemFile.runFrom, IoRef.runFrom]
    rw [hrest, ho]
    simp [MemFile.obsTell, IoRef.obsTell, hR'.2.1, hR'.2.2]

/-
  FULL STATEMENT (false of the current code, see the counterexamples below):

    theorem memfile_refines_ioref (mode : Str) (init : Option Bytes) (ops : List Op) :
        MemFile.run mode init ops = IoRef.run mode init ops

  What is proved is the statement restricted by the decidable hypothesis `sessionAvoids`:
  no call is (F1) made on a closed handle, (F2) a relative seek to a negative offset,
  (F3) `truncate()` with the position beyond EOF, (F4) iteration over unread data / on an
  unreadable handle, or one of the three tolerated stricter/vacuous cases (T0 `readline(0)` on a
  write-only handle, T1 `writelines([])` on a read-only handle, T2 zero-length write in append
  mode away from EOF).
-/
theorem memfile_refines_ioref_partial (mode : Str) (init : Option Bytes) (ops : List Op)
    (h : sessionAvoids mode init ops = true) :
    MemFile.run mode init ops = IoRef.run mode init ops := by
  unfold MemFile.run IoRef.run
  cases hv : Mode.validateBin mode with
  | err e => rfl
  | ok u =>
    simp only
    have hx : (Mode.flags mode).exclusive = true → (Mode.flags mode).create = true := by
      simp [Mode.flags, Mode.exclusive, Mode.create]
      intro h; simp [h]
    have ho := open_refines (Mode.flags mode) hx init
    unfold sessionAvoids at h
    cases hm : MemFile.openFile (Mode.flags mode) init with
    | err e =>
      cases hr : IoRef.openFile (Mode.flags mode) init with
      | err e' => simp [hm, hr] at ho; simp [ho]
      | ok r => simp [hm, hr] at ho
    | ok m =>
      cases hr : IoRef.openFile (Mode.flags mode) init with
      | err e' => simp [hm, hr] at ho
      | ok r =>
        simp only [hm, hr] at ho h
        simp [runFrom_refines (Mode.flags mode) ops m r ho h]

/-- the hypothesis is satisfiable by a non-trivial session -/
example : sessionAvoids ['r', '+'] (some [48, 49, 10, 50])
    [.seek 2 0, .truncate (some 8), .tell, .write [88], .seek (-3) 2, .readline none, .close] = true := by
  decide

/-! ### the excluded classes are real: one witness each -/

/-- F1: a closed `_MemoryFile` still reads — and writes into the stored file -/
theorem memfile_refines_ioref_counterexample :
    MemFile.run ['r', '+'] (some [48, 49]) [.close, .write [88]] ≠
    IoRef.run ['r', '+'] (some [48, 49]) [.close, .write [88]] := by decide

theorem use_after_close_counterexample :
    MemFile.run ['r', '+'] (some [48, 49]) [.close, .write [88]] = .ok ([(.none, none), (.nat 1, none)], [88, 49]) ∧
    IoRef.run ['r', '+'] (some [48, 49]) [.close, .write [88]] = .ok ([(.none, none), (.err .closed, none)], [48, 49]) := by
  decide

/-- F2: `seek(-1, SEEK_CUR)` at position 0 returns 0 instead of being rejected -/
theorem seek_negative_clamped_counterexample :
    MemFile.run ['r'] (some [48]) [.seek (-1) 1] = .ok ([(.nat 0, some 0)], [48]) ∧
    IoRef.run ['r'] (some [48]) [.seek (-1) 1] = .ok ([(.err .invalid, some 0)], [48]) := by decide

/-- F3: `seek(3); truncate()` does not extend the file -/
theorem truncate_none_past_eof_counterexample :
    MemFile.run ['r', '+'] (some [48]) [.seek 3 0, .truncate none] = .ok ([(.nat 3, some 3), (.nat 3, some 3)], [48]) ∧
    IoRef.run ['r', '+'] (some [48]) [.seek 3 0, .truncate none] = .ok ([(.nat 3, some 3), (.nat 3, some 3)], [48, 0, 0]) := by
  decide

/-- F4: `list(f)` leaves `tell()` at 0, so the data is read twice -/
theorem iteration_keeps_position_counterexample :
    MemFile.run ['r'] (some [97, 10, 98]) [.iter, .read none] =
      .ok ([(.lines [[97, 10], [98]], some 0), (.bytes [97, 10, 98], some 3)], [97, 10, 98]) ∧
    IoRef.run ['r'] (some [97, 10, 98]) [.iter, .read none] =
      .ok ([(.lines [[97, 10], [98]], some 3), (.bytes [], some 3)], [97, 10, 98]) := by decide

/-- F4: `next(f)` returns data on a handle opened without read permission -/
theorem iteration_ignores_mode_counterexample :
    MemFile.run ['a'] (some [97, 10, 98]) [.seek 0 0, .next] =
      .ok ([(.nat 0, some 0), (.bytes [97, 10], some 2)], [97, 10, 98]) ∧
    IoRef.run ['a'] (some [97, 10, 98]) [.seek 0 0, .next] =
      .ok ([(.nat 0, some 0), (.err .notPermitted, some 0)], [97, 10, 98]) := by decide

/-- T0/T1/T2: the tolerated differences (stricter rejection of a vacuous call; position after a
zero-length append) -/
theorem tolerated_classes_counterexample :
    MemFile.run ['w'] none [.readline (some 0)] ≠ IoRef.run ['w'] none [.readline (some 0)] ∧
    MemFile.run ['r'] (some []) [.writelines []] ≠ IoRef.run ['r'] (some []) [.writelines []] ∧
    MemFile.run ['a'] (some [48]) [.seek 0 0, .write []] ≠ IoRef.run ['a'] (some [48]) [.seek 0 0, .write []] :=
  ⟨by decide, by decide, by decide⟩

/-- the four defects repaired by `5781f51` stay repaired in the model (regression witnesses) -/
theorem repaired_defects_agree :
    MemFile.run ['r', '+'] (some [48, 49, 50, 51]) [.seek 2 0, .truncate (some 8), .tell] =
      IoRef.run ['r', '+'] (some [48, 49, 50, 51]) [.seek 2 0, .truncate (some 8), .tell] ∧
    MemFile.run ['a'] (some [48, 49]) [.seek 0 0, .write [88]] = .ok ([(.nat 0, some 0), (.nat 1, some 3)], [48, 49, 88]) ∧
    MemFile.run ['r'] (some [48]) [.truncate (some 0)] = .ok ([(.err .notPermitted, some 0)], [48]) ∧
    MemFile.run ['r'] (some [48]) [.writelines [[88]]] = .ok ([(.err .notPermitted, some 0)], [48]) :=
  ⟨by decide, by decide, by decide, by decide⟩

/-! ## the corollaries named by the property (stated on the implementation model `MemFile`,
and on the reference where it reads differently) -/

/-- append mode: wherever the position is, the data goes to the end of the file and the
position ends up after it -/
theorem append_writes_at_end (fl : Flags) (m : MemState) (d : Bytes)
    (hw : fl.writing = true) (ha : fl.appending = true) :
    (MemFile.step fl m (.write d)).1.bio.bytes = m.bio.bytes ++ d ∧
    (MemFile.step fl m (.write d)).1.pos = (m.bio.bytes ++ d).length ∧
    (MemFile.step fl m (.write d)).2 = .nat d.length := by
  obtain ⟨⟨b, bp⟩, p, c⟩ := m
  by_cases hd : d.isEmpty = true
  · have : d = [] := by simpa using hd
    subst this
    simp [MemFile.step, hw, ha, MemFile.seekLock, Bio.write, Bio.seekSet, Bio.seekEnd, Out.isErr]
  · simp [MemFile.step, hw, ha, MemFile.seekLock, Bio.write, Bio.seekSet, Bio.seekEnd, Out.isErr, hd,
      writeAt_end]

theorem append_writes_at_end_ref (fl : Flags) (s : IoState) (d : Bytes)
    (hw : fl.writing = true) (ha : fl.appending = true) (ho : s.closed = false) (hd : d ≠ []) :
    (IoRef.step fl s (.write d)).1.bytes = s.bytes ++ d ∧
    (IoRef.step fl s (.write d)).1.pos = (s.bytes ++ d).length := by
  have hd' : d.isEmpty = false := by cases d <;> simp_all
  simp [IoRef.step, IoRef.stepOpen, IoRef.isReadline0, ho, hw, ha, IoRef.write1, hd', writeAt_end]

/-- `writelines` in append mode: all pieces go to the end, in order -/
theorem append_writelines_at_end (fl : Flags) (m : MemState) (ls : List Bytes)
    (hw : fl.writing = true) (ha : fl.appending = true) :
    (MemFile.step fl m (.writelines ls)).1.bio.bytes = m.bio.bytes ++ ls.flatten := by
  obtain ⟨⟨b, bp⟩, p, c⟩ := m
  have := (foldl_write_at_end fl ls b false).2
  simp [MemFile.step, hw, ha, MemFile.seekLock, Bio.seekSet, Bio.seekEnd, Out.isErr, this]

/-- `truncate(size)`: the position does not move; the file keeps its first `size` bytes and is
extended with zero bytes when it was shorter -/
theorem truncate_keeps_pos_zero_extends (fl : Flags) (m : MemState) (z : Int)
    (hw : fl.writing = true) (hz : 0 ≤ z) (ho : m.closed = false) :
    (MemFile.step fl m (.truncate (some z))).1.pos = m.pos ∧
    (MemFile.step fl m (.truncate (some z))).1.bio.bytes =
      m.bio.bytes.take z.toNat ++ zeros (z.toNat - m.bio.bytes.length) ∧
    (MemFile.step fl m (.truncate (some z))).2 = .nat z.toNat := by
  have hR : R m ⟨m.bio.bytes, m.pos, false⟩ := ⟨rfl, rfl, ho⟩
  have hd : deviates fl ⟨m.bio.bytes, m.pos, false⟩ (.truncate (some z)) = false := by
    simp [deviates, devClass]
  obtain ⟨⟨h1, h2, _⟩, h3⟩ := FileLemmas.step_refines fl m _ _ hR hd
  have hz' : ¬ z < 0 := by omega
  simp only [IoRef.step, IoRef.stepOpen, IoRef.isReadline0, hw, hz'] at h1 h2 h3
  simp at h1 h2 h3
  exact ⟨h2, by rw [h1, resize_eq], h3⟩

/-- `truncate()` (no size) cuts at the position and keeps it, as long as the position is inside
the file (beyond EOF the current code does not extend: `truncate_none_past_eof_counterexample`) -/
theorem truncate_none_cuts_at_pos (fl : Flags) (m : MemState)
    (hw : fl.writing = true) :
    (MemFile.step fl m (.truncate none)).1.pos = m.pos ∧
    (MemFile.step fl m (.truncate none)).1.bio.bytes = m.bio.bytes.take m.pos := by
  obtain ⟨⟨b, bp⟩, p, c⟩ := m
  simp [MemFile.step, hw, MemFile.seekLock, Bio.truncate, Bio.seekSet, Out.isErr]

/-- opening with `w` empties an existing file (both machines), whatever the other flags -/
theorem w_truncates (mode : Str) (b : Bytes) (hv : Mode.validateBin mode = .ok ())
    (hw : Mode.has mode 'w' = true) (hx : Mode.has mode 'x' = false) :
    MemFile.run mode (some b) [] = .ok ([], []) ∧ IoRef.run mode (some b) [] = .ok ([], []) := by
  constructor
  · simp [MemFile.run, hv, MemFile.openFile, Mode.flags, Mode.truncate, Mode.exclusive, Mode.create, hw, hx,
      MemFile.runFrom, Bio.truncate, Bio.seekSet]
  · simp [IoRef.run, hv, IoRef.openFile, Mode.flags, Mode.truncate, Mode.exclusive, hw, hx, IoRef.runFrom]

/-- opening with `x` fails with FileExists when the file exists (both machines) -/
theorem x_fails_if_exists (mode : Str) (b : Bytes) (ops : List Op) (hv : Mode.validateBin mode = .ok ())
    (hx : Mode.has mode 'x' = true) :
    MemFile.run mode (some b) ops = .err .FileExists ∧ IoRef.run mode (some b) ops = .err .FileExists := by
  constructor
  · simp [MemFile.run, hv, MemFile.openFile, Mode.flags, Mode.exclusive, Mode.create, hx]
  · simp [IoRef.run, hv, IoRef.openFile, Mode.flags, Mode.exclusive, hx]

/-- … and creates the file when it does not exist -/
theorem x_creates_if_missing (mode : Str) (hv : Mode.validateBin mode = .ok ())
    (hx : Mode.has mode 'x' = true) :
    MemFile.run mode none [] = .ok ([], []) ∧ IoRef.run mode none [] = .ok ([], []) := by
  constructor
  · simp [MemFile.run, hv, MemFile.openFile, Mode.flags, Mode.exclusive, Mode.create, Mode.truncate, hx,
      MemFile.runFrom, Bio.truncate, Bio.seekSet]
  · simp [IoRef.run, hv, IoRef.openFile, Mode.flags, Mode.exclusive, Mode.create, hx, IoRef.runFrom]

/-- `r`/`r+` on a missing file: ResourceNotFound -/
theorem r_fails_if_missing (mode : Str) (ops : List Op) (hv : Mode.validateBin mode = .ok ())
    (hc : Mode.create mode = false) :
    MemFile.run mode none ops = .err .ResourceNotFound ∧ IoRef.run mode none ops = .err .ResourceNotFound := by
  constructor
  · simp [MemFile.run, hv, MemFile.openFile, Mode.flags, hc]
  · simp [IoRef.run, hv, IoRef.openFile, Mode.flags, hc]

/-- a handle without write permission rejects write, writelines and truncate and changes nothing -/
theorem no_write_rejects_write_writelines_truncate (fl : Flags) (m : MemState) (hw : fl.writing = false)
    (d : Bytes) (ls : List Bytes) (z : Option Int) :
    MemFile.step fl m (.write d) = (m, .err .notPermitted) ∧
    MemFile.step fl m (.writelines ls) = (m, .err .notPermitted) ∧
    MemFile.step fl m (.truncate z) = (m, .err .notPermitted) := by
  simp [MemFile.step, hw]

theorem no_write_rejects_write_writelines_truncate_ref (fl : Flags) (s : IoState) (hw : fl.writing = false)
    (ho : s.closed = false) (d : Bytes) (ls : List Bytes) (hls : ls ≠ []) (z : Option Int) :
    IoRef.step fl s (.write d) = (s, .err .notPermitted) ∧
    IoRef.step fl s (.writelines ls) = (s, .err .notPermitted) ∧
    IoRef.step fl s (.truncate z) = (s, .err .notPermitted) := by
  have : ls.isEmpty = false := by cases ls <;> simp_all
  simp [IoRef.step, IoRef.stepOpen, IoRef.isReadline0, hw, ho, this]

/-- a handle without read permission rejects read, readall, readinto, readline and readlines
and changes nothing (iteration is not rejected: `iteration_ignores_mode_counterexample`) -/
theorem no_read_rejects_reads (fl : Flags) (m : MemState) (hr : fl.reading = false)
    (n : Option Int) (k : Nat) :
    MemFile.step fl m (.read n) = (m, .err .notPermitted) ∧
    MemFile.step fl m .readall = (m, .err .notPermitted) ∧
    MemFile.step fl m (.readinto k) = (m, .err .notPermitted) ∧
    MemFile.step fl m (.readline n) = (m, .err .notPermitted) ∧
    MemFile.step fl m .readlines = (m, .err .notPermitted) := by
  simp [MemFile.step, hr]

theorem no_read_rejects_reads_ref (fl : Flags) (s : IoState) (hr : fl.reading = false)
    (ho : s.closed = false) (n : Option Int) (hn : n ≠ some 0) (k : Nat) :
    IoRef.step fl s (.read n) = (s, .err .notPermitted) ∧
    IoRef.step fl s .readall = (s, .err .notPermitted) ∧
    IoRef.step fl s (.readinto k) = (s, .err .notPermitted) ∧
    IoRef.step fl s (.readline n) = (s, .err .notPermitted) ∧
    IoRef.step fl s .readlines = (s, .err .notPermitted) ∧
    IoRef.step fl s .next = (s, .err .notPermitted) ∧
    IoRef.step fl s .iter = (s, .err .notPermitted) := by
  have h0 : IoRef.isReadline0 (.readline n) = false := by
    cases n with
    | none => rfl
    | some z =>
      simp only [IoRef.isReadline0, beq_eq_false_iff_ne, ne_eq]
      intro hz; subst hz; exact hn rfl
  simp [IoRef.step, IoRef.stepOpen, hr, ho, h0]
  simp [IoRef.isReadline0]

/-- every call on a closed reference file is rejected, except `close()` (idempotent) and the
vacuous `readline(0)` -/
theorem closed_rejects_everything_ref (fl : Flags) (s : IoState) (hc : s.closed = true) (op : Op)
    (h1 : op ≠ .close) (h2 : IoRef.isReadline0 op = false) :
    IoRef.step fl s op = (s, .err .closed) := by
  cases op <;> simp_all [IoRef.step, IoRef.stepClosed]

/-- seeking beyond EOF and writing fills the gap with zero bytes -/
theorem seek_past_end_write_zero_fills (fl : Flags) (m : MemState) (k : Nat) (d : Bytes)
    (hw : fl.writing = true) (ha : fl.appending = false) (hd : d ≠ []) (hp : m.pos = m.bio.bytes.length + k) :
    (MemFile.step fl m (.write d)).1.bio.bytes = m.bio.bytes ++ zeros k ++ d := by
  obtain ⟨⟨b, bp⟩, p, c⟩ := m
  simp only at hp
  subst hp
  have hd' : d.isEmpty = false := by cases d <;> simp_all
  have ht : List.take (b.length + k) (b ++ List.replicate k (0 : UInt8)) = b ++ List.replicate k 0 :=
    List.take_of_length_le (by simp)
  have hdr : List.drop (b.length + k + d.length) b = [] := List.drop_eq_nil_of_le (by omega)
  simp [MemFile.step, hw, ha, MemFile.seekLock, Bio.write, Bio.seekSet, Out.isErr, hd', writeAt, zeros, ht, hdr]

/-- reads at or beyond EOF return nothing and do not move -/
theorem read_at_eof_empty (fl : Flags) (m : MemState) (n : Option Int)
    (hr : fl.reading = true) (hp : m.bio.bytes.length ≤ m.pos) :
    (MemFile.step fl m (.read n)).2 = .bytes [] ∧ (MemFile.step fl m (.read n)).1.pos = m.pos := by
  obtain ⟨⟨b, bp⟩, p, c⟩ := m
  simp only at hp
  have hdrop : List.drop p b = [] := List.drop_eq_nil_of_le hp
  cases n with
  | none => simp [MemFile.step, hr, MemFile.seekLock, Bio.read, Bio.seekSet, Out.isErr, limit, hdrop]
  | some z =>
    by_cases hz : z < 0 <;>
      simp [MemFile.step, hr, MemFile.seekLock, Bio.read, Bio.seekSet, Out.isErr, limit, hdrop, hz]

/-! non-vacuity of the corollaries' hypotheses -/
example : (Mode.flags ['a', '+']).writing = true ∧ (Mode.flags ['a', '+']).appending = true := by decide
example : (Mode.flags ['r']).writing = false ∧ (Mode.flags ['w']).reading = false := by decide
example : Mode.validateBin ['x', 'b'] = .ok () ∧ Mode.has ['x', 'b'] 'x' = true := by decide
example : Mode.validateBin ['w', '+'] = .ok () ∧ Mode.has ['w', '+'] 'w' = true ∧ Mode.has ['w', '+'] 'x' = false := by
  decide
example : deviates (Mode.flags ['r', '+']) ⟨[1, 2, 3], 1, false⟩ (.truncate (some 7)) = false := by decide
example : R ⟨⟨[1, 2, 3], 0⟩, 2, false⟩ ⟨[1, 2, 3], 2, false⟩ := ⟨rfl, rfl, rfl⟩

end Fs.C16
