/-
  C02 — stored data is returned bit-identical by every read path (byte level).

  Property theorems only (helpers: FsProofs/Lemmas/CopyLemmas.lean, FileLemmas.lean).
  * `fs.tools.copy_file_data` (the loop behind upload / download / writefile / copy / move) over an
    abstract reader that may return any non-empty prefix of up to `chunk` bytes per call;
  * the write paths × read paths of fs/base.py as sessions over the io reference `IoRef`
    (which C16 ties to `_MemoryFile` and, by correspondence, to every backend's file objects).
  Every statement is for all byte strings (any length, any byte values), all chunk sizes,
  all short-read patterns, all piece boundaries, any previous content of the file.
  The text layer (encodings, newline translation, make_stream layering) is FsProofs/TextLaws.lean.
  Tree at b5a3d6c: `chunk_size=0` means the 1 MiB default.
-/
import FsModel.File
import FsProofs.Lemmas.FileLemmas
import FsProofs.Lemmas.CopyLemmas

namespace Fs.C02
open Fs Fs.File Fs.FileLemmas Fs.CopyLemmas

set_option linter.unusedSimpArgs false

/-! ## the chunked copy loop -/

/-- `chunk_size or 1024 * 1024` is never 0 -/
theorem effChunk_ne_zero (chunk : Option Int) : effChunk chunk ≠ 0 := by
  unfold effChunk
  cases chunk with
  | none => decide
  | some c =>
    simp only
    split
    · decide
    · assumption

/-- `copy_file_data` writes exactly the source bytes: every length, every byte value, every
`chunk_size` (`None`, 0 = default 1 MiB, positive, negative = "read everything"), every pattern of
short reads.  No hypothesis is left: since b5a3d6c a chunk size of 0 means the default. -/
theorem copy_file_data_exact (chunk : Option Int) (data : Bytes) (shortReads : List Nat) :
    copyFileData chunk data shortReads = data := by
  unfold copyFileData
  rw [copyLoop_exact _ (effChunk_ne_zero chunk) _ _ _ (by simp)]
  simp

/-- regression (was `copy_file_data_chunk_zero_counterexample`: nothing was copied):
`chunk_size=0` behaves exactly like `chunk_size=None` and copies everything -/
theorem copy_file_data_chunk_zero_repaired (data : Bytes) (shortReads : List Nat) :
    copyFileData (some 0) data shortReads = copyFileData none data shortReads ∧
    copyFileData (some 0) [1, 2, 3] [] = [1, 2, 3] :=
  ⟨rfl, copy_file_data_exact _ _ _⟩

/-- the loop itself still needs a non-zero size — `read(0)` returns `b""` and ends it at once;
that is why the code (and `effChunk`) maps 0 to the default -/
theorem copy_loop_zero_counterexample : copyLoop 0 4 ⟨[1, 2, 3], []⟩ [] = [] := by decide

/-- the writes are the reader's chunks, in order; none is empty; none exceeds the (effective)
chunk size -/
theorem copy_chunks_faithful (chunk : Option Int) (data : Bytes) (shortReads : List Nat) :
    (copyChunks (effChunk chunk) (data.length + 1) ⟨data, shortReads⟩).flatten = data ∧
    ∀ c ∈ copyChunks (effChunk chunk) (data.length + 1) ⟨data, shortReads⟩,
      c ≠ [] ∧ (0 < effChunk chunk → c.length ≤ (effChunk chunk).toNat) :=
  ⟨copyChunks_flatten _ (effChunk_ne_zero chunk) _ _ (by simp), copyChunks_bounded _ _ _⟩

example : copyFileData (some 3) [1, 2, 3, 4, 5, 6, 7] [1, 9, 2] = [1, 2, 3, 4, 5, 6, 7] := by decide
example : copyChunks 3 8 ⟨[1, 2, 3, 4, 5, 6, 7], [1, 9, 2]⟩ = [[1], [2, 3, 4], [5, 6], [7]] := by decide

/-! ## sessions over the io reference -/

theorem flagsW : Mode.flags modeW = ⟨false, true, false, true, false, true⟩ := by decide
theorem flagsA : Mode.flags modeA = ⟨false, true, true, false, false, true⟩ := by decide
theorem flagsR : Mode.flags modeR = ⟨true, false, false, false, false, false⟩ := by decide

/-- opening "wb" gives an empty file whatever was there -/
theorem run_modeW (ex : Option Bytes) (ops : List Op) :
    IoRef.run modeW ex ops = .ok (IoRef.runFrom (Mode.flags modeW) ⟨[], 0, false⟩ ops) := by
  have hv : Mode.validateBin modeW = .ok () := by decide
  cases ex <;> simp [IoRef.run, hv, flagsW, IoRef.openFile]

/-- a sequence of `write` calls then `close`: the file holds what the writes built -/
theorem runFrom_writes (fl : Flags) (hw : fl.writing = true) (ws : List Bytes) (s : IoState)
    (ho : s.closed = false) :
    (IoRef.runFrom fl s (ws.map .write ++ [.close])).2 = (ws.foldl (IoRef.write1 fl) s).bytes := by
  induction ws generalizing s with
  | nil => simp [IoRef.runFrom, IoRef.step, IoRef.stepOpen, IoRef.isReadline0, ho]
  | cons d ds ih =>
    simp only [List.map_cons, List.cons_append, IoRef.runFrom, List.foldl_cons]
    have hstep : (IoRef.step fl s (.write d)).1 = IoRef.write1 fl s d := by
      simp [IoRef.step, IoRef.stepOpen, IoRef.isReadline0, ho, hw]
    rw [hstep]
    apply ih
    unfold IoRef.write1
    split
    · exact ho
    · exact ho

/-- piecewise writes into a fresh "wb" handle store the concatenation of the pieces -/
theorem piecewise_writes_concat (ex : Option Bytes) (ws : List Bytes) :
    finalOf (IoRef.run modeW ex (ws.map .write ++ [.close])) = some ws.flatten := by
  rw [run_modeW]
  simp only [finalOf]
  rw [runFrom_writes _ (by rw [flagsW]) ws _ rfl]
  have := (foldl_write_at_end (Mode.flags modeW) ws [] false).1
  simp only [List.length_nil, List.nil_append] at this
  rw [this]

theorem writelines_concat (ex : Option Bytes) (ls : List Bytes) :
    finalOf (IoRef.run modeW ex [.writelines ls, .close]) = some ls.flatten := by
  rw [run_modeW]
  have hf := (foldl_write_at_end (Mode.flags modeW) ls [] false).1
  simp only [List.length_nil, List.nil_append] at hf
  cases ls with
  | nil => simp [finalOf, IoRef.runFrom, IoRef.step, IoRef.stepOpen, IoRef.isReadline0, flagsW]
  | cons l ls =>
    simp only [finalOf, IoRef.runFrom, IoRef.step, IoRef.stepOpen, IoRef.isReadline0, flagsW] at hf ⊢
    simp [hf, IoRef.stepOpen]

/-- `appendbytes`: whatever the file holds, a write through an "ab" handle — even after seeking
anywhere — leaves `old ++ new` -/
theorem append_concat (a b : Bytes) (off : Int) (whence : Nat) :
    finalOf (IoRef.run modeA (some a) [.write b, .close]) = some (a ++ b) ∧
    finalOf (IoRef.run modeA (some a) [.seek off whence, .write b, .close]) = some (a ++ b) := by
  have hv : Mode.validateBin modeA = .ok () := by decide
  have key : ∀ s : IoState, s.closed = false → s.bytes = a →
      (IoRef.runFrom (Mode.flags modeA) s [.write b, .close]).2 = a ++ b := by
    intro s ho hb
    by_cases hbe : b.isEmpty = true
    · have : b = [] := by simpa using hbe
      subst this
      simp [IoRef.runFrom, IoRef.step, IoRef.stepOpen, IoRef.isReadline0, ho, flagsA, IoRef.write1, hb]
    · simp [IoRef.runFrom, IoRef.step, IoRef.stepOpen, IoRef.isReadline0, ho, flagsA, IoRef.write1, hbe,
        hb.symm, writeAt_end]
  constructor
  · simp only [IoRef.run, hv, IoRef.openFile, flagsA, finalOf]
    simp only [Bool.false_eq_true, if_false, if_true]
    rw [← flagsA]
    exact congrArg some (key _ rfl rfl)
  · simp only [IoRef.run, hv, IoRef.openFile, flagsA, finalOf]
    simp only [Bool.false_eq_true, if_false, if_true]
    rw [← flagsA]
    simp only [IoRef.runFrom]
    apply congrArg some
    have hs : (IoRef.step (Mode.flags modeA) ⟨a, a.length, false⟩ (.seek off whence)).1.closed = false ∧
        (IoRef.step (Mode.flags modeA) ⟨a, a.length, false⟩ (.seek off whence)).1.bytes = a := by
      simp only [IoRef.step, IoRef.isReadline0, IoRef.stepOpen]
      simp only [Bool.false_eq_true, if_false]
      split <;> (try split) <;> simp
    have := key _ hs.1 hs.2
    simpa [IoRef.runFrom] using this

/-! ### every write path stores the data, every read path returns the file -/

theorem chop_flatten (cuts : List Nat) (d : Bytes) : (chop cuts d).flatten = d := by
  induction cuts generalizing d with
  | nil => simp [chop]
  | cons k ks ih => simp [chop, ih]

theorem store_exact (w : WritePath) (ex : Option Bytes) (data : Bytes) :
    w.store ex data = some data := by
  cases w with
  | writebytes =>
    have := piecewise_writes_concat ex [data]
    simpa [WritePath.store] using this
  | pieces cuts =>
    simp only [WritePath.store]
    rw [piecewise_writes_concat, chop_flatten]
  | writelines cuts =>
    simp only [WritePath.store]
    rw [writelines_concat, chop_flatten]
  | append k =>
    have h1 := piecewise_writes_concat ex [data.take k]
    simp only [List.map_cons, List.map_nil, List.nil_append, List.cons_append, List.flatten_cons,
      List.flatten_nil, List.append_nil] at h1
    simp only [WritePath.store, h1]
    rw [(append_concat (data.take k) (data.drop k) 0 0).1]
    simp
  | upload chunk sr =>
    simp only [WritePath.store]
    rw [piecewise_writes_concat, copyChunks_flatten _ (effChunk_ne_zero chunk) _ _ (by simp)]

theorem fetch_exact (r : ReadPath) (hr : r.valid = true) (file : Bytes) :
    r.fetch file = some file := by
  have hopen : IoRef.openFile (Mode.flags modeR) (some file) = .ok ⟨file, 0, false⟩ := by
    simp [IoRef.openFile, flagsR]
  have hrd : (Mode.flags modeR).reading = true := by rw [flagsR]
  unfold ReadPath.fetch
  simp only [hopen]
  cases r with
  | readbytes =>
    simp [IoRef.step, IoRef.stepOpen, IoRef.isReadline0, hrd, IoRef.readN, limit]
  | readall =>
    simp [IoRef.step, IoRef.stepOpen, IoRef.isReadline0, hrd, IoRef.readN, limit]
  | readlines =>
    simp [IoRef.step, IoRef.stepOpen, IoRef.isReadline0, hrd, IoRef.readLines, linesOf_flatten]
  | readLoop n =>
    simp only [ReadPath.valid, bne_iff_ne, ne_eq] at hr
    have hn : (some n : Option Int) ≠ some 0 := by intro h; injection h with h; exact hr h
    have := drainWith_exact (Mode.flags modeR) (.read (some n)) (limit (some n))
      (limit_prefix _) (fun l hl => limit_ne_nil _ l hn hl)
      (by intro s ho _
          simp [IoRef.step, IoRef.stepOpen, IoRef.isReadline0, ho, hrd, IoRef.readN])
      (by intro s ho hrest
          left
          simp [IoRef.step, IoRef.stepOpen, IoRef.isReadline0, ho, hrd, IoRef.readN, hrest, limit])
      (file.length + 1) ⟨file, 0, false⟩ rfl (by simp)
    simpa using this
  | download chunk =>
    have hn : (some (effChunk chunk) : Option Int) ≠ some 0 := by
      intro h; injection h with h; exact effChunk_ne_zero chunk h
    have := drainWith_exact (Mode.flags modeR) (.read (some (effChunk chunk))) (limit (some (effChunk chunk)))
      (limit_prefix _) (fun l hl => limit_ne_nil _ l hn hl)
      (by intro s ho _
          simp [IoRef.step, IoRef.stepOpen, IoRef.isReadline0, ho, hrd, IoRef.readN, effChunk_ne_zero])
      (by intro s ho hrest
          left
          simp [IoRef.step, IoRef.stepOpen, IoRef.isReadline0, ho, hrd, IoRef.readN, hrest, limit,
            effChunk_ne_zero])
      (file.length + 1) ⟨file, 0, false⟩ rfl (by simp)
    simpa using this
  | readintoLoop k =>
    simp only [ReadPath.valid, bne_iff_ne, ne_eq] at hr
    have hn : (some (Int.ofNat k) : Option Int) ≠ some 0 := by
      intro h; injection h with h; apply hr; exact Int.ofNat_eq_zero.mp h
    have := drainWith_exact (Mode.flags modeR) (.readinto k) (limit (some (Int.ofNat k)))
      (limit_prefix _) (fun l hl => limit_ne_nil _ l hn hl)
      (by intro s ho _
          simp [IoRef.step, IoRef.stepOpen, IoRef.isReadline0, ho, hrd, IoRef.readN])
      (by intro s ho hrest
          left
          simp [IoRef.step, IoRef.stepOpen, IoRef.isReadline0, ho, hrd, IoRef.readN, hrest, limit])
      (file.length + 1) ⟨file, 0, false⟩ rfl (by simp)
    simpa using this
  | readlineLoop =>
    have := drainWith_exact (Mode.flags modeR) (.readline none) lineOf
      lineOf_prefix (fun l hl => lineOf_ne_nil l hl)
      (by intro s ho _
          simp [IoRef.step, IoRef.stepOpen, IoRef.isReadline0, ho, hrd, IoRef.readLine, limit])
      (by intro s ho hrest
          left
          simp [IoRef.step, IoRef.stepOpen, IoRef.isReadline0, ho, hrd, IoRef.readLine, hrest, limit, lineOf])
      (file.length + 1) ⟨file, 0, false⟩ rfl (by simp)
    simpa using this
  | nextLoop =>
    have := drainWith_exact (Mode.flags modeR) .next lineOf
      lineOf_prefix (fun l hl => lineOf_ne_nil l hl)
      (by intro s ho hne
          have : (lineOf (List.drop s.pos s.bytes)).isEmpty = false := by
            cases h : lineOf (List.drop s.pos s.bytes) <;> simp_all
          simp [IoRef.step, IoRef.stepOpen, IoRef.isReadline0, ho, hrd, IoRef.readLine, limit, this])
      (by intro s ho hrest
          right
          simp [IoRef.step, IoRef.stepOpen, IoRef.isReadline0, ho, hrd, IoRef.readLine, hrest, limit, lineOf])
      (file.length + 1) ⟨file, 0, false⟩ rfl (by simp)
    simpa using this

/-- the matrix: bytes stored through any write path are returned bit-identical by any read
path (writebytes / piecewise write / writelines / writebytes+appendbytes / upload-style chunked
copy with any chunk size and short reads  ×  read() / readall() / read(n) loop / download with
any chunk size / readinto loop / readline loop / iteration / readlines).  The only side condition
left is on *user* loops `read(0)` / `readinto(bytearray(0))`, which never make progress. -/
theorem write_read_matrix (w : WritePath) (r : ReadPath) (hr : r.valid = true)
    (existing : Option Bytes) (data : Bytes) :
    (w.store existing data).bind r.fetch = some data := by
  rw [store_exact w, Option.bind_some, fetch_exact r hr]

example : (ReadPath.readLoop 2).valid = true ∧ (ReadPath.download (some 0)).valid = true := by decide
example : ((WritePath.upload (some 3) [1, 2]).store (some [9, 9]) [1, 10, 2, 3, 10]).bind ReadPath.nextLoop.fetch =
    some [1, 10, 2, 3, 10] := by decide

/-- a user loop `while f.read(0)` returns nothing: `valid` is needed for that row only
(`upload`/`download` with `chunk_size=0` are fine now: `copy_file_data_chunk_zero_repaired`) -/
theorem matrix_zero_loop_size_counterexample :
    (ReadPath.readLoop 0).fetch [1, 2] = some [] ∧ (ReadPath.readLoop 0).valid = false := by
  decide

/-- the size a filesystem reports (seek to the end / length of the store) equals the number of
bytes any read path returns -/
theorem size_eq_length (r : ReadPath) (hr : r.valid = true) (fl : Flags) (file : Bytes) :
    (IoRef.step fl ⟨file, 0, false⟩ (.seek 0 2)).2 = .nat file.length ∧
    (r.fetch file).map List.length = some file.length := by
  constructor
  · have : ¬ ((file.length : Int) < 0) := by omega
    simp [IoRef.step, IoRef.stepOpen, IoRef.isReadline0, this]
  · rw [fetch_exact r hr]; rfl

end Fs.C02
