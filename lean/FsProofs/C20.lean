/-
  C20 — parsers of external text are total and faithful.

  Property theorems only (helper lemmas: FsProofs/Lemmas/ParseLemmas.lean, FtpLemmas.lean).
  Models: FsModel.Parse (`parse_fs_url`, `urllib.parse.unquote/quote/parse_qs`, `Registry.open`,
  the URL builder), FsModel.FtpParse (LIST / MLSD / FEAT parsers, `strptime` formats, calendar
  arithmetic) — transcriptions of the code as it is in the repository now.
  All statements quantify over every `Str = List Char`, no length bound.

  Totality.  Python helpers that can raise (`int` beyond the digit limit, `calendar.timegm`,
  `datetime(...)`) return `Res` in the model and the `try … except ValueError` of their callers are
  transcribed, so "the parser raises nothing but ParseError / nothing at all" is a theorem about
  which constructors the top-level model functions can return.  That the Python code behaves like
  the model is validated by the correspondence (harness/props/c20.py).

  Six defects of the originally pinned tree were repaired upstream of this file (findings/applied);
  each has a `…_repaired` regression theorem stating today's behaviour at the formerly failing
  input.  A seventh regression theorem (`mlsd_name_separators_repaired`) belongs to the MLSD name
  defect found by C10 and repaired by ec30a14 (`_parse_facts` reads `facts SP pathname`).
-/
import FsModel.Parse
import FsModel.FtpParse
import FsProofs.Lemmas.ParseLemmas
import FsProofs.Lemmas.FtpLemmas

namespace Fs.C20
open Fs Fs.Path Fs.Parse Fs.FtpParse Fs.ParseLemmas Fs.FtpLemmas

/-! ## parse_fs_url: totality -/

/-- the text contains `://` -/
def HasScheme (s : Str) : Prop := ∃ a b, s = a ++ ':' :: '/' :: '/' :: b

/-- **parse_only_ParseError.**  For every string, `parse_fs_url` returns a `ParseResult` or raises
    `ParseError` — never another exception. -/
theorem parse_only_ParseError (s : Str) (e : Err) (he : parseFsUrl s = .err e) :
    e = .ParseError := by
  unfold parseFsUrl at he
  cases hg : reFsUrl s with
  | none => rw [hg] at he; cases he; rfl
  | some g =>
    rw [hg] at he
    simp only at he
    split at he <;> cases he

theorem parse_total (s : Str) :
    (∃ r, parseFsUrl s = .ok r) ∨ parseFsUrl s = .err .ParseError := by
  cases h : parseFsUrl s with
  | ok r => exact Or.inl ⟨r, rfl⟩
  | err e => rw [parse_only_ParseError s e h]; exact Or.inr rfl

/-- the regex matches iff the text contains `://` and has no line feed except possibly as its very
    last character (`.` without DOTALL; `$` before a final `\n`) -/
theorem regex_matches_iff (s : Str) :
    (reFsUrl s).isSome = true ↔ (HasScheme s ∧ '\n' ∉ dropFinalNl s) := by
  unfold reFsUrl
  cases hs : splitScheme s with
  | none =>
    simp only [Option.isSome_none, Bool.false_eq_true, false_iff, not_and]
    rintro ⟨a, b, rfl⟩
    exact absurd rfl (splitScheme_none hs a b)
  | some ab =>
    obtain ⟨a, b⟩ := ab
    have hsab := splitScheme_some hs
    have hdrop : dropFinalNl s = a ++ ':' :: '/' :: '/' :: dropFinalNl b := by
      rw [hsab, dropFinalNl_append _ _ (by simp)]
      cases b with
      | nil => rfl
      | cons x xs =>
        have := dropFinalNl_append [':', '/', '/'] (x :: xs) (by simp)
        simpa using congrArg (a ++ ·) this
    have hscheme : HasScheme s := ⟨a, b, hsab⟩
    simp only
    by_cases hnl : (has '\n' a || has '\n' (dropFinalNl b)) = true
    · rw [if_pos hnl]
      simp only [Option.isSome_none, Bool.false_eq_true, false_iff]
      rintro ⟨_, hno⟩
      apply hno
      rw [hdrop]
      simp only [Bool.or_eq_true, has_eq_true_iff] at hnl
      rcases hnl with h | h
      · simp [h]
      · simp [h]
    · rw [if_neg hnl]
      have hnl' : '\n' ∉ a ∧ '\n' ∉ dropFinalNl b := by
        simp only [Bool.or_eq_true, has_eq_true_iff, not_or] at hnl
        exact hnl
      have : '\n' ∉ dropFinalNl s := by
        rw [hdrop]
        simp only [List.mem_append, List.mem_cons, not_or]
        exact ⟨hnl'.1, by decide, by decide, by decide, hnl'.2⟩
      split <;> simp [hscheme, this]

/-- `ParseError` exactly when the regex does not match: no `://`, or a line feed where `.` is
    required -/
theorem parse_err_iff (s : Str) :
    parseFsUrl s = .err .ParseError ↔ ¬ (HasScheme s ∧ '\n' ∉ dropFinalNl s) := by
  rw [← regex_matches_iff]
  unfold parseFsUrl
  cases reFsUrl s with
  | none => simp
  | some g =>
    simp only [Option.isSome_some, not_true_eq_false, iff_false]
    split <;> simp

/-- regression (formerly `AttributeError`, `if not credentials:`): an empty credentials part is
    accepted and reads like `x://:@host` -/
theorem parse_empty_credentials_repaired :
    parseFsUrl ['x', ':', '/', '/', '@', 'h', 'o', 's', 't'] =
      .ok ⟨['x'], some [], some [], ['h', 'o', 's', 't'], [], none⟩ := by decide

/-- …as does every URL of that shape: `<proto>://@<rest>` has user and password `""` -/
theorem parse_empty_credentials_family (p r : Str) (h1 : splitScheme (p ++ [':', '/']) = none)
    (h2 : '\n' ∉ p) (h3 : '\n' ∉ r) :
    ∃ x, parseFsUrl (p ++ ':' :: '/' :: '/' :: '@' :: r) = .ok x ∧ x.protocol = p ∧
      x.username = some [] ∧ x.password = some [] := by
  have hnl : '\n' ∉ '@' :: r := by simp only [List.mem_cons, not_or]; exact ⟨by decide, h3⟩
  have hre : reFsUrl (p ++ ':' :: '/' :: '/' :: '@' :: r) = some ⟨p, some [], some (partition '!' r).1, none,
      if (partition '!' r).2.1 = true then some (partition '!' r).2.2 else none⟩ := by
    unfold reFsUrl
    rw [splitScheme_build _ _ h1]
    simp only [dropFinalNl_of_not_mem _ hnl, (has_eq_false_iff _ _).2 h2,
      (has_eq_false_iff _ _).2 hnl]
    simp [partition]
  unfold parseFsUrl
  rw [hre]
  exact ⟨_, rfl, rfl, by simp [partition, unquote, has, finishUrl], by simp [partition, unquote, has, finishUrl]⟩

/-! ## URL dispatch (`Registry.open`) -/

/-- the opener that gets called is the one registered for the parsed protocol (for the default
    opener when the protocol is empty); it receives exactly the parser's result for the URL — the
    given one, or `default://text` when the text contains no `://` -/
theorem registry_dispatch (known : List Str) (dO dP url u : Str)
    (r : ParseResult) (h : registryOpen known dO dP url = .ok (u, r)) :
    parseFsUrl u = .ok r ∧ known.contains (if r.protocol = [] then dO else r.protocol) = true ∧
    ((HasScheme url ∧ u = url) ∨ (¬ HasScheme url ∧ u = dP ++ ':' :: '/' :: '/' :: url)) := by
  unfold registryOpen at h
  simp only at h
  cases hP : parseFsUrl (if (splitScheme url).isSome = true then url else dP ++ ':' :: '/' :: '/' :: url) with
  | err e => rw [hP] at h; cases h
  | ok r' =>
    rw [hP] at h
    simp only at h
    by_cases hk : known.contains (if r'.protocol = [] then dO else r'.protocol) = true
    · rw [if_pos hk] at h
      simp only [Res.ok.injEq, Prod.mk.injEq] at h
      obtain ⟨rfl, rfl⟩ := h
      refine ⟨hP, hk, ?_⟩
      cases hs : splitScheme url with
      | none =>
        right
        refine ⟨?_, by simp⟩
        rintro ⟨a, b, rfl⟩
        exact absurd rfl (splitScheme_none hs a b)
      | some ab =>
        left
        exact ⟨⟨ab.1, ab.2, splitScheme_some hs⟩, by simp⟩
    · rw [if_neg hk] at h; cases h

/-- it fails only with the parser's error or `UnsupportedProtocol` -/
theorem registry_errors (known : List Str) (dO dP url : Str) (e : Err)
    (h : registryOpen known dO dP url = .err e) :
    e = .Unsupported ∨ e = .ParseError := by
  unfold registryOpen at h
  simp only at h
  cases hP : parseFsUrl (if (splitScheme url).isSome = true then url else dP ++ ':' :: '/' :: '/' :: url) with
  | err e' => rw [hP] at h; cases h; exact Or.inr (parse_only_ParseError _ _ hP)
  | ok r' =>
    rw [hP] at h
    simp only at h
    by_cases hk : known.contains (if r'.protocol = [] then dO else r'.protocol) = true
    · rw [if_pos hk] at h; cases h
    · rw [if_neg hk] at h; cases h; exact Or.inl rfl

/-! ## parse_fs_url: faithfulness -/

/-- percent-decoding inverts percent-encoding for every Unicode string (UTF-8, all four
    sequence lengths) -/
theorem unquote_quote (s : Str) : unquote (quoteAll s) = s := unquote_quoteAll s

/-- `fs._url_tools.url_quote` (non-Windows) is inverted by `unquote` -/
theorem unquote_url_quote (s : Str) : unquote (urlQuote s) = s := unquote_urlQuote s

/-- **Round trip.**  For arbitrary Unicode protocol, user, password, resource, parameter names,
    parameter values and sub-path subject only to `wfParts` (Parse.lean: the protocol contains no
    `://` and no line feed; user and password are both present or both absent; parameter names
    are distinct; the sub-path has no line feed and, when there are no credentials, no `@`) the
    parser recovers exactly the parts the URL was built from (`buildFsUrl`: the conventional
    percent-encoding of user, password, resource, names and values). -/
theorem url_roundtrip (x : ParseResult) (h : wfParts x = true) :
    parseFsUrl (buildFsUrl x) = .ok x := url_roundtrip_core x h

example : wfParts ⟨"ftp".toList, some "jo:e@x".toList, some "p%40ss wörd".toList,
    "ftp.example.org/d ir".toList, [("a b".toList, "100%41".toList), ([], "&=".toList)],
    some "sub/p@th!x".toList⟩ = true := by decide

/-- regression (formerly `{k: unquote(v[0])}`: values were percent-decoded twice and
    `x://h?k=%2541` gave `{'k': 'A'}`): a value is decoded once -/
theorem params_decoded_once_repaired :
    buildFsUrl ⟨['x'], none, none, ['h'], [(['k'], ['%', '4', '1'])], none⟩ = "x://h?k=%2541".toList ∧
    parseFsUrl "x://h?k=%2541".toList =
      .ok ⟨['x'], none, none, ['h'], [(['k'], ['%', '4', '1'])], none⟩ := by decide

/-! ### every hypothesis of `wfParts` is needed: the round trip *fails* at each excluded point
    (these deviations remain; the same points are run through the real parser by the harness,
    `directed_excluded_points`) -/

/-- sub-path containing `@` without credentials: read as credentials -/
theorem wf_path_at_counterexample :
    parseFsUrl (buildFsUrl ⟨['x'], none, none, ['h'], [], some ['a', '@', 'b']⟩) =
      .ok ⟨['x'], some ['h', '!', 'a'], some [], ['b'], [], none⟩ := by decide

/-- protocol containing `://`: cut at the first one -/
theorem wf_protocol_counterexample :
    parseFsUrl (buildFsUrl ⟨['a', ':', '/', '/', 'b'], none, none, ['h'], [], none⟩) =
      .ok ⟨['a'], none, none, ['b', ':', '/', '/', 'h'], [], none⟩ := by decide

/-- duplicate parameter name: first value wins -/
theorem wf_keys_counterexample :
    parseFsUrl (buildFsUrl ⟨['x'], none, none, ['h'], [(['k'], ['1']), (['k'], ['2'])], none⟩) =
      .ok ⟨['x'], none, none, ['h'], [(['k'], ['1'])], none⟩ := by decide

/-- user without password: the parser always reports a password string -/
theorem wf_creds_counterexample :
    parseFsUrl (buildFsUrl ⟨['x'], some ['u'], none, ['h'], [], none⟩) =
      .ok ⟨['x'], some ['u'], some [], ['h'], [], none⟩ := by decide

/-- line feed in the sub-path: not a URL at all -/
theorem wf_path_nl_counterexample :
    parseFsUrl (buildFsUrl ⟨['x'], none, none, ['h'], [], some ['a', '\n', 'b']⟩) =
      .err .ParseError := by decide

/-! ## FTP LIST parsers: totality -/

/-- **parse_line_total.**  `parse_line` never raises, whatever the server sent: the only exception
    a decoder can raise is the `ValueError` of `int(size)` beyond the digit limit
    (`FtpLemmas.decodeLinux_err`, `decodeNt_err`), and `parse_line` catches it -/
theorem parse_line_total (cy : Nat) (l : Str) : ∃ r, parseLine cy l = .ok r :=
  parseLine_total cy l

/-- **parse_total (LIST).**  and so `parse` never raises: it is exactly the `parse_line` results of
    the non-blank lines, in order, with unparseable lines dropped (**garbage_skipped**) -/
theorem garbage_skipped (cy : Nat) (lines : List Str) :
    parse cy lines = .ok ((lines.filter (fun l => decide (strip l ≠ []))).filterMap
      (fun l => okVal (parseLine cy l))) :=
  parse_eq_filterMap cy lines (fun l _ _ => parseLine_total cy l)

/-- a line neither regex matches yields nothing -/
theorem unmatched_line_skipped (cy : Nat) (l : Str) (h1 : reLinux l = none)
    (h2 : reNt l = none) : parseLine cy l = .ok none := by
  unfold parseLine; rw [h1, h2]

/-- `int()` raises exactly beyond the digit limit … -/
theorem int_digit_limit (s : Str) : intOfDigits s = .err .ValueError ↔ s.length > maxStrDigits := by
  unfold intOfDigits; split <;> simp_all

/-- regression (formerly an uncaught `ValueError` from `int(size)`): … and a unix LIST line whose
    size field is beyond it is skipped -/
theorem parse_line_digit_limit_repaired (cy : Nat) (l : Str) (g : LinuxGroups)
    (hg : reLinux l = some g) (hsz : g.size.length > maxStrDigits) : parseLine cy l = .ok none := by
  unfold parseLine
  rw [hg]
  simp only
  have hd : ∃ e, decodeLinux cy l g = .err e := by
    unfold decodeLinux
    simp only
    cases ht : decodeLinuxTime cy g.mtime with
    | err e => exact ⟨e, rfl⟩
    | ok mt =>
      simp only
      rw [(int_digit_limit g.size).2 hsz]
      exact ⟨_, rfl⟩
  obtain ⟨e, he⟩ := hd
  rw [he, decodeLinux_err _ _ _ e he]
  rfl

/-- regression (formerly an uncaught `ValueError('day is out of range for month')` from
    `datetime(current_year, 2, 29, …)`): `Feb 29 HH:MM` in a non-leap current year keeps the entry,
    without a modification time -/
theorem parse_line_feb29_repaired :
    parseLine 2026 "-rw-r--r-- 1 u g 10 Feb 29 12:00 x".toList =
      .ok (some ⟨['x'], false, some 10, none,
        some (["g_r", "o_r", "u_r", "u_w"].map String.toList), some ['u'], some ['g'],
        "-rw-r--r-- 1 u g 10 Feb 29 12:00 x".toList⟩) := by decide

/-- for a time `strptime` accepted, that is the only case in which `_parse_time` yields nothing -/
theorem parse_time_none_iff (cy : Nat) (hcy : 1 ≤ cy ∧ cy ≤ 9999) (tm : Tm) (hv : tmValid tm = true) :
    finishTime cy (some tm) = .ok none ↔
      (tm.year = none ∧ tm.month = 2 ∧ tm.day = 29 ∧ isLeap cy = false) :=
  finishTime_none_iff cy hcy tm hv

example : parse 2026 ["".toList, "total 12".toList, "  ".toList,
    "11-02-18  02:12PM       <DIR>          images".toList, "garbage".toList] =
    .ok [⟨"images".toList, true, none, some 1518358320, none, none, none,
      "11-02-18  02:12PM       <DIR>          images".toList⟩] := by decide +kernel

/-! ## FTP LIST parsers: faithfulness -/

/-- **linux_line_roundtrip.**  A unix LIST line rendered from an entry (`renderLinux`: type,
    nine permission characters incl. `s S t T`, optional `.`/`+`, link count, owner, group, size,
    `Mon DD YYYY` or `Mon DD HH:MM`, name, `name -> target` for links) parses back to exactly
    what it states.  `WFLinux` (FtpParse.lean) lists the hypotheses: the fields are in the
    regex's character classes, the size has at most 4300 digits (a longer one makes the line
    unparseable: `parse_line_digit_limit_repaired`), the date exists (`wfLTime`),
    the name does not start with white space, has no line feed and — for links — no `->` and no
    outer white space. -/
theorem linux_line_roundtrip (cy : Nat) (e : LinuxEntry) (h : WFLinux cy e) :
    parseLine cy (renderLinux e) = .ok (some ⟨e.name, e.ty == 'd' || e.ty == 'l',
      some (natOfDigits e.size), some (ltimeEpoch cy e.month e.day e.time),
      some (permNames e.perms), some e.uid, some e.gid, renderLinux e⟩) :=
  linux_line_roundtrip_core cy e h

/-- every permission string is covered by `permOk` and parsed to the sorted names -/
example : permOk "rwsr-Sr-T".toList = true ∧
    permNames "rwsr-Sr-T".toList = ["g_S", "g_r", "o_T", "o_r", "u_r", "u_s", "u_w"].map String.toList := by
  decide

example : renderLinux ⟨'l', "rwxrwxrwx".toList, [], ['1'], "root".toList, "root".toList, ['4'], 1, 5,
      .clock 9 30, "my link".toList, some "/x/y z".toList⟩ =
    "lrwxrwxrwx 1 root root 4 Jan 05 09:30 my link -> /x/y z".toList := by decide

/-- **windows_line_roundtrip** (12 h and 24 h clocks, `<DIR>` and sizes) -/
theorem windows_line_roundtrip (cy : Nat) (e : NtEntry) (h : WFNt e) :
    parseLine cy (renderNt e) = .ok (some ⟨e.name, e.size.isNone, e.size.map natOfDigits,
      some (epochOf (fullYear e.yy) e.month e.day e.hour e.minute 0), none, none, none,
      renderNt e⟩) :=
  nt_line_roundtrip_core cy e h

example : renderNt ⟨11, 2, 18, 14, 12, true, none, "images".toList⟩ =
    "11-02-18  02:12PM  <DIR> images".toList := by decide

example : parseLine 2026 (renderNt ⟨11, 2, 18, 14, 12, true, none, "images".toList⟩) =
    .ok (some ⟨"images".toList, true, none, some 1518358320, none, none, none,
      "11-02-18  02:12PM  <DIR> images".toList⟩) := by decide +kernel

/-! ## MLSD / MLST

  An entry is `[ facts ] SP pathname` (RFC 3659 7.2): the line is cut at its FIRST space; the text
  before it is the facts part (`fact;fact;…;`, no space anywhere), everything behind it is the
  pathname, whatever it contains.  `renderMlsd facts name` = `k1=v1;k2=v2;…; name`. -/

/-- **mlsd_total.**  `_parse_mlsx` never raises, whatever the server sent -/
theorem mlsd_total (lines : List Str) : ∃ r, parseMlsx lines = .ok r := parseMlsx_total lines

theorem mlsd_line_total (l : Str) : ∃ r, parseMlsxLine l = .ok r := parseMlsxLine_total l

/-- regression (formerly `ValueError: invalid literal for int()`: `isdigit()` accepts what `int()`
    rejects): such a size counts as 0 -/
theorem mlsd_size_repaired :
    parseMlsxLine "size=²; f".toList =
      .ok (some ⟨['f'], false, [("size".toList, ['²'])], 0, none, none⟩) := by decide

/-- regression (formerly `ValueError: month must be in 1..12` from `calendar.timegm` outside the
    `try`): an impossible date is reported as `None` -/
theorem mlsd_time_repaired :
    parseMlsxLine "modify=20201301000000; f".toList =
      .ok (some ⟨['f'], false, [("modify".toList, "20201301000000".toList)], 0, some none, none⟩) := by
  decide

/-- regression (ec30a14; formerly the whole line was split at every `;`, each piece at `=`, and
    stripped: the first entry was listed as `a` with a made-up fact `b=c`, the second as `x`):
    names containing `;`, `=` and outer blanks are listed as they are -/
theorem mlsd_name_separators_repaired :
    parseMlsx ["type=file;size=3; a; b=c".toList, "type=dir;  x \r\n".toList] =
      .ok [⟨"a; b=c".toList, false, [("type".toList, "file".toList), ("size".toList, ['3'])], 3, none, none⟩,
           ⟨" x ".toList, true, [("type".toList, "dir".toList)], 0, none, none⟩] := by decide

/-- **mlsd_name_verbatim (facts level).**  `_parse_facts` on `k1=v1;…; name`, for EVERY text `name`:
    the facts come back (keys in any case and any order lower-cased, in order) and the name is
    `pathName` of everything behind the first space — never split, trimmed or case-changed -/
theorem facts_roundtrip_any_name (facts : List (Str × Str)) (name : Str)
    (hf : ∀ kv ∈ facts, WFFact kv) (hnd : (facts.map (fun kv => lower kv.1)).Nodup) :
    parseFacts (renderMlsd facts name) = (pathName name, facts.map (fun kv => (lower kv.1, kv.2))) :=
  parseFacts_render_any facts name hf hnd

/-- whenever `pathName` yields a name it is `basename(pathname.rstrip("/"))` -/
theorem path_name_is_basename (p n : Str) (h : pathName p = some n) :
    n = basename (rstripSlash p) := pathName_some p n h

/-- **exactness of `WFName`.**  A pathname is returned as the name, unchanged, iff it is not empty,
    contains no `/` and is not `.` or `..` -/
theorem name_verbatim_iff (name : Str) : pathName name = some name ↔ WFName name :=
  pathName_self_iff name

/-- `_parse_facts` recovers name and facts from `k1=v1;k2=v2;…; name` -/
theorem facts_roundtrip (facts : List (Str × Str)) (name : Str) (hf : ∀ kv ∈ facts, WFFact kv)
    (hn : WFName name) (hnd : (facts.map (fun kv => lower kv.1)).Nodup) :
    parseFacts (renderMlsd facts name) = (some name, facts.map (fun kv => (lower kv.1, kv.2))) :=
  parseFacts_render facts name hf hn hnd

/-- a text without a facts part — no space at all, or a non-empty text before the first space that
    does not end with `;` — is a pathname as a whole and states no facts -/
theorem facts_absent (l : Str) (h : noFactsPart l = true) : parseFacts l = (pathName l, []) :=
  parseFacts_noFacts l h

theorem facts_absent_no_space (l : Str) (h : ' ' ∉ l) : parseFacts l = (pathName l, []) := by
  apply parseFacts_noFacts
  unfold noFactsPart
  rw [partition_not_mem _ _ h]
  rfl

/-- `_parse_ftp_time` on `YYYYMMDDHHMMSS[.fff]` is the epoch of that UTC time -/
theorem ftp_time_roundtrip (y m d h mi s : Nat) (frac : Str)
    (hy : 1 ≤ y ∧ y ≤ 9999) (hm : 1 ≤ m ∧ m ≤ 12) (hd : 1 ≤ d ∧ d < 100) (hh : h < 100)
    (hmi : mi < 100) (hs : s < 100) :
    parseFtpTime (stamp y m d h mi s ++ frac) = .ok (some (epochOf y m d h mi s)) :=
  ftp_time_roundtrip_core y m d h mi s frac hy hm hd hh hmi hs

/-- **mlsd_roundtrip.**  An MLSD line with well-formed facts (any order, any key case; `WFFact`)
    whose type is `dir` or `file` (or absent: `file`) yields exactly its name, type, facts, size
    (`size`, else `sizd`, else 0) and times — for every name that is `WFName` (not empty, no `/`,
    not `.`/`..`) and does not end with CR / LF; the name may contain `;`, `=`, inner, leading and
    trailing blanks and any other character. -/
theorem mlsd_roundtrip (facts : List (Str × Str)) (name : Str)
    (hf : ∀ kv ∈ facts, WFFact kv) (hne : facts ≠ []) (hn : WFName name) (heol : NoEol name)
    (hnd : (facts.map (fun kv => lower kv.1)).Nodup)
    (ty : Str) (hty : (dictGet kType (facts.map (fun kv => (lower kv.1, kv.2)))).getD kFile = ty)
    (htyok : ty = kDir ∨ ty = kFile)
    (sz : Nat) (hsz : mlsdSize (facts.map (fun kv => (lower kv.1, kv.2))) = .ok sz)
    (mo cr : Option (Option Int))
    (hmo : mlsdTime (facts.map (fun kv => (lower kv.1, kv.2))) kModify = .ok mo)
    (hcr : mlsdTime (facts.map (fun kv => (lower kv.1, kv.2))) kCreate = .ok cr) :
    parseMlsxLine (renderMlsd facts name) =
      .ok (some ⟨name, ty = kDir, facts.map (fun kv => (lower kv.1, kv.2)), sz, mo, cr⟩) :=
  mlsd_roundtrip_core facts name hf hne hn heol hnd ty hty htyok sz hsz mo cr hmo hcr

/-- **mlsd_name_verbatim.**  For every rendered line `facts; SP text` — `text` arbitrary — an entry
    that is listed carries the line's facts and the name `basename(text.rstrip("\r\n").rstrip("/"))`:
    the bytes of the name are never split, trimmed or case-changed -/
theorem mlsd_name_verbatim (facts : List (Str × Str)) (name : Str)
    (hf : ∀ kv ∈ facts, WFFact kv) (hne : facts ≠ [])
    (hnd : (facts.map (fun kv => lower kv.1)).Nodup)
    (info : MlsdInfo) (h : parseMlsxLine (renderMlsd facts name) = .ok (some info)) :
    info.name = basename (rstripSlash (rstripEol name)) ∧
      info.facts = facts.map (fun kv => (lower kv.1, kv.2)) := by
  have := mlsd_name_core facts name hf hne hnd info h
  exact ⟨pathName_some _ _ this.1, this.2⟩

/-- **exactness of the name hypotheses of `mlsd_roundtrip`.**  If the entry comes back under the
    very name the line states, that name is `WFName` and does not end with CR / LF -/
theorem mlsd_name_exact (facts : List (Str × Str)) (name : Str)
    (hf : ∀ kv ∈ facts, WFFact kv) (hne : facts ≠ [])
    (hnd : (facts.map (fun kv => lower kv.1)).Nodup)
    (info : MlsdInfo) (h : parseMlsxLine (renderMlsd facts name) = .ok (some info))
    (hname : info.name = name) : WFName name ∧ NoEol name :=
  mlsd_name_exact_core facts name hf hne hnd info h hname

/-- the MLST reply form — the entry preceded by one space — reads like the MLSD form -/
theorem mlst_leading_space (l : Str) (h : Stops (fun c => c == ' ') l) :
    parseMlsxLine (' ' :: l) = parseMlsxLine l := parseMlsxLine_lead_space l h

/-- a line without facts, `SP name` (or the bare `name`), is a file of that name with size 0 —
    provided the name itself cannot be read as `facts SP pathname` (`noFactsPart`: it has no
    space, or the text before its first space is non-empty and does not end with `;`) -/
theorem mlsd_nofacts_roundtrip (name : Str) (hn : WFName name) (heol : NoEol name)
    (hnf : noFactsPart name = true) :
    parseMlsxLine (' ' :: name) = .ok (some ⟨name, false, [], 0, none, none⟩) ∧
    parseMlsxLine name = .ok (some ⟨name, false, [], 0, none, none⟩) :=
  mlsd_nofacts_core name hn heol hnf

/-- the size stated by a decimal `size` (or `sizd`) fact -/
theorem mlsd_size_stated (F : List (Str × Str)) (sz : Str)
    (hsz : (dictGet kSize F).getD ((dictGet kSizd F).getD ['0']) = sz)
    (hne : sz ≠ []) (hd : ∀ c ∈ sz, isDigit c = true) (hlen : sz.length ≤ maxStrDigits) :
    mlsdSize F = .ok (natOfDigits sz) := mlsdSize_digits F sz hsz hne hd hlen

/-- the time stated by a `modify` / `create` fact -/
theorem mlsd_time_stated (F : List (Str × Str)) (k : Str) (y m d h mi s : Nat) (frac : Str)
    (hk : dictGet k F = some (stamp y m d h mi s ++ frac))
    (hy : 1 ≤ y ∧ y ≤ 9999) (hm : 1 ≤ m ∧ m ≤ 12) (hd : 1 ≤ d ∧ d < 100) (hh : h < 100)
    (hmi : mi < 100) (hs : s < 100) :
    mlsdTime F k = .ok (some (some (epochOf y m d h mi s))) :=
  mlsdTime_stamp F k y m d h mi s frac hk hy hm hd hh hmi hs

/-- `cdir`, `pdir`, `OS.unix=slink:…` and every other type are skipped, whatever the name -/
theorem mlsd_other_type_skipped (facts : List (Str × Str)) (name : Str)
    (hf : ∀ kv ∈ facts, WFFact kv)
    (hnd : (facts.map (fun kv => lower kv.1)).Nodup)
    (ty : Str) (hty : dictGet kType (facts.map (fun kv => (lower kv.1, kv.2))) = some ty)
    (h1 : ty ≠ kDir) (h2 : ty ≠ kFile) :
    parseMlsxLine (renderMlsd facts name) = .ok none :=
  mlsd_other_skipped facts name hf hnd ty hty h1 h2

example : parseMlsxLine
    (renderMlsd [("Type".toList, "dir".toList), ("Modify".toList, stamp 2020 2 29 23 59 58),
      ("sizd".toList, "4096".toList)] " my; dir=1 ".toList) =
    .ok (some ⟨" my; dir=1 ".toList, true, [("type".toList, "dir".toList),
      ("modify".toList, "20200229235958".toList), ("sizd".toList, "4096".toList)], 4096,
      some (some 1583020798), none⟩) := by decide +kernel

/-- a value may contain `=` (RFC 3659: `value = *SCHAR`, SCHAR includes `=`); such a type is skipped -/
example : parseFacts "Type=OS.unix=slink:/t;x=1; n".toList =
    (some ['n'], [("type".toList, "OS.unix=slink:/t".toList), (['x'], ['1'])]) := by decide

/-! ### what lies outside the hypotheses: one `decide`d point per excluded class, showing what
    the code does with it (the same lines are run through the real parser by the harness,
    `MLSD_EXCLUDED_POINTS`) -/

/-- a name containing `/` is a pathname: its last component is listed (`a/b` → `b`, `d/` → `d`),
    `/` alone gives no entry -/
theorem name_slash_counterexample :
    parseMlsxLine "type=file; a/b".toList =
      .ok (some ⟨['b'], false, [("type".toList, "file".toList)], 0, none, none⟩) ∧
    parseMlsxLine "type=dir; d/".toList =
      .ok (some ⟨['d'], true, [("type".toList, "dir".toList)], 0, none, none⟩) ∧
    parseMlsxLine "type=dir; /".toList = .ok none := by decide

/-- the empty name, `.` and `..` give no entry -/
theorem name_empty_dot_counterexample :
    parseMlsxLine "type=file; ".toList = .ok none ∧
    parseMlsxLine "type=dir; .".toList = .ok none ∧
    parseMlsxLine "type=dir; ..".toList = .ok none ∧
    parseMlsxLine "type=dir; ./".toList = .ok none := by decide

/-- CR / LF at the end of a name belong to the line terminator (all of them), elsewhere they stay -/
theorem name_eol_counterexample :
    parseMlsxLine "type=file; a\r".toList =
      .ok (some ⟨['a'], false, [("type".toList, "file".toList)], 0, none, none⟩) ∧
    parseMlsxLine "type=file; a\n\r\n".toList =
      .ok (some ⟨['a'], false, [("type".toList, "file".toList)], 0, none, none⟩) ∧
    parseMlsxLine "type=file; a\nb \r\n".toList =
      .ok (some ⟨"a\nb ".toList, false, [("type".toList, "file".toList)], 0, none, none⟩) := by decide

/-- a space inside a fact (not legal per RFC 3659: `value = *SCHAR` has no SP) ends the facts part
    there; that part does not end with `;`, so the whole line is taken for a pathname -/
theorem fact_space_counterexample :
    parseMlsxLine "type=dir;x=a b; n".toList =
      .ok (some ⟨"type=dir;x=a b; n".toList, false, [], 0, none, none⟩) ∧
    parseMlsxLine "type=dir;x=a; b; n".toList =
      .ok (some ⟨"b; n".toList, true, [("type".toList, "dir".toList), (['x'], ['a'])], 0, none, none⟩) := by
  decide

/-- a `;` inside a value ends the fact; a piece without `=` is ignored -/
theorem fact_semicolon_counterexample :
    parseMlsxLine "x=a;b;type=dir; n".toList =
      .ok (some ⟨['n'], true, [(['x'], ['a']), ("type".toList, "dir".toList)], 0, none, none⟩) := by
  decide

/-- outer white space other than SP around key or value is dropped; of two facts with the same
    lower-cased key the later value wins (at the earlier position) -/
theorem fact_strip_duplicate_counterexample :
    parseFacts "\tK=\tv\t;Size=1;size=2; n".toList =
      (some ['n'], [(['k'], ['v']), ("size".toList, ['2'])]) := by decide

/-- without facts a name is ambiguous: a leading blank is taken for the separator, `a; b` for
    facts `a;` (a piece without `=`: ignored) and the name `b` -/
theorem nofacts_counterexample :
    parseMlsxLine "  x".toList = .ok (some ⟨['x'], false, [], 0, none, none⟩) ∧
    parseMlsxLine " a; b".toList = .ok (some ⟨['b'], false, [], 0, none, none⟩) ∧
    parseMlsxLine " k=v; b".toList = .ok (some ⟨['b'], false, [(['k'], ['v'])], 0, none, none⟩) := by
  decide

example : noFactsPart "my file; v=2".toList = true ∧ noFactsPart "name".toList = true ∧
    noFactsPart " x".toList = false ∧ noFactsPart "a; b".toList = false := by decide

/-! ## FEAT -/

/-- **feat_roundtrip.**  A `211-` FEAT reply listing features (names without space, no line
    breaks, distinct) parses to exactly that table. -/
theorem feat_roundtrip (feats : List (Str × Str))
    (hk : ∀ kv ∈ feats, ' ' ∉ kv.1) (hb : ∀ kv ∈ feats, NoBreak kv.1 ∧ NoBreak kv.2)
    (hnd : (feats.map Prod.fst).Nodup) :
    parseFeatures (renderFeat feats) = feats := feat_roundtrip_core feats hk hb hnd

/-- a reply that does not start with `211-` yields no features -/
theorem feat_other_reply (resp : Str) (h : (partition '-' resp).1 ≠ ['2', '1', '1']) :
    parseFeatures resp = [] := by
  unfold parseFeatures; rw [if_neg h]

example : parseFeatures (renderFeat [("MDTM".toList, []), ("MLST".toList, "type*;size*;".toList),
    ("UTF8".toList, [])]) =
    [("MDTM".toList, []), ("MLST".toList, "type*;size*;".toList), ("UTF8".toList, [])] := by decide

/-! ## calendar arithmetic (what `datetime - EPOCH` and `calendar.timegm` compute) -/

/-- `daysFromCivil` counts days: anchored at the epoch and advancing by one per calendar day
    (within a month, across a month end, across a year end), so it is the day count of the
    proleptic Gregorian calendar -/
theorem epoch_anchor : daysFromCivil 1970 1 1 = 0 := days_anchor

theorem epoch_next_day (y m d : Nat) (hd : 1 ≤ d) :
    daysFromCivil y m (d + 1) = daysFromCivil y m d + 1 := days_succ_day y m d hd

theorem epoch_next_month (y m : Nat) (hy : 1 ≤ y) (hm1 : 1 ≤ m) (hm : m < 12) :
    daysFromCivil y (m + 1) 1 = daysFromCivil y m (daysInMonth y m) + 1 :=
  days_succ_month y m hy hm1 hm

theorem epoch_next_year (y : Nat) : daysFromCivil (y + 1) 1 1 = daysFromCivil y 12 31 + 1 :=
  days_succ_year y

/-- **epoch_civil_roundtrip.**  days → civil date inverts civil date → days for every date of
    years 1–9999 -/
theorem epoch_civil_roundtrip (y m d : Nat) (h : validDate y m d = true) :
    civilFromDays (daysFromCivil y m d) = (y, m, d) := civil_roundtrip y m d h

example : epochOf 2018 2 11 14 12 0 = 1518358320 := by decide

/-! ## the hypotheses of the round-trip theorems are satisfiable -/

/-- the hypotheses of `linux_line_roundtrip` are met by a symbolic link with spaces in both names -/
example : WFLinux 2026 ⟨'l', "rwxrwxrwx".toList, [], ['1'], "root".toList, "a-b_c@d$".toList, ['4'], 1, 5,
    .clock 9 30, "my link".toList, some "/x/y z".toList⟩ where
  ty := by decide
  perms := by decide
  suffix := Or.inl rfl
  links := ⟨by decide, by decide⟩
  uid := ⟨⟨'r', "oot".toList, [], rfl, by decide, by decide, Or.inl rfl⟩⟩
  gid := ⟨⟨'a', "-b_c@d".toList, ['$'], rfl, by decide, by decide, Or.inr rfl⟩⟩
  size := ⟨by decide, by decide, by decide⟩
  time := ⟨by decide, by decide, by decide⟩
  name := {
    start := stops_cons _ _ _ (by decide)
    nl := by decide
    nl_target := by intro t h; cases h; decide
    link := fun _ => ⟨by unfold NoArrow; decide, stops_cons _ _ _ (by decide), stops_cons _ _ _ (by decide)⟩
    target := by intro t h; exact ⟨rfl, by decide⟩ }

/-- … and by a setuid file dated with a year -/
example : WFLinux 2026 ⟨'-', "rwsr-Sr-T".toList, ['+'], "12".toList, "u".toList, "0".toList,
    "18446744073709551616".toList, 2, 29, .year 2024, "日本 語.txt".toList, none⟩ where
  ty := by decide
  perms := by decide
  suffix := Or.inr (Or.inr rfl)
  links := ⟨by decide, by decide⟩
  uid := ⟨⟨'u', [], [], rfl, by decide, by decide, Or.inl rfl⟩⟩
  gid := ⟨⟨'0', [], [], rfl, by decide, by decide, Or.inl rfl⟩⟩
  size := ⟨by decide, by decide, by decide⟩
  time := ⟨by decide, by decide⟩
  name := {
    start := stops_cons _ _ _ (by decide)
    nl := by decide
    nl_target := by intro t h; cases h
    link := fun h => absurd h (by decide)
    target := by intro t h; cases h }

example : WFNt ⟨11, 2, 18, 14, 12, true, some "9276".toList, "logo file.gif".toList⟩ where
  time := ⟨by decide, by decide, by decide, by decide⟩
  size := by intro ds h; cases h; exact ⟨by decide, by decide, by decide⟩
  name_start := stops_cons _ _ _ (by decide)
  name_nl := by decide

example : WFFact ("Modify".toList, stamp 2020 2 29 23 59 58) where
  k_eq := by decide
  k_semi := by decide
  k_sp := by decide
  v_semi := by decide
  v_sp := by decide
  k_strip := ⟨stops_cons _ _ _ (by decide), stops_cons _ _ _ (by decide)⟩
  v_strip := ⟨stops_cons _ _ _ (by decide), stops_cons _ _ _ (by decide)⟩

example : WFFact ("type".toList, "OS.unix=slink:/target".toList) where
  k_eq := by decide
  k_semi := by decide
  k_sp := by decide
  v_semi := by decide
  v_sp := by decide
  k_strip := ⟨stops_cons _ _ _ (by decide), stops_cons _ _ _ (by decide)⟩
  v_strip := ⟨stops_cons _ _ _ (by decide), stops_cons _ _ _ (by decide)⟩

example : WFName " my; dir=1 ".toList ∧ NoEol " my; dir=1 ".toList :=
  ⟨⟨by decide, by decide, by decide, by decide⟩, stops_cons _ _ _ (by decide)⟩

example : WFName "a\rb\t".toList ∧ NoEol "a\rb\t".toList :=
  ⟨⟨by decide, by decide, by decide, by decide⟩, stops_cons _ _ _ (by decide)⟩

end Fs.C20
