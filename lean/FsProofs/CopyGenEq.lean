/-
  CopyGenEq — `fs.copy._copy_is_necessary` and `fs.mirror._compare`, regenerated from `$VERIF_REPO/fs/copy.py` /
  `fs/mirror.py` on every run (`FsModel/Generated/CopyGen.lean`, `MirrorGen.lean`, written by
  `harness/extract/puregen.py`), against the hand functions `Copy.copyIsNecessary` / `Copy.compare`
  (FsModel/Copy.lean) that every C19 theorem about conditional copies and mirrors is stated over.
  A filesystem argument is what `getmodified(path)` / `exists(path)` can tell about the ONE path the function asks
  it about (`Option (Option Int)`: not found / found with an optional modification time); an `Info` is the pair
  `(size, modified)` the function reads.
-/
import FsModel.Copy
import FsModel.Generated.CopyGen
import FsModel.Generated.MirrorGen

namespace Fs.CopyGenEq
open Fs Fs.PyStr Fs.Copy

theorem coverage : CopyGen.translated = ["_copy_is_necessary"] := by decide +kernel

theorem nothing_refused : CopyGen.refused = [] := by decide +kernel

theorem mirror_coverage : MirrorGen.translated = ["_compare"] := by decide +kernel

theorem mirror_nothing_refused : MirrorGen.refused = [] := by decide +kernel

/-- `x is None or y is None or x > y` with its narrowing = the hand `newerThan` -/
theorem newer_eq (s d : Option Int) :
    (match s with | none => true | some a => (match d with | none => true | some b => decide (a > b)))
      = newerThan s d := by
  cases s <;> cases d <;> rfl

theorem older_eq (s d : Option Int) :
    (match s with | none => true | some a => (match d with | none => true | some b => decide (a < b)))
      = olderThan s d := by
  cases s <;> cases d <;> rfl

/-- the generated condition table is the hand one, for every condition string (the five names and every
unknown one), every state of the two paths (missing, no time, a time), whatever the two path strings are -/
theorem copy_is_necessary_eq (s d : Option (Option Int)) (sp dp cond : Str) :
    CopyGen._copy_is_necessary s sp d dp cond = copyIsNecessary cond s d := by
  unfold CopyGen._copy_is_necessary copyIsNecessary
  simp only [beq_iff_eq, cAlways, cNewer, cOlder, cExists, cNotExists]
  by_cases h1 : cond = ['a', 'l', 'w', 'a', 'y', 's']
  · subst h1; rfl
  by_cases h2 : cond = ['n', 'e', 'w', 'e', 'r']
  · subst h2
    rcases s with _ | s <;> rcases d with _ | d <;> try rfl
    cases s <;> cases d <;> rfl
  by_cases h3 : cond = ['o', 'l', 'd', 'e', 'r']
  · subst h3
    rcases s with _ | s <;> rcases d with _ | d <;> try rfl
    cases s <;> cases d <;> rfl
  simp only [h1, h2, h3, ↓reduceIte]
  rfl

/-- the path arguments play no role: the function reads each filesystem only at its own path -/
theorem copy_is_necessary_paths (s d : Option (Option Int)) (sp dp sp' dp' cond : Str) :
    CopyGen._copy_is_necessary s sp d dp cond = CopyGen._copy_is_necessary s sp' d dp' cond := by
  rw [copy_is_necessary_eq, copy_is_necessary_eq]

/-- an unknown condition raises ValueError and nothing else does -/
theorem copy_is_necessary_err (s d : Option (Option Int)) (sp dp cond : Str) (e : Err) :
    CopyGen._copy_is_necessary s sp d dp cond = .err e →
      e = .ValueError ∧ cond ≠ cAlways ∧ cond ≠ cNewer ∧ cond ≠ cOlder ∧ cond ≠ cExists ∧ cond ≠ cNotExists := by
  rw [copy_is_necessary_eq]
  unfold copyIsNecessary
  intro h
  split at h
  · cases h
  split at h
  · rcases s with _ | s <;> rcases d with _ | d <;> cases h
  split at h
  · rcases s with _ | s <;> rcases d with _ | d <;> cases h
  split at h
  · cases h
  split at h
  · cases h
  · cases h
    refine ⟨rfl, ?_, ?_, ?_, ?_, ?_⟩ <;> assumption

/-- `mirror._compare(info1, info2)` on the `(size, modified)` pairs of two files = the hand `Copy.compare` on
their contents and times -/
theorem compare_eq (b1 b2 : Bytes) (m1 m2 : Option Int) :
    MirrorGen._compare (b1.length, m1) (b2.length, m2) = Copy.compare b1 m1 b2 m2 := by
  unfold MirrorGen._compare Copy.compare
  simp only []
  cases h : (b1.length != b2.length)
  · simp only [Bool.false_eq_true, if_false, Bool.false_or]
    exact newer_eq m1 m2
  · simp

/-- the two condition functions agree: `_compare` on equal sizes is the `newer` condition on existing files -/
theorem compare_is_newer (n : Nat) (m1 m2 : Option Int) (sp dp : Str) :
    CopyGen._copy_is_necessary (some m1) sp (some m2) dp cNewer = .ok (MirrorGen._compare (n, m1) (n, m2)) := by
  rw [copy_is_necessary_eq]
  unfold MirrorGen._compare
  simp only [bne_self_eq_false, Bool.false_eq_true, if_false]
  exact congrArg Res.ok (newer_eq m1 m2).symm

end Fs.CopyGenEq
