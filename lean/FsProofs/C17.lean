/-
  C17 — MountFS and MultiFS route every call by their documented rule.

  Property theorems only (helper lemmas: FsProofs/Lemmas/RouteLemmas.lean).  The models are
  FsModel/Mount.lean and FsModel/Multi.lean (transcriptions of fs/mountfs.py, fs/multifs.py and,
  as programs over the methods those classes define, of the fs/base.py defaults they inherit);
  the documented rules are stated in FsModel/RouteSpec.lean on component lists.
  Members are reference states (`Ref.State`); paths are arbitrary `List Char`.
-/
import FsModel.Mount
import FsModel.Multi
import FsModel.RouteSpec
import FsProofs.Lemmas.RouteLemmas

namespace Fs.C17
open Fs Fs.Path Fs.PathSpec Fs.PathLemmas Fs.Ref Fs.Route Fs.RouteSpec Fs.RouteLemmas

/-- a path built from components, absolute or relative (as in C12) -/
def mk (absolute : Bool) (cs : List Str) : Str :=
  (if absolute then ['/'] else []) ++ joinSlash cs

/-! ## MountFS: `_delegate` -/

/-- **Routing by whole components.**  For a table of mount points with clean components and a
path whose normal form has the (clean) components `cs`: `_delegate` answers with the *first*
mount point (in mount order) whose components are a prefix of `cs`, and the member-relative path
is the `/`-join of the remaining components; when no mount point is a component prefix it
answers `(default_fs, p)` with the raw argument.  String prefix on the stored `forcedir` keys and
component prefix coincide.  (`hn`: since /repo 48e26ed a path that contains NUL is refused before any of
this: `mount_route_total`, `mount_nul_refused`.) -/
theorem mount_route_component_prefix (t : List (List Str × Nat)) (ht : ∀ e ∈ t, Clean e.1)
    (p : Str) (a : Bool) (cs : List Str) (hc : Clean cs) (hn : '\x00' ∉ p) (hp : normpath p = .ok (mk a cs)) :
    Mount.delegate (tableOf t) p =
      match routeSpec t cs with
      | some (i, rest) => .ok (i, joinSlash rest)
      | none => .ok (0, p) :=
  delegate_tableOf t ht p a cs hc hn hp

/-- every path either contains NUL — then `_delegate` refuses it with InvalidCharsInPath before
normalising it (since /repo 48e26ed) —, or fails to normalise — `_delegate` raises the same error —, or has a
normal form `mk a cs` with clean components, to which the previous theorem applies -/
theorem mount_route_total (t : Mount.Table) (p : Str) :
    ('\x00' ∈ p ∧ Mount.delegate t p = .err .InvalidCharsInPath) ∨
    ('\x00' ∉ p ∧ ∃ e, normpath p = .err e ∧ Mount.delegate t p = .err e) ∨
    ('\x00' ∉ p ∧ ∃ a cs, Clean cs ∧ normpath p = .ok (mk a cs)) := by
  by_cases hn : '\x00' ∈ p
  · exact Or.inl ⟨hn, delegate_nul hn⟩
  · cases hp : normpath p with
    | err e => exact Or.inr (Or.inl ⟨hn, e, rfl, by rw [delegate_noNul hn, hp]⟩)
    | ok n =>
      obtain ⟨cs, hc, rfl⟩ := normpath_ok_clean p n hp
      exact Or.inr (Or.inr ⟨hn, _, cs, hc, rfl⟩)

/-- REPAIRED (/repo 48e26ed): a path that contains NUL is refused by `_delegate` itself, whatever it
normalises to and whichever filesystem would have received it (before the repair `m1/z\0/../f` reached the
filesystem mounted at `m1` as `f`) -/
theorem mount_nul_refused (t : Mount.Table) (p : Str) (hn : '\x00' ∈ p) :
    Mount.delegate t p = .err .InvalidCharsInPath := delegate_nul hn

/-- `routeSpec` is "the first mount whose components are a prefix", spelled out -/
theorem mount_route_first_match (t : List (List Str × Nat)) (cs : List Str) (i : Nat) (rest : List Str) :
    routeSpec t cs = some (i, rest) ↔
      ∃ pre ms post, t = pre ++ (ms, i) :: post ∧ (∀ e ∈ pre, ¬ e.1 <+: cs) ∧ ms <+: cs ∧
        rest = cs.drop ms.length :=
  routeSpec_some_iff t cs i rest

theorem mount_route_default_iff (t : List (List Str × Nat)) (cs : List Str) :
    routeSpec t cs = none ↔ ∀ e ∈ t, ¬ e.1 <+: cs :=
  routeSpec_none_iff t cs

/-- `/a` does not capture `/ab/...`: with mounts `/a` (member 1) and `/ab` (member 2) -/
theorem mount_a_vs_ab :
    Mount.delegate [("/a/".toList, 1), ("/ab/".toList, 2)] "/ab/x".toList = .ok (2, "x".toList) ∧
    Mount.delegate [("/a/".toList, 1)] "/ab/x".toList = .ok (0, "/ab/x".toList) ∧
    Mount.delegate [("/a/".toList, 1), ("/ab/".toList, 2)] "a/../ab/./y/".toList = .ok (2, "y".toList) := by
  decide

/-- in general: a mount point never captures a path whose components it does not prefix, however
the names overlap as strings -/
theorem mount_no_string_prefix_capture (ms cs : List Str) (i : Nat) (hm : Clean ms) (hc : Clean cs)
    (h : ¬ ms <+: cs) (p : Str) (a : Bool) (hn : '\x00' ∉ p) (hp : normpath p = .ok (mk a cs)) :
    Mount.delegate (tableOf [(ms, i)]) p = .ok (0, p) := by
  rw [mount_route_component_prefix [(ms, i)] (by simpa using hm) p a cs hc hn hp]
  have : routeSpec [(ms, i)] cs = none := (routeSpec_none_iff _ _).2 (by simpa using h)
  rw [this]

/-! ## MountFS: `mount` -/

/-- **What `mount` refuses.**  On a table of clean mount points, mounting at a path with normal
form components `cs` raises `MountError` exactly when an existing mount point is a component
prefix of `cs` — the new mount point lies inside (or equals) an existing mount. -/
theorem mount_refuses_inside (s : Mount.MState) (t : List (List Str × Nat)) (ht : ∀ e ∈ t, Clean e.1)
    (hs : s.mounts = tableOf t) (p : Str) (a : Bool) (cs : List Str) (hc : Clean cs)
    (hp : normpath p = .ok (mk a cs)) (i : Nat) :
    (Mount.mount s p i).2 = .mountError ↔ ∃ e ∈ t, e.1 <+: cs := by
  unfold Mount.mount
  rw [hp]
  simp only
  rw [show mk a cs = mkp a cs from rfl, mountKey_mkp hc, hs, any_startsWith_tableOf t ht cs hc,
    ← any_isPrefixOf_iff]
  split
  · next h => simp [h]
  · next h =>
    simp only [h]
    split <;> simp

/-- when it does not refuse, the table grows by the new mount point at the end (whatever
`default_fs.makedirs` answers), and stays a table of clean mount points -/
theorem mount_accepts (s : Mount.MState) (t : List (List Str × Nat)) (ht : ∀ e ∈ t, Clean e.1)
    (hs : s.mounts = tableOf t) (p : Str) (a : Bool) (cs : List Str) (hc : Clean cs)
    (hp : normpath p = .ok (mk a cs)) (i : Nat) (h : ∀ e ∈ t, ¬ e.1 <+: cs) :
    (Mount.mount s p i).1.mounts = tableOf (t ++ [(cs, i)]) ∧
    ∀ j, j ≠ 0 → (Mount.mount s p i).1.fs j = s.fs j := by
  have hany : (s.mounts.any fun m => startsWith (Mount.mountKey (mk a cs)) m.1) = false := by
    rw [show mk a cs = mkp a cs from rfl, mountKey_mkp hc, hs, any_startsWith_tableOf t ht cs hc]
    rw [Bool.eq_false_iff, Ne, any_isPrefixOf_iff]
    rintro ⟨e, he, hpre⟩
    exact h e he hpre
  unfold Mount.mount
  rw [hp]
  simp only [hany, Bool.false_eq_true, if_false]
  refine ⟨?_, fun j hj => set_other _ _ _ _ hj⟩
  rw [hs, tableOf_append]
  simp only [tableOf, List.map_cons, List.map_nil, absOf_eq_mkp]
  rw [show mk a cs = mkp a cs from rfl, mountKey_mkp hc, mountKey_mkp hc]

/-- **The reverse containment is not checked**: an *outer* mount point may be mounted after an
inner one (no existing mount point is a prefix of it), even though an existing mount point then
lies inside the new mount. -/
theorem mount_outer_after_inner_accepted (s : Mount.MState) (t : List (List Str × Nat))
    (ht : ∀ e ∈ t, Clean e.1) (hs : s.mounts = tableOf t) (p : Str) (a : Bool) (cs : List Str)
    (hc : Clean cs) (hp : normpath p = .ok (mk a cs)) (i : Nat)
    (_inner : ∃ e ∈ t, cs <+: e.1 ∧ cs ≠ e.1) (h : ∀ e ∈ t, ¬ e.1 <+: cs) :
    (Mount.mount s p i).2 ≠ .mountError := by
  rw [Ne, mount_refuses_inside s t ht hs p a cs hc hp i]
  rintro ⟨e, he, hpre⟩
  exact h e he hpre

def emptyMount : Mount.MState :=
  { fs := fun _ => Ref.State.empty, mounts := [], closed := false, autoClose := true }

/-- concrete witness, and what the code then does: after `mount("/a/b", 1); mount("/a", 2)` both
are accepted; paths under `/a/b` still go to member 1 (first match), `/a` and `/a/x` go to
member 2 — so member 2's own `b` directory is hidden although `listdir("/a")` is answered by
member 2 (the view is inconsistent; see C10).  The other order is refused. -/
theorem mount_outer_after_inner_counterexample :
    let s1 := (Mount.mount emptyMount "/a/b".toList 1).1
    let r2 := Mount.mount s1 "/a".toList 2
    r2.2 = .ok ∧ r2.1.mounts = [("/a/b/".toList, 1), ("/a/".toList, 2)] ∧
    Mount.delegate r2.1.mounts "/a/b/x".toList = .ok (1, "x".toList) ∧
    Mount.delegate r2.1.mounts "/a/x".toList = .ok (2, "x".toList) ∧
    Mount.delegate r2.1.mounts "/a".toList = .ok (2, []) ∧
    (Mount.mount (Mount.mount emptyMount "/a".toList 2).1 "/a/b".toList 1).2 = .mountError := by
  decide


/-! ## MountFS: nothing but the routed member changes -/

/-- **Frame for arbitrary programs.**  Whatever a client — in particular every method MountFS
inherits from `fs/base.py`, the walker-based `removetree` / `movedir` / `copydir` included — does
through MountFS's own methods: a member (or the default tree, member 0) that receives no call, or
only queries, is unchanged. -/
theorem mount_frame_any_program (prog : Prog) (s : Mount.MState) (j : Nat)
    (h : ∀ c ∈ (prog.run Mount.sem s).2.2, c.fs = j → isQuery c.op = true) :
    (prog.run Mount.sem s).1.fs j = s.fs j :=
  run_frame Mount.sem (fun s => s.fs) MountL.prim_frame prog s j h

/-- and every call any member ever receives was addressed by `_delegate`: it carries the
member and member-relative path `_delegate` computes for some path; the mount table, the closed
flag and `auto_close` are never touched. -/
theorem mount_calls_are_delegated (prog : Prog) (s : Mount.MState) :
    (∀ c ∈ (prog.run Mount.sem s).2.2, ∃ q, Mount.delegate s.mounts q = .ok (c.fs, c.path)) ∧
    (prog.run Mount.sem s).1.mounts = s.mounts := by
  have := run_calls Mount.sem (fun s' => s'.mounts = s.mounts) (fun _ => True) (fun _ => True)
    (fun c => ∃ q, Mount.delegate s.mounts q = .ok (c.fs, c.path))
    (fun s' p hi => (MountL.prim_cfg s' p).1.trans hi)
    (fun s' p hi _ c hc => by
      rcases MountL.prim_calls s' p c hc with ⟨_, q, hq⟩ | ⟨hq, _⟩
      · exact ⟨q, hi ▸ hq⟩
      · exact ⟨_, hi ▸ hq⟩)
    (fun s' p hi _ c hc => ⟨p, hi ▸ (MountL.validate_calls s' p c hc).2⟩)
    prog s rfl (allPrims_true prog) (allValidates_true prog)
  exact this

/-- every call made on behalf of a one-path operation on `p` is a query or goes to the member
`_delegate` picks for `p` -/
theorem mount_single_calls (s : Mount.MState) (op : Ref.Op) (pr : Prog) (p : Str)
    (hprog : commonProg op = some pr) (hp : op.paths = [p]) :
    ∀ c ∈ (pr.run Mount.sem s).2.2, isQuery c.op = true ∨ routeMember s.mounts p = some c.fs := by
  obtain ⟨hP, hV⟩ := commonProg_single op pr p hprog hp
  have := run_calls Mount.sem (fun s' => s'.mounts = s.mounts) (fun q => q.path = p) (fun _ => False)
    (fun c => isQuery c.op = true ∨ routeMember s.mounts p = some c.fs)
    (fun s' q hi => (MountL.prim_cfg s' q).1.trans hi)
    (fun s' q hi hq c hc => by
      rcases MountL.prim_calls s' q c hc with ⟨hqy, _⟩ | ⟨hd, _⟩
      · exact Or.inl hqy
      · right
        rw [← hq, ← MountL.routeMember_routePath, ← hi]
        exact MountL.routeMember_of_delegate hd)
    (fun s' q _ hf => absurd hf id)
    pr s rfl hP hV
  exact this.1

/-- **`mount_frame`, one-path operations.**  A call whose path `_delegate` routes to member `i`
(`routeMember … = some i`; member 0 is the default tree) leaves every other mounted filesystem
and the default tree unchanged — for every one-path operation MountFS defines or inherits as a
straight-line program (`makedirs` and the bulk operations are covered by
`mount_frame_any_program`). -/
theorem mount_frame (s s' : Mount.MState) (op : Ref.Op) (p : Str) (out : Out) (tr : List Call)
    (hp : op.paths = [p]) (hmk : ∀ q rc, op ≠ .makedirs q rc)
    (h : Mount.step s op = some (s', out, tr)) (j : Nat) (hj : routeMember s.mounts p ≠ some j) :
    s'.fs j = s.fs j := by
  have hprog : ∃ pr, commonProg op = some pr ∧ pr.run Mount.sem s = (s', out, tr) := by
    cases op <;> simp [Op.paths] at hp <;>
      first
      | (exact absurd rfl (hmk _ _))
      | (simp only [Mount.step, Mount.prog, Option.map] at h
         split at h
         · next pr hpr => exact ⟨pr, hpr, by simpa using h⟩
         · simp at h)
  obtain ⟨pr, hpr, hrun⟩ := hprog
  have hcalls := mount_single_calls s op pr p hpr hp
  have := mount_frame_any_program pr s j (fun c hc hcj => by
    rcases hcalls c hc with hq | hr
    · exact hq
    · exact absurd (hcj ▸ hr) hj)
  rw [hrun] at this
  exact this

/-- **`mount_frame`, `makedirs`** (the inherited default: `get_intermediate_dirs`, then one
`makedir` per missing directory, then `opendir`): only members that `_delegate` picks for the
path or one of its `recursepath` prefixes can change. -/
theorem mount_frame_makedirs (s s' : Mount.MState) (p : Str) (rc : Bool) (out : Out) (tr : List Call)
    (h : Mount.step s (.makedirs p rc) = some (s', out, tr)) (j : Nat)
    (hj : ∀ q ∈ makedirsPaths p, routeMember s.mounts q ≠ some j) : s'.fs j = s.fs j := by
  simp only [Mount.step, Mount.prog, Option.map, Option.some.injEq] at h
  have := run_calls Mount.sem (fun s' => s'.mounts = s.mounts) (fun q => q.path ∈ makedirsPaths p)
    (fun _ => False)
    (fun c => isQuery c.op = true ∨ ∃ q ∈ makedirsPaths p, routeMember s.mounts q = some c.fs)
    (fun s' q hi => (MountL.prim_cfg s' q).1.trans hi)
    (fun s' q hi hq c hc => by
      rcases MountL.prim_calls s' q c hc with ⟨hqy, _⟩ | ⟨hd, _⟩
      · exact Or.inl hqy
      · right
        refine ⟨q.path, hq, ?_⟩
        rw [← MountL.routeMember_routePath, ← hi]
        exact MountL.routeMember_of_delegate hd)
    (fun s' q _ hf => absurd hf id)
    (baseMakedirs p rc) s rfl (allPrims_baseMakedirs p rc) (allValidates_baseMakedirs _ p rc)
  have hfr := mount_frame_any_program (baseMakedirs p rc) s j (fun c hc hcj => by
    rcases this.1 c hc with hq | ⟨q, hq, hr⟩
    · exact hq
    · exact absurd (hcj ▸ hr) (hj q hq))
  rw [h] at hfr
  exact hfr

/-- **`mount_frame`, `move` / `copy`.**  At most the two routed members change: every member
that neither the source nor the destination path routes to is unchanged. -/
theorem mount_frame_two (s s' : Mount.MState) (op : Ref.Op) (src dst : Str) (ow : Bool) (out : Out)
    (tr : List Call) (hop : op = .move src dst ow ∨ op = .copy src dst ow)
    (h : Mount.step s op = some (s', out, tr)) (j : Nat)
    (hs : routeMember s.mounts src ≠ some j) (hd : routeMember s.mounts dst ≠ some j) :
    s'.fs j = s.fs j := by
  -- a path argument with NUL: `validatepath` (→ `_delegate`) refuses it, no member is called
  by_cases hnul : '\x00' ∈ src ∨ '\x00' ∈ dst
  · have hrun : ∀ k : Prog, ((Prog.validate src (Prog.validate dst k)).run Mount.sem s).1 = s := by
      intro k
      have hv : ∀ q, '\x00' ∈ q → ∃ e t, Mount.sem.validate s q = (.err e, t) := by
        intro q hq
        simp only [Mount.sem, Mount.validate]
        split
        · exact ⟨_, _, rfl⟩
        · rw [delegate_nul hq]; exact ⟨_, _, rfl⟩
      simp only [Prog.run]
      rcases hnul with h1 | h2
      · obtain ⟨e, t, he⟩ := hv src h1
        rw [he]
      · obtain ⟨e, t, he⟩ := hv dst h2
        cases hvs : Mount.sem.validate s src with
        | mk r t' =>
          cases r with
          | err e' => rfl
          | ok u => simp only [he]
    rcases hop with rfl | rfl
    · simp only [Mount.step, Mount.prog, commonProg, Option.map, Option.some.injEq] at h
      have : ((baseMove src dst ow).run Mount.sem s).1 = s := hrun _
      rw [h] at this
      exact congrArg (fun x => x.fs j) this
    · simp only [Mount.step, Mount.prog, commonProg, Option.map, Option.some.injEq] at h
      have : ((baseCopy src dst ow).run Mount.sem s).1 = s := hrun _
      rw [h] at this
      exact congrArg (fun x => x.fs j) this
  have hns : '\x00' ∉ src := fun h => hnul (Or.inl h)
  have hnd : '\x00' ∉ dst := fun h => hnul (Or.inr h)
  let P : Prim → Prop := fun q => q.path = absnorm src ∨ q.path = absnorm dst
  let V : Str → Prop := fun q => q = src ∨ q = dst
  have hbody : moveBody P (absnorm src) (absnorm dst) :=
    ⟨Or.inl rfl, Or.inr rfl, Or.inl rfl, fun _ => Or.inr rfl, Or.inl rfl⟩
  have hcalls : ∀ pr, AllPrims P pr → AllValidates V pr →
      ∀ c ∈ (pr.run Mount.sem s).2.2, isQuery c.op = true ∨
        routeMember s.mounts src = some c.fs ∨ routeMember s.mounts dst = some c.fs := by
    intro pr hP hV
    have := run_calls Mount.sem (fun s' => s'.mounts = s.mounts) P V
      (fun c => isQuery c.op = true ∨ routeMember s.mounts src = some c.fs ∨
        routeMember s.mounts dst = some c.fs)
      (fun s' q hi => (MountL.prim_cfg s' q).1.trans hi)
      (fun s' q hi hq c hc => by
        rcases MountL.prim_calls s' q c hc with ⟨hqy, _⟩ | ⟨hdl, _⟩
        · exact Or.inl hqy
        · right
          have hm := MountL.routeMember_of_delegate hdl
          rw [MountL.routeMember_routePath, hi] at hm
          rcases hq with hq | hq
          · left; rw [← MountL.routeMember_absnorm _ _ hns, ← hq]; exact hm
          · right; rw [← MountL.routeMember_absnorm _ _ hnd, ← hq]; exact hm)
      (fun s' q _ _ c hc => Or.inl (MountL.validate_calls s' q c hc).1)
      pr s rfl hP hV
    exact this.1
  have key : ∀ pr, AllPrims P pr → AllValidates V pr → (pr.run Mount.sem s).1.fs j = s.fs j := by
    intro pr hP hV
    apply mount_frame_any_program
    intro c hc hcj
    rcases hcalls pr hP hV c hc with hq | hr | hr
    · exact hq
    · exact absurd (hcj ▸ hr) hs
    · exact absurd (hcj ▸ hr) hd
  rcases hop with rfl | rfl
  · simp only [Mount.step, Mount.prog, commonProg, Option.map, Option.some.injEq] at h
    have := key _ (allPrims_baseMove src dst ow hbody) (allValidates_baseMove src dst ow (Or.inl rfl) (Or.inr rfl))
    rw [h] at this
    exact this
  · simp only [Mount.step, Mount.prog, commonProg, Option.map, Option.some.injEq] at h
    have := key _ (allPrims_baseCopy src dst ow hbody.2.1 hbody.2.2.1 hbody.2.2.2.1) (allValidates_baseCopy src dst ow (Or.inl rfl) (Or.inr rfl))
    rw [h] at this
    exact this

/-- read-only operations change no member at all -/
theorem mount_queries_change_nothing (s s' : Mount.MState) (op : Ref.Op) (out : Out) (tr : List Call)
    (hq : isQuery op = true) (h : Mount.step s op = some (s', out, tr)) (j : Nat) :
    s'.fs j = s.fs j := by
  have hall : ∀ pr p, commonProg op = some pr → op.paths = [p] →
      ∀ c ∈ (pr.run Mount.sem s).2.2, isQuery c.op = true := by
    intro pr p hpr hp
    obtain ⟨hP, hV⟩ := commonProg_single op pr p hpr hp
    have := run_calls Mount.sem (fun _ => True)
      (fun q => q.path = p ∧ isQuery (q.memberOp []) = true) (fun _ => False)
      (fun c => isQuery c.op = true)
      (fun _ _ _ => trivial)
      (fun s' q _ hq c hc => by
        rcases MountL.prim_calls s' q c hc with ⟨hqy, _⟩ | ⟨_, _, hop⟩
        · exact hqy
        · rw [hop]
          have := hq.2
          cases q <;> simp_all [Prim.memberOp, isQuery])
      (fun s' q _ hf => absurd hf id)
      pr s trivial
    refine (this ?_ hV).1
    clear this
    cases op <;> simp [isQuery] at hq <;>
      (simp only [commonProg, Option.some.injEq] at hpr
       simp only [Op.paths, List.cons.injEq, and_true] at hp
       subst hpr; subst hp)
    case exists_ => exact allPrims_existsThen ⟨rfl, rfl⟩ (fun _ => trivial)
    case openbin => exact allPrims_one ⟨rfl, by simpa [Prim.memberOp, isQuery] using hq⟩
    all_goals exact allPrims_one ⟨rfl, rfl⟩
  cases op <;> simp [isQuery] at hq <;>
    (simp only [Mount.step, Mount.prog, Option.map] at h
     split at h
     · next pr hpr =>
       simp only [Option.some.injEq] at h
       have := mount_frame_any_program pr s j (fun c hc _ => hall pr _ hpr rfl c hc)
       rw [h] at this
       exact this
     · simp at h)


/-! ## MultiFS: priority order and reads -/

/-- `iterate_fs` visits exactly the members of `_filesystems`, in descending `(priority, index)`
order -/
theorem multi_iterate_order (s : Multi.MState) :
    (Multi.iterateFs s).Perm s.entries ∧
    (Multi.iterateFs s).Pairwise (fun x y => KeyLe y x) := by
  refine ⟨MultiL.sortDesc_perm _, ?_⟩
  have := MultiL.sortDesc_desc s.entries
  exact this.imp (fun h => (MultiL.keyLe_iff _ _).1 h)

/-- `add_fs` gives the new member an index larger than every index in use, so "latest added"
is "largest index"; the write member becomes the new one exactly when `write=True` -/
theorem multi_add_fs_index (s : Multi.MState) (name : Str) (fs : Nat) (w : Bool) (prio : Int)
    (h : ∀ e ∈ s.entries, e.idx < s.sortIndex) :
    let s' := Multi.addFs s name fs w prio
    (∀ e ∈ s'.entries, e.idx < s'.sortIndex) ∧
    (⟨name, prio, s.sortIndex, fs⟩ : Multi.Entry) ∈ s'.entries ∧
    s'.writeFs = (if w then some fs else s.writeFs) := by
  have hset : ∀ (l : List Multi.Entry) (e x : Multi.Entry), x ∈ Multi.dictSet e l → x = e ∨ x ∈ l := by
    intro l e
    induction l with
    | nil => intro x hx; simp [Multi.dictSet] at hx; exact Or.inl hx
    | cons y ys ih =>
      intro x hx
      simp only [Multi.dictSet] at hx
      split at hx
      · simp only [List.mem_cons] at hx
        rcases hx with rfl | hx
        · exact Or.inl rfl
        · exact Or.inr (List.mem_cons_of_mem _ hx)
      · simp only [List.mem_cons] at hx
        rcases hx with rfl | hx
        · exact Or.inr (by simp)
        · rcases ih x hx with rfl | h'
          · exact Or.inl rfl
          · exact Or.inr (List.mem_cons_of_mem _ h')
  have hmem : ∀ (l : List Multi.Entry) (e : Multi.Entry), e ∈ Multi.dictSet e l := by
    intro l e
    induction l with
    | nil => simp [Multi.dictSet]
    | cons y ys ih =>
      simp only [Multi.dictSet]
      split
      · simp
      · exact List.mem_cons_of_mem _ ih
  refine ⟨?_, hmem _ _, rfl⟩
  intro e he
  rcases hset _ _ e he with rfl | he'
  · exact Nat.lt_succ_self _
  · exact Nat.lt_succ_of_lt (h e he')

/-- **The answering member is the highest.**  When `_delegate(p)` finds a member, it is a
member of the MultiFS that contains `p` and whose key `(priority, index)` is the maximum among all
members containing `p`. -/
theorem multi_read_highest (s : Multi.MState) (p : Str) (i : Nat)
    (h : (Multi.delegateLoop s.fs p (Multi.iterateFs s)).2.1 = .ok (some i)) :
    ∃ e ∈ s.entries, e.fs = i ∧ Holds s.fs p e ∧ ∀ e' ∈ s.entries, Holds s.fs p e' → KeyLe e' e := by
  obtain ⟨pre, e, post, hsplit, hfs, hholds, hpre⟩ := MultiL.delegateLoop_some s.fs p _ i h
  have hmem : ∀ x, x ∈ Multi.iterateFs s ↔ x ∈ s.entries := MultiL.mem_sortDesc s.entries
  have hdesc : MultiL.Desc (pre ++ e :: post) := hsplit ▸ MultiL.sortDesc_desc s.entries
  refine ⟨e, (hmem e).1 (by rw [hsplit]; simp), hfs, hholds, ?_⟩
  intro e' he' hh
  have : e' ∈ pre ++ e :: post := hsplit ▸ (hmem e').2 he'
  simp only [List.mem_append, List.mem_cons] at this
  rcases this with hin | rfl | hin
  · exact absurd hh (hpre e' hin)
  · exact (MultiL.keyLe_iff _ _).1 (MultiL.keyLe_refl _)
  · have := (List.pairwise_append.1 hdesc).2.1
    exact (MultiL.keyLe_iff _ _).1 ((List.pairwise_cons.1 this).1 e' hin)

/-- ties: among members of equal priority containing the path, the latest added answers -/
theorem multi_tie_latest_added (s : Multi.MState) (p : Str) (i : Nat)
    (h : (Multi.delegateLoop s.fs p (Multi.iterateFs s)).2.1 = .ok (some i)) :
    ∃ e ∈ s.entries, e.fs = i ∧
      ∀ e' ∈ s.entries, Holds s.fs p e' → e'.prio = e.prio → e'.idx ≤ e.idx := by
  obtain ⟨e, he, hfs, _, hmax⟩ := multi_read_highest s p i h
  refine ⟨e, he, hfs, fun e' he' hh hp => ?_⟩
  rcases hmax e' he' hh with hlt | ⟨_, hle⟩
  · omega
  · exact hle

/-- and when `_delegate(p)` finds none, no member contains `p` -/
theorem multi_read_none (s : Multi.MState) (p : Str)
    (h : (Multi.delegateLoop s.fs p (Multi.iterateFs s)).2.1 = .ok none) :
    ∀ e ∈ s.entries, ¬ Holds s.fs p e :=
  fun e he => MultiL.delegateLoop_none s.fs p _ h e ((MultiL.mem_sortDesc s.entries e).2 he)

/-- the read methods answer with what that member answers (and `ResourceNotFound` / `False`
when no member contains the path) -/
theorem multi_read_answer (s : Multi.MState) (p : Str) (op : Ref.Op)
    (hop : op = .isdir p ∨ op = .isfile p ∨ op = .getsize p ∨ op = .gettype p ∨ op = .readbytes p)
    (hc : s.closed = false) (s' : Multi.MState) (out : Out) (tr : List Call)
    (hstep : Multi.step s op = some (s', out, tr)) :
    (∀ i, (Multi.delegateLoop s.fs p (Multi.iterateFs s)).2.1 = .ok (some i) →
      out = (Ref.step (s.fs i) op).2) ∧
    ((Multi.delegateLoop s.fs p (Multi.iterateFs s)).2.1 = .ok none →
      out = (if op = .isdir p ∨ op = .isfile p then .ok (.bool false) else .err .ResourceNotFound)) := by
  have hchk : ∀ k, Multi.checked s k = k := fun k => MultiL.checked_open s k (by simp [hc])
  rcases hop with rfl | rfl | rfl | rfl | rfl <;>
    (simp only [Multi.step, Multi.prog, commonProg, Option.map, Option.some.injEq, one, Prog.run,
      Multi.sem, Multi.prim, hchk] at hstep
     constructor
     · intro i hi
       rcases MultiL.viaDelegate_cases s _ p (.ok p) _ with ⟨e, hd, _⟩ | ⟨hd, _⟩ | ⟨i', e, _, hcp, _⟩ | ⟨i', path, hd, hcp, heq⟩
       · rw [hd] at hi; cases hi
       · rw [hd] at hi; cases hi
       · cases hcp
       · rw [hd] at hi
         simp only [Res.ok.injEq, Option.some.injEq] at hi hcp
         subst hi; subst hcp
         rw [heq] at hstep
         simp only [Prod.mk.injEq] at hstep
         rw [← hstep.2.1]
         rfl
     · intro hn
       rcases MultiL.viaDelegate_cases s _ p (.ok p) _ with ⟨e, hd, _⟩ | ⟨_, heq⟩ | ⟨i', e, hd, _, _⟩ | ⟨i', path, hd, _, _⟩
       · rw [hd] at hn; cases hn
       · rw [heq] at hstep
         simp only [Prod.mk.injEq] at hstep
         rw [← hstep.2.1]
         simp
       · rw [hd] at hn; cases hn
       · rw [hd] at hn; cases hn)

/-! ## MultiFS: listings -/

/-- **Union listing, de-duplicated.**  When `listdir(p)` succeeds its value is the
concatenation, in `iterate_fs` (priority) order, of what every member that holds `p` as a
directory lists for it (members that do not have `p`, or hold a — then shadowed — file of that
name, contribute nothing: `listingOf` is empty for them), with later duplicates removed: no name twice, every
listed name of every member present, first occurrences in order. -/
theorem multi_listing_union_dedup (s : Multi.MState) (p : Str) (l : List Name) (meth : Meth)
    (h : (Multi.listing s meth p).2.1 = .ok (.names l)) :
    l = Multi.dedup ((Multi.iterateFs s).flatMap (listingOf s.fs p)) ∧
    l.Nodup ∧
    (∀ x, x ∈ l ↔ ∃ e ∈ s.entries, x ∈ listingOf s.fs p e) ∧
    l.Sublist ((Multi.iterateFs s).flatMap (listingOf s.fs p)) := by
  have hl : l = Multi.dedup ((Multi.iterateFs s).flatMap (listingOf s.fs p)) := by
    unfold Multi.listing at h
    simp only at h
    split at h
    · cases h
    · next acc ex hloop =>
      have := MultiL.listLoop_ok meth p _ s.fs [] false acc ex hloop
      simp only [List.nil_append] at this
      split at h
      · simp only [Res.ok.injEq, Val.names.injEq] at h
        rw [← h, this]
      · cases h
  refine ⟨hl, ?_, ?_, ?_⟩
  · rw [hl]; exact MultiL.nodup_dedupGo _ _
  · intro x
    rw [hl, Multi.dedup, MultiL.mem_dedupGo]
    simp only [List.mem_flatMap, List.not_mem_nil, not_false_eq_true, and_true]
    constructor
    · rintro ⟨e, he, hx⟩; exact ⟨e, (MultiL.mem_sortDesc _ e).1 he, hx⟩
    · rintro ⟨e, he, hx⟩; exact ⟨e, (MultiL.mem_sortDesc _ e).2 he, hx⟩
  · rw [hl]; exact MultiL.sublist_dedupGo _ _

/-- **Which outcome.**  Provided every member answers the listing with names, `ResourceNotFound`
or `DirectoryExpected` (open members, valid path): let `h` be the first member in `iterate_fs`
order that contains the path (its answer is not `ResourceNotFound`).  There is none ⇒
`ResourceNotFound`; `h` holds the path as a file ⇒ `DirectoryExpected`; `h` holds it as a
directory ⇒ the de-duplicated union over the members that hold it as a directory (members
holding a shadowed *file* of that name, or not holding it, contribute nothing). -/
theorem multi_listing_outcome (s : Multi.MState) (p : Str) (meth : Meth)
    (hw : MultiL.WellAnswered s.fs p (Multi.iterateFs s)) :
    (Multi.listing s meth p).2.1 =
      match firstHolder s.fs p (Multi.iterateFs s) with
      | none => .err .ResourceNotFound
      | some h =>
        match listAnswer s.fs p h with
        | .ok _ => .ok (.names (Multi.dedup ((Multi.iterateFs s).flatMap (listingOf s.fs p))))
        | .err er => .err er := by
  have := MultiL.listLoop_outcome meth p (Multi.iterateFs s) s.fs [] false hw
  simp only [Multi.listing, this, Bool.false_eq_true, if_false, List.nil_append]
  cases firstHolder s.fs p (Multi.iterateFs s) with
  | none => simp
  | some h =>
    simp only
    cases listAnswer s.fs p h <;> simp

/-- that first member is the highest: it contains the path and its key `(priority, index)` is the
maximum among the members containing the path -/
theorem multi_listing_holder_highest (s : Multi.MState) (p : Str) (h : Multi.Entry)
    (hf : firstHolder s.fs p (Multi.iterateFs s) = some h) :
    h ∈ s.entries ∧ listAnswer s.fs p h ≠ .err .ResourceNotFound ∧
    ∀ e ∈ s.entries, listAnswer s.fs p e ≠ .err .ResourceNotFound → KeyLe e h := by
  have hsplit : ∀ es : List Multi.Entry, firstHolder s.fs p es = some h →
      ∃ pre post, es = pre ++ h :: post ∧ listAnswer s.fs p h ≠ .err .ResourceNotFound ∧
        ∀ x ∈ pre, listAnswer s.fs p x = .err .ResourceNotFound := by
    intro es
    induction es with
    | nil => intro hh; simp [firstHolder] at hh
    | cons e es ih =>
      intro hh
      simp only [firstHolder] at hh
      split at hh
      · next hnf =>
        obtain ⟨pre, post, rfl, h1, h2⟩ := ih hh
        refine ⟨e :: pre, post, rfl, h1, ?_⟩
        intro x hx
        simp only [List.mem_cons] at hx
        rcases hx with rfl | hx
        · exact hnf
        · exact h2 x hx
      · next hnf =>
        simp only [Option.some.injEq] at hh
        subst hh
        exact ⟨[], es, rfl, hnf, by simp⟩
  obtain ⟨pre, post, hs, hne, hpre⟩ := hsplit _ hf
  have hmem : ∀ x, x ∈ Multi.iterateFs s ↔ x ∈ s.entries := MultiL.mem_sortDesc s.entries
  have hdesc : MultiL.Desc (pre ++ h :: post) := hs ▸ MultiL.sortDesc_desc s.entries
  refine ⟨(hmem h).1 (by rw [hs]; simp), hne, ?_⟩
  intro e he hnf
  have : e ∈ pre ++ h :: post := hs ▸ (hmem e).2 he
  simp only [List.mem_append, List.mem_cons] at this
  rcases this with hin | rfl | hin
  · exact absurd (hpre e hin) hnf
  · exact (MultiL.keyLe_iff _ _).1 (MultiL.keyLe_refl _)
  · have := (List.pairwise_append.1 hdesc).2.1
    exact (MultiL.keyLe_iff _ _).1 ((List.pairwise_cons.1 this).1 e hin)

/-! ## MultiFS: writes, removals, frame -/

/-- **Frame for arbitrary programs** over MultiFS's methods (every inherited method, the bulk
ones included): a member that receives no call, or only queries, is unchanged. -/
theorem multi_frame_any_program (prog : Prog) (s : Multi.MState) (j : Nat)
    (h : ∀ c ∈ (prog.run Multi.sem s).2.2, c.fs = j → isQuery c.op = true) :
    (prog.run Multi.sem s).1.fs j = s.fs j :=
  run_frame Multi.sem (fun s => s.fs) MultiL.prim_frame prog s j h

/-- every call any program makes is a query, or a creating/writing call on the write member,
or a `remove`/`removedir`; the configuration (members, priorities, write member) never changes -/
theorem multi_calls_classified (prog : Prog) (s : Multi.MState) :
    (∀ c ∈ (prog.run Multi.sem s).2.2,
      isQuery c.op = true ∨ s.writeFs = some c.fs ∨ (∃ q, c.op = .remove q ∨ c.op = .removedir q)) ∧
    (prog.run Multi.sem s).1.writeFs = s.writeFs ∧ (prog.run Multi.sem s).1.entries = s.entries := by
  have := run_calls Multi.sem (fun s' => s'.writeFs = s.writeFs ∧ s'.entries = s.entries)
    (fun _ => True) (fun _ => True)
    (fun c => isQuery c.op = true ∨ s.writeFs = some c.fs ∨ (∃ q, c.op = .remove q ∨ c.op = .removedir q))
    (fun s' p hi => ⟨(MultiL.prim_cfg s' p).2.1.trans hi.1, (MultiL.prim_cfg s' p).1.trans hi.2⟩)
    (fun s' p hi _ c hc => by
      rcases MultiL.prim_calls s' p c hc with hq | ⟨_, hw⟩ | ⟨hr, _⟩
      · exact Or.inl hq
      · exact Or.inr (Or.inl (hi.1 ▸ hw))
      · rcases MultiL.prim_calls_op s' p c hc with hq | hop
        · exact Or.inl hq
        · right; right
          cases p <;> cases hr
          · exact ⟨_, Or.inl hop⟩
          · exact ⟨_, Or.inr hop⟩)
    (fun s' p _ _ c hc => Or.inl (MultiL.validate_calls s' p c hc))
    prog s ⟨rfl, rfl⟩ (allPrims_true prog) (allValidates_true prog)
  exact ⟨this.1, this.2.1, this.2.2⟩

/-- **`multi_frame`.**  For any program over MultiFS's methods: a member other than the write
member changes only if it receives a `remove` / `removedir` call (which `_delegate` sends to
the member containing the path, see `multi_remove_only_holder`). -/
theorem multi_frame (prog : Prog) (s : Multi.MState) (j : Nat) (hw : s.writeFs ≠ some j)
    (hr : ∀ c ∈ (prog.run Multi.sem s).2.2, c.fs = j → ∀ q, c.op ≠ .remove q ∧ c.op ≠ .removedir q) :
    (prog.run Multi.sem s).1.fs j = s.fs j := by
  apply multi_frame_any_program
  intro c hc hcj
  rcases (multi_calls_classified prog s).1 c hc with hq | hwf | ⟨q, hq⟩
  · exact hq
  · exact absurd (hcj ▸ hwf) hw
  · rcases hq with hq | hq
    · exact absurd hq (hr c hc hcj q).1
    · exact absurd hq (hr c hc hcj q).2

/-- **Creating and writing calls change at most the write member.**  For every operation that
creates or writes (`makedir`, `makedirs`, `writebytes`, `appendbytes`, `create`, `touch`,
`settimes`, `copy`, `openbin` in a writing mode): every member other than `write_fs` is
unchanged — in particular *all* members when there is no write member. -/
theorem multi_writes_only_write_fs (s s' : Multi.MState) (op : Ref.Op) (out : Out) (tr : List Call)
    (hcw : creatingOrWriting op = true) (h : Multi.step s op = some (s', out, tr)) (j : Nat)
    (hj : s.writeFs ≠ some j) : s'.fs j = s.fs j := by
  have hpr : ∃ pr, Multi.prog op = some pr ∧ pr.run Multi.sem s = (s', out, tr) := by
    cases op <;> simp [creatingOrWriting] at hcw <;>
      (simp only [Multi.step, Option.map] at h
       split at h
       · next pr hpr => exact ⟨pr, hpr, by simpa using h⟩
       · simp at h)
  obtain ⟨pr, hprog, hrun⟩ := hpr
  have hP := MultiL.creating_allPrims op pr hprog hcw
  have := run_calls Multi.sem (fun s' => s'.writeFs = s.writeFs) (fun q => removes q = false)
    (fun _ => True) (fun c => isQuery c.op = true ∨ s.writeFs = some c.fs)
    (fun s' p hi => (MultiL.prim_cfg s' p).2.1.trans hi)
    (fun s' p hi hp c hc => by
      rcases MultiL.prim_calls s' p c hc with hq | ⟨_, hw⟩ | ⟨hr, _⟩
      · exact Or.inl hq
      · exact Or.inr (hi ▸ hw)
      · rw [hp] at hr; cases hr)
    (fun s' p _ _ c hc => Or.inl (MultiL.validate_calls s' p c hc))
    pr s rfl hP (allValidates_true pr)
  have hfr := multi_frame_any_program pr s j (fun c hc hcj => by
    rcases this.1 c hc with hq | hw
    · exact hq
    · exact absurd (hcj ▸ hw) hj)
  rw [hrun] at hfr
  exact hfr

/-- **Without a write member** a creating/writing operation changes nothing and fails — the
only call that can return normally is `create(p, wipe=False)` on an existing path, which returns
`False` without attempting to write. -/
theorem multi_no_write_fs (s s' : Multi.MState) (op : Ref.Op) (out : Out) (tr : List Call)
    (hw : s.writeFs = none) (hcw : creatingOrWriting op = true)
    (h : Multi.step s op = some (s', out, tr)) :
    (∀ j, s'.fs j = s.fs j) ∧
    ((∃ e, out = .err e) ∨ (∃ p, op = .create p false ∧ out = .ok (.bool false))) := by
  refine ⟨fun j => multi_writes_only_write_fs s s' op out tr hcw h j (by simp [hw]), ?_⟩
  let A : Out → Prop := fun o => (∃ e, o = .err e) ∨ (∃ p, op = .create p false ∧ o = .ok (.bool false))
  have hA : ∀ e, A (.err e) := fun e => Or.inl ⟨e, rfl⟩
  have key : ∀ pr, MultiL.WriteEnds A pr → A (pr.run Multi.sem s).2.1 :=
    fun pr hpr => MultiL.run_writeEnds A hA pr s hw hpr
  have hone : ∀ q : Prim, q.writes = true → MultiL.WriteEnds A (one q) :=
    fun q hq => ⟨fun _ e => hA e, fun hf => by rw [hq] at hf; cases hf⟩
  have hex : ∀ (p : Str) (k : Bool → Prog), (∀ b, MultiL.WriteEnds A (k b)) →
      MultiL.WriteEnds A (existsThen p k) := by
    intro p k hk
    unfold existsThen
    refine ⟨fun hf => by simp [Prim.writes] at hf, fun _ o => ?_⟩
    dsimp only
    split
    · exact hk true
    · exact hk false
    · exact hA _
  have hcreate : ∀ (p : Str) (w : Bool) (k : Bool → Prog), MultiL.WriteEnds A (k false) →
      MultiL.WriteEnds A (createThen p w k) := by
    intro p w k hk
    have hd : MultiL.WriteEnds A (.call (.openWrite p) fun
        | .ok _ => k true
        | .err e => .ret (.err e)) :=
      ⟨fun _ e => hA e, fun hf => by simp [Prim.writes] at hf⟩
    unfold createThen
    split
    · exact hd
    · apply hex
      intro b
      split
      · exact hk
      · exact hd
  cases op <;> simp [creatingOrWriting] at hcw <;>
    simp only [Multi.step, Multi.prog, commonProg, Option.map, Option.some.injEq] at h
  case create p w =>
    have := key (baseCreate p w) (by
      unfold baseCreate
      cases w
      · exact hcreate p false _ (Or.inr ⟨p, rfl, rfl⟩)
      · unfold createThen
        simp only [if_true]
        exact ⟨fun _ e => hA e, fun hf => by simp [Prim.writes] at hf⟩)
    rw [h] at this; exact this
  case touch p =>
    have := key (baseTouch p) (hcreate p false _ (hone _ rfl))
    rw [h] at this; exact this
  case copy src dst ow =>
    have hb : MultiL.WriteEnds A (if absnorm src = absnorm dst then .ret (.err .IllegalDestination)
        else .call (.openRead (absnorm src)) fun
          | .err e => .ret (.err e)
          | .ok rd => one (.upload (absnorm dst) (bytesOf (.ok rd)))) := by
      split
      · exact hA _
      · refine ⟨fun hf => by simp [Prim.writes] at hf, fun _ o => ?_⟩
        dsimp only
        split
        · exact hA _
        · exact hone _ rfl
    have := key (baseCopy src dst ow) (by
      simp only [baseCopy, MultiL.WriteEnds]
      split
      · exact hb
      · apply hex
        intro b
        split
        · exact hA _
        · exact hb)
    rw [h] at this; exact this
  case openbin p m =>
    have := key (one (.openbin p m)) (hone _ (by simpa [Prim.writes] using hcw))
    rw [h] at this; exact this
  case makedir p rc =>
    have := key (one (.makedir p rc)) (hone _ rfl)
    rw [h] at this; exact this
  case makedirs p rc =>
    have := key (one (.makedirs p rc)) (hone _ rfl)
    rw [h] at this; exact this
  case writebytes p d =>
    have := key (one (.writebytes p d)) (hone _ rfl)
    rw [h] at this; exact this
  case appendbytes p d =>
    have := key (one (.openAppend p d)) (hone _ rfl)
    rw [h] at this; exact this
  case settimes p =>
    have := key (one (.setinfo p)) (hone _ rfl)
    rw [h] at this; exact this

/-- on an open MultiFS the writing methods — `makedir`, `makedirs`, `setinfo`, `upload`,
`writebytes`, `writetext`, and `openbin` / `open` in a (valid) writing mode such as `w`, `a`, `x`,
`r+`, `rb+`, `r+t` — raise exactly `ResourceReadOnly` then, without asking any member -/
theorem multi_no_write_fs_read_only (s : Multi.MState) (pr : Prim) (hw : s.writeFs = none)
    (hc : s.closed = false) (hpw : pr.writes = true)
    (hm : ∀ p m, (pr = .openbin p m ∨ ∃ d, pr = .open_ p m d) → modeOk m = true) :
    (Multi.prim s pr).2.1 = .err .ResourceReadOnly ∧ (Multi.prim s pr).2.2 = [] ∧
    (Multi.prim s pr).1.fs = s.fs := by
  refine ⟨MultiL.prim_write_read_only s pr hw hc hpw hm, ?_, ?_⟩
  · cases pr <;> simp [Prim.writes] at hpw <;>
      simp only [Multi.prim, MultiL.viaWrite_none _ _ _ hw, Multi.checked, hc]
    case openbin p m =>
      have h1 := hm p m (Or.inl rfl)
      have : checkWritable m = true := by simpa [checkWritable] using hpw
      simp [h1, this]
    case open_ p m d =>
      have h1 := hm p m (Or.inr ⟨d, rfl⟩)
      have : checkWritable m = true := by simpa [checkWritable] using hpw
      simp [h1, this]
    all_goals rfl
  · cases pr <;> simp [Prim.writes] at hpw <;>
      simp only [Multi.prim, MultiL.viaWrite_none _ _ _ hw, Multi.checked, hc]
    case openbin p m =>
      have h1 := hm p m (Or.inl rfl)
      have : checkWritable m = true := by simpa [checkWritable] using hpw
      simp [h1, this]
    case open_ p m d =>
      have h1 := hm p m (Or.inr ⟨d, rfl⟩)
      have : checkWritable m = true := by simpa [checkWritable] using hpw
      simp [h1, this]
    all_goals rfl

/-- **Every writing method changes at most the write member** — stated for the methods
themselves (so also for `open(path, mode)` with whatever is then written through the file object,
`writetext`, `upload`): a call of a creating/writing method leaves every member other than
`write_fs` unchanged, and every call it makes is a query or goes to `write_fs`. -/
theorem multi_write_methods_only_write_fs (s : Multi.MState) (pr : Prim) (hpw : pr.writes = true)
    (j : Nat) (hj : s.writeFs ≠ some j) :
    (Multi.prim s pr).1.fs j = s.fs j ∧
    ∀ c ∈ (Multi.prim s pr).2.2, isQuery c.op = true ∨ s.writeFs = some c.fs := by
  have hnr : removes pr = false := by cases pr <;> first | rfl | (simp [Prim.writes] at hpw)
  have hcalls : ∀ c ∈ (Multi.prim s pr).2.2, isQuery c.op = true ∨ s.writeFs = some c.fs := by
    intro c hc
    rcases MultiL.prim_calls s pr c hc with hq | ⟨_, hw⟩ | ⟨hr, _⟩
    · exact Or.inl hq
    · exact Or.inr hw
    · rw [hnr] at hr; cases hr
  refine ⟨MultiL.prim_frame s pr j (fun c hc hcj => ?_), hcalls⟩
  rcases hcalls c hc with hq | hw
  · exact hq
  · exact absurd (hcj ▸ hw) hj

/-- `open` in a mode that is not a writing mode (`r`, `rb`, `rt`) is answered by the member
`_delegate` finds and changes nothing; in a writing mode it goes to the write member — the routing
is by `check_writable(mode)`, i.e. by `w`, `a`, `x` **or `+`** in the mode string -/
theorem multi_open_routing (s : Multi.MState) (p m : Str) (d : Option Bytes) (hc : s.closed = false)
    (hm : modeOk m = true) :
    (checkWritable m = true → Multi.prim s (.open_ p m d) = Multi.viaWrite s (.open_ p m d) p) ∧
    (checkWritable m = false →
      Multi.prim s (.open_ p m d) =
        Multi.viaDelegate s (.open_ p m d) p (.ok p) (.err .ResourceNotFound) ∧
      ∀ j, (Multi.prim s (.open_ p m d)).1.fs j = s.fs j) := by
  have hprim : Multi.prim s (.open_ p m d) =
      (if checkWritable m = true then Multi.viaWrite s (.open_ p m d) p
       else Multi.viaDelegate s (.open_ p m d) p (.ok p) (.err .ResourceNotFound)) := by
    simp [Multi.prim, Multi.checked, hc, hm]
  refine ⟨fun hw => by rw [hprim, if_pos hw], fun hw => ?_⟩
  have hprim' : Multi.prim s (.open_ p m d) =
      Multi.viaDelegate s (.open_ p m d) p (.ok p) (.err .ResourceNotFound) := by
    rw [hprim]; simp [hw]
  refine ⟨hprim', fun j => ?_⟩
  apply MultiL.prim_frame
  intro c hcm _
  rcases MultiL.prim_calls s _ c hcm with hq | ⟨hwr, _⟩ | ⟨hr, _⟩
  · exact hq
  · have : checkWritable m = true := by simpa [Prim.writes, checkWritable] using hwr
    rw [hw] at this; cases this
  · cases hr

/-- read-only operations change no member -/
theorem multi_queries_change_nothing (s s' : Multi.MState) (op : Ref.Op) (out : Out) (tr : List Call)
    (hq : isQuery op = true) (h : Multi.step s op = some (s', out, tr)) (j : Nat) :
    s'.fs j = s.fs j := by
  have hpr : ∃ pr p, commonProg op = some pr ∧ op.paths = [p] ∧ pr.run Multi.sem s = (s', out, tr) := by
    cases op <;> simp [isQuery] at hq <;>
      (simp only [Multi.step, Multi.prog, Option.map] at h
       split at h
       · next pr hpr => exact ⟨pr, _, hpr, rfl, by simpa using h⟩
       · simp at h)
  obtain ⟨pr, p, hprog, hpaths, hrun⟩ := hpr
  have hP : AllPrims (fun q => q.writes = false ∧ removes q = false) pr := by
    cases op <;> simp [isQuery] at hq <;>
      (simp only [commonProg, Option.some.injEq] at hprog
       subst hprog)
    case exists_ => exact allPrims_existsThen ⟨rfl, rfl⟩ (fun _ => trivial)
    case openbin => exact allPrims_one ⟨by simpa [Prim.writes] using hq, rfl⟩
    all_goals exact allPrims_one ⟨rfl, rfl⟩
  have := run_calls Multi.sem (fun _ => True) (fun q => q.writes = false ∧ removes q = false)
    (fun _ => True) (fun c => isQuery c.op = true)
    (fun _ _ _ => trivial)
    (fun s' q _ hq c hc => by
      rcases MultiL.prim_calls s' q c hc with h1 | ⟨hw, _⟩ | ⟨hr, _⟩
      · exact h1
      · rw [hq.1] at hw; cases hw
      · rw [hq.2] at hr; cases hr)
    (fun s' q _ _ c hc => MultiL.validate_calls s' q c hc)
    pr s trivial hP (allValidates_true pr)
  have hfr := multi_frame_any_program pr s j (fun c hc _ => this.1 c hc)
  rw [hrun] at hfr
  exact hfr

/-- **`remove` / `removedir` act on the member that contains the path** — the member
`_delegate` finds, which need not be the write member (the coded rule; the property constrains
creating and writing calls only): every other member is unchanged. -/
theorem multi_remove_only_holder (s s' : Multi.MState) (op : Ref.Op) (p : Str) (out : Out)
    (tr : List Call) (hop : op = .remove p ∨ op = .removedir p)
    (h : Multi.step s op = some (s', out, tr)) (j : Nat)
    (hj : (Multi.delegateLoop s.fs p (Multi.iterateFs s)).2.1 ≠ .ok (some j)) : s'.fs j = s.fs j := by
  have key : ∀ q : Prim, removes q = true → q.writes = false → q.path = p →
      ((one q).run Multi.sem s).1.fs j = s.fs j := by
    intro q hr hw hp
    apply multi_frame_any_program
    intro c hc hcj
    simp only [one, Prog.run, List.append_nil] at hc
    rcases MultiL.prim_calls s q c hc with h1 | ⟨hw', _⟩ | ⟨_, hd⟩
    · exact h1
    · rw [hw] at hw'; cases hw'
    · rw [hp, hcj] at hd; exact absurd hd hj
  rcases hop with rfl | rfl
  · simp only [Multi.step, Multi.prog, commonProg, Option.map, Option.some.injEq] at h
    have := key (.remove p) rfl rfl rfl
    rw [h] at this
    exact this
  · simp only [Multi.step, Multi.prog, commonProg, Option.map, Option.some.injEq] at h
    have := key (.removedir p) rfl rfl rfl
    rw [h] at this
    exact this

def twoMembers : Multi.MState :=
  { fs := Fss.ofList [{ root := .dir [("f".toList, .file [1])], closed := false },
                      { root := .dir [], closed := false }],
    entries := [⟨"ro".toList, 0, 0, 0⟩, ⟨"w".toList, 0, 1, 1⟩], sortIndex := 2, writeFs := some 1,
    closed := false, autoClose := true }

/-- concrete witness of the coded rule: with a read-only layer (member 0) holding `f` and an
empty write layer (member 1), `remove("f")` succeeds and deletes the file from member 0. -/
theorem multi_remove_acts_on_read_member :
    (Multi.step twoMembers (.remove "f".toList)).map
      (fun r => (r.2.1, r.2.2.map (fun c => (c.fs, c.meth)), (r.1.fs 0).root.entries.length)) =
    some (.ok .unit, [(1, .exists_), (0, .exists_), (0, .remove)], 0) := by
  decide


/-! ## non-vacuity -/

example : Clean ["a".toList, "b".toList] := by
  intro c hc; simp at hc; rcases hc with rfl | rfl <;> simp [CleanComp, dot, dotdot]

/-- the hypotheses of `mount_route_component_prefix` are met, and both branches occur -/
example : normpath "x/../a/b//f/".toList = .ok (mk false ["a".toList, "b".toList, "f".toList]) := by decide
example : routeSpec [(["a".toList], 1), (["a".toList, "b".toList], 2)] ["a".toList, "b".toList, "f".toList]
    = some (1, ["b".toList, "f".toList]) := by decide
example : routeSpec [(["a".toList], 1)] ["ab".toList, "f".toList] = none := by decide

def demoMount : Mount.MState :=
  { fs := Fss.ofList [{ root := .dir [("a".toList, .dir [])], closed := false },
                      { root := .dir [("f".toList, .file [7])], closed := false }],
    mounts := [("/a/".toList, 1)], closed := false, autoClose := true }

/-- a step with a non-trivial effect: `move("/a/f", "/g")` reads member 1, writes the default tree,
removes from member 1 -/
example : (Mount.step demoMount (.move "/a/f".toList "/g".toList false)).map
    (fun r => (r.2.1, r.2.2.map (fun c => (c.fs, c.meth, c.path)))) =
    some (.ok .unit, [(1, .validatepath, "f".toList), (0, .validatepath, "/g".toList),
      (0, .getinfo, "/g".toList), (1, .getinfo, "f".toList), (1, .open_, "f".toList),
      (0, .upload, "/g".toList), (1, .remove, "f".toList)]) := by decide

example : routeMember demoMount.mounts "/a/f".toList = some 1 ∧ routeMember demoMount.mounts "/g".toList = some 0 := by
  decide

/-- `multi_read_highest` / `multi_listing_union_dedup` have non-trivial instances -/
def demoMulti : Multi.MState :=
  { fs := Fss.ofList [{ root := .dir [("f".toList, .file [1]), ("x".toList, .dir [])], closed := false },
                      { root := .dir [("f".toList, .file [2]), ("y".toList, .dir [])], closed := false },
                      { root := .dir [("y".toList, .file [3])], closed := false }],
    entries := [⟨"lo".toList, 0, 0, 0⟩, ⟨"hi".toList, 0, 1, 1⟩, ⟨"neg".toList, -1, 2, 2⟩],
    sortIndex := 3, writeFs := none, closed := false, autoClose := true }

example : (Multi.delegateLoop demoMulti.fs "f".toList (Multi.iterateFs demoMulti)).2.1 = .ok (some 1) := by decide
example : (Multi.listing demoMulti .listdir []).2.1 = .ok (.names ["f".toList, "y".toList, "x".toList]) := by decide
/-- a name that is a directory in the higher layer and a file in a lower one: the file is
shadowed; the other way round the file answers -/
def mixedMulti (hiDir : Bool) : Multi.MState :=
  { fs := Fss.ofList [{ root := .dir [("b".toList, .dir [("x".toList, .file [])])], closed := false },
                      { root := .dir [("b".toList, .file [1])], closed := false }],
    entries := [⟨"d".toList, if hiDir then 1 else 0, 0, 0⟩, ⟨"f".toList, if hiDir then 0 else 1, 1, 1⟩],
    sortIndex := 2, writeFs := none, closed := false, autoClose := true }

example : (Multi.listing (mixedMulti true) .listdir "b".toList).2.1 = .ok (.names ["x".toList]) := by decide
example : (Multi.listing (mixedMulti false) .listdir "b".toList).2.1 = .err .DirectoryExpected := by decide
example : (Multi.listing (mixedMulti true) .listdir "c".toList).2.1 = .err .ResourceNotFound := by decide

/-- `open`: `r+` is a writing mode.  With a read layer holding `f` and an empty write layer,
`open("f", "r+")` goes to the write layer (and fails there: `ResourceNotFound`), the read layer is
not asked to open anything; `open("f", "rt")` is answered by the read layer; without a write
layer `open(…, "rb+")` is `ResourceReadOnly`; on a MountFS the data written through
`open("/a/f", "r+")` lands in the mounted member only. -/
example : (let r := Multi.prim twoMembers (.open_ "f".toList "r+".toList (some [9]))
           (r.2.1, r.2.2.map (fun c => (c.fs, c.meth)))) = (.err .ResourceNotFound, [(1, .open_)]) := by decide
example : (let r := Multi.prim twoMembers (.open_ "f".toList "rt".toList none)
           (r.2.1, r.2.2.map (fun c => (c.fs, c.meth)))) =
    (.ok .unit, [(1, .exists_), (0, .exists_), (0, .open_)]) := by decide
example : (Multi.prim demoMulti (.open_ "f".toList "rb+".toList none)).2.1 = .err .ResourceReadOnly := by decide
example : (let r := Mount.prim demoMount (.open_ "/a/f".toList "r+".toList (some [9, 9]))
           (r.2.1, r.2.2.map (fun c => (c.fs, c.meth, c.path)),
            (Ref.step (r.1.fs 1) (.readbytes "f".toList)).2)) =
    (.ok .unit, [(1, .open_, "f".toList)], .ok (.bytes [9, 9])) := by decide

example : (Multi.step demoMulti (.writebytes "g".toList [1])).map (·.2.1) = some (.err .ResourceReadOnly) := by decide
example : (Multi.step demoMulti (.create "f".toList false)).map (·.2.1) = some (.ok (.bool false)) := by decide

end Fs.C17
