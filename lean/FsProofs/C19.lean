/-
  C19 — copy_fs / copy_dir / mirror produce exact replicas; conditional copy obeys its rule.

  Model: `FsModel/Copy.lean` (transcription of fs/copy.py and fs/mirror.py over trees whose files
  carry an optional modification time).  All theorems quantify over every source tree, every
  destination tree, every walker (arbitrary file / directory predicates and depth limit), every
  condition string, every time relation, `preserve_time` on and off.

  Vocabulary: `view (t.get q)` is what is observable at path `q` — `absent`, `dir`, or
  `file bytes mtime`; `selFiles w sp es` / `selDirs w sp es` are what the walker yields below a
  directory with entries `es` (paths relative to it); `newTime e preserve m` is the time the
  destination reports for a freshly copied file (`m` when preserved and known, else "now").
-/
import FsModel.Copy
import FsProofs.Lemmas.CopyDirLemmas
import FsProofs.Lemmas.MirrorLemmas

namespace Fs.C19
open Fs Fs.Copy

/-! ## the condition table (`_copy_is_necessary`) -/

/-- DECISION TABLE, stated outright.  `s`, `d` are what `getmodified` reports for source and
destination: `none` = the resource is missing, `some none` = no modification time available,
`some (some t)` = time `t`. -/
theorem copy_is_necessary_table :
    -- always
    (∀ s d, copyIsNecessary cAlways s d = .ok true) ∧
    -- newer: destination missing / source missing (the copy is attempted) / a time unknown / compare
    (∀ s, copyIsNecessary cNewer s none = .ok true) ∧
    (∀ d, copyIsNecessary cNewer none d = .ok true) ∧
    (∀ d, copyIsNecessary cNewer (some none) (some d) = .ok true) ∧
    (∀ s, copyIsNecessary cNewer (some s) (some none) = .ok true) ∧
    (∀ ts td : Int, copyIsNecessary cNewer (some (some ts)) (some (some td)) = .ok (decide (ts > td))) ∧
    -- older
    (∀ s, copyIsNecessary cOlder s none = .ok true) ∧
    (∀ d, copyIsNecessary cOlder none d = .ok true) ∧
    (∀ d, copyIsNecessary cOlder (some none) (some d) = .ok true) ∧
    (∀ s, copyIsNecessary cOlder (some s) (some none) = .ok true) ∧
    (∀ ts td : Int, copyIsNecessary cOlder (some (some ts)) (some (some td)) = .ok (decide (ts < td))) ∧
    -- exists / not_exists: only the existence of the destination counts, never a time
    (∀ s d, copyIsNecessary cExists s d = .ok d.isSome) ∧
    (∀ s d, copyIsNecessary cNotExists s d = .ok (!d.isSome)) ∧
    -- anything else is rejected
    (∀ c s d, c ≠ cAlways → c ≠ cNewer → c ≠ cOlder → c ≠ cExists → c ≠ cNotExists →
      copyIsNecessary c s d = .err .ValueError) := by
  have e1 : cNewer ≠ cAlways := by decide
  have e2 : cOlder ≠ cAlways := by decide
  have e3 : cOlder ≠ cNewer := by decide
  have e4 : cExists ≠ cAlways := by decide
  have e5 : cExists ≠ cNewer := by decide
  have e6 : cExists ≠ cOlder := by decide
  have e7 : cNotExists ≠ cAlways := by decide
  have e8 : cNotExists ≠ cNewer := by decide
  have e9 : cNotExists ≠ cOlder := by decide
  have e10 : cNotExists ≠ cExists := by decide
  refine ⟨?_, ?_, ?_, ?_, ?_, ?_, ?_, ?_, ?_, ?_, ?_, ?_, ?_, ?_⟩
  · intro s d; simp [copyIsNecessary]
  · intro s; cases s <;> simp [copyIsNecessary, e1]
  · intro d; simp [copyIsNecessary, e1]
  · intro d; cases d <;> simp [copyIsNecessary, e1, newerThan]
  · intro s; cases s <;> simp [copyIsNecessary, e1, newerThan]
  · intro ts td; simp [copyIsNecessary, e1, newerThan]
  · intro s; cases s <;> simp [copyIsNecessary, e2, e3]
  · intro d; simp [copyIsNecessary, e2, e3]
  · intro d; cases d <;> simp [copyIsNecessary, e2, e3, olderThan]
  · intro s; cases s <;> simp [copyIsNecessary, e2, e3, olderThan]
  · intro ts td; simp [copyIsNecessary, e2, e3, olderThan]
  · intro s d; simp [copyIsNecessary, e4, e5, e6]
  · intro s d; simp [copyIsNecessary, e7, e8, e9, e10]
  · intro c s d h1 h2 h3 h4 h5; simp [copyIsNecessary, h1, h2, h3, h4, h5]

/-- the rows older / equal / newer of the table, with whole-second times as the harness sets them -/
theorem copy_is_necessary_rows :
    copyIsNecessary cNewer (some (some 2000)) (some (some 1000)) = .ok true ∧
    copyIsNecessary cNewer (some (some 2000)) (some (some 2000)) = .ok false ∧
    copyIsNecessary cNewer (some (some 2000)) (some (some 3000)) = .ok false ∧
    copyIsNecessary cOlder (some (some 2000)) (some (some 1000)) = .ok false ∧
    copyIsNecessary cOlder (some (some 2000)) (some (some 2000)) = .ok false ∧
    copyIsNecessary cOlder (some (some 2000)) (some (some 3000)) = .ok true := by decide

/-! ## copy_file_if -/

/-- TRUTHFUL REPORT: `copy_file_if` returns `True` exactly when the condition held, and then the
destination path holds the source bytes (with the preserved / fresh time); when it returns `False`
the destination is untouched. -/
theorem copy_file_if_reports_truthfully (e : Env) (st : Bool) (src dst dst' : CNode) (sp dp : List Name)
    (cond : Str) (pt : Bool) (r : Bool)
    (h : copyFileIf e st src sp dst dp cond pt = .ok (dst', r)) :
    copyIsNecessary cond (statTime st e.now (src.get sp)) (statTime e.dstTimes e.now (dst.get dp)) = .ok r ∧
    (r = false → dst' = dst) ∧
    (r = true → ∃ b m, src.get sp = some (.file b m) ∧ dst'.get dp = some (.file b (newTime e pt m)) ∧
      ∀ q, q ≠ dp → view (dst'.get q) = view (dst.get q)) := by
  unfold copyFileIf at h
  split at h
  · cases h
  · rename_i hn; cases h; exact ⟨hn, fun _ => rfl, nofun⟩
  · rename_i hn
    split at h
    · rename_i t hc
      cases h
      refine ⟨hn, nofun, fun _ => ?_⟩
      unfold copyFileInternal at hc
      split at hc
      · cases hc
      · cases hc
      · rename_i b m hs
        exact ⟨b, m, hs, writeFile_self hc, fun q hq => writeFile_view hc q hq⟩
    · cases h

/-! ## copy_dir_if / copy_dir / copy_fs -/

/-- EXACTNESS of the conditional copy: the files `on_copy` reports are exactly the files the
walker selects for which the condition holds — judged on the source file's time and on what the
*original* destination has at the corresponding path — in walk order. -/
theorem copy_dir_if_exact (e : Env) (w : Walker) (src dst dst' : CNode) (sp dp : List Name) (cond : Str)
    (pt : Bool) (copied : List (List Name)) (es : CEnts)
    (hsrc : src.get sp = some (.dir es)) (hwf : Copy.entsWf es = true)
    (h : copyDirIf e w src sp dst dp cond pt = .ok (dst', copied)) :
    copied = ((selFiles w sp es).filter (wanted e cond dp dst)).map (·.1) := by
  obtain ⟨d0, d1, es', hm, hs, hst, hfl⟩ := copyDirIf_ok h
  rw [hsrc] at hs; cases hs
  have hnd := selFiles_nodup w sp es hwf
  obtain ⟨h1, _, _⟩ := filesLoop e cond pt dp _ hnd _ _ hfl
  simp only [List.nil_append] at h1
  rw [h1]
  congr 1
  apply List.filter_congr
  intro f hf
  apply wanted_congr
  -- the structure pass does not change what is at a selected *file* path
  have hfw := mem_selFiles.1 hf
  have hne : f.1 ≠ [] := (walkEnts_sound w es sp 0 hwf _ hfw).2
  have hd1 : view (d1.get (dp ++ f.1)) = view (d0.get (dp ++ f.1)) := by
    apply structLoop_view dp _ _ _ hst
    right
    intro rel hrel e'
    have hrw := mem_selDirs.1 hrel
    have := List.append_cancel_left e'
    subst this
    have s1 := (walkEnts_sound w es sp 0 hwf _ hfw).1
    have s2 := (walkEnts_sound w es sp 0 hwf _ hrw).1
    rw [s1] at s2
    simp [itemView] at s2
  have hd0 : view (d0.get (dp ++ f.1)) = view (dst.get (dp ++ f.1)) := by
    apply makedirsR_view dp [] dst d0 hm
    right
    simp only [List.nil_append]
    intro hpre
    have := hpre.length_le
    simp at this
    exact hne (List.length_eq_zero_iff.1 (by omega))
  rw [hd1, hd0]

/-- POST-CONDITION: after a successful `copy_dir_if`, every selected source file for which the
condition holds is at `dst_path/rel` with the source bytes, and with the source's modification
time when `preserve_time` is set and the time is known (`newTime`). -/
theorem copy_dir_post (e : Env) (w : Walker) (src dst dst' : CNode) (sp dp : List Name) (cond : Str)
    (pt : Bool) (copied : List (List Name)) (es : CEnts)
    (hsrc : src.get sp = some (.dir es)) (hwf : Copy.entsWf es = true)
    (h : copyDirIf e w src sp dst dp cond pt = .ok (dst', copied)) :
    ∀ f ∈ selFiles w sp es, f.1 ∈ copied →
      dst'.get (dp ++ f.1) = some (.file f.2.1 (newTime e pt f.2.2)) := by
  intro f hf hc
  have hex := copy_dir_if_exact e w src dst dst' sp dp cond pt copied es hsrc hwf h
  obtain ⟨d0, d1, es', hm, hs, hst, hfl⟩ := copyDirIf_ok h
  rw [hsrc] at hs; cases hs
  have hnd := selFiles_nodup w sp es hwf
  obtain ⟨h1, h2, _⟩ := filesLoop e cond pt dp _ hnd _ _ hfl
  apply h2 f hf
  simp only [List.nil_append] at h1
  rw [h1] at hc
  simp only [List.mem_map, List.mem_filter] at hc
  obtain ⟨g, ⟨hg, hwg⟩, hge⟩ := hc
  -- same path, same file (the walk yields each path once)
  have : g = f := eq_of_nodup_map (·.1) _ hnd g f hg hf hge
  subst this; exact hwg

/-- with condition "always" (`copy_dir`, `copy_fs`) every selected file is copied -/
theorem copy_dir_post_always (e : Env) (w : Walker) (src dst dst' : CNode) (sp dp : List Name)
    (pt : Bool) (copied : List (List Name)) (es : CEnts)
    (hsrc : src.get sp = some (.dir es)) (hwf : Copy.entsWf es = true)
    (h : copyDirIf e w src sp dst dp cAlways pt = .ok (dst', copied)) :
    copied = (selFiles w sp es).map (·.1) ∧
    ∀ f ∈ selFiles w sp es, dst'.get (dp ++ f.1) = some (.file f.2.1 (newTime e pt f.2.2)) := by
  have hex := copy_dir_if_exact e w src dst dst' sp dp cAlways pt copied es hsrc hwf h
  have hall : (selFiles w sp es).filter (wanted e cAlways dp dst) = selFiles w sp es := by
    apply List.filter_eq_self.2
    intro f _; simp [wanted, copyIsNecessary]
  rw [hall] at hex
  refine ⟨hex, fun f hf => ?_⟩
  exact copy_dir_post e w src dst dst' sp dp cAlways pt copied es hsrc hwf h f hf
    (by rw [hex]; exact List.mem_map_of_mem hf)

/-- every directory the walker yields exists (as a directory) at the destination -/
theorem copy_dir_dirs (e : Env) (w : Walker) (src dst dst' : CNode) (sp dp : List Name) (cond : Str)
    (pt : Bool) (copied : List (List Name)) (es : CEnts)
    (hsrc : src.get sp = some (.dir es)) (hwf : Copy.entsWf es = true)
    (h : copyDirIf e w src sp dst dp cond pt = .ok (dst', copied)) :
    ∀ rel ∈ selDirs w sp es, view (dst'.get (dp ++ rel)) = .dir := by
  intro rel hrel
  obtain ⟨d0, d1, es', hm, hs, hst, hfl⟩ := copyDirIf_ok h
  rw [hsrc] at hs; cases hs
  have hd1 := structLoop_dirs dp _ _ _ hst
    (fun r hr => (walkEnts_sound w es sp 0 hwf _ (mem_selDirs.1 hr)).2) rel hrel
  exact filesLoop_dirs e cond pt dp _ _ _ _ hfl hd1

/-- FRAME: whatever the destination held before the call is still there afterwards — every file
with its bytes and time unless it is one of the files reported as copied, every directory as a
directory — and nothing appears except at `dst_path`, its ancestors, and the walked paths. -/
theorem copy_dir_frame (e : Env) (w : Walker) (src dst dst' : CNode) (sp dp : List Name) (cond : Str)
    (pt : Bool) (copied : List (List Name)) (es : CEnts)
    (hsrc : src.get sp = some (.dir es)) (hwf : Copy.entsWf es = true)
    (h : copyDirIf e w src sp dst dp cond pt = .ok (dst', copied)) :
    (∀ q, (∀ rel ∈ copied, q ≠ dp ++ rel) → view (dst.get q) ≠ .absent →
      view (dst'.get q) = view (dst.get q)) ∧
    (∀ q, view (dst.get q) = .dir → view (dst'.get q) = .dir) ∧
    (∀ q, ¬ q <+: dp → (∀ x ∈ walkEnts w sp 0 es, q ≠ dp ++ x.1) → view (dst'.get q) = view (dst.get q)) := by
  have hex := copy_dir_if_exact e w src dst dst' sp dp cond pt copied es hsrc hwf h
  obtain ⟨d0, d1, es', hm, hs, hst, hfl⟩ := copyDirIf_ok h
  rw [hsrc] at hs; cases hs
  have hnd := selFiles_nodup w sp es hwf
  obtain ⟨h1, _, h3⟩ := filesLoop e cond pt dp _ hnd _ _ hfl
  simp only [List.nil_append] at h1
  have hd0 : ∀ q, (view (dst.get q) ≠ .absent ∨ ¬ q <+: dp) → view (d0.get q) = view (dst.get q) := fun q hq =>
    makedirsR_view dp [] dst d0 hm q (by simpa using hq)
  refine ⟨?_, ?_, ?_⟩
  · intro q hq hex'
    have e0 := hd0 q (Or.inl hex')
    have e1 : view (d1.get q) = view (d0.get q) := structLoop_view dp _ _ _ hst q (Or.inl (by rw [e0]; exact hex'))
    rw [← e0, ← e1]
    apply h3
    intro f hf hw
    apply hq
    rw [h1]
    exact List.mem_map_of_mem (List.mem_filter.2 ⟨hf, hw⟩)
  · intro q hq
    have e0 := hd0 q (Or.inl (by rw [hq]; simp))
    have e1 : view (d1.get q) = view (d0.get q) :=
      structLoop_view dp _ _ _ hst q (Or.inl (by rw [e0, hq]; simp))
    exact filesLoop_dirs e cond pt dp q _ _ _ hfl (by rw [e1, e0, hq])
  · intro q hpre hq
    have e0 := hd0 q (Or.inr hpre)
    have e1 : view (d1.get q) = view (d0.get q) :=
      structLoop_view dp _ _ _ hst q (Or.inr (fun rel hrel => hq _ (mem_selDirs.1 hrel)))
    rw [← e0, ← e1]
    apply h3
    intro f hf _
    exact hq _ (mem_selFiles.1 hf)

/-- REPLICA (`copy_fs`, `copy_dir` with the default walker): after a successful copy every
resource of the source directory — at any depth — shows at `dst_path/rel` as a directory, or as a
file with the same bytes and the preserved (or fresh) time. -/
theorem copy_fs_replica (e : Env) (src dst dst' : CNode) (sp dp : List Name) (pt : Bool)
    (copied : List (List Name)) (es : CEnts)
    (hsrc : src.get sp = some (.dir es)) (hwf : Copy.entsWf es = true)
    (h : copyDirIf e Walker.all src sp dst dp cAlways pt = .ok (dst', copied))
    (q : List Name) (hq : q ≠ []) (hex : view (src.get (sp ++ q)) ≠ .absent) :
    view (dst'.get (dp ++ q)) =
      (match view (src.get (sp ++ q)) with
       | .file b m => .file b (newTime e pt m)
       | v => v) := by
  rw [get_append q hsrc] at hex ⊢
  cases hg : (CNode.dir es).get q with
  | none => rw [hg] at hex; exact absurd rfl hex
  | some n =>
    have hmem := walkEnts_complete es sp 0 q n hq hg
    cases n with
    | file b m =>
      have hf : (q, b, m) ∈ selFiles Walker.all sp es := mem_selFiles.2 hmem
      have := (copy_dir_post_always e Walker.all src dst dst' sp dp pt copied es hsrc hwf h).2 _ hf
      simp only at this
      rw [this]; rfl
    | dir sub =>
      have hd : q ∈ selDirs Walker.all sp es := mem_selDirs.2 hmem
      rw [copy_dir_dirs e Walker.all src dst dst' sp dp cAlways pt copied es hsrc hwf h q hd]; rfl

/-! ## mirror -/

/-- EXACT REPLICA: after `mirror(src, dst, copy_if_newer=False)` with the default walker the
destination shows, at every path, exactly what the source shows there — same type, same bytes
(`copyView`: the time is the source's when `preserve_time` is set and known, else fresh);
whatever else the destination held is gone, file/directory conflicts are resolved both ways.
Holds for every destination tree. -/
theorem mirror_exact (e : Env) (pt : Bool) (src dst : CEnts) (hwf : Copy.entsWf src = true)
    (q : List Name) (hq : q ≠ []) :
    view (getE q (mirror e { copyIfNewer := false, preserve := pt } Walker.all src dst))
      = copyView e pt (view (getE q src)) :=
  mirror_exact_aux e pt q hq src dst [] 0 hwf

/-- the exact hypothesis under which the default `copy_if_newer=True` is exact as well (paths, types,
bytes): wherever source and destination both have a file, `_compare` says "copy" (sizes differ, a
time is unknown, or the source is newer) or the bytes already agree (`newerSafe`).  Without it:
`mirror_newer_counterexample`. -/
theorem mirror_newer_exact (e : Env) (o : MOpts) (src dst : CEnts) (hwf : Copy.entsWf src = true)
    (hs : newerSafe src dst) (q : List Name) (hq : q ≠ []) :
    (view (getE q (mirror e o Walker.all src dst))).noTime = (view (getE q src)).noTime :=
  mirror_newer_exact_aux e o q hq src dst [] 0 hwf hs

/-- …including the modification times, when they are preserved, known and reportable -/
theorem mirror_exact_times (e : Env) (src dst : CEnts) (hwf : Copy.entsWf src = true) (hd : e.dstTimes = true)
    (q : List Name) (b : Bytes) (t : Int) (hq : getE q src = some (.file b (some t))) :
    getE q (mirror e { copyIfNewer := false, preserve := true } Walker.all src dst) = some (.file b (some t)) := by
  have hne : q ≠ [] := by
    intro e'; subst e'; simp [getE] at hq
  have := mirror_exact e true src dst hwf q hne
  rw [hq] at this
  simp only [view, copyView, newTime, hd, if_true] at this
  exact view_eq_file this

/-- IDEMPOTENCE: mirroring again changes nothing observable (types, bytes, times at every path),
for both values of `copy_if_newer`, every `preserve_time`, every walker — arbitrary file and
directory filters and any depth limit (a directory the walker yields but does not scan is left as
the first run made it). -/
theorem mirror_idempotent (e : Env) (o : MOpts) (w : Walker) (src dst : CEnts)
    (hwf : Copy.entsWf src = true) (q : List Name) :
    view (getE q (mirror e o w src (mirror e o w src dst))) = view (getE q (mirror e o w src dst)) := by
  cases q with
  | nil => simp [getE, view]
  | cons k r => exact mirror_idempotent_aux e o w (k :: r) (by simp) src dst [] 0 hwf

/-- EVERY YIELDED DIRECTORY EXISTS: in every directory the walk reaches (source entries `es`,
destination listing `ds`, at any depth), each source directory the walker yields is a directory at
the destination afterwards — whether or not it is scanned, and whatever was there before (nothing,
a directory, or a file in the way). -/
theorem mirror_yielded_dir_is_dir (e : Env) (o : MOpts) (w : Walker) (abs : List Name) (depth : Nat)
    (es ds : CEnts) (hwf : Copy.entsWf es = true) (k : Name) (sub : CEnts)
    (hk : lookup k es = some (.dir sub)) (hd : w.dirOk abs k = true) :
    view (lookup k (mirrorNode e o w abs depth (.dir es) ds)) = .dir := by
  rw [mirrorNode_lookup _ _ _ _ _ _ _ hwf, hk]
  simp only [hd, Bool.true_and]
  split
  · rfl
  · simp only [stepSpec, hk, hd, if_true]
    cases lookup k ds with
    | none => rfl
    | some x => cases x <;> rfl

/-- SECOND RUN COPIES NOTHING: with `copy_if_newer=True`, a destination that reports times and a
source whose files all have known times that are not in the future (or are preserved —
`timesKnown`), mirroring a second time calls `copy_file` for no file at all. -/
theorem mirror_second_run_copies_nothing (e : Env) (o : MOpts) (w : Walker)
    (hc : o.copyIfNewer = true) (hd : e.dstTimes = true) (src dst : CEnts)
    (hwf : Copy.entsWf src = true) (ht : timesKnownEnts e o src = true) :
    mirrorCopied e o w src (mirror e o w src dst) = [] :=
  secondRun_node e o w hc hd (.dir src) [] 0 dst (by simpa [CNode.wf] using hwf) (by simpa [timesKnown] using ht)

/-- …but not when a time is unknown: `_compare` then always says "copy" -/
theorem mirror_second_run_unknown_time_counterexample :
    mirrorCopied { now := 9000, dstTimes := true } { copyIfNewer := true, preserve := true } Walker.all
      [(['a'], .file [1] none)]
      (mirror { now := 9000, dstTimes := true } { copyIfNewer := true, preserve := true } Walker.all
        [(['a'], .file [1] none)] []) = [[['a']]] := by
  decide

/-! ### where exactness stops (the code really behaves this way) -/

/-- `copy_if_newer=True` (the default of `mirror`) is *not* exact: a destination file of the same
size that is not older than the source file is kept although its bytes differ.  This is the
documented trade-off ("set copy_if_newer to False to guarantee an exact copy"), not a defect;
the full statement `mirror_exact` with `copyIfNewer := true` is false: -/
theorem mirror_newer_counterexample :
    view (getE [['a']] (mirror { now := 9000, dstTimes := true } { copyIfNewer := true, preserve := false } Walker.all
      [(['a'], .file [1] (some 2000))] [(['a'], .file [2] (some 3000))])) = .file [2] (some 3000) := by
  decide

/-- REGRESSION (fixed finding, /repo c47cb90): a walker with a depth limit yields directories it
does not scan.  With a destination *file* under such a name `_mirror` used to remove the file and
never create the directory (nothing there after the first run, a directory after the second).
The repaired loop replaces the file by a directory at once: the directory is there after the first
run and the second run changes nothing.  (General statements: `mirror_yielded_dir_is_dir`,
`mirror_idempotent`.) -/
theorem mirror_unscanned_dir_repaired :
    let e : Env := { now := 9000, dstTimes := true }
    let o : MOpts := { copyIfNewer := false, preserve := false }
    let w : Walker := { fileOk := fun _ _ => true, dirOk := fun _ _ => true, maxDepth := some 1 }
    let src : CEnts := [(['a'], .dir [(['b'], .file [1] (some 2000))])]
    let dst : CEnts := [(['a'], .file [9] (some 1000))]
    walkEnts w [] 0 src = [([['a']], Item.dir)] ∧
    view (getE [['a']] (mirror e o w src dst)) = .dir ∧
    view (getE [['a'], ['b']] (mirror e o w src dst)) = .absent ∧
    view (getE [['a']] (mirror e o w src (mirror e o w src dst))) = .dir := by
  decide

/-! ### the hypotheses are satisfiable: concrete runs of the model -/

/-- a source with a nested directory and two files, a destination with an older copy, a
file/directory conflict and an extra file: `copy_dir_if "newer"` succeeds, copies exactly the newer
file, keeps the bystander -/
example :
    let e : Env := { now := 9000, dstTimes := true }
    let src : CNode := .dir [(['a'], .dir [(['f'], .file [1, 2] (some 2000))]), (['g'], .file [3] (some 2000))]
    let dst : CNode := .dir [(['a'], .dir [(['f'], .file [9] (some 1000))]), (['g'], .file [7] (some 3000)),
      (['x'], .file [5] (some 1000))]
    (copyDirIf e Walker.all src [] dst [] cNewer true).map
        (fun r => (r.2, view (r.1.get [['a'], ['f']]), view (r.1.get [['g']]), view (r.1.get [['x']])))
      = .ok ([[['a'], ['f']]], .file [1, 2] (some 2000), .file [7] (some 3000), .file [5] (some 1000)) := by decide

/-- a file in the way of a directory makes `copy_structure` fail (the theorems are about successful calls) -/
example : (copyDirIf { now := 9000, dstTimes := true } Walker.all (.dir [(['a'], .dir [])]) []
    (.dir [(['a'], .file [1] (some 1000))]) [] cAlways false).isOk = false := by decide

/-- an unknown condition is only noticed when the walker yields a file -/
example : (copyDirIf { now := 9000, dstTimes := true } Walker.all (.dir [(['a'], .dir [])]) [] (.dir []) [] ['x'] false).isOk = true
    ∧ (copyDirIf { now := 9000, dstTimes := true } Walker.all (.dir [(['a'], .file [] none)]) [] (.dir []) [] ['x'] false).isOk = false := by
  decide

/-- mirror resolves conflicts both ways and removes extras -/
example :
    let e : Env := { now := 9000, dstTimes := true }
    let src : CEnts := [(['a'], .dir [(['f'], .file [1] (some 2000))]), (['g'], .file [3] (some 2000))]
    let dst : CEnts := [(['a'], .file [9] (some 1000)), (['g'], .dir [(['h'], .file [4] (some 1000))]), (['x'], .dir [])]
    let r := mirror e { copyIfNewer := false, preserve := true } Walker.all src dst
    view (getE [['a'], ['f']] r) = .file [1] (some 2000) ∧ view (getE [['g']] r) = .file [3] (some 2000) ∧
      view (getE [['x']] r) = .absent ∧ view (getE [['g'], ['h']] r) = .absent ∧
      Copy.entsWf src = true ∧ timesKnownEnts e { copyIfNewer := true, preserve := true } src = true := by
  decide

end Fs.C19
