/-
  C03 — no path argument escapes a filesystem's root (sandboxing).

  Property theorems only (helper lemmas: FsProofs/Lemmas/ConfineLemmas.lean, PathLemmas.lean).
  Everything quantifies over every `Str = List Char` (all Unicode strings, no length bound),
  every list of sub-directories / mount points / archive member names.

  `Clean cs` (FsModel.PathSpec): no component is `""`, `"."`, `".."` or contains `/`.
  `absOf cs` is the string `"/" ++ "/".join(cs)`.
-/
import FsModel.Confine
import FsModel.PathFlow
import FsModel.Generated.PathFlowTable
import FsProofs.Lemmas.ConfineLemmas

namespace Fs.C03
open Fs Fs.Path Fs.PathSpec Fs.PathLemmas Fs.Confine Fs.ConfineLemmas Fs.PathFlow

/-- the absolute path string with the given components -/
def absOf (cs : List Str) : Str := '/' :: joinSlash cs

theorem absOf_eq_mkp (cs : List Str) : absOf cs = mkp true cs := rfl

/-! ## FS.validatepath -/

/-- Whatever string goes in, what `validatepath` returns is `/` followed by clean components —
and they are exactly the component-wise resolution of the input. -/
theorem validatepath_clean (cfg : Cfg) (p q : Str) (h : validatepath cfg p = .ok q) :
    ∃ cs, q = '/' :: joinSlash cs ∧ Clean cs ∧ resolve (splitSlash p) = some cs := by
  unfold validatepath at h
  split at h
  · cases h
  split at h
  · cases h
  cases hn : normpath p with
  | err e => rw [hn] at h; cases h
  | ok n =>
    rw [hn] at h
    simp only at h
    cases ht : tooLong cfg n
    · rw [ht] at h
      obtain ⟨cs, hr, hc, rfl⟩ := normpath_ok_resolve p n hn
      simp only [Bool.false_eq_true, if_false, Except.ok.injEq] at h
      rw [abspath_mkp hc] at h
      exact ⟨cs, h.symm, hc, hr⟩
    · rw [ht] at h; cases h

/-- Exactly when `validatepath` raises, and what: the checks in source order. -/
theorem validatepath_err_iff (cfg : Cfg) (p : Str) (e : VErr) :
    validatepath cfg p = .error e ↔
      (e = .FilesystemClosed ∧ cfg.closed = true) ∨
      (e = .InvalidCharsInPath ∧ cfg.closed = false ∧ ∃ c ∈ p, c ∈ cfg.invalid) ∨
      (e = .IllegalBackReference ∧ cfg.closed = false ∧ (∀ c ∈ p, c ∉ cfg.invalid) ∧
        climbs (splitSlash p)) ∨
      (e = .InvalidPath ∧ cfg.closed = false ∧ (∀ c ∈ p, c ∉ cfg.invalid) ∧
        ∃ cs m, resolve (splitSlash p) = some cs ∧ cfg.maxSys = some m ∧
          (osJoin cfg.root (joinSlash cs)).length > m) := by
  unfold validatepath
  by_cases hcl : cfg.closed = true
  · simp only [hcl, if_true, Except.error.injEq]
    constructor
    · intro h; exact Or.inl ⟨h.symm, trivial⟩
    · rintro (⟨h, -⟩ | ⟨-, h, -⟩ | ⟨-, h, -⟩ | ⟨-, h, -⟩)
      · exact h.symm
      all_goals cases h
  have hcl' : cfg.closed = false := by simpa using hcl
  simp only [hcl', Bool.false_eq_true, if_false, false_or, true_and, and_false]
  by_cases hinv : p.any (fun c => cfg.invalid.contains c) = true
  · have hex : ∃ c ∈ p, c ∈ cfg.invalid := by
      simpa [List.any_eq_true] using hinv
    have hnall : ¬ (∀ c ∈ p, c ∉ cfg.invalid) := by
      obtain ⟨c, hc, hi⟩ := hex
      exact fun hall => hall c hc hi
    simp only [hinv, if_true, Except.error.injEq, hnall, false_and, and_false, or_false]
    constructor
    · intro h; exact ⟨h.symm, hex⟩
    · rintro ⟨h, -⟩; exact h.symm
  have hall : ∀ c ∈ p, c ∉ cfg.invalid := by
    intro c hc hi
    apply hinv
    rw [List.any_eq_true]
    exact ⟨c, hc, by simpa using hi⟩
  have hnex : ¬ ∃ c ∈ p, c ∈ cfg.invalid := by
    rintro ⟨c, hc, hi⟩; exact hall c hc hi
  simp only [hinv, Bool.false_eq_true, if_false, hnex, and_false, false_or]
  cases hr : resolve (splitSlash p) with
  | none =>
    rw [normpath_err_of_resolve p hr]
    simp only [Except.error.injEq, climbs, hr]
    constructor
    · intro h; exact Or.inl ⟨h.symm, hall, trivial⟩
    · rintro (⟨h, -⟩ | ⟨-, -, cs, m, h, -⟩)
      · exact h.symm
      · cases h
  | some cs =>
    rw [normpath_of_resolve p cs hr]
    have hc : Clean cs := resolve_result_clean p cs hr
    simp only [tooLong, relpath, lstripSlash_mkp hc, climbs, hr]
    cases hm : cfg.maxSys with
    | none =>
      simp only [Bool.false_eq_true, if_false]
      constructor
      · intro h; cases h
      · rintro (⟨-, -, h⟩ | ⟨-, -, cs', m, -, h, -⟩) <;> cases h
    | some m =>
      simp only
      by_cases hlen : (osJoin cfg.root (joinWith '/' cs)).length > m
      · simp only [hlen, decide_true, if_true, Except.error.injEq]
        constructor
        · intro h
          exact Or.inr ⟨h.symm, hall, cs, m, rfl, rfl, hlen⟩
        · rintro (⟨-, -, h⟩ | ⟨h, -⟩)
          · cases h
          · exact h.symm
      · simp only [hlen, decide_false, Bool.false_eq_true, if_false]
        constructor
        · intro h; cases h
        · rintro (⟨-, -, h⟩ | ⟨-, -, cs', m', h1, h2, h3⟩)
          · cases h
          · simp only [Option.some.injEq] at h1 h2
            subst h1; subst h2
            exact absurd h3 hlen

/-- With the default configuration (open filesystem, `"\0"` invalid, no length limit):
`IllegalBackReference` exactly for the paths that climb above the root. -/
theorem validatepath_backref_iff_climbs (p : Str) (h0 : '\x00' ∉ p) :
    validatepath {} p = .error .IllegalBackReference ↔ climbs (splitSlash p) := by
  rw [validatepath_err_iff]
  simp only [reduceCtorEq, false_and, false_or, or_false, true_and, and_false]
  constructor
  · rintro ⟨-, h⟩; exact h
  · intro h
    refine ⟨?_, h⟩
    intro c hc hi
    simp only [List.mem_cons, List.not_mem_nil, or_false] at hi
    subst hi
    exact h0 hc

/-! ## OSFS: what reaches the operating system -/

/-- The system path of any validated path is the root's components followed by clean
components: no `..`, no `.`, no empty component and no `/` inside a component can reach the
OS (symbolic links stored inside the root aside).  Stated both for the component list and
for the string `os.path.join(root, q.lstrip("/"))` that `_to_sys_path` really builds. -/
theorem os_syspath_under_root (cfg : Cfg) (rc : List Str) (p q : Str) (hroot : Clean rc)
    (h : validatepath cfg p = .ok q) :
    ∃ cs, Clean cs ∧ resolve (splitSlash p) = some cs ∧
      sysPath rc q = rc ++ cs ∧
      osComps (sysPathStr (absOf rc) q) = rc ++ cs ∧
      Clean (rc ++ cs) := by
  obtain ⟨cs, rfl, hc, hr⟩ := validatepath_clean cfg p q h
  refine ⟨cs, hc, hr, ?_, ?_, clean_append.2 ⟨hroot, hc⟩⟩
  · show rc ++ comps (mkp true cs) = rc ++ cs
    rw [comps_mkp hc]
  · show comps (osJoin (mkp true rc) (lstripSlash (mkp true cs))) = rc ++ cs
    rw [lstripSlash_mkp hc]
    exact osJoin_root_clean hroot hc

/-- `OSFS.getsyspath` (public, called with raw paths by `fs.move`, `fs.copy`, `WrapFS`):
it either raises `IllegalBackReference` or stays under the root. -/
theorem getsyspath_under_root (rc : List Str) (p s : Str) (hroot : Clean rc)
    (h : getsyspath (absOf rc) p = .ok s) :
    ∃ cs, Clean cs ∧ resolve (splitSlash p) = some cs ∧ osComps s = rc ++ cs := by
  unfold getsyspath at h
  cases hn : normpath p with
  | err e => rw [hn, bind_err] at h; cases h
  | ok n =>
    obtain ⟨cs, hr, hc, rfl⟩ := normpath_ok_resolve p n hn
    rw [hn, bind_ok] at h
    simp only [pure_eq, Res.ok.injEq, relpath, lstripSlash_mkp hc] at h
    subst h
    exact ⟨cs, hc, hr, osJoin_root_clean hroot hc⟩

theorem getsyspath_err_iff_climbs (root p : Str) :
    getsyspath root p = .err .IllegalBackReference ↔ climbs (splitSlash p) := by
  unfold getsyspath climbs
  cases hr : resolve (splitSlash p) with
  | none => rw [normpath_err_of_resolve p hr]; simp [bind_err]
  | some cs => rw [normpath_of_resolve p cs hr]; simp [bind_ok, pure_eq]

/-! ## SubFS -/

/-- the stored `_sub_dir` is always an absolute clean path, whatever `opendir` was given -/
theorem subInit_clean (path s : Str) (h : subInit path = .ok s) :
    ∃ scs, Clean scs ∧ s = absOf scs := by
  unfold subInit at h
  cases hn : normpath path with
  | err e => rw [hn, bind_err] at h; cases h
  | ok n =>
    obtain ⟨cs, -, hc, rfl⟩ := normpath_ok_resolve path n hn
    rw [hn, bind_ok] at h
    simp only [pure_eq, Res.ok.injEq] at h
    exact ⟨cs, hc, by rw [← h, abspath_mkp hc]; rfl⟩

/-- The path a `SubFS` hands to its parent is its sub-directory followed by the resolved
components of the user's path: it lies under the sub-directory and is clean. -/
theorem sub_delegate_eq (scs : List Str) (p q : Str) (hs : Clean scs)
    (h : subDelegate (absOf scs) p = .ok q) :
    ∃ cs, Clean cs ∧ resolve (splitSlash p) = some cs ∧ q = absOf (scs ++ cs) := by
  unfold subDelegate at h
  cases hn : normpath p with
  | err e => rw [hn, bind_err] at h; cases h
  | ok n =>
    obtain ⟨cs, hr, hc, rfl⟩ := normpath_ok_resolve p n hn
    rw [hn, bind_ok] at h
    simp only [relpath, lstripSlash_mkp hc, absOf_eq_mkp] at h
    rw [join_sub_rel hs hc] at h
    simp only [Res.ok.injEq] at h
    exact ⟨cs, hc, hr, h.symm⟩

/-- the form of DESIGN §6: the sub-directory's components are a prefix of the delegated
path's components, which are clean -/
theorem sub_delegate_under (scs : List Str) (p q : Str) (hs : Clean scs)
    (h : subDelegate (absOf scs) p = .ok q) :
    comps (absOf scs) <+: comps q ∧ Clean (comps q) := by
  obtain ⟨cs, hc, -, rfl⟩ := sub_delegate_eq scs p q hs h
  have hcl : Clean (scs ++ cs) := clean_append.2 ⟨hs, hc⟩
  simp only [absOf_eq_mkp, comps_mkp hs, comps_mkp hcl]
  exact ⟨List.prefix_append _ _, hcl⟩

theorem sub_delegate_err_iff (scs : List Str) (p : Str) (e : Err) (hs : Clean scs) :
    subDelegate (absOf scs) p = .err e ↔ e = .IllegalBackReference ∧ climbs (splitSlash p) := by
  unfold subDelegate climbs
  cases hr : resolve (splitSlash p) with
  | none =>
    rw [normpath_err_of_resolve p hr, bind_err]
    simp only [Res.err.injEq, and_true]
    exact ⟨fun h => h.symm, fun h => h.symm⟩
  | some cs =>
    rw [normpath_of_resolve p cs hr, bind_ok]
    have hc : Clean cs := resolve_result_clean p cs hr
    simp only [relpath, lstripSlash_mkp hc, absOf_eq_mkp]
    rw [join_sub_rel hs hc]
    simp

/-- Any depth of nesting (`fs.opendir(s₁).opendir(s₂)…`; the list is outermost-first, i.e.
`[sₙ, …, s₁]`): the path reaching the innermost parent is the concatenation `s₁ ++ … ++ sₙ`
of all sub-directories followed by the resolved user path. -/
theorem nested_sub_eq (s : List Str) (rest : List (List Str)) (p q : Str)
    (hs : ∀ x ∈ s :: rest, Clean x)
    (h : nestedDelegate ((s :: rest).map absOf) p = .ok q) :
    ∃ cs, Clean cs ∧ resolve (splitSlash p) = some cs ∧
      q = absOf ((s :: rest).reverse.flatten ++ cs) := by
  have key : ∀ (rest : List (List Str)) (x : List Str) (q : Str), (∀ y ∈ rest, Clean y) → Clean x →
      nestedDelegate (rest.map absOf) (absOf x) = .ok q → q = absOf (rest.reverse.flatten ++ x) := by
    intro rest
    induction rest with
    | nil =>
      intro x q _ _ h
      simp only [List.map_nil, nestedDelegate, Res.ok.injEq] at h
      simp [← h]
    | cons r rest' ih =>
      intro x q hr hx h
      simp only [List.map_cons, nestedDelegate] at h
      cases h1 : subDelegate (absOf r) (absOf x) with
      | err e => rw [h1, bind_err] at h; cases h
      | ok q1 =>
        rw [h1, bind_ok] at h
        have hrc : Clean r := hr r (by simp)
        obtain ⟨cs, hc, hres, rfl⟩ := sub_delegate_eq r (absOf x) q1 hrc h1
        have : cs = x := by
          have := resolve_splitOn_mkp (a := true) hx
          rw [absOf_eq_mkp] at hres
          simp only [splitSlash] at hres
          rw [this] at hres
          exact (Option.some.inj hres).symm
        subst this
        have := ih (r ++ cs) q (fun y hy => hr y (by simp [hy])) (clean_append.2 ⟨hrc, hc⟩) h
        rw [this]
        simp [List.append_assoc]
  simp only [List.map_cons, nestedDelegate] at h
  cases h1 : subDelegate (absOf s) p with
  | err e => rw [h1, bind_err] at h; cases h
  | ok q1 =>
    rw [h1, bind_ok] at h
    have hsc : Clean s := hs s (by simp)
    obtain ⟨cs, hc, hres, rfl⟩ := sub_delegate_eq s p q1 hsc h1
    refine ⟨cs, hc, hres, ?_⟩
    have := key rest (s ++ cs) q (fun y hy => hs y (by simp [hy])) (clean_append.2 ⟨hsc, hc⟩) h
    rw [this]
    simp [List.append_assoc]

/-- the form of DESIGN §6 for any nesting depth ≥ 1 -/
theorem nested_sub_under (s : List Str) (rest : List (List Str)) (p q : Str)
    (hs : ∀ x ∈ s :: rest, Clean x)
    (h : nestedDelegate ((s :: rest).map absOf) p = .ok q) :
    (s :: rest).reverse.flatten <+: comps q ∧ Clean (comps q) := by
  obtain ⟨cs, hc, -, rfl⟩ := nested_sub_eq s rest p q hs h
  have hfl : Clean (s :: rest).reverse.flatten := by
    intro c hc'
    simp only [List.mem_flatten, List.mem_reverse] at hc'
    obtain ⟨l, hl, hcl⟩ := hc'
    exact hs l hl c hcl
  have hcl : Clean ((s :: rest).reverse.flatten ++ cs) := clean_append.2 ⟨hfl, hc⟩
  rw [absOf_eq_mkp, comps_mkp hcl]
  exact ⟨List.prefix_append _ _, hcl⟩

/-- a climbing path is refused at the outermost level, whatever the nesting -/
theorem nested_sub_err_of_climbs (s : List Str) (rest : List (List Str)) (p : Str)
    (hs : Clean s) (hcl : climbs (splitSlash p)) :
    nestedDelegate ((s :: rest).map absOf) p = .err .IllegalBackReference := by
  simp only [List.map_cons, nestedDelegate]
  rw [(sub_delegate_err_iff s p .IllegalBackReference hs).2 ⟨rfl, hcl⟩, bind_err]

/-! ### `SubFS.delegate_path` as coded (invalid characters refused first) -/

/-- whatever the coded chain hands to the parent, the unchecked chain hands over too: every
confinement theorem above therefore holds for the code as written -/
theorem nestedChk_ok_imp (inv : List Char) (subs : List Str) (p q : Str)
    (h : nestedDelegateChk inv subs p = .ok q) : nestedDelegate subs p = .ok q := by
  induction subs generalizing p with
  | nil => simpa only [nestedDelegateChk, nestedDelegate] using h
  | cons s rest ih =>
    simp only [nestedDelegateChk, subDelegateChk] at h
    simp only [nestedDelegate]
    by_cases hb : p.any (fun c => inv.contains c) = true
    · rw [if_pos hb, bind_err] at h; cases h
    · rw [if_neg hb] at h
      cases h1 : subDelegate s p with
      | err e => rw [h1, bind_err] at h; cases h
      | ok r => rw [h1, bind_ok] at h; rw [bind_ok]; exact ih r h

/-- the coded chain stays beneath the sub-directories at every nesting depth -/
theorem nested_sub_chk_under (inv : List Char) (s : List Str) (rest : List (List Str)) (p q : Str)
    (hs : ∀ x ∈ s :: rest, Clean x)
    (h : nestedDelegateChk inv ((s :: rest).map absOf) p = .ok q) :
    (s :: rest).reverse.flatten <+: comps q ∧ Clean (comps q) :=
  nested_sub_under s rest p q hs (nestedChk_ok_imp inv _ p q h)

/-- a path carrying one of the parent's invalid characters never reaches the parent, even when
`normpath` would have removed the character (`"x\0/.."`) -/
theorem nested_sub_chk_invalid (inv : List Char) (s : Str) (rest : List Str) (p : Str) (c : Char)
    (hc : c ∈ p) (hi : c ∈ inv) :
    nestedDelegateChk inv (s :: rest) p = .err .InvalidCharsInPath := by
  have : p.any (fun c => inv.contains c) = true := by
    rw [List.any_eq_true]; exact ⟨c, hc, by simpa using hi⟩
  simp only [nestedDelegateChk, subDelegateChk]
  rw [if_pos this, bind_err]

example : nestedDelegateChk ['\x00'] ["/sub".toList] "x\x00/..".toList = .err .InvalidCharsInPath := by decide
example : nestedDelegateChk ['\x00'] ["/c".toList, "/a/b".toList] "./f".toList = .ok "/a/b/c/f".toList := by decide

/-! ## MountFS -/

/-- a stored mount path: `forcedir(abspath(normpath(path)))` -/
def mountStr (m : List Str) : Str := forcedir (absOf m)

theorem mountPoint_clean (path s : Str) (h : mountPoint path = .ok s) :
    ∃ m, Clean m ∧ s = mountStr m := by
  unfold mountPoint at h
  cases hn : normpath path with
  | err e => rw [hn, bind_err] at h; cases h
  | ok n =>
    obtain ⟨cs, -, hc, rfl⟩ := normpath_ok_resolve path n hn
    rw [hn, bind_ok] at h
    simp only [pure_eq, Res.ok.injEq] at h
    exact ⟨cs, hc, by rw [← h, abspath_mkp hc]; rfl⟩

theorem mountStr_eq {m : List Str} (h : Clean m) : mountStr m = '/' :: dirs m := by
  rw [mountStr, absOf_eq_mkp, forcedir_mkp_true h]

/-- What `MountFS._delegate` hands to the i-th mounted filesystem is the user's resolved path
with exactly the mount point's components removed: relative, clean, and the mount chosen is
the first one (in mount order) whose components are a prefix of the path's. -/
theorem mount_delegate_inside (ms : List (List Str)) (hm : ∀ m ∈ ms, Clean m) (p : Str) (i : Nat)
    (r : Str) (h : mountDelegate (ms.map mountStr) p = .ok (some i, r)) :
    ∃ m cs, ms[i]? = some m ∧ Clean cs ∧ resolve (splitSlash p) = some (m ++ cs) ∧
      r = joinSlash cs ∧ ∀ j, j < i → ∀ m', ms[j]? = some m' → ¬ m' <+: m ++ cs := by
  unfold mountDelegate at h
  cases hn : normpath p with
  | err e => rw [hn, bind_err] at h; cases h
  | ok n =>
    obtain ⟨pcs, hr, hc, rfl⟩ := normpath_ok_resolve p n hn
    rw [hn, bind_ok] at h
    simp only [abspath_mkp hc, forcedir_mkp_true hc] at h
    split at h
    · next i' mstr hf =>
      simp only [pure_eq, Res.ok.injEq, Prod.mk.injEq, Option.some.injEq] at h
      obtain ⟨rfl, rfl⟩ := h
      obtain ⟨-, hget, hsw, hfirst⟩ := findMount_some hf
      simp only [Nat.sub_zero, List.getElem?_map, Option.map_eq_some_iff] at hget
      obtain ⟨m, hmi, rfl⟩ := hget
      have hmc : Clean m := hm m (List.mem_of_getElem? hmi)
      rw [mountStr_eq hmc, startsWith_iff_prefix, List.cons_prefix_cons] at hsw
      have hpre : m <+: pcs := (dirs_prefix_iff hmc hc).1 hsw.2
      obtain ⟨cs, rfl⟩ := hpre
      have hcs : Clean cs := (clean_append.1 hc).2
      refine ⟨m, cs, hmi, hcs, hr, ?_, ?_⟩
      · rw [mountStr_eq hmc]
        simp only [List.length_cons, List.drop_succ_cons]
        rw [dirs_length_drop, rstripSlash_dirs hcs]
      · intro j hj m' hm' hpre'
        have hm'c : Clean m' := hm m' (List.mem_of_getElem? hm')
        have := hfirst j (by simpa using hj) (mountStr m') (by simp [hm'])
        rw [mountStr_eq hm'c] at this
        have hsw' : startsWith ('/' :: dirs (m ++ cs)) ('/' :: dirs m') = true := by
          rw [startsWith_iff_prefix, List.cons_prefix_cons]
          exact ⟨rfl, (dirs_prefix_iff hm'c hc).2 hpre'⟩
        rw [hsw'] at this; cases this
    · simp only [pure_eq, Res.ok.injEq, Prod.mk.injEq] at h
      cases h.1

/-- No mount matches: the *raw* path goes to the default `MemoryFS` (as the code does);
it is a path that resolves without climbing, and no mount point is a prefix of it. -/
theorem mount_default_raw (ms : List (List Str)) (hm : ∀ m ∈ ms, Clean m) (p r : Str)
    (h : mountDelegate (ms.map mountStr) p = .ok (none, r)) :
    r = p ∧ ∃ pcs, resolve (splitSlash p) = some pcs ∧ Clean pcs ∧ ∀ m ∈ ms, ¬ m <+: pcs := by
  unfold mountDelegate at h
  cases hn : normpath p with
  | err e => rw [hn, bind_err] at h; cases h
  | ok n =>
    obtain ⟨pcs, hr, hc, rfl⟩ := normpath_ok_resolve p n hn
    rw [hn, bind_ok] at h
    simp only [abspath_mkp hc, forcedir_mkp_true hc] at h
    split at h
    · simp only [pure_eq, Res.ok.injEq, Prod.mk.injEq] at h
      cases h.1
    · next hf =>
      simp only [pure_eq, Res.ok.injEq, Prod.mk.injEq, true_and] at h
      refine ⟨h.symm, pcs, hr, hc, ?_⟩
      intro m hmm hpre
      have hmc : Clean m := hm m hmm
      have := findMount_none hf (mountStr m) (List.mem_map.2 ⟨m, hmm, rfl⟩)
      rw [mountStr_eq hmc] at this
      have hsw' : startsWith ('/' :: dirs pcs) ('/' :: dirs m) = true := by
        rw [startsWith_iff_prefix, List.cons_prefix_cons]
        exact ⟨rfl, (dirs_prefix_iff hmc hc).2 hpre⟩
      rw [hsw'] at this; cases this

theorem mount_delegate_err_iff (mounts : List Str) (p : Str) (e : Err) :
    mountDelegate mounts p = .err e ↔ e = .IllegalBackReference ∧ climbs (splitSlash p) := by
  unfold mountDelegate climbs
  cases hr : resolve (splitSlash p) with
  | none =>
    rw [normpath_err_of_resolve p hr, bind_err]
    simp only [Res.err.injEq, and_true]
    exact ⟨fun h => h.symm, fun h => h.symm⟩
  | some cs =>
    rw [normpath_of_resolve p cs hr, bind_ok]
    simp only [reduceCtorEq, and_false, iff_false]
    split <;> simp [pure_eq]

/-! ### `MountFS._delegate` as coded (invalid characters refused first, /repo 48e26ed) -/

/-- whatever the coded `_delegate` answers, the unchecked one answers too: `mount_delegate_inside` and
`mount_default_raw` therefore hold for the code as written -/
theorem mountChk_ok_imp (inv : List Char) (mounts : List Str) (p : Str) (r : Option Nat × Str)
    (h : mountDelegateChk inv mounts p = .ok r) : mountDelegate mounts p = .ok r := by
  simp only [mountDelegateChk] at h
  by_cases hb : p.any (fun c => inv.contains c) = true
  · rw [if_pos hb] at h; cases h
  · rw [if_neg hb] at h; exact h

/-- the coded `_delegate` hands a mounted filesystem the resolved path minus the mount point's components —
relative, clean, first matching mount — and no character of `inv` occurs in the path it was given -/
theorem mount_delegate_chk_inside (inv : List Char) (ms : List (List Str)) (hm : ∀ m ∈ ms, Clean m) (p : Str)
    (i : Nat) (r : Str) (h : mountDelegateChk inv (ms.map mountStr) p = .ok (some i, r)) :
    (∀ c ∈ p, c ∉ inv) ∧
    ∃ m cs, ms[i]? = some m ∧ Clean cs ∧ resolve (splitSlash p) = some (m ++ cs) ∧
      r = joinSlash cs ∧ ∀ j, j < i → ∀ m', ms[j]? = some m' → ¬ m' <+: m ++ cs := by
  refine ⟨?_, mount_delegate_inside ms hm p i r (mountChk_ok_imp inv _ p _ h)⟩
  intro c hc hi
  have : p.any (fun c => inv.contains c) = true := by
    rw [List.any_eq_true]; exact ⟨c, hc, by simpa using hi⟩
  simp only [mountDelegateChk] at h
  rw [if_pos this] at h; cases h

/-- a path carrying one of the MountFS's invalid characters reaches NO filesystem — mounted or default —, even
when `normpath` would have removed the character (`"foo/x\0/../a"`) -/
theorem mount_delegate_chk_invalid (inv : List Char) (mounts : List Str) (p : Str) (c : Char)
    (hc : c ∈ p) (hi : c ∈ inv) : mountDelegateChk inv mounts p = .err .InvalidCharsInPath := by
  have : p.any (fun c => inv.contains c) = true := by
    rw [List.any_eq_true]; exact ⟨c, hc, by simpa using hi⟩
  simp only [mountDelegateChk]
  rw [if_pos this]

example : mountDelegateChk ['\x00'] ["/foo/".toList] "foo/x\x00/../a".toList = .err .InvalidCharsInPath := by decide
example : mountDelegateChk ['\x00'] ["/foo/".toList] "foo/x/../a".toList = .ok (some 0, "a".toList) := by decide

/-! ## read-only archives: hostile member names -/

theorem tarKey_clean (name k : Str) (h : tarKey name = some k) :
    ∃ cs, cs ≠ [] ∧ Clean cs ∧ k = joinSlash cs := by
  unfold tarKey at h
  split at h
  · cases h
  · next n hn =>
    obtain ⟨cs, -, hc, rfl⟩ := normpath_ok_resolve _ n hn
    rw [startsWithSlash_strip] at h
    split at h
    · cases h
    · next hne =>
      simp only [Option.some.injEq] at h
      subst h
      refine ⟨cs, ?_, hc, by simp [mkp, joinSlash]⟩
      intro e; subst e
      exact hne (by decide)

/-- every key of `ReadTarFS._directory_entries` is a relative path of ≥ 1 clean components,
whatever the member names of the archive are (absolute, `..`, duplicates, `a//b`, `./a` …) -/
theorem tarKeys_clean (names : List Str) :
    ∀ k ∈ tarKeys names, ∃ cs, cs ≠ [] ∧ Clean cs ∧ k = joinSlash cs := by
  unfold tarKeys
  refine foldl_inv (fun acc => ∀ k ∈ acc, ∃ cs, cs ≠ [] ∧ Clean cs ∧ k = joinSlash cs) _ names []
    (by simp) ?_
  intro acc nm hacc k hk
  split at hk
  · exact hacc k hk
  · next key hkey =>
    rcases mem_odInsert hk with hk | rfl
    · exact hacc k hk
    · exact tarKey_clean nm _ hkey

/-- names that climb are dropped, not exposed -/
theorem tarKey_drops_climbing (name : Str) (h : climbs (splitSlash (stripSlash name))) :
    tarKey name = none := by
  unfold tarKey
  rw [normpath_err_of_resolve _ h]

theorem tarVisible_clean (names : List Str) : ∀ v ∈ tarVisible names, v ≠ [] ∧ Clean v := by
  intro v hv
  unfold tarVisible at hv
  have hv' := mem_dedup hv
  simp only [List.mem_flatMap] at hv'
  obtain ⟨k, hk, hvk⟩ := hv'
  obtain ⟨cs, -, hc, rfl⟩ := tarKeys_clean names k hk
  rw [show osComps (joinSlash cs) = comps (joinWith '/' cs) from rfl, comps_join_clean hc] at hvk
  obtain ⟨i, hi, rfl⟩ := mem_prefixesOf hvk
  exact ⟨take_succ_ne_nil hi, clean_take hc _⟩

/-- every entry of `ReadZipFS._directory` (also of the partial directory left behind when a
member name made the constructor loop raise) is a non-empty list of clean components -/
theorem zipDirectory_clean (names : List Str) :
    ∀ e ∈ (zipDirectory names []).1, e.1 ≠ [] ∧ Clean e.1 :=
  zipDirectory_zclean names [] zclean_nil

/-- the name handed to `zipfile` is relative and clean (a directory gets a trailing slash) -/
theorem zipName_clean (d : ZDir) (p z : Str) (h : zipName d p = .ok z) :
    ∃ cs, Clean cs ∧ resolve (splitSlash p) = some cs ∧
      (z = joinSlash cs ∨ z = forcedir (joinSlash cs)) := by
  unfold zipName at h
  split at h
  · cases h
  · next n hn =>
    obtain ⟨cs, hr, hc, rfl⟩ := normpath_ok_resolve p n hn
    simp only [relpath, lstripSlash_mkp hc] at h
    split at h
    · simp only [Res.ok.injEq] at h
      refine ⟨cs, hc, hr, ?_⟩
      split at h
      · exact Or.inr h.symm
      · exact Or.inl h.symm
    · cases h

/-- **archive_names_clean** — for every list of member names, every path visible through the
read models (tar: keys and their implicit parent directories; zip: every entry of the directory
filesystem) consists of clean components only: nothing above or beside the archive root can
be named through a `ReadTarFS` / `ReadZipFS`. -/
theorem archive_names_clean (names : List Str) :
    (∀ v ∈ tarVisible names, v ≠ [] ∧ Clean v) ∧
    (∀ e ∈ (zipDirectory names []).1, e.1 ≠ [] ∧ Clean e.1) :=
  ⟨tarVisible_clean names, zipDirectory_clean names⟩

/-! ## the generated PathFlowTable (re-proved on every run) -/

/-- every sink that is live on the platform receives validated path data only -/
def Method.allValidated (m : Method) : Bool :=
  m.sinks.all fun s => !s.live || s.source == .validated

/-- **pathflow_all_validated** — in every method of `OSFS`, every call that hands a path to
`os.*`, `io.open`, `shutil.*`, `scandir`, `_to_sys_path`, `getsyspath` and is reachable on the
harness platform gets its path data from `validatepath`/`normpath` only. -/
theorem pathflow_all_validated :
    ∀ m ∈ osfsMethods, ∀ s ∈ m.sinks, s.live = true → s.source = .validated := by
  decide

/-- the table is not vacuous: the class was found and the methods that matter have sinks -/
theorem pathflow_table_nonempty :
    osfsMethodsFound = true ∧ ftpfsMethodsFound = true ∧
    (∀ n ∈ ["getinfo", "listdir", "makedir", "openbin", "remove", "removedir", "removetree",
            "copy", "_scandir", "getsyspath", "geturl", "gettype", "islink", "open", "setinfo",
            "_to_sys_path"],
      ∃ m ∈ osfsMethods, m.name = n ∧ m.live = true ∧ m.sinks ≠ []) := by
  decide

/-- no syntax the extractor could not follow, in either class -/
theorem pathflow_no_unknown :
    ∀ m ∈ osfsMethods ++ ftpfsMethods, ∀ s ∈ m.sinks, s.source ≠ .unknown := by
  decide

/-- **pathflow_ftpfs_all_validated** — the same for `FTPFS`: every command sent through `ftplib`
(`self.ftp.*`, `_encode`, `FTPFile`) carries validated path data only (`FTPFS.setinfo`, which used
to forward its raw parameter, was repaired in /repo). -/
theorem pathflow_ftpfs_all_validated :
    ∀ m ∈ ftpfsMethods, ∀ s ∈ m.sinks, s.live = true → s.source = .validated := by
  decide

/-- the FTPFS half of the table is not vacuous either -/
theorem pathflow_ftpfs_nonempty :
    ∀ n ∈ ["getinfo", "makedir", "openbin", "remove", "removedir", "_scandir", "_read_dir", "create",
           "upload", "readbytes", "getmodified", "setinfo"],
      ∃ m ∈ ftpfsMethods, m.name = n ∧ m.live = true ∧ m.sinks ≠ [] := by
  decide

/-- what is still raw anywhere in either class sits in statically dead (Windows-only) code -/
theorem pathflow_raw_only_dead :
    ∀ m ∈ osfsMethods ++ ftpfsMethods, ∀ s ∈ m.sinks, s.source = .raw → s.live = false := by
  decide

/-! ## non-vacuity -/

example : validatepath {} "/foo//bar/../a.b/".toList = .ok "/foo/a.b".toList := by decide
example : validatepath {} "foo/../../etc/passwd".toList = .error .IllegalBackReference := by decide
example : validatepath {} "a\x00b".toList = .error .InvalidCharsInPath := by decide
example : validatepath { maxSys := some 8, root := "/r".toList } "abcdefgh".toList = .error .InvalidPath := by
  decide
example : sysPathStr "/tmp/root".toList "/a/b".toList = "/tmp/root/a/b".toList := by decide
example : subDelegate "/sub".toList "x/../y//z".toList = .ok "/sub/y/z".toList := by decide
example : subDelegate "/sub".toList "x/../../sub2".toList = .err .IllegalBackReference := by decide
example : nestedDelegate ["/c".toList, "/a/b".toList] "./f".toList = .ok "/a/b/c/f".toList := by decide
example : mountDelegate ["/foo/".toList, "/foo2/".toList] "foo2/../foo2/x".toList
    = .ok (some 1, "x".toList) := by decide
example : mountDelegate ["/foo/".toList] "foo2/x".toList = .ok (none, "foo2/x".toList) := by decide
example : tarKeys ["../x".toList, "/abs".toList, "a/../../b".toList, "a//b".toList, "./a".toList,
    "a".toList] = ["abs".toList, "a/b".toList, "a".toList] := by decide
example : (zipDirectory ["/abs".toList, "a//b".toList, "./a".toList, "../x".toList, "later".toList] []).2
    = some .IllegalBackReference := by decide

end Fs.C03
