/-
  C13 — walking visits every resource exactly once and filters exactly.

  Property theorems only; helper lemmas live in FsProofs/Lemmas/WalkLemmas.lean and
  FsProofs/Lemmas/WalkPathLemmas.lean.  All statements quantify over every tree `t : Node`
  (any branching, depth, names), every start path, every option record `o : Opts` whose name
  matchers are *arbitrary* predicates (so they hold for whatever `fs.match` / `fs.match_glob`
  compute), and both search orders.

  Reading guide
  * `walkBreadth o d0 [(start, es)]` / `walkDepth o d0 [(start, es, none)]` are the event
    sequences of `Walker._walk_breadth` / `_walk_depth` started at a directory `start` whose
    listing is `es` (`hs : t.get start = some (.dir es)`); `resources` keeps the non-marker
    events as `(combine(dir, name), node)`.
  * `selected o t start` is the documented subset by recursion over the tree, `selectedPost`
    the same in post-order; `chain` is the documented subset stated per resource.
-/
import FsModel.Walk
import FsProofs.Lemmas.WalkLemmas
import FsProofs.Lemmas.WalkPathLemmas

namespace Fs.C13
open Fs Fs.Walk Fs.WalkSpec Fs.WalkLemmas

/-! ## both machines report exactly the documented subset -/

/-- breadth order: the reported resources are a permutation of the documented subset -/
theorem bfs_perm_spec (o : Opts) (t : Node) (start : WPath) (es : Ents)
    (hs : t.get start = some (.dir es)) :
    (resources (walkBreadth o start.length [(start, es)])).Perm (selected o t start) := by
  have := bfs_perm o start.length [(start, es)]
  simpa [selected, hs] using this

/-- depth order: the reported resources are the documented subset in post-order, as a sequence -/
theorem dfs_eq_postorder_spec (o : Opts) (t : Node) (start : WPath) (es : Ents)
    (hs : t.get start = some (.dir es)) :
    resources (walkDepth o start.length [(start, es, none)]) = selectedPost o t start := by
  rw [dfs_eq]
  simp [dfsSpec, parentRes, selectedPost, hs]

/-- the post-order enumeration is a permutation of the pre-order one -/
theorem postorder_perm_selected (o : Opts) (t : Node) (start : WPath) :
    (selectedPost o t start).Perm (selected o t start) := by
  unfold selectedPost selected
  split
  · exact selEntsPost_perm _ _ _ _
  · exact List.Perm.refl _

/-- depth order reports a directory only after everything inside it: no resource that comes later
in the sequence lies at or below an earlier one -/
theorem depth_children_before_parent (o : Opts) (t : Node) (start : WPath) (es : Ents)
    (hwf : t.wf = true) (hs : t.get start = some (.dir es)) :
    (resources (walkDepth o start.length [(start, es, none)])).Pairwise
      (fun x y => ¬ x.1 <+: y.1) := by
  rw [dfs_eq_postorder_spec o t start es hs]
  have hes : entsWf es = true := by
    have := wf_get start t _ hwf hs
    rwa [wf_dir] at this
  simpa [selectedPost, hs] using selEntsPost_pairwise o start.length start es hes

/-- both orders report the same resources (as multisets) -/
theorem bfs_dfs_same_set (o : Opts) (t : Node) (start : WPath) (es : Ents)
    (hs : t.get start = some (.dir es)) :
    (resources (walkBreadth o start.length [(start, es)])).Perm
      (resources (walkDepth o start.length [(start, es, none)])) := by
  rw [dfs_eq_postorder_spec o t start es hs]
  exact (bfs_perm_spec o t start es hs).trans (postorder_perm_selected o t start).symm

/-! ## exactly once, with the correct path -/

/-- the documented subset is a sub-sequence of the enumeration of everything below the start -/
theorem selected_sublist_all (o : Opts) (t : Node) (start : WPath) :
    (selected o t start).Sublist (allBelow t start) := by
  unfold selected allBelow
  cases h : t.get start with
  | none => simp
  | some n =>
    cases n with
    | file b => simp
    | dir es =>
      simp only [Node.walk, ← allEnts_eq_entsWalk]
      exact selEnts_sublist _ _ _ _

/-- without options the documented subset is every resource below the start (`Node.walk`) -/
theorem selected_none_eq_all (t : Node) (start : WPath) (es : Ents) (hs : t.get start = some (.dir es)) :
    selected {} t start = allBelow t start := by
  simp [selected, allBelow, hs, Node.walk, selEnts_none, allEnts_eq_entsWalk]

theorem selected_paths_nodup (o : Opts) (t : Node) (start : WPath) (hwf : t.wf = true) :
    ((selected o t start).map (·.1)).Nodup := by
  unfold selected
  cases h : t.get start with
  | none => simp
  | some n =>
    cases n with
    | file b => simp
    | dir es =>
      have hes : entsWf es = true := by
        have := wf_get start t _ hwf h
        rwa [wf_dir] at this
      exact ((selEnts_sublist o start.length start es).map _).nodup (allEnts_nodup start es hes)

/-- every path is reported at most once — breadth order -/
theorem walk_nodup_breadth (o : Opts) (t : Node) (start : WPath) (es : Ents) (hwf : t.wf = true)
    (hs : t.get start = some (.dir es)) :
    ((resources (walkBreadth o start.length [(start, es)])).map (·.1)).Nodup :=
  ((bfs_perm_spec o t start es hs).map _).nodup_iff.mpr (selected_paths_nodup o t start hwf)

/-- every path is reported at most once — depth order -/
theorem walk_nodup_depth (o : Opts) (t : Node) (start : WPath) (es : Ents) (hwf : t.wf = true)
    (hs : t.get start = some (.dir es)) :
    ((resources (walkDepth o start.length [(start, es, none)])).map (·.1)).Nodup :=
  ((bfs_dfs_same_set o t start es hs).map _).nodup_iff.mp (walk_nodup_breadth o t start es hwf hs)

/-- **The documented subset, per resource.**  `(p, n)` is selected iff `p` extends the start by a
relative path `rel`, the tree holds `n` at `p`, and along `rel` every directory on the way is
opened and scanned and the last component passes its file / directory test (`chain`). -/
theorem selected_iff (o : Opts) (t : Node) (start : WPath) (es : Ents) (hwf : t.wf = true)
    (hs : t.get start = some (.dir es)) (p : WPath) (n : Node) :
    (p, n) ∈ selected o t start ↔
      ∃ rel, p = start ++ rel ∧ t.get p = some n ∧ chain o start.length n start rel = true := by
  have hes : entsWf es = true := by
    have := wf_get start t _ hwf hs
    rwa [wf_dir] at this
  simp only [selected, hs]
  rw [selEnts_mem_iff o start.length start es hes]
  constructor
  · rintro ⟨rel, hp, hg, hc⟩
    exact ⟨rel, hp, by rw [hp, get_append, hs]; exact hg, hc⟩
  · rintro ⟨rel, hp, hg, hc⟩
    exact ⟨rel, hp, by rw [hp, get_append, hs] at hg; exact hg, hc⟩

/-- membership in what either machine reports, for both orders at once -/
theorem walk_mem_iff (o : Opts) (s : Search) (t : Node) (start : WPath) (hwf : t.wf = true)
    (l : List (WPath × Node)) (hl : info o s t start = .ok l) (p : WPath) (n : Node) :
    (p, n) ∈ l ↔
      ∃ rel, p = start ++ rel ∧ t.get p = some n ∧ chain o start.length n start rel = true := by
  unfold info iterWalk at hl
  cases hs : t.get start with
  | none => simp [hs, Res.map] at hl
  | some nd =>
    cases nd with
    | file b => simp [hs, Res.map] at hl
    | dir es =>
      simp only [hs, Res.map, Res.ok.injEq] at hl
      subst hl
      rw [← selected_iff o t start es hwf hs]
      cases s with
      | breadth => exact (bfs_perm_spec o t start es hs).mem_iff
      | depth =>
        simp only []
        rw [dfs_eq_postorder_spec o t start es hs]
        exact (postorder_perm_selected o t start).mem_iff

/-- every reported path `p` satisfies `get t p = the reported node` -/
theorem paths_correct (o : Opts) (s : Search) (t : Node) (start : WPath) (hwf : t.wf = true)
    (l : List (WPath × Node)) (hl : info o s t start = .ok l) (p : WPath) (n : Node)
    (h : (p, n) ∈ l) : t.get p = some n ∧ start <+: p ∧ p ≠ start := by
  obtain ⟨rel, hp, hg, hc⟩ := (walk_mem_iff o s t start hwf l hl p n).mp h
  refine ⟨hg, ⟨rel, hp.symm⟩, ?_⟩
  intro e
  rw [e] at hp
  have : rel = [] := by simpa using hp
  subst this
  simp [chain_nil] at hc

/-- without options every resource strictly below the start is reported (nothing is skipped) -/
theorem walk_complete (s : Search) (t : Node) (start : WPath) (hwf : t.wf = true)
    (l : List (WPath × Node)) (hl : info {} s t start = .ok l) (rel : WPath) (n : Node)
    (hne : rel ≠ []) (hg : t.get (start ++ rel) = some n) : (start ++ rel, n) ∈ l :=
  (walk_mem_iff {} s t start hwf l hl _ n).mpr ⟨rel, rfl, hg, chain_none _ n start rel hne⟩

/-- the walk fails exactly when the start path is missing or a file, with the error the first
`scandir` raises; otherwise it terminates with a result (totality of both machines) -/
theorem walk_total (o : Opts) (s : Search) (t : Node) (start : WPath) :
    (∃ l, info o s t start = .ok l ∧ ∃ es, t.get start = some (.dir es)) ∨
    (info o s t start = .err .ResourceNotFound ∧ t.get start = none) ∨
    (info o s t start = .err .DirectoryExpected ∧ ∃ b, t.get start = some (.file b)) := by
  unfold info iterWalk
  cases hs : t.get start with
  | none => right; left; simp [Res.map]
  | some nd =>
    cases nd with
    | file b => right; right; simp [Res.map]
    | dir es => left; simp [Res.map]

/-! ## breadth order: the top of the tree first -/

/-- breadth order reports the resources by non-decreasing depth ("yields resources in the top of the
directory tree first") -/
theorem breadth_top_down (o : Opts) (start : WPath) (es : Ents) :
    (resources (walkBreadth o start.length [(start, es)])).Pairwise
      (fun x y => x.1.length ≤ y.1.length) :=
  bfs_sorted o start.length [(start, es)] ⟨by simp, trivial⟩

/-- breadth order reports a directory before everything inside it: nothing that comes later in the
sequence is at or above (a prefix of) an earlier path -/
theorem breadth_parent_before_contents (o : Opts) (t : Node) (start : WPath) (es : Ents)
    (hwf : t.wf = true) (hs : t.get start = some (.dir es)) :
    (resources (walkBreadth o start.length [(start, es)])).Pairwise
      (fun x y => ¬ y.1 <+: x.1) := by
  have h1 := breadth_top_down o start es
  have h2 := walk_nodup_breadth o t start es hwf hs
  rw [List.Nodup, List.pairwise_map] at h2
  refine (h1.and h2).imp ?_
  rintro x y ⟨hle, hne⟩ hp
  have hlen := hp.length_le
  have : y.1 = x.1 := hp.eq_of_length (by omega)
  exact hne this.symm

/-! ## files / dirs / info are projections of one event sequence -/

theorem files_dirs_info_projections (o : Opts) (s : Search) (t : Node) (start : WPath) :
    files o s t start = (info o s t start).map (fun l => (l.filter (fun r => !r.2.isDir)).map (·.1)) ∧
    dirs o s t start = (info o s t start).map (fun l => (l.filter (fun r => r.2.isDir)).map (·.1)) := by
  unfold files dirs info
  cases iterWalk o s t start with
  | err e => simp [Res.map]
  | ok evs => exact ⟨congrArg Res.ok (files_proj evs), congrArg Res.ok (dirs_proj evs)⟩

/-! ## each option selects exactly its documented subset -/

/-- generic form: with options `o`, the selected resources are those of the option-free walk whose
relative path satisfies `chain o` -/
theorem selected_iff_all_and_chain (o : Opts) (t : Node) (start : WPath) (es : Ents) (hwf : t.wf = true)
    (hs : t.get start = some (.dir es)) (p : WPath) (n : Node) :
    (p, n) ∈ selected o t start ↔
      (p, n) ∈ allBelow t start ∧ chain o start.length n start (relOf start p) = true := by
  rw [← selected_none_eq_all t start es hs, selected_iff o t start es hwf hs,
    selected_iff {} t start es hwf hs]
  constructor
  · rintro ⟨rel, hp, hg, hc⟩
    have hne : rel ≠ [] := by intro e; subst e; simp [chain_nil] at hc
    exact ⟨⟨rel, hp, hg, chain_none _ n start rel hne⟩, by rw [relOf_eq start rel p hp]; exact hc⟩
  · rintro ⟨⟨rel, hp, hg, _⟩, hc⟩
    rw [relOf_eq start rel p hp] at hc
    exact ⟨rel, hp, hg, hc⟩

/-- `filter`: every directory, and the files whose name matches -/
theorem filter_exact (f : Name → Bool) (t : Node) (start : WPath) (es : Ents) (hwf : t.wf = true)
    (hs : t.get start = some (.dir es)) (p : WPath) (n : Node) :
    (p, n) ∈ selected { filter := some f } t start ↔
      (p, n) ∈ allBelow t start ∧ (n.isDir = true ∨ p.getLast?.any f = true) := by
  rw [selected_iff_all_and_chain _ t start es hwf hs]
  refine and_congr_right fun hall => ?_
  rw [← selected_none_eq_all t start es hs, selected_iff {} t start es hwf hs] at hall
  obtain ⟨rel, hp, _, hc⟩ := hall
  have hne : rel ≠ [] := by intro e; subst e; simp [chain_nil] at hc
  rw [relOf_eq start rel p hp, chain_noprune _ _ n (by intros; simp [dirSel, optAll, optAny, globDirOk])
    (by intros; simp [depthOk]) start rel hne]
  have hl : p.getLast? = some (rel.getLast hne) := by
    rw [hp, List.getLast?_append, List.getLast?_eq_some_getLast hne]; simp
  simp [fileSel, optAll, optAny, globFileOk, hl]

/-- `exclude`: every directory, and the files whose name does not match -/
theorem exclude_exact (g : Name → Bool) (t : Node) (start : WPath) (es : Ents) (hwf : t.wf = true)
    (hs : t.get start = some (.dir es)) (p : WPath) (n : Node) :
    (p, n) ∈ selected { exclude := some g } t start ↔
      (p, n) ∈ allBelow t start ∧ (n.isDir = true ∨ p.getLast?.any g = false) := by
  rw [selected_iff_all_and_chain _ t start es hwf hs]
  refine and_congr_right fun hall => ?_
  rw [← selected_none_eq_all t start es hs, selected_iff {} t start es hwf hs] at hall
  obtain ⟨rel, hp, _, hc⟩ := hall
  have hne : rel ≠ [] := by intro e; subst e; simp [chain_nil] at hc
  rw [relOf_eq start rel p hp, chain_noprune _ _ n (by intros; simp [dirSel, optAll, optAny, globDirOk])
    (by intros; simp [depthOk]) start rel hne]
  have hl : p.getLast? = some (rel.getLast hne) := by
    rw [hp, List.getLast?_append, List.getLast?_eq_some_getLast hne]; simp
  simp [fileSel, optAll, optAny, globFileOk, hl]

/-- `filter_dirs`: the resources all of whose directory names below the start (the resource's own
name included when it is a directory) match — nothing inside a non-matching directory -/
theorem filter_dirs_exact (f : Name → Bool) (t : Node) (start : WPath) (es : Ents) (hwf : t.wf = true)
    (hs : t.get start = some (.dir es)) (p : WPath) (n : Node) :
    (p, n) ∈ selected { filterDirs := some f } t start ↔
      (p, n) ∈ allBelow t start ∧ ∀ c ∈ dirComps n (relOf start p), f c = true := by
  rw [selected_iff_all_and_chain _ t start es hwf hs]
  refine and_congr_right fun hall => ?_
  rw [← selected_none_eq_all t start es hs, selected_iff {} t start es hwf hs] at hall
  obtain ⟨rel, hp, _, hc⟩ := hall
  have hne : rel ≠ [] := by intro e; subst e; simp [chain_nil] at hc
  rw [relOf_eq start rel p hp, chain_dirsOnly _ _ n f (by intros; simp [dirSel, optAll, optAny, globDirOk])
    (by intros; simp [fileSel, optAll, optAny, globFileOk]) (by intros; simp [depthOk]) start rel hne]
  simp [List.all_eq_true]

/-- `exclude_dirs`: the resources none of whose directory names below the start match -/
theorem exclude_dirs_exact (g : Name → Bool) (t : Node) (start : WPath) (es : Ents) (hwf : t.wf = true)
    (hs : t.get start = some (.dir es)) (p : WPath) (n : Node) :
    (p, n) ∈ selected { excludeDirs := some g } t start ↔
      (p, n) ∈ allBelow t start ∧ ∀ c ∈ dirComps n (relOf start p), g c = false := by
  rw [selected_iff_all_and_chain _ t start es hwf hs]
  refine and_congr_right fun hall => ?_
  rw [← selected_none_eq_all t start es hs, selected_iff {} t start es hwf hs] at hall
  obtain ⟨rel, hp, _, hc⟩ := hall
  have hne : rel ≠ [] := by intro e; subst e; simp [chain_nil] at hc
  rw [relOf_eq start rel p hp, chain_dirsOnly _ _ n (fun c => !g c) (by intros; simp [dirSel, optAll, optAny, globDirOk])
    (by intros; simp [fileSel, optAll, optAny, globFileOk]) (by intros; simp [depthOk]) start rel hne]
  simp [List.all_eq_true]

/-- `max_depth = m`: the resources at relative depth `L` with `L = 1 ∨ L ≤ m` (the entries of the
start directory are always reported; `m ≤ 1` behaves like `1`) -/
theorem max_depth_exact (m : Int) (t : Node) (start : WPath) (es : Ents) (hwf : t.wf = true)
    (hs : t.get start = some (.dir es)) (p : WPath) (n : Node) :
    (p, n) ∈ selected { maxDepth := some m } t start ↔
      (p, n) ∈ allBelow t start ∧
        (p.length - start.length = 1 ∨ ((p.length - start.length : Nat) : Int) ≤ m) := by
  rw [selected_iff_all_and_chain _ t start es hwf hs]
  refine and_congr_right fun hall => ?_
  rw [← selected_none_eq_all t start es hs, selected_iff {} t start es hwf hs] at hall
  obtain ⟨rel, hp, _, hc⟩ := hall
  have hne : rel ≠ [] := by intro e; subst e; simp [chain_nil] at hc
  rw [relOf_eq start rel p hp, chain_maxDepth _ _ n m (by intros; simp [dirSel, optAll, optAny, globDirOk])
    (by intros; simp [fileSel, optAll, optAny, globFileOk]) (by intros; simp [depthOk]) start rel hne]
  have hlen : p.length - start.length = rel.length := by simp [hp]
  rw [hlen]
  simp only [decide_eq_true_eq]
  constructor
  · rintro (h | h)
    · left; exact h
    · right; omega
  · rintro (h | h)
    · left; exact h
    · right; omega

/-- **The documented subset with no recursion at all**: `(p, n)` is selected iff it is a resource of
the tree strictly below the start, every proper ancestor directory below the start passes the
directory test and is within `max_depth`, and the resource itself passes the directory test (if it
is a directory) or the file test. -/
theorem selected_iff_declarative (o : Opts) (t : Node) (start : WPath) (es : Ents) (hwf : t.wf = true)
    (hs : t.get start = some (.dir es)) (p : WPath) (n : Node) :
    (p, n) ∈ selected o t start ↔
      ∃ rel, rel ≠ [] ∧ p = start ++ rel ∧ t.get p = some n ∧
        (∀ a k b, rel = a ++ k :: b → b ≠ [] →
          dirSel o (start ++ a) k = true ∧ depthOk o (relDepth start.length (start ++ a)) = true) ∧
        (∀ a k, rel = a ++ [k] →
          (if n.isDir then dirSel o (start ++ a) k else fileSel o (start ++ a) k) = true) := by
  rw [selected_iff o t start es hwf hs]
  constructor
  · rintro ⟨rel, hp, hg, hc⟩
    obtain ⟨h1, h2, h3⟩ := (chain_iff o start.length n start rel).mp hc
    exact ⟨rel, h1, hp, hg, h2, h3⟩
  · rintro ⟨rel, h1, hp, hg, h2, h3⟩
    exact ⟨rel, hp, hg, (chain_iff o start.length n start rel).mpr ⟨h1, h2, h3⟩⟩

/-- `exclude_glob`: the resources none of whose ancestor directories below the start, nor the
resource itself, is matched — each tested on the string the code builds for it -/
theorem exclude_glob_exact (g : Str → Bool) (t : Node) (start : WPath) (es : Ents) (hwf : t.wf = true)
    (hs : t.get start = some (.dir es)) (p : WPath) (n : Node) :
    (p, n) ∈ selected { excludeGlob := some g } t start ↔
      (p, n) ∈ allBelow t start ∧
        (∀ a k b, relOf start p = a ++ k :: b → b ≠ [] → g (dirGlobPath (start ++ a) k) = false) ∧
        (∀ a k, relOf start p = a ++ [k] →
          g (if n.isDir then dirGlobPath (start ++ a) k else fileGlobPath (start ++ a) k) = false) := by
  rw [selected_iff_all_and_chain _ t start es hwf hs]
  refine and_congr_right fun hall => ?_
  rw [← selected_none_eq_all t start es hs, selected_iff {} t start es hwf hs] at hall
  obtain ⟨rel, hp, _, hc⟩ := hall
  have hne : rel ≠ [] := by intro e; subst e; simp [chain_nil] at hc
  rw [relOf_eq start rel p hp, chain_iff]
  simp only [dirSel, fileSel, depthOk, optAll, optAny, globDirOk, globFileOk, Bool.true_and, Bool.and_true,
    and_true, ne_eq, hne, not_false_eq_true, true_and]
  constructor
  · rintro ⟨h1, h2⟩
    refine ⟨fun a k b hr hb => by simpa using h1 a k b hr hb, fun a k hr => ?_⟩
    have := h2 a k hr
    cases hd : n.isDir <;> simpa [hd] using this
  · rintro ⟨h1, h2⟩
    refine ⟨fun a k b hr hb => by simpa using h1 a k b hr hb, fun a k hr => ?_⟩
    have := h2 a k hr
    cases hd : n.isDir <;> simpa [hd] using this

/-- the predicates the machines evaluate are the documented per-entry tests -/
theorem checks_are_documented_tests (o : Opts) (dir : WPath) (k : Name) (r : Int) :
    checkFile o dir k = fileSel o dir k ∧ checkOpenDir o dir k = dirSel o dir k ∧
      checkScanDir o r = depthOk o r :=
  ⟨checkFile_eq o dir k, checkOpenDir_eq o dir k, checkScanDir_eq o r⟩

/-! ## pruning is sound -/

/-- A directory rejected by `_check_open_dir` is not reported and contains nothing that is selected:
if `(p, n)` is selected and `p = d ++ k :: b` passes through (or is) the directory entry `k` of `d`
below the start, then `_check_open_dir` accepted that entry. -/
theorem prune_sound (o : Opts) (t : Node) (start : WPath) (es : Ents) (hwf : t.wf = true)
    (hs : t.get start = some (.dir es)) (a : WPath) (k : Name) (b : WPath) (n : Node)
    (hsel : (start ++ a ++ k :: b, n) ∈ selected o t start) (hdir : b ≠ [] ∨ n.isDir = true) :
    checkOpenDir o (start ++ a) k = true := by
  rw [checkOpenDir_eq]
  obtain ⟨rel, hp, _, hc⟩ := (selected_iff o t start es hwf hs _ n).mp hsel
  have hrel : rel = a ++ k :: b := by
    rw [List.append_assoc] at hp
    exact (List.append_cancel_left hp).symm
  subst hrel
  by_cases hb : b = []
  · subst hb
    have hn : n.isDir = true := by rcases hdir with h | h; exact absurd rfl h; exact h
    have := chain_last o start.length n start a k hc
    simpa [hn] using this
  · exact (chain_ancestors o start.length n start a k b hb hc).1

/-- a directory that is not scanned (`max_depth`) contributes nothing from inside -/
theorem unscanned_contributes_nothing (o : Opts) (t : Node) (start : WPath) (es : Ents) (hwf : t.wf = true)
    (hs : t.get start = some (.dir es)) (a : WPath) (k : Name) (b : WPath) (n : Node) (hb : b ≠ [])
    (hsel : (start ++ a ++ k :: b, n) ∈ selected o t start) :
    checkScanDir o (relDepth start.length (start ++ a)) = true := by
  rw [checkScanDir_eq]
  obtain ⟨rel, hp, _, hc⟩ := (selected_iff o t start es hwf hs _ n).mp hsel
  have hrel : rel = a ++ k :: b := by
    rw [List.append_assoc] at hp
    exact (List.append_cancel_left hp).symm
  subst hrel
  exact (chain_ancestors o start.length n start a k b hb hc).2

/-- **`filter_glob`: pruning is sound.**  Pruning directories by prefix acceptance drops no file that
matches a pattern exactly and passes every other option.  The matcher is a parameter of the model;
the one thing the prefix matcher must provide is `PrefixComplete` (exact match of a file's path ⇒
prefix acceptance of every directory on the way).  That is precisely what
`glob.get_matcher(accept_prefix=True)` is for, and the harness validates it on the real
`fs.glob.get_matcher` for every pattern list and path it explores.  (Before the fixes a715270 /
bf57128 the real matcher did not have this property — `**.py`, `d/*/[*/f` — and matching files were
dropped.) -/
theorem prune_sound_glob (o : Opts) (g : GlobFilter) (t : Node) (start : WPath)
    (es : Ents) (hwf : t.wf = true) (hs : t.get start = some (.dir es))
    (ho : o.filterGlob = some g) (hpc : PrefixComplete g)
    (a : WPath) (name : Name) (b : Bytes)
    (hother : (start ++ (a ++ [name]), Node.file b) ∈ selected { o with filterGlob := none } t start)
    (hex : g.exact (fileGlobPath (start ++ a) name) = true) :
    (start ++ (a ++ [name]), Node.file b) ∈ selected o t start := by
  obtain ⟨rel, hp, hg, hc⟩ := (selected_iff _ t start es hwf hs _ _).mp hother
  have hrel : rel = a ++ [name] := (List.append_cancel_left hp).symm
  subst hrel
  exact (selected_iff o t start es hwf hs _ _).mpr
    ⟨_, rfl, hg, chain_glob_complete o g ho hpc start.length b start a name hc hex⟩

/-- conversely a file is reported only if its path matches `filter_glob` *exactly* (prefix
acceptance is for directories only — fix a47d87a) -/
theorem filter_glob_file_needs_exact (o : Opts) (g : GlobFilter) (t : Node) (start : WPath)
    (es : Ents) (hwf : t.wf = true) (hs : t.get start = some (.dir es)) (ho : o.filterGlob = some g)
    (a : WPath) (name : Name) (b : Bytes)
    (hsel : (start ++ (a ++ [name]), Node.file b) ∈ selected o t start) :
    g.exact (fileGlobPath (start ++ a) name) = true := by
  obtain ⟨rel, hp, _, hc⟩ := (selected_iff o t start es hwf hs _ _).mp hsel
  have hrel : rel = a ++ [name] := (List.append_cancel_left hp).symm
  subst hrel
  have := chain_last o start.length (.file b) start a name hc
  simp only [Node.isDir, Bool.false_eq_true, if_false, fileSel, globFileOk, ho, Bool.and_eq_true] at this
  exact this.1.2

/-- with `filter_glob` alone and a complete prefix matcher, the reported files are exactly the files
below the start whose path matches -/
theorem filter_glob_files_exact (g : GlobFilter) (hpc : PrefixComplete g) (t : Node) (start : WPath)
    (es : Ents) (hwf : t.wf = true) (hs : t.get start = some (.dir es))
    (a : WPath) (name : Name) (b : Bytes) :
    (start ++ (a ++ [name]), Node.file b) ∈ selected { filterGlob := some g } t start ↔
      (start ++ (a ++ [name]), Node.file b) ∈ allBelow t start ∧
        g.exact (fileGlobPath (start ++ a) name) = true := by
  constructor
  · intro h
    exact ⟨(selected_sublist_all _ t start).subset h,
      filter_glob_file_needs_exact _ g t start es hwf hs rfl a name b h⟩
  · rintro ⟨hall, hex⟩
    rw [← selected_none_eq_all t start es hs] at hall
    exact prune_sound_glob { filterGlob := some g } g t start es hwf hs rfl hpc a name b hall hex

/-- the hypothesis `PrefixComplete` cannot be dropped: an exact matcher that accepts the file `/a/x`
with a prefix matcher that does not accept the directory `/a` (the shape the real matcher had for
`**.py` before fix a715270) — the file matches exactly, passes everything else, and is not selected -/
theorem prefix_completeness_needed :
    ∃ (g : GlobFilter) (t : Node) (p : WPath) (b : Bytes),
      t.wf = true ∧ t.get p = some (.file b) ∧ g.exact (render p) = true ∧
      (p, Node.file b) ∈ selected {} t [] ∧
      (p, Node.file b) ∉ selected { filterGlob := some g } t [] := by
  refine ⟨⟨fun s => s == "/a/x".toList, fun s => s == "/a/x".toList⟩,
    .dir [("a".toList, .dir [("x".toList, .file [])])], ["a".toList, "x".toList], [], ?_, ?_, ?_, ?_, ?_⟩
  · decide
  · rfl
  · decide
  · simp [selected, Node.get, selEnts, fileSel, dirSel, depthOk, optAll, optAny, globDirOk, globFileOk]
  · simp [selected, Node.get, selEnts, dirSel, optAll, optAny, globDirOk, dirGlobPath,
      render, Fs.Path.combine, Fs.Path.joinWith, Fs.Path.rstripSlash, Fs.Path.lstripSlash]

/-- regression of C13-filter-glob-prune (fixed by a715270): on the tree `/a/x` with the exact matcher
of the old counterexample, *every* complete prefix matcher lets the walk report the file -/
theorem prune_glob_repaired (pref : Str → Bool)
    (hpc : PrefixComplete ⟨fun s => s == "/a/x".toList, pref⟩) :
    (["a".toList, "x".toList], Node.file []) ∈
      selected { filterGlob := some ⟨fun s => s == "/a/x".toList, pref⟩ }
        (.dir [("a".toList, .dir [("x".toList, .file [])])]) [] := by
  have h := prune_sound_glob { filterGlob := some ⟨fun s => s == "/a/x".toList, pref⟩ } _
    (.dir [("a".toList, .dir [("x".toList, .file [])])]) [] _ (by decide) rfl rfl hpc
    ["a".toList] "x".toList []
    (by simp [selected, Node.get, selEnts, fileSel, dirSel, depthOk, optAll, optAny, globDirOk, globFileOk])
    (by simp [fileGlobPath, render, Fs.Path.combine, Fs.Path.joinWith, Fs.Path.rstripSlash, Fs.Path.lstripSlash])
  simpa using h

/-- regression of C13-filter-glob-file-prefix (fixed by a47d87a): with `filter_glob=["foo/bar/*.py"]`
(exact: only `/foo/bar/<x>.py`‑like strings, here none of the tree; prefix: `/foo`, `/foo/bar`) the
*file* `/foo/bar` is no longer reported — only the directory `/foo` is -/
theorem file_prefix_not_accepted_repaired :
    (selected { filterGlob := some ⟨fun s => s == "/foo/bar/q.py".toList,
        fun s => s == "/foo".toList || s == "/foo/bar".toList⟩ }
      (.dir [("foo".toList, .dir [("bar".toList, .file [])])]) []).map (·.1) = [["foo".toList]] := by
  simp [selected, Node.get, selEnts, fileSel, dirSel, depthOk, optAll, optAny, globDirOk, globFileOk,
    dirGlobPath, fileGlobPath, render, Fs.Path.combine, Fs.Path.joinWith, Fs.Path.rstripSlash,
    Fs.Path.lstripSlash]

/-! ## `walk()`: the Steps group the reported resources by directory -/

/-- The Steps of `Walker.walk` hold exactly the info events of the underlying walk (each Step
standing for the pairs `(step.path, info)`, directories listed in `dirs`, files in `files`), one
Step per end marker, in the order of the end markers; nothing is left over in `dir_info`. -/
theorem steps_group_by_dir (o : Opts) (s : Search) (t : Node) (start : WPath) (evs : List Event)
    (hi : iterWalk o s t start = .ok evs) :
    ∃ steps, walk o s t start = .ok steps ∧
      (steps.flatMap stepFlat).Perm (infoEvents evs) ∧
      steps.map (·.path) = markers evs ∧
      (∀ st ∈ steps, (∀ i ∈ st.dirs, i.2.isDir = true) ∧ (∀ i ∈ st.files, i.2.isDir = false)) := by
  refine ⟨(regroup evs []).1, by simp [walk, hi, Res.map], ?_, regroup_paths evs [], regroup_kinds evs []⟩
  have hclosed : closed evs := by
    unfold iterWalk at hi
    cases hs : t.get start with
    | none => simp [hs] at hi
    | some nd =>
      cases nd with
      | file b => simp [hs] at hi
      | dir es =>
        simp only [hs, Res.ok.injEq] at hi
        subst hi
        cases s with
        | breadth => exact walkBreadth_closed _ _ _
        | depth =>
          refine (walkDepth_closed o start.length [(start, es, none)] ?_).1
          exact ⟨(by intro pd i h; cases h), trivial⟩
  have hcons := regroup_conserves evs [] (by simp [pendKeys])
  have hfin := regroup_final_empty evs [] hclosed (by simp [pendKeys])
  rw [hfin] at hcons
  simpa [pendFlat] using hcons

/-- the resources of a walk are its info events with the path joined: `combine(dir, info.name)` -/
theorem resources_are_info_events (evs : List Event) :
    resources evs = (infoEvents evs).map (fun x => (x.1 ++ [x.2.1], x.2.2)) :=
  resources_eq_infoEvents evs

/-! ## the strings of the code on rendered component paths -/

/-- `_calculate_depth` of the path string of a clean component list is its number of components, so
the relative depth the machines compute is `len(dir) - len(start) + 1` -/
theorem calculate_depth_counts_components (cs : WPath) (h : ∀ c ∈ cs, cleanName c = true) :
    calculateDepth (render cs) = cs.length :=
  WalkPathLemmas.calculateDepth_render cs (fun c hc => WalkPathLemmas.cleanComp_of_cleanName c (h c hc))

/-- the glob string of a directory entry is its absolute path -/
theorem glob_path_of_dir_entry (dir : WPath) (k : Name) (h : ∀ c ∈ dir ++ [k], cleanName c = true) :
    dirGlobPath dir k = render (dir ++ [k]) :=
  WalkPathLemmas.dirGlobPath_eq dir k (fun c hc => WalkPathLemmas.cleanComp_of_cleanName c (h c hc))

/-- the glob string of a file entry is its absolute path — in every directory, the root included
(fix a47d87a; it used to be `"//name"` in the root) -/
theorem glob_path_of_file_entry (dir : WPath) (k : Name) (h : ∀ c ∈ dir ++ [k], cleanName c = true) :
    fileGlobPath dir k = render (dir ++ [k]) :=
  WalkPathLemmas.fileGlobPath_eq dir k (fun c hc => WalkPathLemmas.cleanComp_of_cleanName c (h c hc))

/-- regression of C13-glob-root-double-slash: the old counterexample now evaluates to the real path -/
theorem glob_path_of_root_file_repaired :
    fileGlobPath [] "x.py".toList = "/x.py".toList ∧ fileGlobPath [] "x.py".toList = render ["x.py".toList] := by
  constructor <;> decide

/-! ## the start path is normalised by every entry point -/

/-- `_iter_walk` normalises the start path (`abspath(normpath(path))`, fix 429ed79): every spelling
`"/" + "/".join(cs)` or `"/".join(cs)` of a clean component list starts the same walk, for `info`,
`files`, `dirs` and `walk` alike -/
theorem start_path_normalised (o : Opts) (s : Search) (t : Node) (absolute : Bool) (cs : WPath)
    (h : ∀ c ∈ cs, cleanName c = true) :
    iterWalkStr o s t (PathLemmas.mkp absolute cs) = iterWalk o s t cs ∧
    infoStr o s t (PathLemmas.mkp absolute cs) = info o s t cs ∧
    filesStr o s t (PathLemmas.mkp absolute cs) = files o s t cs ∧
    dirsStr o s t (PathLemmas.mkp absolute cs) = dirs o s t cs ∧
    walkStr o s t (PathLemmas.mkp absolute cs) = walk o s t cs := by
  have hs := WalkPathLemmas.startOf_mkp absolute cs
    (fun c hc => WalkPathLemmas.cleanComp_of_cleanName c (h c hc))
  simp [iterWalkStr, infoStr, filesStr, dirsStr, walkStr, hs, Res.bind]

/-- regression of C13-start-path-not-normalised: the relative spelling `"a"` and the redundant
spelling `"a/../a/"` resolve to the component path `["a"]` -/
theorem start_path_normalised_repaired :
    startOf "a".toList = .ok ["a".toList] ∧ startOf "a/../a/".toList = .ok ["a".toList] ∧
    startOf "".toList = .ok [] ∧ startOf "../a".toList = .err .IllegalBackReference := by
  refine ⟨?_, ?_, ?_, ?_⟩ <;> decide

/-! ## the work-list of the code holds paths only -/

/-- `_walk_breadth` keeps only directory *paths* in its queue and re-reads each directory with
`scandir`; the model machine carries the listing instead.  For a well-formed tree the two produce
the same event sequence (the carried listing is what `scandir` would read), with fuel = the number
of nodes below the start, so the paths-only machine never runs out of fuel and never hits a scan
error. -/
theorem breadth_paths_only_machine (o : Opts) (t : Node) (start : WPath) (es : Ents) (hwf : t.wf = true)
    (hs : t.get start = some (.dir es)) (fuel : Nat) (hf : 1 + entsCount es ≤ fuel) :
    walkBreadthPaths o start.length t fuel [start] = walkBreadth o start.length [(start, es)] := by
  have := walkBreadthPaths_eq o start.length t hwf [(start, es)] fuel
    (by intro x hx; simp only [List.mem_singleton] at hx; subst hx; exact hs)
    (by simpa [qsize] using hf)
  simpa using this

/-- in particular for the fuel the driver uses (the number of nodes of the whole tree) -/
theorem iter_walk_paths_eq (o : Opts) (t : Node) (start : WPath) (es : Ents) (hwf : t.wf = true)
    (hs : t.get start = some (.dir es)) :
    iterWalkPaths o t start = walkBreadth o start.length [(start, es)] := by
  have := get_count start t _ hs
  simp only [Node.count] at this
  exact breadth_paths_only_machine o t start es hwf hs t.count this

/-! ## the hypotheses are satisfiable: a concrete non-trivial instance -/

/-- `/a/x.py`, `/a/b/y.py`, `/x.py` -/
def exEnts : Ents :=
  [("a".toList, .dir [("x.py".toList, .file []), ("b".toList, .dir [("y.py".toList, .file [])])]),
   ("x.py".toList, .file [])]
def exTree : Node := .dir exEnts

example : exTree.wf = true := by decide
example : exTree.get [] = some (.dir exEnts) := rfl
example : exTree.get ["a".toList] =
    some (.dir [("x.py".toList, .file []), ("b".toList, .dir [("y.py".toList, .file [])])]) := rfl
example : ∃ l, info {} .breadth exTree [] = .ok l := by simp [info, iterWalk, exTree, Node.get, Res.map]
/-- breadth order, no options: top level first -/
example : (resources (walkBreadth {} 0 [([], exEnts)])).map (·.1) =
    [["a".toList], ["x.py".toList], ["a".toList, "x.py".toList], ["a".toList, "b".toList],
     ["a".toList, "b".toList, "y.py".toList]] := by
  simp [walkBreadth, scanBreadth, exEnts, checkOpenDir, checkFile, checkScanDir, optAny, optAll, globDirOk, globFileOk, resources]
/-- depth order with `max_depth = 2`: `/a/b` is reported but not scanned, `/a` after its contents -/
example : (resources (walkDepth { maxDepth := some 2 } 0 [([], exEnts, none)])).map (·.1) =
    [["a".toList, "x.py".toList], ["a".toList, "b".toList], ["a".toList], ["x.py".toList]] := by
  simp [walkDepth, exEnts, checkOpenDir, checkFile, checkScanDir, optAny, optAll, globDirOk, globFileOk, resources, relDepth]
/-- `filter_dirs` that rejects `b`: nothing below `/a/b` -/
example : (selected { filterDirs := some (fun k => k == "a".toList) } exTree []).map (·.1) =
    [["a".toList], ["a".toList, "x.py".toList], ["x.py".toList]] := by
  simp [selected, exTree, exEnts, Node.get, selEnts, fileSel, dirSel, depthOk, optAny, optAll, globDirOk, globFileOk]
/-- `PrefixComplete` is satisfiable (and is what a correct prefix matcher provides) -/
example : PrefixComplete ⟨fun s => s == "/a/x.py".toList, fun _ => true⟩ := fun _ _ _ _ _ => rfl
/-- the hypotheses of `prune_sound` are met non-trivially: `/a/b/y.py` is selected without options -/
example : (["a".toList, "b".toList, "y.py".toList], Node.file []) ∈ selected {} exTree [] := by
  simp [selected, exTree, exEnts, Node.get, selEnts, fileSel, dirSel, depthOk, optAny, optAll, globDirOk, globFileOk]

end Fs.C13
