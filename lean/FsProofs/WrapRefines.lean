/-
  C01 — "every nesting of wrappers/compositions": WrapFS and SubFS **as coded**
  (FsModel.Wrap = transcription of fs/wrapfs.py, fs/subfs.py, `unwrap_errors`) preserve refinement
  of the reference semantics, so every nesting depth of SubFS over MemoryFS-as-coded refines
  `Ref.step` (through `MemRefines.mem_refines_ref`).

  Vocabulary (FsProofs/Lemmas/WrapLemmas.lean, WrapSimLemmas.lean):
  * `absOf cs`            the path string `"/" ++ "/".join(cs)`;
  * `setAt t sub x`       `t` with the node at `sub` replaced by `x` (`Node.set`; the root when `sub = []`);
  * `graft s sub (s', o)` `({ s with root := setAt s.root sub s'.root }, o)`: the outcome of a step on the
                          sub-tree put back into the parent — NOTHING outside `sub` changes;
  * `V es`                the open reference filesystem whose root directory has the entries `es`;
  * `nulRootTest op`      `removedir`/`removetree` of a path that contains NUL and climbs (or, for `removedir`,
                          normalises to the root): `WrapFS` runs `normpath` on it before `delegate_path`;
  * `mapPaths f op`       the same call with every path argument `p` replaced by `f p`.
  Helper lemmas live in FsProofs/Lemmas/Wrap*.lean; this file holds the property theorems.
-/
import FsModel.Wrap
import FsModel.Mem
import FsProofs.Lemmas.WrapSimOps
import FsProofs.Lemmas.WrapExact

namespace Fs.WrapRefines
open Fs Fs.Ref Fs.Wrap Fs.WrapLemmas Fs.MemRefines

/-! ## `unwrap_errors` -/

/-- `unwrap_errors` rewrites the `path` attribute of the exception it re-raises and nothing else:
the class (all the model's `Err` records) is preserved, for either form of `path_replace` -/
theorem unwrap_errors_preserves_class (r : PathReplace) (e : PathErr) : (unwrapErrors r e).cls = e.cls := by
  unfold unwrapErrors
  cases e.path with
  | none => rfl
  | some p => cases r <;> rfl

/-! ## (e) closed wrappers -/

/-- every method of a closed wrapper raises FilesystemClosed — `self.check()` comes first in each —
and neither the wrapper nor the wrapped filesystem changes; for every delegate, inner filesystem,
operation and path (`close` itself stays idempotent) -/
theorem wrapper_closed_is_final {σ : Type} (closing : Bool) (dp : Delegate) (F : FS σ) (w : WState σ) (op : Op)
    (hc : w.closed = true) (hop : op ≠ .close) :
    Wrap.step closing dp F w op = (w, .err .FilesystemClosed) := by
  cases op <;> first
    | exact absurd rfl hop
    | simp [Wrap.step, hc]

/-- `FS.close` of a WrapFS / SubFS sets the wrapper's own flag only: the wrapped filesystem is
not touched (and stays usable) -/
theorem wrapper_close_keeps_inner {σ : Type} (dp : Delegate) (F : FS σ) (w : WState σ) :
    Wrap.step false dp F w .close = ({ w with closed := true }, .ok .unit) := rfl

/-- `ClosingSubFS.close` closes the parent first, then itself: afterwards the parent answers every
call with FilesystemClosed -/
theorem closing_subfs_closes_parent (subDir : Str) (w : WState State) :
    let r := Wrap.Sub.step true subDir Ref.step w .close
    r.2 = .ok .unit ∧ r.1.closed = true ∧ r.1.inner.closed = true ∧ r.1.inner.root = w.inner.root ∧
    ∀ op, op ≠ .close → Ref.step r.1.inner op = (r.1.inner, .err .FilesystemClosed) := by
  refine ⟨rfl, rfl, rfl, rfl, ?_⟩
  intro op hop
  exact QueryLemmas.step_closed _ op hop rfl

/-- on an open wrapper a call is the body after `self.check()`; the wrapper's flag is kept -/
theorem open_wrapper_step {σ : Type} (closing : Bool) (dp : Delegate) (F : FS σ) (w : WState σ) (op : Op)
    (hc : w.closed = false) (hop : op ≠ .close) :
    Wrap.step closing dp F w op = ({ w with inner := (stepOpen dp F w.inner op).1 }, (stepOpen dp F w.inner op).2) := by
  cases op <;> first
    | exact absurd rfl hop
    | simp [Wrap.step, hc]


/-! ## (a) WrapFS is transparent -/

/-- the methods `WrapFS` implements as one delegated call and nothing else -/
def plain : Op → Bool
  | .getinfo _ | .isempty _ | .removedir _ | .removetree _ | .copy _ _ _ | .copydir _ _ _ | .close => false
  | _ => true

/-- **wrapfs_transparent** (full statement: `Wrap.step false idDelegate F w op` gives the output of
`F w.inner op` and leaves `F`'s resulting state as the inner state, for EVERY operation).
Proved for every inner filesystem `F`, every path string and the 19 methods that are a single
delegated call (`plain`); the six methods in which `WrapFS` does something of its own (`getinfo`
root name, `isempty` through `scandir`, `removedir`/`removetree` root tests, `copy`/`copydir` guards +
module-level helpers) are transparent only over an inner filesystem that itself satisfies the
contract: `wrapfs_transparent_over_ref` and the counterexample below. -/
theorem wrapfs_transparent_partial {σ : Type} (F : FS σ) (w : WState σ) (op : Op)
    (hc : w.closed = false) (hp : plain op = true) :
    Wrap.step false idDelegate F w op = ({ w with inner := (F w.inner op).1 }, (F w.inner op).2) := by
  have hop : op ≠ .close := by intro h; subst h; simp [plain] at hp
  rw [open_wrapper_step false idDelegate F w op hc hop]
  cases op <;> simp only [plain, Bool.false_eq_true] at hp <;>
    simp [stepOpen, direct1, direct2, idDelegate]

/-- the full statement is false for an arbitrary inner filesystem: a (contract-violating) inner
filesystem whose `exists` lies makes `WrapFS.copy(overwrite=False)` differ from the inner `copy` -/
theorem wrapfs_transparent_counterexample :
    ∃ (F : FS State) (w : WState State) (op : Op), w.closed = false ∧
      (Wrap.step false idDelegate F w op).2 ≠ (F w.inner op).2 := by
  refine ⟨fun s op => match op with
      | .exists_ _ => (s, .ok (.bool true))
      | _ => Ref.step s op,
    ⟨false, ⟨.dir [("a".toList, .file [1])], false⟩⟩, .copy "a".toList "b".toList false, rfl, ?_⟩
  decide

/-- … and over the reference itself **every** method of an open `WrapFS` is transparent — same output,
same state — on valid path arguments, `removetree("/")` (the scan-and-remove loop) and `getinfo("/")`
included; the one decided exception is the `copydir` class order (`excCopydir`: both fail) -/
theorem wrapfs_transparent_over_ref (es : Ents) (hwf : entsWf es = true) (op : Op) (hop : op ≠ .close)
    (hval : ∀ p ∈ op.paths, ∃ cs, validate p = .ok cs) (hx : ¬ excCopydir es op) :
    Wrap.step false idDelegate Ref.step ⟨false, V es⟩ op =
      (⟨false, (Ref.step (V es) op).1⟩, (Ref.step (V es) op).2) := by
  rw [open_wrapper_step false _ Ref.step _ op rfl hop]
  have h := wrap_id_exact es hwf op hop hval hx
  simp only at h ⊢
  rw [h]

/-! ## climbing paths (C03 at the level of whole calls) -/

/-- what `SubFS.delegate_path` hands to the parent lies under the sub-directory and is clean
(= `C03.sub_delegate_under`, restated over `Ref.validate`): it validates, in the parent, to the
sub-directory's components followed by the resolved components of the user's path -/
theorem sub_delegate_under (sub : List Name) (hs : ∀ c ∈ sub, cleanName c = true) (p q : Str)
    (h : Wrap.Sub.delegate (absOf sub) p = .ok q) :
    ∃ cs, PathSpec.resolve (Path.splitSlash p) = some cs ∧ PathSpec.Clean cs ∧ q = absOf (sub ++ cs) := by
  rcases delegate_cases sub (clean_of_cleanName hs) p with ⟨cs, _, hr, hd, _⟩ | ⟨_, _, hd⟩
  · rw [hd] at h; cases h
    exact ⟨cs, hr, PathLemmas.resolve_result_clean p cs hr, rfl⟩
  · rw [hd] at h; cases h

/-- `delegate_path` as repaired: it fails exactly when the reference's `validate` fails, with the
same class (NUL first, then climbing), and otherwise prefixes the validated components -/
theorem sub_delegate_is_validate (sub : List Name) (hs : ∀ c ∈ sub, cleanName c = true) (p : Str) :
    Wrap.Sub.delegate (absOf sub) p =
      (match validate p with
       | .ok cs => .ok (absOf (sub ++ cs))
       | .err e => .err e) :=
  delegate_eq_validate (clean_of_cleanName hs) p

/-- **a path argument that does not validate — it climbs, or contains NUL — in any argument position
of any method is rejected before the wrapped filesystem is touched**: no inner call is made, whatever
the inner filesystem is; the class is IllegalBackReference, InvalidCharsInPath, or (only
`removedir` of a NUL path that normalises to the root) RemoveRootError -/
theorem sub_invalid_path_rejected {σ : Type} (F : FS σ) (sub : List Name) (hs : ∀ c ∈ sub, cleanName c = true)
    (w : WState σ) (op : Op) (hc : w.closed = false)
    (hinv : ∃ p ∈ op.paths, ∃ e, validate p = .err e) :
    ∃ e, Wrap.Sub.step false (absOf sub) F w op = (w, .err e) ∧
      (¬ nulRootTest op → ∃ p ∈ op.paths, validate p = .err e) := by
  have hop : op ≠ .close := by
    intro h; subst h; obtain ⟨p, hp, _⟩ := hinv; simp [Op.paths] at hp
  obtain ⟨e, hW, hrest⟩ := stepOpen_invalid F sub (clean_of_cleanName hs) w.inner op hinv
  refine ⟨e, ?_, fun hx => (hrest hx).1⟩
  rw [Wrap.Sub.step, open_wrapper_step false _ F w op hc hop]
  rw [Wrap.Sub.stepOpen] at hW
  rw [hW]

/-- in particular a climbing path (`C03`): IllegalBackReference or, when it also contains NUL,
InvalidCharsInPath — never an inner call -/
theorem sub_climbing_rejected {σ : Type} (F : FS σ) (sub : List Name) (hs : ∀ c ∈ sub, cleanName c = true)
    (w : WState σ) (op : Op) (hc : w.closed = false)
    (hcl : ∃ p ∈ op.paths, PathSpec.climbs (Path.splitSlash p)) :
    ∃ e, Wrap.Sub.step false (absOf sub) F w op = (w, .err e) := by
  obtain ⟨p, hp, hr⟩ := hcl
  have hinv : ∃ p ∈ op.paths, ∃ e, validate p = .err e := by
    refine ⟨p, hp, ?_⟩
    cases hv : validate p with
    | err e => exact ⟨e, rfl⟩
    | ok cs => have := validate_ok_resolve hv; rw [hr] at this; cases this
  obtain ⟨e, h, _⟩ := sub_invalid_path_rejected F sub hs w op hc hinv
  exact ⟨e, h⟩

/-! ## (d) wrapping preserves refinement -/

/-- the refinement statement of `MemRefines.mem_refines_ref`, for any step function -/
def RefinesRef (F : FS State) : Prop :=
  ∀ (s : State) (op : Op), s.closed = false → s.root.isDir = true → s.root.wf = true → ¬ knownDeviation op →
    (Ref.step s op).2 ≠ .err .OperationFailed →
    ((F s op).2.isOk = (Ref.step s op).2.isOk) ∧
    ((Ref.step s op).2.isOk = true → F s op = Ref.step s op) ∧
    (∀ e, (F s op).2 = .err e → e ∈ adm s op ∧ (F s op).1 = s)

theorem ref_refines_ref : RefinesRef Ref.step := by
  intro s op _ hd _ _ hl
  refine ⟨rfl, fun _ => rfl, fun e he => ⟨?_, C06.failed_step_unchanged s op e he⟩⟩
  rcases C06.ref_error_truthful s op e hd he with h | h
  · exact h
  · subst h; exact absurd he hl

theorem mem_refines : RefinesRef Mem.step := fun s op hc hd hwf hk hl => mem_refines_ref s op hc hd hwf hk hl

/-- **wrap_preserves_refinement.**  Let `F` be ANY filesystem that refines the reference in the
sense of `mem_refines_ref` (same verdict; on success the same value and tree; on failure an
admissible class and an unchanged state).  Then an open `SubFS` at `sub` over `F`, on a parent state
`s` whose `sub` is a directory (entries `es`), behaves like the reference on the SUB-TREE taken as a
root, for every operation and every path argument (climbing and NUL ones included; `nulRootTest` aside):
* same verdict as `Ref.step (V es) op`;
* on success the same value, and the parent tree is `s.root` with the sub-tree replaced by the
  reference's resulting tree — nothing else changes (`graft`);
* on failure the parent state is unchanged and the class is admissible for the view.
Excluded, as in `mem_refines_ref`: the known `movedir`-into-ancestor deviation class and the loose
mid-way failure of a bulk merge. -/
theorem wrap_preserves_refinement (F : FS State) (hF : RefinesRef F) (sub : List Name) (s : State) (es : Ents)
    (op : Op) (hc : s.closed = false) (hwf : s.root.wf = true) (hdir : s.root.get sub = some (.dir es))
    (hop : op ≠ .close) (hnn : ¬ nulRootTest op) (hk : ¬ knownDeviation op)
    (hl : (Ref.step (V es) op).2 ≠ .err .OperationFailed) :
    ((Wrap.Sub.stepOpen (absOf sub) F s op).2.isOk = (Ref.step (V es) op).2.isOk) ∧
    ((Ref.step (V es) op).2.isOk = true →
      Wrap.Sub.stepOpen (absOf sub) F s op = graft s sub (Ref.step (V es) op)) ∧
    (∀ e, (Wrap.Sub.stepOpen (absOf sub) F s op).2 = .err e →
      (Wrap.Sub.stepOpen (absOf sub) F s op).1 = s ∧ e ∈ adm (V es) op) := by
  have hsub := names_clean_of_get sub _ _ hwf hdir
  have hS : Sim F [] := by
    intro s es op G hop _ hk hl
    have hs : s = V es := by
      obtain ⟨root, cl⟩ := s
      have h1 := G.dir; have h2 := G.opn
      simp only [Node.get, Option.some.injEq] at h1
      simp only at h2
      simp [V, h1, h2]
    subst hs
    obtain ⟨h1, h2, h3⟩ := hF (V es) op rfl rfl G.wf hk hl
    refine ⟨h1, fun hok => ?_, fun e he => ⟨(h3 e he).2, (h3 e he).1⟩⟩
    rw [h2 hok]; exact (graft_nil _ _ (step_closed_same _ _ hop)).symm
  have := sim_sub (sub := sub) hS s es op ⟨hc, hwf, by simpa using hdir, by simpa using hsub⟩ hop hnn hk hl
  simpa [SimAt] using this

/-- (d) instantiated: **SubFS over MemoryFS as coded refines the reference** on the sub-tree -/
theorem sub_mem_refines_ref (sub : List Name) (s : State) (es : Ents) (op : Op) (hc : s.closed = false)
    (hwf : s.root.wf = true) (hdir : s.root.get sub = some (.dir es))
    (hop : op ≠ .close) (hnn : ¬ nulRootTest op) (hk : ¬ knownDeviation op)
    (hl : (Ref.step (V es) op).2 ≠ .err .OperationFailed) :
    ((Wrap.Sub.stepOpen (absOf sub) Mem.step s op).2.isOk = (Ref.step (V es) op).2.isOk) ∧
    ((Ref.step (V es) op).2.isOk = true →
      Wrap.Sub.stepOpen (absOf sub) Mem.step s op = graft s sub (Ref.step (V es) op)) ∧
    (∀ e, (Wrap.Sub.stepOpen (absOf sub) Mem.step s op).2 = .err e →
      (Wrap.Sub.stepOpen (absOf sub) Mem.step s op).1 = s ∧ e ∈ adm (V es) op) :=
  wrap_preserves_refinement Mem.step mem_refines sub s es op hc hwf hdir hop hnn hk hl

/-! ## (c) any nesting depth -/

/-- the directory of the base filesystem a chain of nested SubFS objects shows; the chain is
outermost-first (`fs.opendir(s₁).opendir(s₂)…` is `[sₙ, …, s₁]`, as in `C03.nested_sub_eq`) -/
def nestPath (subs : List (List Name)) : List Name := subs.reverse.flatten

theorem sim_nest (F : FS State) (hF : Sim F []) : ∀ subs : List (List Name),
    Sim (Wrap.Sub.nest F (subs.map absOf)) (nestPath subs) := by
  intro subs
  induction subs with
  | nil => simpa [Wrap.Sub.nest, nestPath] using hF
  | cons sub rest ih =>
    have := sim_sub (sub := sub) ih
    simpa [Wrap.Sub.nest, nestPath, List.reverse_cons, List.flatten_append] using this

/-- **nested_sub_simulates** — by induction on the chain: for ANY depth of nesting of SubFS objects
over a filesystem that refines the reference, the outermost view behaves like the reference on the
sub-tree at `s₁ ++ … ++ sₙ` of the base tree (statement as in `wrap_preserves_refinement`) -/
theorem nested_sub_simulates (F : FS State) (hF : RefinesRef F) (subs : List (List Name)) (s : State) (es : Ents)
    (op : Op) (hc : s.closed = false) (hwf : s.root.wf = true)
    (hdir : s.root.get (nestPath subs) = some (.dir es))
    (hop : op ≠ .close) (hnn : ¬ nulRootTest op) (hk : ¬ knownDeviation op)
    (hl : (Ref.step (V es) op).2 ≠ .err .OperationFailed) :
    let W := Wrap.Sub.nest F (subs.map absOf)
    ((W s op).2.isOk = (Ref.step (V es) op).2.isOk) ∧
    ((Ref.step (V es) op).2.isOk = true → W s op = graft s (nestPath subs) (Ref.step (V es) op)) ∧
    (∀ e, (W s op).2 = .err e → (W s op).1 = s ∧ e ∈ adm (V es) op) := by
  have hS : Sim F [] := by
    intro s es op G hop _ hk hl
    have hs : s = V es := by
      obtain ⟨root, cl⟩ := s
      have h1 := G.dir; have h2 := G.opn
      simp only [Node.get, Option.some.injEq] at h1
      simp only at h2
      simp [V, h1, h2]
    subst hs
    obtain ⟨h1, h2, h3⟩ := hF (V es) op rfl rfl G.wf hk hl
    refine ⟨h1, fun hok => ?_, fun e he => ⟨(h3 e he).2, (h3 e he).1⟩⟩
    rw [h2 hok]; exact (graft_nil _ _ (step_closed_same _ _ hop)).symm
  exact sim_nest F hS subs s es op ⟨hc, hwf, hdir, names_clean_of_get _ _ _ hwf hdir⟩ hop hnn hk hl

/-- every nesting depth of SubFS over the reference itself … -/
theorem nested_sub_over_ref (subs : List (List Name)) (s : State) (es : Ents) (op : Op) (hc : s.closed = false)
    (hwf : s.root.wf = true) (hdir : s.root.get (nestPath subs) = some (.dir es))
    (hop : op ≠ .close) (hnn : ¬ nulRootTest op)
    (hk : ¬ knownDeviation op) (hl : (Ref.step (V es) op).2 ≠ .err .OperationFailed) :
    let W := Wrap.Sub.nest Ref.step (subs.map absOf)
    ((W s op).2.isOk = (Ref.step (V es) op).2.isOk) ∧
    ((Ref.step (V es) op).2.isOk = true → W s op = graft s (nestPath subs) (Ref.step (V es) op)) ∧
    (∀ e, (W s op).2 = .err e → (W s op).1 = s ∧ e ∈ adm (V es) op) :=
  nested_sub_simulates Ref.step ref_refines_ref subs s es op hc hwf hdir hop hnn hk hl

/-- … and **over MemoryFS as coded** (`MemRefines.mem_refines_ref` + induction on the depth) -/
theorem nested_sub_over_mem (subs : List (List Name)) (s : State) (es : Ents) (op : Op) (hc : s.closed = false)
    (hwf : s.root.wf = true) (hdir : s.root.get (nestPath subs) = some (.dir es))
    (hop : op ≠ .close) (hnn : ¬ nulRootTest op)
    (hk : ¬ knownDeviation op) (hl : (Ref.step (V es) op).2 ≠ .err .OperationFailed) :
    let W := Wrap.Sub.nest Mem.step (subs.map absOf)
    ((W s op).2.isOk = (Ref.step (V es) op).2.isOk) ∧
    ((Ref.step (V es) op).2.isOk = true → W s op = graft s (nestPath subs) (Ref.step (V es) op)) ∧
    (∀ e, (W s op).2 = .err e → (W s op).1 = s ∧ e ∈ adm (V es) op) :=
  nested_sub_simulates Mem.step mem_refines subs s es op hc hwf hdir hop hnn hk hl


/-! ## (b) a SubFS over the reference IS the reference on its sub-tree -/

/-- the filesystem a SubFS object at a directory with entries `es` shows: the sub-tree as a root,
closed when the wrapper is -/
def viewW (w : WState State) (es : Ents) : State := ⟨.dir es, w.closed⟩

/-- **sub_simulates.**  `sub` a path that is a directory (entries `es`) in the open, well-formed parent
`w.inner` (so its components are legal names).  For EVERY operation (close included, open or closed wrapper) and every
path argument (climbing and NUL ones included — no `noNul` hypothesis since the repair of
`SubFS.delegate_path`, /repo 6fe32c8) outside three decided exception classes,
one call on the `SubFS` object is one call of the reference on the sub-tree taken as a root:
* the same outcome — verdict, value AND error class;
* the wrapper's closed flag is the view's;
* the parent tree afterwards is the parent tree before with the sub-tree replaced by the reference's
  resulting tree (`setAt` = `Node.set`) — nothing else changes; in particular `removetree "/"` leaves
  `sub` in place as an empty directory and `getinfo "/"` reports the name `""`.
The view differs from a plain filesystem rooted there exactly in — error CLASS only, both calls fail
and nothing changes —: `excOpenbin` (invalid mode AND invalid path: the path's class instead of
ValueError), `excCopydir` (copy into itself when an earlier guard of `WrapFS.copydir` also fires: that
guard's class instead of IllegalDestination) and `nulRootTest` (`removedir`/`removetree` of a path that
contains NUL and climbs, or `removedir` of a NUL path normalising to the root: `normpath` runs before
`delegate_path`); all three are decidable predicates of the call (and the state), each has a
`decide`d counterexample below, and the frame holds for them too. -/
theorem sub_simulates (sub : List Name) (w : WState State) (es : Ents) (op : Op)
    (hc : w.inner.closed = false) (hwf : w.inner.root.wf = true)
    (hdir : w.inner.root.get sub = some (.dir es))
    (hnn : ¬ nulRootTest op) (hx1 : ¬ excOpenbin op) (hx2 : ¬ excCopydir es op) :
    Wrap.Sub.step false (absOf sub) Ref.step w op =
      (⟨(Ref.step (viewW w es) op).1.closed,
        { w.inner with root := setAt w.inner.root sub (Ref.step (viewW w es) op).1.root }⟩,
       (Ref.step (viewW w es) op).2) := by
  have hsub := names_clean_of_get sub _ _ hwf hdir
  have hself : ({ w.inner with root := setAt w.inner.root sub (.dir es) } : State) = w.inner := by
    rw [setAt_self _ _ _ hdir]
  by_cases hop : op = .close
  · subst hop
    simp only [Wrap.Sub.step, Wrap.step, QueryLemmas.step_close, viewW, Bool.false_eq_true, if_false]
    first | rw [hself] | skip
  cases hwc : w.closed with
  | true =>
    rw [Wrap.Sub.step, wrapper_closed_is_final false _ Ref.step w op hwc hop,
      QueryLemmas.step_closed (viewW w es) op hop (by simpa [viewW] using hwc)]
    simp only [fail, viewW, hself]
  | false =>
    rw [Wrap.Sub.step, open_wrapper_step false _ Ref.step w op hwc hop]
    have hV : viewW w es = V es := by simp [viewW, V, hwc]
    have := sub_exact hc hdir hsub hwf op hop hnn hx1 hx2
    rw [Wrap.Sub.stepOpen] at this
    rw [this, hV]
    have hcl : (Ref.step ⟨.dir es, false⟩ op).1.closed = false := step_closed_same (V es) op hop
    simp only [graft]
    obtain ⟨c, i⟩ := w
    simp only at hwc
    subst hwc
    simp [hcl, V]

/-- **frame, universally** — for every operation and EVERY path argument (climbing, NUL, the
exception classes: no hypothesis on the call at all): after a call on the SubFS the parent is what
it was with the node at `sub` replaced by a directory.  Hence every path that is neither at/below
`sub` nor an ancestor of it reads exactly as before, and the parent is not closed. -/
theorem sub_frame (sub : List Name) (w : WState State) (es : Ents) (op : Op)
    (hc : w.inner.closed = false) (hwf : w.inner.root.wf = true)
    (hdir : w.inner.root.get sub = some (.dir es)) :
    let r := Wrap.Sub.step false (absOf sub) Ref.step w op
    (∃ x, r.1.inner = { w.inner with root := setAt w.inner.root sub (.dir x) }) ∧
    (∀ q, ¬ sub <+: q → ¬ q <+: sub → r.1.inner.root.get q = w.inner.root.get q) := by
  have hsub := names_clean_of_get sub _ _ hwf hdir
  have key : ∃ x, (Wrap.Sub.step false (absOf sub) Ref.step w op).1.inner =
      { w.inner with root := setAt w.inner.root sub (.dir x) } := by
    by_cases hop : op = .close
    · subst hop
      exact ⟨es, by simp [Wrap.Sub.step, Wrap.step, setAt_self _ _ _ hdir]⟩
    cases hwc : w.closed with
    | true =>
      rw [Wrap.Sub.step, wrapper_closed_is_final false _ Ref.step w op hwc hop]
      exact ⟨es, by simp [setAt_self _ _ _ hdir]⟩
    | false =>
      rw [Wrap.Sub.step, open_wrapper_step false _ Ref.step w op hwc hop]
      exact stepOpen_framed hsub hdir hc hwf op
  refine ⟨key, ?_⟩
  intro q h1 h2
  obtain ⟨x, hx⟩ := key
  rw [hx]
  exact get_setAt_diverge sub q _ _ h1 h2

/-- the view cannot tell a NUL-free path from its normalised spelling (any inner filesystem, any
operation) -/
theorem sub_sees_normalised_paths {σ : Type} (F : FS σ) (sub : List Name) (hsub : ∀ c ∈ sub, cleanName c = true)
    (s : σ) (op : Op) (hnn : noNul op) (hall : ∀ p ∈ op.paths, ¬ PathSpec.climbs (Path.splitSlash p)) :
    Wrap.Sub.stepOpen (absOf sub) F s op = Wrap.Sub.stepOpen (absOf sub) F s (mapPaths normPath op) := by
  refine stepOpen_norm F sub (clean_of_cleanName hsub) s op hnn ?_
  intro p hp
  cases hr : PathSpec.resolve (Path.splitSlash p) with
  | none => exact absurd hr (hall p hp)
  | some cs => exact ⟨cs, rfl⟩

/-! ### the decided exception classes are real (witnesses on the model; replayed on the real code by
`harness/props/_wrapexact.py`) -/

/-- REPAIRED (/repo 6fe32c8; was `sub_nul_path_counterexample`): a NUL that normalisation would
remove is refused by the SubFS exactly as by the reference — `delegate_path` now looks at the raw
path's characters first -/
theorem sub_nul_path_repaired :
    let t : Node := .dir [("x".toList, .dir [("b".toList, .file [1])])]
    let s : State := ⟨t, false⟩
    let p : Str := "z\x00/../b".toList
    (Wrap.Sub.stepOpen "/x".toList Ref.step s (.exists_ p)).2 = .err .InvalidCharsInPath ∧
    (Ref.step ⟨.dir [("b".toList, .file [1])], false⟩ (.exists_ p)).2 = .err .InvalidCharsInPath := by
  decide

/-- what is left of the NUL difference (`nulRootTest`, class only, both fail): `WrapFS.removedir`
evaluates `abspath(normpath(path))` before `delegate_path` -/
theorem sub_nul_root_test_counterexample :
    let s : State := ⟨.dir [("x".toList, .dir [])], false⟩
    (Wrap.Sub.stepOpen "/x".toList Ref.step s (.removedir "z\x00/..".toList)).2 = .err .RemoveRootError ∧
    (Wrap.Sub.stepOpen "/x".toList Ref.step s (.removetree "z\x00/../..".toList)).2 = .err .IllegalBackReference ∧
    (Ref.step ⟨.dir [], false⟩ (.removedir "z\x00/..".toList)).2 = .err .InvalidCharsInPath ∧
    (Ref.step ⟨.dir [], false⟩ (.removetree "z\x00/../..".toList)).2 = .err .InvalidCharsInPath := by
  decide

/-- `openbin` with an invalid mode and a climbing path: the class differs (both fail) -/
theorem sub_openbin_order_counterexample :
    let s : State := ⟨.dir [("x".toList, .dir [])], false⟩
    (Wrap.Sub.stepOpen "/x".toList Ref.step s (.openbin "../q".toList "zz".toList)).2 = .err .IllegalBackReference ∧
    (Ref.step ⟨.dir [], false⟩ (.openbin "../q".toList "zz".toList)).2 = .err .ValueError := by
  decide

/-- `copydir` into itself with a missing destination and `create=False`: the class differs -/
theorem sub_copydir_order_counterexample :
    let s : State := ⟨.dir [("x".toList, .dir [("a".toList, .dir [])])], false⟩
    (Wrap.Sub.stepOpen "/x".toList Ref.step s (.copydir "a".toList "a/zz".toList false)).2 = .err .ResourceNotFound ∧
    (Ref.step ⟨.dir [("a".toList, .dir [])], false⟩ (.copydir "a".toList "a/zz".toList false)).2
      = .err .IllegalDestination := by
  decide

/-! ### non-vacuity (observed through the reference's own queries on the resulting parent) -/

/-- `removetree("/")` through a SubFS at `x/y` of MemoryFS-as-coded: contents gone, `x/y` kept, the
canary outside untouched -/
example :
    let r := Wrap.Sub.step false "/x/y".toList Mem.step
      ⟨false, ⟨.dir [("x".toList, .dir [("y".toList, .dir [("f".toList, .file [7]), ("d".toList, .dir [])])]),
        ("o".toList, .file [1])], false⟩⟩ (.removetree "/".toList)
    r.2 = .ok .unit ∧ (Ref.step r.1.inner (.listdir "x/y".toList)).2 = .ok (.names []) ∧
    (Ref.step r.1.inner (.listdir "/".toList)).2 = .ok (.names ["x".toList, "o".toList]) ∧
    (Ref.step r.1.inner (.readbytes "o".toList)).2 = .ok (.bytes [1]) := by
  decide

/-- two nested SubFS objects (`fs.opendir("a/b").opendir("c")`) write into `a/b/c` of the base -/
example :
    let r := Wrap.Sub.nest Ref.step ["/c".toList, "/a/b".toList]
      ⟨.dir [("a".toList, .dir [("b".toList, .dir [("c".toList, .dir [])])])], false⟩ (.writebytes "./f".toList [1])
    r.2 = .ok .unit ∧ (Ref.step r.1 (.readbytes "a/b/c/f".toList)).2 = .ok (.bytes [1]) := by
  decide

example : (Wrap.Sub.step false "/x".toList Ref.step ⟨false, ⟨.dir [("x".toList, .dir [])], false⟩⟩
    (.getinfo "/".toList)).2 = .ok (.info [] true 0) := by
  decide

/-- the hypotheses of `sub_simulates` are satisfiable -/
example : (Node.dir [("x".toList, .dir [("y".toList, .dir [])])]).get ["x".toList, "y".toList] = some (.dir []) ∧
    (∀ c ∈ ["x".toList, "y".toList], cleanName c = true) ∧
    (Node.dir [("x".toList, .dir [("y".toList, .dir [])])]).wf = true := by
  refine ⟨rfl, by decide, by decide⟩

end Fs.WrapRefines
