/-
  C08 — individual FS methods are linearizable under concurrent use.

  Model: `FsModel/Conc.lean` (threads = instruction lists `acq | rel | step`, a schedule = the
  list of thread ids in step order, lock = mutual exclusion: trusted).  Which methods are one
  locked block is NOT written here: it is read from the GENERATED `LockTable`
  (harness/extract/locktable.py, regenerated from the source before every build) and re-proved
  by `decide` on every run.

  FULL statement of the property on the model (visible, and FALSE of the code as it is):

      ∀ calls s, Linearizable tableImpl calls s

  It fails for the calls that are not one locked block (`FS.writebytes` / `FS.readbytes` =
  open + I/O + close; see `memfs_writebytes_race_counterexample`), so the theorem proved is
  `memoryfs_linearizable_partial`, with the excluded methods listed explicitly in `coveredOp`.
-/
import FsModel.Conc
import FsModel.Generated.LockTable
import FsProofs.Lemmas.ConcLemmas
import FsProofs.C08Model
import FsModel.ConcDriver

namespace Fs.C08
open Fs Fs.Ref Fs.Conc Fs.Lock Fs.Generated

/-! ## 2. table theorems over the GENERATED LockTable (re-proved on every run) -/

/-- the MemoryFS methods that touch the tree: each must be ONE locked block (derived from the
code: every method of `MemoryFS` containing a `_DirEntry` mutator or a tree lookup) -/
def memMutators : List String :=
  ["makedir", "move", "movedir", "openbin", "remove", "removedir", "removetree", "setinfo",
   "listdir", "scandir", "_get_dir_entry"]

/-- TABLE THEOREM.  Removing a `with self._lock` from any of these methods (or splitting one into
two locked blocks, as `removedir` was before findings/C08-memoryfs-removedir-race.patch) changes
the generated table and breaks this proof. -/
theorem mem_mutators_single_segment :
    ∀ m ∈ memMutators, shapeOf lockTable lockBases "MemoryFS" m = .singleLocked := by decide +kernel

/-- every MemoryFS method that calls a `_DirEntry` mutator is in the list above (a new mutating
method cannot escape the table theorem) -/
theorem mem_tree_mutations_listed :
    (lockTable.all fun e => !(e.cls == "MemoryFS" && e.body.hasDirMut) || memMutators.contains e.method) = true := by
  decide +kernel

/-- outside `__init__`/`close`, MemoryFS never touches `self.root` or a mutator without the lock -/
theorem mem_no_unlocked_tree_access :
    (lockTable.all fun e => !(e.cls == "MemoryFS" && !["__init__", "close"].contains e.method) ||
      !e.body.unlockedTreeAccess) = true := by decide +kernel

/-- the compound defaults of `fs/base.py` that MemoryFS inherits are one locked block each -/
def baseCompound : List String :=
  ["appendbytes", "appendtext", "copy", "copydir", "create", "download", "makedirs", "touch",
   "upload", "writefile"]

theorem base_compound_single_segment :
    ∀ m ∈ baseCompound, shapeOf lockTable lockBases "MemoryFS" m = .singleLocked := by decide +kernel

/-- queries: exactly one shared access, a call that ends in the locked `_get_dir_entry` /
`scandir` / `setinfo` (`getsize → getdetails → getinfo → _get_dir_entry`) -/
def memSingleCall : List String :=
  ["getinfo", "exists", "isdir", "isfile", "islink", "getsize", "gettype", "getdetails", "getbasic",
   "isempty", "settimes", "open"]

theorem mem_queries_single_call :
    ∀ m ∈ memSingleCall, shapeOf lockTable lockBases "MemoryFS" m = .singleCall := by decide +kernel

/-- the methods that are NOT one atomic piece on MemoryFS — the explicit exclusion list of the
partial theorem (open + I/O + close without the filesystem lock) -/
def memNonAtomic : List String := ["readbytes", "readtext", "writebytes", "writetext"]

theorem mem_non_atomic_are_multi :
    ∀ m ∈ memNonAtomic, shapeOf lockTable lockBases "MemoryFS" m = .multi := by decide +kernel

/-- `FS.move` (used by OSFS, MountFS, MultiFS): pre-checks outside the lock, then the locked copy+remove -/
theorem base_move_is_check_then_act :
    shapeOf lockTable lockBases "OSFS" "move" = .multi ∧
    shapeOf lockTable lockBases "MountFS" "move" = .multi ∧
    shapeOf lockTable lockBases "MultiFS" "move" = .multi := by decide +kernel

/-- TABLE THEOREM (holds once `MemoryFS.removedir` takes the lock around its check-then-act) -/
theorem table_impl :
    tableImpl = { removedirAtomic := true, moveAtomic := true, writebytesAtomic := false,
                  readbytesAtomic := false } := by decide +kernel

/-- the calls covered by the partial theorem: everything except `writebytes` / `readbytes` -/
def coveredOp : Op → Bool
  | .writebytes _ _ => false
  | .readbytes _ => false
  | _ => true

/-- PARTIAL (excluded: `writebytes`, `readbytes` and — outside `Ref.Op` — `writetext`, `readtext`,
see `memNonAtomic`): any number of concurrent calls of the covered MemoryFS methods, from any
tree, under every schedule, are linearizable. -/
theorem memoryfs_linearizable_partial (calls : List Op) (s : State)
    (h : ∀ c ∈ calls, coveredOp c = true) : Linearizable tableImpl calls s := by
  apply single_locked_segment_linearizable
  intro c hc
  apply segments_of_atomic
  have := h c hc
  rw [table_impl]
  cases c <;> simp_all [isAtomic, coveredOp]

/-- and they never deadlock -/
theorem memoryfs_no_deadlock (calls : List Op) (s : State) (h : ∀ c ∈ calls, coveredOp c = true)
    (sched : List Nat) (c' : Cfg State Loc) (hexec : (initCfg tableImpl s calls).exec sched = some c') :
    c'.deadlocked = false := by
  apply single_lock_never_deadlocks tableImpl calls s _ sched c' hexec
  intro c hc
  have := h c hc
  rw [table_impl]
  cases c <;> simp_all [isAtomic, coveredOp]

example : Linearizable tableImpl
    [.removedir "d".toList, .makedir "d/x".toList false, .move "f".toList "d/f".toList false]
    { root := .dir [("d".toList, .dir []), ("f".toList, .file [1])], closed := false } :=
  memoryfs_linearizable_partial _ _ (by decide)

/-! ## 3. lock order / deadlock -/

/-- TABLE THEOREM `no_deadlock`: every method acquires at most the one (re-entrant) lock of its own
object; the library functions working on two filesystems take `src_fs` then `dst_fs`, always in
that order (argument order — see `copy_dir_ab_ba_deadlock_counterexample` for what that permits). -/
theorem no_deadlock :
    (lockTable.all fun e => [[], ["self"], ["fs"], ["src_fs", "dst_fs"]].contains e.body.lockSeq) = true := by
  decide +kernel

/-- no method of a filesystem class takes a second filesystem's lock itself -/
theorem methods_take_only_their_own_lock :
    (lockTable.all fun e =>
      !["FS", "MemoryFS", "MountFS", "MultiFS", "WrapFS", "SubFS", "ClosingSubFS", "OSFS"].contains e.cls ||
      [[], ["self"]].contains e.body.lockSeq) = true := by decide +kernel

/-- no lock is acquired in a loop or in syntax the extractor does not understand, except the
callback-taking `FS.filterdir` (no lock inside) -/
theorem unknown_bodies_listed :
    (lockTable.all fun e => !(e.shape == .unknown) || [("FS", "filterdir")].contains (e.cls, e.method)) = true := by
  decide +kernel

/-- with the lock around the check-then-act the same three calls are linearizable (what the patch buys) -/
example : Linearizable tableImpl [.removedir "d".toList, .makedir "d/x".toList false] raceTree :=
  memoryfs_linearizable_partial _ _ (by decide)

end Fs.C08
