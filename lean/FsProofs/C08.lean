/-
  C08 — individual FS methods are linearizable under concurrent use.

  Model: `FsModel/Conc.lean` (threads = instruction lists `acq | rel | step`, a schedule = the
  list of thread ids in step order, lock = mutual exclusion: trusted).  Which methods are one
  locked block is NOT written here: it is read from the GENERATED `LockTable`
  (harness/extract/locktable.py, regenerated from the source before every build) and re-proved
  by `decide` on every run.

  FULL statement of the property on the model, proved below for MemoryFS:

      memoryfs_linearizable : ∀ calls s, Linearizable tableImpl calls s

  (every operation of `Ref.Op`, mutators and queries, any number of threads, any tree, any
  schedule).  It became true with the repairs of the library — `MemoryFS.removedir` (0e32556),
  `FS.readbytes`/`FS.writebytes` (feefeca), `FS.move` (652becf), `FS.readtext`/`FS.writetext`
  (a9b2b2a), `MemoryFS.getinfo` (0b00a5c) — each of which is pinned here by a table theorem and a
  `…_repaired` regression theorem; the races they closed are kept in `FsProofs/C08Model.lean` as
  counterexamples of the lock-free variants (`…_without_lock_counterexample`).
-/
import FsModel.Conc
import FsModel.Generated.LockTable
import FsProofs.Lemmas.ConcLemmas
import FsProofs.C08Model
import FsModel.ConcDriver

namespace Fs.C08
open Fs Fs.Ref Fs.Conc Fs.Lock Fs.Generated

/-! ## 2. table theorems over the GENERATED LockTable (re-proved on every run) -/

/-- the MemoryFS methods that touch the tree: each must be ONE locked block (derived from the
code: every method of `MemoryFS` containing a `_DirEntry` mutator or a tree lookup) -/
def memMutators : List String :=
  ["makedir", "move", "movedir", "openbin", "remove", "removedir", "removetree", "setinfo",
   "listdir", "scandir", "_get_dir_entry"]

/-- TABLE THEOREM.  Removing a `with self._lock` from any of these methods (or splitting one into
two locked blocks, as `removedir` was before fix 0e32556) changes the generated table and breaks
this proof. -/
theorem mem_mutators_single_segment :
    ∀ m ∈ memMutators, shapeOf lockTable lockBases "MemoryFS" m = .singleLocked := by decide +kernel

/-- every MemoryFS method that calls a `_DirEntry` mutator is in the list above (a new mutating
method cannot escape the table theorem) -/
theorem mem_tree_mutations_listed :
    (lockTable.all fun e => !(e.cls == "MemoryFS" && e.body.hasDirMut) || memMutators.contains e.method) = true := by
  decide +kernel

/-- outside `__init__`/`close`, MemoryFS never touches `self.root` or a mutator without the lock -/
theorem mem_no_unlocked_tree_access :
    (lockTable.all fun e => !(e.cls == "MemoryFS" && !["__init__", "close"].contains e.method) ||
      !e.body.unlockedTreeAccess) = true := by decide +kernel

/-- the compound defaults of `fs/base.py` that MemoryFS inherits are one locked block each -/
def baseCompound : List String :=
  ["appendbytes", "appendtext", "copy", "copydir", "create", "download", "makedirs", "touch",
   "upload", "writefile", "readbytes", "writebytes", "readtext", "writetext"]

theorem base_compound_single_segment :
    ∀ m ∈ baseCompound, shapeOf lockTable lockBases "MemoryFS" m = .singleLocked := by decide +kernel

/-- queries: exactly one shared access, a call that ends in the locked `_get_dir_entry` /
`scandir` / `setinfo` (`getsize → getdetails → getinfo → _get_dir_entry`) -/
def memSingleCall : List String :=
  ["exists", "isdir", "isfile", "islink", "getsize", "gettype", "getdetails", "getbasic",
   "isempty", "settimes", "open"]

theorem mem_queries_single_call :
    ∀ m ∈ memSingleCall, shapeOf lockTable lockBases "MemoryFS" m = .singleCall := by decide +kernel

/-- REGRESSION (fix feefeca): `FS.readbytes` / `FS.writebytes` hold `self._lock` around
open + read/write + close on every backend that inherits them -/
theorem base_bytes_io_single_locked :
    ∀ c ∈ ["MemoryFS", "OSFS"], ∀ m ∈ ["readbytes", "writebytes"],
      shapeOf lockTable lockBases c m = .singleLocked := by decide +kernel

/-- REGRESSION (fix 652becf; the opposite of the former `base_move_is_check_then_act`): the
`exists(dst)` / `getinfo(src)` checks, the rename attempt and the copy+remove of `FS.move` are ONE
locked block on every backend that inherits it (only path validation precedes the lock) -/
theorem base_move_single_locked :
    shapeOf lockTable lockBases "OSFS" "move" = .singleLocked ∧
    shapeOf lockTable lockBases "MountFS" "move" = .singleLocked ∧
    shapeOf lockTable lockBases "MultiFS" "move" = .singleLocked := by decide +kernel

/-- REGRESSION (fix a9b2b2a; the opposite of the former `text_io_is_multi`): `FS.readtext` /
`FS.writetext` hold `self._lock` around open + read/write + close, like the bytes variants.
(Text I/O is not an operation of the model's language `Ref.Op`; it is covered by this table
theorem, by `base_compound_single_segment` and by the line-level exploration of the harness.) -/
theorem base_text_io_single_locked :
    ∀ c ∈ ["MemoryFS", "OSFS"], ∀ m ∈ ["readtext", "writetext"],
      shapeOf lockTable lockBases c m = .singleLocked := by decide +kernel

/-- no public read/write convenience method of `fs/base.py` is left as open + I/O + close without
the lock: every entry of `FS` that opens a file and does file I/O on it is one locked block
(`hash` reads in a loop under `openbin` and is a pure query of one file: listed explicitly) -/
theorem base_file_io_methods_locked :
    (lockTable.all fun e =>
      !(e.cls == "FS" && (match e.body with
          | .segs l => l.any fun sg => sg.acc.any fun a => match a with | .fileIO _ => true | _ => false
          | .unknown _ => false)) ||
      e.shape == .singleLocked || ["hash"].contains e.method) = true := by decide +kernel

/-- does class `c` run method `m` as a block locked with the lock of the object itself? -/
def ownLocked (c m : String) : Bool :=
  match resolve lockTable lockBases 8 c m with
  | some e => e.body.lockSeq.contains "self"
  | none => false

/-- TABLE THEOREM: a `SubFS` / `WrapFS` view hands EVERY public method of `fs/base.py` to the wrapped
filesystem (whose lock then covers it, or — `copy`, `copydir` since c0d11e1 — takes the wrapped
filesystems' locks itself); none takes the private lock of the view, which no sibling view and not the
parent ever take (`writetext` did until `/repo` 3400efe gave `WrapFS` the delegating override).
Deleting an override of `WrapFS` (so that a compound default such as `FS.create` runs under the view's
own lock) breaks this proof. -/
theorem view_never_uses_its_own_lock :
    ∀ c ∈ ["WrapFS", "SubFS", "ClosingSubFS"],
      ((lockTable.filter fun e => e.cls == "FS").all fun e =>
        ["lock", "close", "__exit__", "__del__"].contains e.method || !ownLocked c e.method) = true := by
  decide +kernel

/-- non-vacuity: the base class itself does take its own lock in these methods -/
example : ownLocked "MemoryFS" "writetext" = true ∧ ownLocked "MemoryFS" "create" = true := by decide +kernel

/-- the method behind every constructor of `Ref.Op` -/
def opMethods : List String :=
  ["exists", "isdir", "isfile", "listdir", "getsize", "gettype", "isempty", "getinfo", "readbytes",
   "makedir", "makedirs", "writebytes", "appendbytes", "create", "touch", "settimes", "openbin",
   "remove", "removedir", "removetree", "move", "copy", "movedir", "copydir"]

/-- TABLE THEOREM: on MemoryFS every method of the `Ref.Op` language is one atomic piece — one
locked block, or a single call that ends (through the table) in one locked block (`exists → getinfo`,
`getsize → getdetails → getinfo`, `isempty → scandir`, `settimes → setinfo`).  No exception since
fix 0b00a5c put `getinfo`'s lookup and `to_info` under the lock. -/
theorem every_op_method_atomic :
    ∀ m ∈ opMethods, atomicIn lockTable lockBases 6 "MemoryFS" m = true := by decide +kernel

/-- REGRESSION (fix 0b00a5c): `MemoryFS.getinfo` is one locked block -/
theorem mem_getinfo_single_locked :
    shapeOf lockTable lockBases "MemoryFS" "getinfo" = .singleLocked := by decide +kernel

/-- TABLE THEOREM: outside `__init__`/`close`, NO MemoryFS method touches an entry variable (a
local holding a looked-up `_DirEntry`) at all — not even a plain field read — without the lock; no
generator body, no lookup result is used after the `with self._lock:` block (this is what catches
a `scandir` whose `get_entry`/`to_info` loop is moved out of the lock, and what `getinfo` violated
before 0b00a5c) -/
theorem mem_no_unlocked_entry_use :
    (lockTable.all fun e => !(e.cls == "MemoryFS" && !["__init__", "close"].contains e.method) ||
      !e.body.unlockedEntryUse) = true := by decide +kernel

/-- TABLE THEOREM: the implementation description the model runs with — everything atomic -/
theorem table_impl :
    tableImpl = { removedirAtomic := true, moveAtomic := true, writebytesAtomic := true,
                  readbytesAtomic := true } := by decide +kernel

theorem table_impl_all_atomic (c : Op) : isAtomic tableImpl c = true := by
  rw [table_impl]; cases c <;> rfl

/-- **FULL**: any number of concurrent calls of ANY operations of the FS API (`Ref.Op`: every
mutator and every query, incl. `getinfo`/`exists`/`isdir`/`isfile`/`getsize`/`gettype`) on one
MemoryFS, from any tree, under every schedule, are linearizable: per-call results and final tree
are those of some sequential order.  That every operation really is one atomic piece of the real
code is what `every_op_method_atomic`, `mem_mutators_single_segment`, `base_compound_single_segment`
and `mem_no_unlocked_entry_use` re-prove from the generated table on every run.
(`Op.close` is modelled as an atomic flag write; for the real code `close()` concurrent with
calls is outside the claim.) -/
theorem memoryfs_linearizable (calls : List Op) (s : State) : Linearizable tableImpl calls s :=
  single_locked_segment_linearizable tableImpl calls s
    (fun c _ => segments_of_atomic tableImpl c (table_impl_all_atomic c))

/-- and no schedule ever deadlocks -/
theorem memoryfs_no_deadlock (calls : List Op) (s : State)
    (sched : List Nat) (c' : Cfg State Loc) (hexec : (initCfg tableImpl s calls).exec sched = some c') :
    c'.deadlocked = false :=
  single_lock_never_deadlocks tableImpl calls s (fun c _ => table_impl_all_atomic c) sched c' hexec

example : Linearizable tableImpl
    [.removedir "d".toList, .writebytes "d/x".toList [1], .move "f".toList "d/f".toList false, .readbytes "f".toList]
    { root := .dir [("d".toList, .dir []), ("f".toList, .file [1])], closed := false } :=
  memoryfs_linearizable _ _

/-! ### the repaired races (regression theorems; the lock-free variants are counterexamples in
`C08Model.lean`) -/

/-- fix 0e32556: `removedir(d) ‖ writebytes(d/x)` -/
theorem memfs_removedir_race_repaired : Linearizable tableImpl raceCalls raceTree :=
  memoryfs_linearizable _ _

/-- …and, concretely, every maximal schedule of the model the table now yields is linearizable
(two runs are left: one per order) -/
theorem memfs_removedir_race_repaired_runs :
    ((initCfg tableImpl raceTree raceCalls).allRuns).map
      (fun r => (r.1, r.2.done, linOk raceCalls raceTree r.2)) =
    [([0, 0, 0, 1, 1, 1], true, true), ([1, 1, 1, 0, 0, 0], true, true)] := by decide +kernel

/-- fix 652becf: `move(a, b, overwrite=False) ‖ writebytes(b)` -/
theorem fs_move_check_then_act_repaired : Linearizable tableImpl moveCalls moveTree :=
  memoryfs_linearizable _ _

/-- fix feefeca: `writebytes(f, [1]) ‖ writebytes(f, [2,3])` -/
theorem memfs_writebytes_race_repaired : Linearizable tableImpl tornCalls tornTree :=
  memoryfs_linearizable _ _

theorem memfs_writebytes_race_repaired_runs :
    ((initCfg tableImpl tornTree tornCalls).allRuns).all (fun r => r.2.done && linOk tornCalls tornTree r.2) = true := by
  decide +kernel

/-- fix 0b00a5c: `getinfo(f) ‖ move(f, g)` no longer describes the renamed entry -/
theorem memfs_getinfo_race_repaired :
    Linearizable tableImpl [.getinfo "f".toList, .move "f".toList "g".toList false]
      { root := .dir [("f".toList, .file [1, 2])], closed := false } :=
  memoryfs_linearizable _ _

theorem memfs_getinfo_race_repaired_runs :
    ((initCfg tableImpl { root := .dir [("f".toList, .file [1, 2])], closed := false }
        [.getinfo "f".toList, .move "f".toList "g".toList false]).allRuns).map
      (fun r => (r.1, r.2.locs.map (·.out))) =
    [([0, 0, 0, 1, 1, 1], [some (.ok (.info "f".toList false 2)), some (.ok .unit)]),
     ([1, 1, 1, 0, 0, 0], [some (.err .ResourceNotFound), some (.ok .unit)])] := by decide +kernel

/-- fix feefeca: `readbytes(f) ‖ writebytes(f, new)` no longer returns the truncated file -/
theorem memfs_readbytes_race_repaired :
    Linearizable tableImpl [.readbytes "f".toList, .writebytes "f".toList [9]]
      { root := .dir [("f".toList, .file [1, 2])], closed := false } :=
  memoryfs_linearizable _ _

/-! ## 3. lock order / deadlock -/

/-- TABLE THEOREM `no_deadlock`: every method acquires at most the one (re-entrant) lock of its own
object; the library functions working on two filesystems take `src_fs` then `dst_fs`, always in
that order (argument order — see `copy_dir_ab_ba_deadlock_counterexample` for what that permits). -/
theorem no_deadlock :
    (lockTable.all fun e => [[], ["self"], ["fs"], ["src_fs", "dst_fs"]].contains e.body.lockSeq) = true := by
  decide +kernel

/-- no method of a filesystem class takes a second filesystem's lock itself — except the wrapper's
`copy` / `copydir`, which hold no lock of their own and take the wrapped filesystems' locks in the
library-wide order `src_fs`, `dst_fs` (the order `no_deadlock` allows) around their check-then-copy -/
theorem methods_take_only_their_own_lock :
    (lockTable.all fun e =>
      !["FS", "MemoryFS", "MountFS", "MultiFS", "WrapFS", "SubFS", "ClosingSubFS", "OSFS"].contains e.cls ||
      [[], ["self"]].contains e.body.lockSeq ||
      (e.cls == "WrapFS" && ["copy", "copydir"].contains e.method && e.body.lockSeq == ["src_fs", "dst_fs"])) = true := by
  decide +kernel

/-- no lock is acquired in a loop or in syntax the extractor does not understand, except the
callback-taking `FS.filterdir` (no lock inside) -/
theorem unknown_bodies_listed :
    (lockTable.all fun e => !(e.shape == .unknown) || [("FS", "filterdir")].contains (e.cls, e.method)) = true := by
  decide +kernel

/-- with the lock around the check-then-act the same three calls are linearizable (what the patch buys) -/
example : Linearizable tableImpl [.removedir "d".toList, .makedir "d/x".toList false] raceTree :=
  memoryfs_linearizable _ _

end Fs.C08
