/-
  InfoLaws — the Lean side of the last sentence of C10: "Raw info always contains the basic
  namespace, holds only JSON-serialisable values in the standard namespaces, and Info accessors
  (times, permissions, type) are the exact conversions of the raw values."

  Over `FsModel.Info` (transcription of fs/permissions.py, fs/time.py, fs/info.py).  The raw-info
  type of the model has JSON values only (`JVal`), so "JSON-serialisable" holds by construction for
  every raw dictionary a modelled `getinfo` builds; what is proved here is that the conversions are
  exact, where they are partial, and where a round trip does not hold.
-/
import FsModel.Info
import FsModel.Mem
import FsModel.Archive
import FsProofs.Lemmas.InfoLemmas

namespace Fs.InfoLaws
open Fs Fs.Path Fs.FtpParse Fs.Info Fs.Info.Permissions Fs.InfoLemmas

/-! ## Permissions ↔ mode -/

/-- **permissions_mode_roundtrip.**  `Permissions(mode=m).mode == m` for every 12-bit mode. -/
theorem permissions_mode_roundtrip (m : Nat) (h : m < 4096) : (ofMode m).mode = m := by
  rw [mode_ofMode, Nat.mod_eq_of_lt h]

/-- the constructor only looks at the twelve low bits — for every `m`, not just the table -/
theorem permissions_mode_mask (m : Nat) : ofMode m = ofMode (m % 4096) ∧ (ofMode m).mode = m % 4096 :=
  ⟨(ofMode_mod m).symm, mode_ofMode m⟩

/-- Python ints: negative modes are two's complement (`Permissions(mode=-1)` has every bit) -/
theorem permissions_mode_int (m : Int) : (ofModeInt m).mode = (m % 4096).toNat := by
  unfold ofModeInt
  rw [mode_ofMode]
  have h0 : 0 ≤ m % 4096 := Int.emod_nonneg m (by decide)
  have h1 : m % 4096 < 4096 := Int.emod_lt_of_pos m (by decide)
  omega

example : (ofModeInt (-1)).mode = 0o7777 ∧ (ofMode 0o104755).mode = 0o4755 := by decide

/-- the bit of a known name is set in the mode of *any* permission set iff the name is in it
    (unknown names contribute nothing) -/
theorem permissions_mode_bits (p : Permissions) (e : Str × Nat) (he : e ∈ linuxPerms) :
    ((p.mode &&& e.2) != 0) = p.contains e.1 := contains_mode_bit p e he

/-! ## Permissions ↔ names -/

/-- **permissions_names_dump.**  `Permissions(names=ns).dump()` is `sorted(set(ns))`: the same
    members (no intersection with the known names — unknown names are kept), strictly increasing
    by code point, hence duplicate-free. -/
theorem permissions_names_dump (ns : List Str) :
    (ofNames ns).dump = sortedSet ns ∧ (∀ n, n ∈ (ofNames ns).dump ↔ n ∈ ns) ∧
    (ofNames ns).dump.Pairwise (fun a b => ltStr a b = true) ∧ (ofNames ns).dump.Nodup :=
  ⟨rfl, fun n => mem_sortedSet n ns, sorted_sortedSet ns, sorted_nodup _ (sorted_sortedSet ns)⟩

example : (ofNames ["u_x".toList, "zz".toList, "u_x".toList, "setuid".toList]).dump =
    ["setuid".toList, "u_x".toList, "zz".toList] := by decide

/-- `==` between permission objects is equality of the sets -/
theorem permissions_eq_iff (p q : Permissions) :
    p.eq q = true ↔ ∀ n, p.contains n = q.contains n := by
  simp only [Permissions.eq, Permissions.dump, beq_iff_eq, sortedSet_eq_iff]
  constructor
  · intro h n; rw [Bool.eq_iff_iff, contains_iff, contains_iff]; exact h n
  · intro h n; rw [← contains_iff, ← contains_iff, h n]

/-- **permissions_names_mode.**  names → mode → names keeps exactly the known names -/
theorem permissions_names_mode (p : Permissions) :
    (ofMode p.mode).dump = sortedSet (p.perms.filter fun n => linuxPermsNames.contains n) := by
  apply sortedSet_ext
  intro x
  rw [mem_ofMode_mode]
  simp [List.mem_filter, and_comm]

/-- a set of known names is determined by its mode -/
theorem permissions_known_eq_ofMode (p : Permissions) (h : ∀ n ∈ p.perms, n ∈ linuxPermsNames) :
    (ofMode p.mode).eq p = true := by
  simp only [Permissions.eq, Permissions.dump, beq_iff_eq]
  apply sortedSet_ext
  intro x
  rw [mem_ofMode_mode]
  exact ⟨fun hx => hx.2, fun hx => ⟨h x hx, hx⟩⟩

/-- `add`, `remove`, `check`, `copy` are the set operations -/
theorem permissions_set_ops (p : Permissions) (ns : List Str) (n : Str) :
    (p.add ns).contains n = (p.contains n || ns.contains n) ∧
    (p.remove ns).contains n = (p.contains n && !ns.contains n) ∧
    (p.check ns = true ↔ ∀ x ∈ ns, p.contains x = true) ∧
    p.copy.eq p = true := by
  refine ⟨?_, ?_, ?_, ?_⟩
  · simp [Permissions.add, Permissions.contains]
  · simp only [Permissions.remove, Permissions.contains]
    rw [Bool.eq_iff_iff]
    simp [List.mem_filter]
  · simp [Permissions.check, List.all_eq_true]
  · simp [Permissions.copy, Permissions.eq]

/-- `create` / `get_mode`: `None` is `0o777`, an int its twelve low bits, anything else `ValueError` -/
theorem permissions_create (m : Int) (ns : List Str) :
    getMode .none = .ok 0o777 ∧ getMode (.mode m) = .ok (m % 4096).toNat ∧
    getMode (.names ns) = .ok (ofNames ns).mode ∧ create .other = .error .valueError := by
  refine ⟨by decide, ?_, rfl, rfl⟩
  simp only [getMode, create, Except.map]
  rw [permissions_mode_int]

/-! ## `as_str` and `parse` -/

/-- **permissions_str_parse.**  `Permissions.parse(p.as_str()) == p` holds exactly for the sets
    made of `u_r … o_x` only: no setuid / setguid / sticky, no foreign name. -/
theorem permissions_str_parse (p : Permissions) :
    (Permissions.parse p.asStr).eq p = true ↔ ∀ n ∈ p.perms, n ∈ rwxNames :=
  parse_asStr_iff p

/-- the same on modes: the round trip holds for `m < 0o1000` and for no other 12-bit mode -/
theorem permissions_str_parse_mode (m : Nat) (h : m < 4096) :
    (Permissions.parse (ofMode m).asStr).eq (ofMode m) = true ↔ m < 512 := by
  rw [parse_asStr_iff]
  constructor
  · intro H
    apply Decidable.byContradiction
    intro hm
    obtain ⟨i, hi, hb⟩ := Nat.exists_ge_and_testBit_of_ge_two_pow (x := m) (n := 9) (by omega)
    have hi12 : i < 12 := by
      apply Decidable.byContradiction
      intro h12
      have h12' : (12 : Nat) ≤ i := by omega
      have hp : 2 ^ 12 ≤ 2 ^ i := Nat.pow_le_pow_right (n := 2) (by decide) h12'
      have hlt : m < 2 ^ i := by omega
      rw [Nat.testBit_lt_two_pow hlt] at hb; cases hb
    have hcase : i = 9 ∨ i = 10 ∨ i = 11 := by omega
    have key : ∀ (nm : Str) (k : Nat), (nm, 2 ^ k) ∈ linuxPerms → m.testBit k = true → nm ∉ rwxNames → False := by
      intro nm k hin hbit hnot
      have hc := contains_ofMode m (nm, 2 ^ k) hin
      rw [and_two_pow_ne_zero, hbit] at hc
      exact hnot (H nm ((contains_iff _ _).1 hc))
    rcases hcase with rfl | rfl | rfl
    · exact key "sticky".toList 9 (by decide) hb (by decide)
    · exact key "setguid".toList 10 (by decide) hb (by decide)
    · exact key "setuid".toList 11 (by decide) hb (by decide)
  · intro hm n hn
    obtain ⟨e, he, hb, rfl⟩ := (mem_ofMode m n).1 hn
    rw [linuxPerms_pow] at he
    simp only [List.mem_cons, List.not_mem_nil, or_false] at he
    have big : ∀ k, 9 ≤ k → (m &&& 2 ^ k) ≠ 0 → False := by
      intro k hk hne
      have : m.testBit k = true := by
        have := and_two_pow_ne_zero m k
        rw [← this]; simpa using hne
      have hge := Nat.ge_two_pow_of_testBit this
      have : 2 ^ 9 ≤ 2 ^ k := Nat.pow_le_pow_right (n := 2) (by decide) hk
      omega
    rcases he with rfl | rfl | rfl | rfl | rfl | rfl | rfl | rfl | rfl | rfl | rfl | rfl
    · exact (big 11 (by decide) hb).elim
    · exact (big 10 (by decide) hb).elim
    · exact (big 9 (by decide) hb).elim
    all_goals decide

/-- **permissions_str_parse_counterexample.**  `s S t T` do not survive: `parse` turns the
    execute position into the *names* `u_s`, `g_S`, `o_t`, `o_T`; the special bit and the execute
    bit are both lost (replayed on the real code by the harness). -/
theorem permissions_str_parse_counterexample :
    (ofMode 0o4755).asStr = "rwsr-xr-x".toList ∧
    (Permissions.parse "rwsr-xr-x".toList).dump =
      ["g_r".toList, "g_x".toList, "o_r".toList, "o_x".toList, "u_r".toList, "u_s".toList, "u_w".toList] ∧
    (Permissions.parse "rwsr-xr-x".toList).mode = 0o655 ∧
    (Permissions.parse (ofMode 0o4755).asStr).eq (ofMode 0o4755) = false ∧
    (Permissions.parse (ofMode 0o2644).asStr).dump.contains "g_S".toList = true ∧
    (Permissions.parse (ofMode 0o1777).asStr).dump.contains "o_t".toList = true ∧
    (Permissions.parse (ofMode 0o1776).asStr).dump.contains "o_T".toList = true := by
  decide

/-- what an FTP LIST permission field with special bits becomes (`decode_linux` stores
    `Permissions.parse(perms).dump()`): mode 0o654 instead of 0o5755 for `rwsr-xr-t` -/
theorem list_special_bits_counterexample :
    (Permissions.parse "rwsr-xr-t".toList).dump =
      ["g_r".toList, "g_x".toList, "o_r".toList, "o_t".toList, "u_r".toList, "u_s".toList, "u_w".toList] ∧
    (Permissions.parse "rwsr-xr-t".toList).mode = 0o654 ∧
    (Permissions.parse "rwsr-xr-t".toList).asStr = "rw-r-xr--".toList ∧
    (ofMode 0o5755).asStr = "rwsr-xr-t".toList := by
  decide

/-! ## fs.time -/

/-- **epoch_datetime_roundtrip.**  Every whole second of years 1–9999 converts to a valid UTC
    datetime with microsecond 0 which converts back to it. -/
theorem epoch_datetime_roundtrip (t : Int) (h1 : minEpoch ≤ t) (h2 : t ≤ maxEpoch) :
    ∃ d, epochToDatetime t = .ok d ∧ d.valid = true ∧ d.micro = 0 ∧ datetimeToEpoch d = t := by
  obtain ⟨hv, he, hm⟩ := epoch_dt_epoch_us t 0 (by decide) h1 h2
  exact ⟨dtOfSeconds t 0, epochToDatetime_eq t h1 h2, hv, hm, he⟩

/-- … and every valid datetime with microsecond 0 is the datetime of its epoch -/
theorem datetime_epoch_roundtrip (d : DT) (hv : d.valid = true) (hm : d.micro = 0) :
    epochToDatetime (datetimeToEpoch d) = .ok d := dt_epoch_dt d hv hm

/-- outside years 1–9999 the conversion raises -/
theorem epoch_out_of_range (t : Int) (h : t < minEpoch ∨ maxEpoch < t) :
    epochToDatetime t = .error .rangeError := by
  unfold epochToDatetime epochToDatetimeQ
  simp only [roundHalfEven_one, Nat.one_ne_zero, if_false]
  have e1 : t * 1000000 / 1000000 = t := by omega
  rw [e1]
  simp [h]

/-- fractional epochs: the value is rounded to the nearest microsecond (ties to even); the
    datetime is valid and carries exactly that many microseconds -/
theorem epoch_fraction_exact (num : Int) (den : Nat) (hden : den ≠ 0)
    (h1 : minEpoch ≤ roundHalfEven (num * 1000000) den / 1000000)
    (h2 : roundHalfEven (num * 1000000) den / 1000000 ≤ maxEpoch) :
    ∃ d, epochToDatetimeQ num den = .ok d ∧ d.valid = true ∧
      datetimeToEpoch d * 1000000 + d.micro = roundHalfEven (num * 1000000) den := by
  have hus : (roundHalfEven (num * 1000000) den % 1000000).toNat < 1000000 := by omega
  obtain ⟨hv, he, hm⟩ := epoch_dt_epoch_us _ _ hus h1 h2
  refine ⟨_, ?_, hv, ?_⟩
  · unfold epochToDatetimeQ
    have : ¬ (roundHalfEven (num * 1000000) den / 1000000 < minEpoch ∨
        maxEpoch < roundHalfEven (num * 1000000) den / 1000000) := by omega
    simp only [hden, if_false, this]
  · rw [he, hm]; omega

/-- the rounding used is to nearest, ties to even -/
theorem round_half_even_nearest (n : Int) (d : Nat) (hd : 0 < d) :
    let q := roundHalfEven n d
    2 * (n - q * d) ≥ -(d : Int) ∧ 2 * (n - q * d) ≤ d ∧
      ((2 * (n - q * d) = d ∨ 2 * (n - q * d) = -(d : Int)) → q % 2 = 0) :=
  roundHalfEven_nearest n d hd

example : epochToDatetime 0 = .ok ⟨1970, 1, 1, 0, 0, 0, 0⟩ ∧
    epochToDatetime 951782400 = .ok ⟨2000, 2, 29, 0, 0, 0, 0⟩ ∧
    epochToDatetime (-1) = .ok ⟨1969, 12, 31, 23, 59, 59, 0⟩ ∧
    epochToDatetimeQ (-3) 2 = .ok ⟨1969, 12, 31, 23, 59, 58, 500000⟩ ∧
    epochToDatetimeQ 5 2000000 = .ok ⟨1970, 1, 1, 0, 0, 0, 2⟩ ∧      -- 2.5 µs → 2 (tie to even)
    epochToDatetime minEpoch = .ok ⟨1, 1, 1, 0, 0, 0, 0⟩ ∧
    epochToDatetime maxEpoch = .ok ⟨9999, 12, 31, 23, 59, 59, 0⟩ ∧
    datetimeToEpoch ⟨2018, 2, 11, 14, 12, 0, 0⟩ = 1518358320 := by decide

/-! ## Info accessors are the exact conversions of the raw values -/

open Fs.Info.Info in
/-- **time_accessor_exact.**  `accessed/modified/created/metadata_changed` = the conversion of the
    raw value under `details`: `None` for a raw `None` (or a missing key), the datetime of the
    number otherwise (`bool` counts as `int`), `TypeError` for anything else. -/
theorem time_accessor_exact (i : Info) (key : Str) (h : i.hasNamespace kDetails = true) :
    i.timeAcc key =
      match i.get kDetails key with
      | .null => .ok none
      | v => match v.num? with
        | some (n, d) => (epochToDatetimeQ n d).map some
        | none => .error .typeError := by
  simp only [timeAcc, requireNamespace, h, if_true, makeDatetime]
  cases i.get kDetails key <;> rfl

open Fs.Info.Info in
/-- the accessor is `None` **iff** the raw value is `None` — in particular not for the epoch itself
    (raw value `0`), which `if t:` instead of `if t is not None:` would turn into `None` -/
theorem time_accessor_none_iff (i : Info) (key : Str) (h : i.hasNamespace kDetails = true) :
    i.timeAcc key = .ok none ↔ i.get kDetails key = .null := by
  rw [time_accessor_exact i key h]
  cases hv : i.get kDetails key with
  | null => simp
  | bool b => simp only [JVal.num?, reduceCtorEq, iff_false]; cases epochToDatetimeQ (if b then 1 else 0) 1 <;> simp [Except.map]
  | int t => simp only [JVal.num?, reduceCtorEq, iff_false]; cases epochToDatetimeQ t 1 <;> simp [Except.map]
  | float n d => simp only [JVal.num?, reduceCtorEq, iff_false]; cases epochToDatetimeQ n d <;> simp [Except.map]
  | str s => simp [JVal.num?]
  | list l => simp [JVal.num?]

open Fs.Info.Info in
/-- a raw whole number of seconds inside years 1–9999 becomes exactly its civil date and time -/
theorem time_accessor_int (i : Info) (key : Str) (t : Int) (h : i.hasNamespace kDetails = true)
    (hv : i.get kDetails key = .int t) (h1 : minEpoch ≤ t) (h2 : t ≤ maxEpoch) :
    i.timeAcc key = .ok (some (dtOfSeconds t 0)) ∧ datetimeToEpoch (dtOfSeconds t 0) = t := by
  rw [time_accessor_exact i key h, hv]
  have := epochToDatetime_eq t h1 h2
  unfold epochToDatetime at this
  refine ⟨?_, (epoch_dt_epoch_us t 0 (by decide) h1 h2).2.1⟩
  simp only [JVal.num?, this, Except.map]

/-- the epoch itself, `None`, a fraction, and a missing key -/
theorem time_accessor_zero :
    let raw (v : JVal) : Info := ⟨[(kBasic, basicNS "f".toList false), (kDetails, [("modified".toList, v)])]⟩
    (raw (.int 0)).modified = .ok (some ⟨1970, 1, 1, 0, 0, 0, 0⟩) ∧
    (raw (.float 0 1)).modified = .ok (some ⟨1970, 1, 1, 0, 0, 0, 0⟩) ∧
    (raw .null).modified = .ok none ∧
    (raw (.float 3 2)).modified = .ok (some ⟨1970, 1, 1, 0, 0, 1, 500000⟩) ∧
    (raw (.int 0)).created = .ok none ∧
    (raw (.str "0".toList)).modified = .error .typeError := by
  decide

open Fs.Info.Info in
/-- **type_accessor_exact.**  `type` = `ResourceType(raw value)`, `unknown` (0) when the key is
    missing; a value that is not one of 0…7 raises `ValueError`. -/
theorem type_accessor_exact (i : Info) (h : i.hasNamespace kDetails = true) :
    i.type = resourceType (i.get kDetails "type".toList (.int 0)) ∧
    (∀ t : Nat, t ≤ 7 → i.get kDetails "type".toList (.int 0) = .int t → i.type = .ok t) ∧
    (∀ t : Int, (t < 0 ∨ 7 < t) → i.get kDetails "type".toList (.int 0) = .int t → i.type = .error .valueError) := by
  have h0 : i.type = resourceType (i.get kDetails "type".toList (.int 0)) := by
    simp only [Info.type, requireNamespace, h, if_true]; rfl
  refine ⟨h0, ?_, ?_⟩
  · intro t ht hv
    rw [h0, hv]
    simp only [resourceType, JVal.num?]
    have : (1 : Nat) ≠ 0 ∧ (t : Int) % ((1 : Nat) : Int) = 0 ∧ 0 ≤ (t : Int) / ((1 : Nat) : Int) ∧ (t : Int) / ((1 : Nat) : Int) ≤ 7 := by
      refine ⟨by decide, by omega, by omega, by omega⟩
    rw [if_pos this]
    congr 1
    omega
  · intro t ht hv
    rw [h0, hv]
    simp only [resourceType, JVal.num?]
    have : ¬ ((1 : Nat) ≠ 0 ∧ t % ((1 : Nat) : Int) = 0 ∧ 0 ≤ t / ((1 : Nat) : Int) ∧ t / ((1 : Nat) : Int) ≤ 7) := by
      omega
    rw [if_neg this]

example : (⟨[(kBasic, basicNS "x".toList false), (kDetails, [("size".toList, .int 3)])]⟩ : Info).type = .ok 0 ∧
    (⟨[(kDetails, [("type".toList, .int 8)])]⟩ : Info).type = .error .valueError ∧
    (⟨[(kDetails, [("type".toList, .bool true)])]⟩ : Info).type = .ok 1 ∧
    (⟨[(kDetails, [("type".toList, .float 4 2)])]⟩ : Info).type = .ok 2 := by decide

open Fs.Info.Info in
/-- **permissions_accessor_exact.**  `permissions` = `Permissions(names)` of the raw list: its
    `dump()` is the sorted set of the raw names, its mode the OR of the known ones; `None` stays
    `None`. -/
theorem permissions_accessor_exact (i : Info) (h : i.hasNamespace kAccess = true) :
    (i.get kAccess "permissions".toList = .null → i.permissions = .ok none) ∧
    (∀ l ns, i.get kAccess "permissions".toList = .list l → strNames l = some ns →
      ∃ p, i.permissions = .ok (some p) ∧ p.dump = sortedSet ns ∧ (∀ n, p.contains n = ns.contains n) ∧
        ∀ e ∈ linuxPerms, ((p.mode &&& e.2) != 0) = ns.contains e.1) := by
  constructor
  · intro hv
    simp only [Info.permissions, requireNamespace, h, if_true, hv]; rfl
  · intro l ns hv hs
    refine ⟨ofNames ns, ?_, rfl, fun n => rfl, fun e he => contains_mode_bit _ e he⟩
    simp only [Info.permissions, requireNamespace, h, if_true, hv, hs]; rfl

open Fs.Info.Info in
/-- **missing_namespace.**  Every accessor that needs a namespace raises `MissingInfoNamespace`
    when it is absent (and the `basic` accessors never raise). -/
theorem missing_namespace (i : Info) :
    (i.hasNamespace kDetails = false →
      i.type = .error .missingNamespace ∧ i.size = .error .missingNamespace ∧
      ∀ key, i.timeAcc key = .error .missingNamespace) ∧
    (i.hasNamespace kAccess = false →
      i.permissions = .error .missingNamespace ∧ ∀ key, i.accessKey key = .error .missingNamespace) ∧
    (i.hasNamespace kLink = false →
      i.target = .error .missingNamespace ∧ i.isLink = .error .missingNamespace) := by
  refine ⟨fun h => ⟨?_, ?_, fun key => ?_⟩, fun h => ⟨?_, fun key => ?_⟩, fun h => ⟨?_, ?_⟩⟩ <;>
    simp [Info.type, Info.size, timeAcc, Info.permissions, accessKey, Info.target, isLink, requireNamespace, h] <;> rfl

open Fs.Info.Info in
/-- `get` returns the default exactly when the namespace or the key is missing; `has_namespace`
    is membership; `copy` is equal to the original -/
theorem get_laws (i : Info) (ns key : Str) (dflt : JVal) :
    (i.hasNamespace ns = false → i.get ns key dflt = dflt) ∧
    (∀ d, dictGet? ns i.raw = some d → dictGet? key d = none → i.get ns key dflt = dflt) ∧
    (∀ d v, dictGet? ns i.raw = some d → dictGet? key d = some v → i.get ns key dflt = v) ∧
    i.copy.raw = i.raw := by
  refine ⟨?_, ?_, ?_, rfl⟩
  · intro h
    simp only [hasNamespace] at h
    cases hd : dictGet? ns i.raw with
    | none => simp [Info.get, hd]
    | some d => rw [hd] at h; cases h
  · intro d h1 h2; simp [Info.get, h1, h2]
  · intro d v h1 h2; simp [Info.get, h1, h2]

/-! ## raw infos built by the modelled `getinfo`s carry `basic` -/

/-- what `MemoryFS.getinfo` puts into the raw info: the name is the last component of the
    validated path, a directory has size 0, a file the length of its bytes -/
theorem mem_getinfo_shape (s : Ref.State) (p : Str) (r : Str × Bool × Nat) (h : Mem.getinfo s p = .ok r) :
    ∃ cs, Mem.vpath s p = .ok cs ∧ r.1 = Ref.lastName cs ∧
      ((∃ es, s.root.get cs = some (.dir es) ∧ r.2.1 = true ∧ r.2.2 = 0) ∨
       (∃ b, s.root.get cs = some (.file b) ∧ r.2.1 = false ∧ r.2.2 = b.length)) := by
  unfold Mem.getinfo at h
  cases hv : Mem.vpath s p with
  | err e => rw [hv] at h; cases h
  | ok cs =>
    rw [hv] at h
    simp only at h
    refine ⟨cs, rfl, ?_⟩
    cases hg : Node.get cs s.root with
    | none => rw [hg] at h; cases h
    | some n =>
      rw [hg] at h
      cases n with
      | file b => simp only [Res.ok.injEq] at h; subst h; exact ⟨rfl, Or.inr ⟨b, rfl, rfl, rfl⟩⟩
      | dir es => simp only [Res.ok.injEq] at h; subst h; exact ⟨rfl, Or.inl ⟨es, rfl, rfl, rfl⟩⟩

open Fs.Info.Info in
/-- **basic_always_present (MemoryFS).**  Whatever `Mem.getinfo` returns, the raw info
    `to_info` builds from it has `basic` with the string `name` and the bool `is_dir`, the
    accessors return exactly those, `is_file` is the negation; with `details`: `size`, `type`
    (1 for a directory, 2 for a file — agreeing with `is_dir`), the three times as stored, and
    only `accessed`/`modified` writable. -/
theorem basic_always_present_mem (s : Ref.State) (p : Str) (r : Str × Bool × Nat) (details : Bool)
    (a m c : JVal) (_h : Mem.getinfo s p = .ok r) :
    let i : Info := ⟨memRaw r details a m c⟩
    hasBasic i.raw = true ∧ i.name = .str r.1 ∧ i.isDir = .bool r.2.1 ∧ i.isFile = !r.2.1 ∧
    i.hasNamespace kDetails = details ∧
    (details = true →
      i.size = .ok (.int r.2.2) ∧ i.type = .ok (if r.2.1 then 1 else 2) ∧
      i.get kDetails "modified".toList = m ∧ i.get kDetails "accessed".toList = a ∧
      i.get kDetails "created".toList = c ∧
      i.isWriteable kDetails "modified".toList = .ok true ∧
      i.isWriteable kDetails "created".toList = .ok false) := by
  obtain ⟨name, isDir, size⟩ := r
  cases details <;> cases isDir <;> refine ⟨rfl, rfl, rfl, rfl, rfl, ?_⟩ <;> intro h <;>
    first | exact ⟨rfl, rfl, rfl, rfl, rfl, rfl, rfl⟩ | cases h

open Fs.Info.Info in
/-- the same for the reference semantics: the value of `getinfo` -/
theorem basic_always_present_ref (s : Ref.State) (p : Str) (n : Str) (d : Bool) (sz : Nat)
    (_h : (Ref.step s (.getinfo p)).2 = .ok (.info n d sz)) (details : Bool) :
    let i : Info := ⟨memRaw (n, d, sz) details⟩
    hasBasic i.raw = true ∧ i.name = .str n ∧ i.isDir = .bool d ∧ i.isFile = !d := by
  cases details <;> cases d <;> simp [memRaw, hasBasic, basicNS, dictGet?, kBasic, kDetails, Info.name,
    Info.isDir, Info.isFile, Info.get, JVal.truthy]

open Fs.Info.Info in
/-- **basic_always_present (ReadZipFS / ReadTarFS).**  For every `Details` the archive models
    return — explicit member, implied directory, root — the raw info has `basic`; `details`, when
    present, has a `type` agreeing with `is_dir`. -/
theorem basic_always_present_archive (name : Str) (isDir : Bool) (size : Option Nat)
    (modified : Option JVal) (details isRoot : Bool) :
    let i : Info := ⟨archiveRaw name isDir size modified details isRoot⟩
    hasBasic i.raw = true ∧ i.name = .str name ∧ i.isDir = .bool isDir ∧
    i.type = (if i.hasNamespace kDetails then .ok (if isRoot || isDir then 1 else 2)
              else .error .missingNamespace) ∧
    i.hasNamespace kDetails = (details && (isRoot || size.isSome)) := by
  cases details <;> cases isRoot <;> cases isDir <;> cases size <;> cases modified <;>
    exact ⟨rfl, rfl, rfl, rfl, rfl⟩

/-- the archive models' `details` results plug into `archiveRaw` -/
theorem basic_always_present_zip_tar (z : Archive.ZipFS) (t : Archive.TarFS) (p : Str) (dz dt : Archive.Details)
    (_hz : z.details p = .ok dz) (_ht : t.details p = .ok dt) (details : Bool) :
    hasBasic (archiveRaw dz.name dz.isDir dz.size (dz.modified.map .int) details (dz.name == [] && dz.isDir && dz.size.isNone)) = true ∧
    hasBasic (archiveRaw dt.name dt.isDir dt.size (dt.modified.map .int) details (dt.name == [] && dt.isDir && dt.size.isNone)) = true := by
  constructor <;> rfl

/-! ## suffix / suffixes / stem -/

/-- **suffix_stem_laws.**  What the code guarantees for every name:
    * `suffix` is the last element of `suffixes` (or both are empty);
    * `stem + "".join(suffixes) == name` **iff** the name is not a dot-file with a second dot
      (for `.a.b` the stem is the whole name *and* the suffixes are `['.a', '.b']`);
    * when there is exactly one suffix, `stem + suffix == name`. -/
theorem suffix_stem_laws (name : Str) :
    suffixOf name = ((suffixesOf name).getLast?).getD [] ∧
    (stemOf name ++ (suffixesOf name).flatten = name ↔ ¬ (dotStart name = true ∧ 2 ≤ name.count '.')) ∧
    (∀ s, suffixesOf name = [s] → stemOf name ++ suffixOf name = name) := by
  refine ⟨suffix_last name, stem_suffixes_iff name, ?_⟩
  intro s hs
  have h1 := suffix_last name
  rw [hs] at h1
  simp only [List.getLast?_singleton, Option.getD_some] at h1
  by_cases hb : dotStart name = true ∧ 2 ≤ name.count '.'
  · -- a dot-file with two dots has at least two suffixes
    exfalso
    obtain ⟨hd, hc⟩ := hb
    obtain ⟨r, rfl⟩ := (dotStart_iff name).1 hd
    have hne : ¬ (dotStart ('.' :: r) && List.count '.' ('.' :: r) == 1) = true := by
      simp only [hd, Bool.true_and, beq_iff_eq]; omega
    have hlen := congrArg List.length hs
    simp only [suffixesOf, hne, if_false, Bool.false_eq_true, List.length_map, List.length_drop, List.length_singleton] at hlen
    have hl : (splitOn '.' ('.' :: r)).length = List.count '.' ('.' :: r) + 1 := by
      clear hs h1 hne hlen hd hc
      generalize ('.' :: r) = w
      induction w with
      | nil => simp [splitOn]
      | cons x xs ih =>
        by_cases hx : x = '.'
        · subst hx; rw [PathLemmas.splitOn_cons_sep]; simp [ih]
        · rw [PathLemmas.splitOn_cons_ne '.' x xs hx]
          have := PathLemmas.splitOn_ne_nil '.' xs
          cases hsp : splitOn '.' xs with
          | nil => exact absurd hsp this
          | cons a b => rw [hsp] at ih; simp [hx] at ih ⊢; omega
    omega
  · have h2 := (stem_suffixes_iff name).2 hb
    rw [hs] at h2
    simpa [h1] using h2

/-- `stem + suffix` is *not* the name when there are several suffixes, and the dot-file case -/
theorem suffix_stem_counterexample :
    stemOf "foo.tar.gz".toList ++ suffixOf "foo.tar.gz".toList = "foo.gz".toList ∧
    suffixesOf "foo.tar.gz".toList = [".tar".toList, ".gz".toList] ∧
    stemOf ".a.b".toList = ".a.b".toList ∧ suffixesOf ".a.b".toList = [".a".toList, ".b".toList] ∧
    stemOf ".a.b".toList ++ (suffixesOf ".a.b".toList).flatten ≠ ".a.b".toList ∧
    suffixOf ".bashrc".toList = [] ∧ suffixesOf ".bashrc".toList = [] ∧ stemOf ".bashrc".toList = ".bashrc".toList ∧
    suffixOf "a.".toList = ".".toList := by
  decide

end Fs.InfoLaws
