/-
  OSFS, as coded (FsModel.Os = transcription of fs/osfs.py + the fs/base.py defaults it inherits,
  over the POSIX model FsModel.Posix, with every errno translated through the GENERATED table
  FsModel/Generated/ErrnoTable.lean extracted from fs/error_tools.py), implements the reference
  semantics (FsModel.Ref) and reports truthful error classes (FsModel.RefAdm) — part of C01 and C06.

  What "for every errno the POSIX model can return" covers is the scope of FsModel/Posix.lean: one
  device, no symbolic links, every permission granted (ENOENT, ENOTDIR, EEXIST, EISDIR, ENOTEMPTY,
  EINVAL); EACCES/EPERM/ENOSPC/EXDEV/… are outside.
-/
import FsModel.Ref
import FsModel.RefAdm
import FsModel.Mem
import FsModel.Os
import FsProofs.Lemmas.TreeLemmas
import FsProofs.Lemmas.MemLemmas
import FsProofs.Lemmas.QueryLemmas
import FsProofs.Lemmas.OsLemmas
import FsProofs.C06
import FsProofs.MemRefines

namespace Fs.OsRefines
open Fs Fs.Ref Fs.Posix Fs.MemLemmas Fs.OsLemmas
set_option linter.unusedSimpArgs false
set_option linter.unusedVariables false

/-! ### the excluded class -/

/-- the calls in which OSFS is known to deviate from the contract: `movedir` into a proper ancestor
of the source — base-class `move_dir`, shared with MemoryFS: exactly `MemRefines.knownDeviation`.
(A second class, `openbin` with a mode string `Mode.validate_bin` accepted and `io.open` rejected, was
found by this proof and repaired in `/repo` — `fix: Mode.validate rejects the mode strings io.open
rejects` —: see `os_openbin_multimode_repaired`.) -/
def knownDeviation (op : Op) : Prop := MemRefines.knownDeviation op

/-! ### from per-operation agreement to the refinement statement -/

theorem refines_of_eq (s : State) (op : Op) (m : State × Out) (hd : s.root.isDir = true)
    (hl : (Ref.step s op).2 ≠ .err .OperationFailed) (h : m = Ref.step s op) :
    MemRefines.Refines s op m (Ref.step s op) := by
  rw [h]
  refine ⟨rfl, fun _ => rfl, fun e he => ⟨?_, C06.failed_step_unchanged s op e he⟩⟩
  rcases C06.ref_error_truthful s op e hd he with h' | h'
  · exact h'
  · subst h'; exact absurd he hl

theorem refines_of_agree (s : State) (op : Op) (m : State × Out) (A : List Err) (hd : s.root.isDir = true)
    (hl : (Ref.step s op).2 ≠ .err .OperationFailed) (hA : A = adm s op)
    (h : Agree A s m (Ref.step s op)) :
    MemRefines.Refines s op m (Ref.step s op) := by
  rcases h with h | ⟨e, e', hm, hr, he⟩
  · exact refines_of_eq s op m hd hl h
  · rw [hm]
    refine ⟨by simp [Res.isOk, hr], fun h => by simp [hr, Res.isOk] at h, ?_⟩
    intro x hx
    simp only [Res.err.injEq] at hx
    subst hx
    exact ⟨hA ▸ he, rfl⟩

/-- one-path operations other than `openbin`, valid path -/
theorem os_one (s : State) (op : Op) (p : Str) (cs : List Name) (hc : s.closed = false)
    (hd : s.root.isDir = true) (hwf : s.root.wf = true) (hp : op.paths = [p])
    (hno : ∀ q m, op ≠ .openbin q m) (hv : validate p = .ok cs) :
    Agree (adm1 s.root cs op) s (Os.step s op) (step1 s cs op) := by
  cases op <;> simp only [Op.paths, List.cons.injEq, and_true, reduceCtorEq, and_false] at hp
  all_goals first
    | exact absurd rfl (hno _ _)
    | (subst hp
       first
        | (rw [step_exists_eq_mem]; exact Or.inl (mem_exists s _ cs hc hv))
        | (rw [step_isdir_eq_mem]; exact Or.inl (mem_isdir s _ cs hc hv))
        | (rw [step_isfile_eq_mem]; exact Or.inl (mem_isfile s _ cs hc hv))
        | (rw [step_getsize_eq_mem]; exact Or.inl (mem_getsize s _ cs hc hv))
        | (rw [step_gettype_eq_mem]; exact Or.inl (mem_gettype s _ cs hc hv))
        | (rw [step_getinfo_eq_mem]; exact Or.inl (mem_getinfo s _ cs hc hv))
        | (rw [step_settimes_eq_mem]; exact Or.inl (mem_settimes s _ cs hc hv))
        | (rw [step_readbytes_eq_mem]; exact Or.inl (mem_readbytes s _ cs hc hv hd hwf))
        | (rw [step_writebytes_eq_mem]; exact Or.inl (mem_writebytes s _ cs hc hv hd hwf _))
        | (rw [step_appendbytes_eq_mem]; exact Or.inl (mem_appendbytes s _ cs hc hv hd hwf _))
        | (rw [step_create_eq_mem]; exact Or.inl (mem_create s _ cs hc hv hd hwf _))
        | (rw [step_touch_eq_mem]; exact Or.inl (mem_touch s _ cs hc hv hd hwf))
        | exact os_listdir s _ cs hc hv
        | exact os_isempty s _ cs hc hv
        | exact Or.inl (os_remove s _ cs hc hv hd)
        | exact os_removedir s _ cs hc hv hd
        | exact os_removetree s _ cs hc hv hd
        | exact os_makedir s _ cs hc hv hd _
        | (have h := mem_makedirs s _ cs hc hv hd
           simp only [Os.step, Mem.step] at h ⊢
           rw [os_makedirs_eq_mem s _ cs hc hv hd]
           exact h _))

/-- two-path operations, valid paths -/
theorem os_two (s : State) (op : Op) (p q : Str) (a b : List Name) (hc : s.closed = false)
    (hd : s.root.isDir = true) (hwf : s.root.wf = true) (hp : op.paths = [p, q])
    (hk : ¬ MemRefines.knownDeviation op) (hva : validate p = .ok a) (hvb : validate q = .ok b) :
    Agree (adm2 s.root a b op) s (Os.step s op) (step2 s a b op) := by
  cases op <;> simp only [Op.paths, List.cons.injEq, and_true, reduceCtorEq, and_false] at hp
  all_goals obtain ⟨rfl, rfl⟩ := hp
  · exact os_move s _ _ a b hc hva hvb hd hwf _
  · exact os_copy s _ _ a b hc hva hvb hd hwf _
  · refine os_movedir s _ _ a b hc hva hvb hd hwf _ ?_
    intro h
    exact hk ⟨a, b, hva, hvb, h.1, h.2⟩
  · have h := mem_copydir s _ _ a b hc hva hvb hd hwf
    simp only [Os.step, Mem.step] at h ⊢
    rw [os_copydir_eq_mem s _ _ a b hc hva hvb hd]
    exact Or.inl (h _)

/-! ### invalid paths and invalid modes: the same failure as the reference -/

theorem os_step_invalid1 (s : State) (op : Op) (p : Str) (e : Err) (hc : s.closed = false)
    (hp : op.paths = [p]) (hno : ∀ q m, op ≠ .openbin q m) (hv : validate p = .err e) :
    Os.step s op = fail s e := by
  have he := QueryLemmas.validate_err_cases p e hv
  cases op <;> simp only [Op.paths, List.cons.injEq, and_true, reduceCtorEq, and_false] at hp
  all_goals first
    | exact absurd rfl (hno _ _)
    | (subst hp
       rcases he with rfl | rfl <;>
       simp [Os.step, Mem.liftRes, Os.exists_, Os.isdir, Os.isfile, Os.listdir, Os.isempty, Os.scandir,
         Os.getinfo, Os.gettype, Os.readbytes, Os.openf, mode_rb, mode_wb, mode_ab, Os.makedir, Os.makedirs,
         Os.writebytes, Os.appendbytes, Os.create, Os.touch, Os.setinfo, Os.remove, Os.removedir,
         Os.removetree, Os.vpath, vpath_open _ _ hc, hv, hc, fail])

theorem os_step_invalid_openbin (s : State) (p mode : Str) (m : Mode) (e : Err) (hc : s.closed = false)
    (hm : parseBinMode mode = some m) (hv : validate p = .err e) :
    Os.step s (.openbin p mode) = fail s e := by
  simp [Os.step, Os.openbin, hm, Os.vpath, vpath_open _ _ hc, hv, fail]

theorem os_step_badmode (s : State) (p mode : Str) (hm : parseBinMode mode = none) :
    Os.step s (.openbin p mode) = fail s .ValueError := by
  simp [Os.step, Os.openbin, hm, fail]

theorem os_step_invalid2 (s : State) (op : Op) (p q : Str) (e : Err) (hc : s.closed = false)
    (hp : op.paths = [p, q])
    (hv : validate p = .err e ∨ ((∃ a, validate p = .ok a) ∧ validate q = .err e)) :
    Os.step s op = fail s e := by
  cases op <;> simp only [Op.paths, List.cons.injEq, and_true, reduceCtorEq, and_false] at hp
  all_goals
    obtain ⟨rfl, rfl⟩ := hp
    rcases hv with hv | ⟨⟨a, ha⟩, hv⟩
    · simp [Os.step, Os.move, Os.copy, Os.movedir, Os.copydir, Os.vpath, vpath_open _ _ hc, hv, fail]
    · simp [Os.step, Os.move, Os.copy, Os.movedir, Os.copydir, Os.vpath, vpath_open _ _ hc, hv, ha, fail]

/-! ### the refinement -/

/-- REFINEMENT (one step): on an open filesystem, for every operation outside the known
deviations whose reference outcome is not the loose mid-way failure, OSFS (over the POSIX model,
through the generated errno table) gives the same verdict; on success the same value and the
same tree — exactly, in the model's insertion order, hence a fortiori up to the order of entries,
which is all the correspondence compares since the kernel's listing order is its own; on failure
an error class in `adm` (truthful) and an unchanged state. -/
theorem os_refines_ref (s : State) (op : Op) (hc : s.closed = false)
    (hd : s.root.isDir = true) (hwf : s.root.wf = true) (hk : ¬ knownDeviation op)
    (hl : (Ref.step s op).2 ≠ .err .OperationFailed) :
    ((Os.step s op).2.isOk = (Ref.step s op).2.isOk) ∧
    ((Ref.step s op).2.isOk = true → Os.step s op = Ref.step s op) ∧
    (∀ e, (Os.step s op).2 = .err e → e ∈ adm s op ∧ (Os.step s op).1 = s) := by
  change MemRefines.Refines s op (Os.step s op) (Ref.step s op)
  have hk1 : ¬ MemRefines.knownDeviation op := hk
  rcases QueryLemmas.op_cases op with rfl | ⟨p, m, rfl⟩ | ⟨p, hp, hno⟩ | ⟨p, q, hp⟩
  · exact refines_of_eq s _ _ hd hl rfl
  · cases hm : parseBinMode m with
    | none =>
      apply refines_of_eq s _ _ hd hl
      rw [os_step_badmode s p m hm, QueryLemmas.step_openbin s p m hc, hm]; rfl
    | some md =>
      have hio : ioModeOk m := io_ok_of_parse m md hm
      cases hv : validate p with
      | err e =>
        apply refines_of_eq s _ _ hd hl
        rw [os_step_invalid_openbin s p m md e hc hm hv, QueryLemmas.step_openbin s p m hc, hm, hv]
        rfl
      | ok cs =>
        have hs : Ref.step s (.openbin p m) = step1 s cs (.openbin p m) := by
          rw [QueryLemmas.step_openbin s p m hc, hm, hv]; rfl
        refine refines_of_agree s _ _ (adm1 s.root cs (.openbin p m)) hd hl ?_ ?_
        · rw [QueryLemmas.adm_openbin s p m hc, hv]
        · rw [hs, step_openbin_eq_mem s p m hio]; exact mem_openbin s p cs hc hv hd hwf m md hm
  · cases hv : validate p with
    | err e =>
      apply refines_of_eq s _ _ hd hl
      rw [os_step_invalid1 s op p e hc hp hno hv, QueryLemmas.step_one s op p hc hp hno, hv]
    | ok cs =>
      have hs : Ref.step s op = step1 s cs op := by
        rw [QueryLemmas.step_one s op p hc hp hno, hv]
      refine refines_of_agree s _ _ (adm1 s.root cs op) hd hl ?_ ?_
      · rw [QueryLemmas.adm_one s op p hc hp hno, hv]
      · rw [hs]; exact os_one s op p cs hc hd hwf hp hno hv
  · cases hva : validate p with
    | err e =>
      apply refines_of_eq s _ _ hd hl
      rw [os_step_invalid2 s op p q e hc hp (Or.inl hva), QueryLemmas.step_two s op p q hc hp, hva]
    | ok a =>
      cases hvb : validate q with
      | err e =>
        apply refines_of_eq s _ _ hd hl
        rw [os_step_invalid2 s op p q e hc hp (Or.inr ⟨⟨a, hva⟩, hvb⟩),
          QueryLemmas.step_two s op p q hc hp, hva, hvb]
      | ok b =>
        have hs : Ref.step s op = step2 s a b op := by
          rw [QueryLemmas.step_two s op p q hc hp, hva, hvb]
        refine refines_of_agree s _ _ (adm2 s.root a b op) hd hl ?_ ?_
        · rw [QueryLemmas.adm_two s op p q hc hp, hva, hvb]
        · rw [hs]; exact os_two s op p q a b hc hd hwf hp hk1 hva hvb

/-- hence whole histories of OSFS calls agree with the reference on every step that succeeds in
the reference and is outside the known deviations (lifted with `C01.stepwise_agreement_lifts`) -/
theorem os_refines_ref_ok_steps (s : State) (op : Op) (hc : s.closed = false)
    (hd : s.root.isDir = true) (hwf : s.root.wf = true) (v : Val)
    (hk : ¬ knownDeviation op) (hok : (Ref.step s op).2 = .ok v) :
    Os.step s op = Ref.step s op :=
  (os_refines_ref s op hc hd hwf hk (by rw [hok]; exact fun h => by cases h)).2.1
    (by rw [hok]; rfl)

/-- C06 for OSFS: a failing call reports a class whose documented condition holds, and changes
nothing (third conjunct of the refinement, on its own) -/
theorem os_failure_truthful_and_harmless (s : State) (op : Op) (e : Err) (hc : s.closed = false)
    (hd : s.root.isDir = true) (hwf : s.root.wf = true) (hk : ¬ knownDeviation op)
    (hl : (Ref.step s op).2 ≠ .err .OperationFailed) (he : (Os.step s op).2 = .err e) :
    e ∈ adm s op ∧ (Os.step s op).1 = s :=
  (os_refines_ref s op hc hd hwf hk hl).2.2 e he

/-- a closed OSFS never changes; every call but `close` fails (a mode error comes first in
`openbin`, as in the code) -/
theorem os_closed_is_final (s : State) (op : Op) (hc : s.closed = true) (hop : op ≠ .close) :
    (Os.step s op).1 = s ∧ ∃ e, (Os.step s op).2 = .err e := by
  cases op with
  | close => exact absurd rfl hop
  | openbin p m =>
    cases hm : parseBinMode m <;> simp [Os.step, Os.openbin, hm, Os.vpath, Mem.vpath, hc, fail]
  | create p w =>
    cases w <;>
      simp [Os.step, Os.create, Os.exists_, Os.getinfo, Os.openf, mode_wb, Os.vpath, Mem.vpath, hc, fail]
  | _ =>
    simp [Os.step, Mem.liftRes, Os.exists_, Os.isdir, Os.isfile, Os.listdir, Os.isempty, Os.scandir,
      Os.getinfo, Os.gettype, Os.readbytes, Os.openf, mode_rb, mode_wb, mode_ab, Os.makedir, Os.makedirs,
      Os.writebytes, Os.appendbytes, Os.create, Os.touch, Os.setinfo, Os.remove, Os.removedir,
      Os.removetree, Os.move, Os.copy, Os.movedir, Os.copydir, Os.vpath, Mem.vpath, hc, fail]

/-! ### the errno → fs.errors table is truthful, call site by call site -/

/-- a call site: an OSFS method (with the arguments that matter) and the OS primitive in it
whose `OSError` reaches the caller through `convert_os_errors` -/
inductive Site where
  | getinfo | gettype | listdir | scandir
  | makedir (recreate : Bool)
  | openbin (mode : Str)
  | remove | removedir | removetree | setinfo

/-- the API call that reaches the call site -/
def Site.op (p : Str) : Site → Op
  | .getinfo => .getinfo p | .gettype => .gettype p | .listdir => .listdir p | .scandir => .isempty p
  | .makedir r => .makedir p r | .openbin m => .openbin p m | .remove => .remove p
  | .removedir => .removedir p | .removetree => .removetree p | .setinfo => .settimes p

/-- the errno (if any) that the POSIX model returns at the call site for this tree and path *and*
that the method lets travel into the wrapper (`makedir` handles `ENOENT`, and `EEXIST` under
`recreate`, by hand; `openbin`/`removedir` refuse the root before calling the primitive) -/
def Site.errno (t : Node) (cs : List Name) : Site → Option Errno
  | .getinfo | .gettype => (match Posix.stat t cs with | .error e => some e | .ok _ => none)
  | .listdir => (match Posix.listdir t cs with | .error e => some e | .ok _ => none)
  | .scandir => (match Posix.scandir t cs with | .error e => some e | .ok _ => none)
  | .makedir r => (match Posix.mkdir t cs with
      | .error e => if e = .ENOENT then none else if e = .EEXIST && r then none else some e
      | .ok _ => none)
  | .openbin m =>
    if cs = [] then none
    else (match parseBinMode m, ioOpenFlags (platformBin m) with
      | some _, some fl => (match Posix.open_ t cs fl with | .error e => some e | .ok _ => none)
      | _, _ => none)
  | .remove => (match Posix.unlink t cs with | .error e => some e | .ok _ => none)
  | .removedir => if cs = [] then none else (match Posix.rmdir t cs with | .error e => some e | .ok _ => none)
  | .removetree => (match Posix.stat t cs with
      | .error e => some e
      | .ok n => (match Posix.removeContents n with | .error e => some e | .ok _ => none))
  | .setinfo => if Posix.pathExists t cs then (match Posix.utime t cs with | .error e => some e | .ok _ => none) else none

/-- the class the caller sees: through the wrapper the extractor found around that primitive
(`Generated.osfsSites`) and the generated table (`Generated.fileErrors`/`dirErrors`/`defaultClass`) -/
def Site.cls : Site → Errno → Err
  | .getinfo, e => Os.conv "getinfo" "os.stat" e
  | .gettype, e => Os.conv "gettype" "os.stat" e
  | .listdir, e => Os.conv "listdir" "os.listdir" e
  | .scandir, e => Os.conv "_scandir" "scandir" e
  | .makedir _, e => Os.conv "makedir" "os.mkdir" e
  | .openbin _, e => Os.conv "openbin" "io.open" e
  | .remove, e => Os.conv "remove" "os.remove" e
  | .removedir, e => Os.conv "removedir" "os.rmdir" e
  | .removetree, e => Os.conv "removetree" "self._remove_contents" e
  | .setinfo, e => Os.conv "setinfo" "os.utime" e

/-- at a call site that fails in the POSIX model the method fails with the translated class and
leaves the state alone -/
theorem site_step (s : State) (site : Site) (p : Str) (cs : List Name) (hc : s.closed = false)
    (hv : validate p = .ok cs) (e : Errno) (h : site.errno s.root cs = some e) :
    Os.step s (site.op p) = (s, .err (site.cls e)) := by
  cases site with
  | getinfo =>
    simp only [Site.errno] at h
    cases hst : Posix.stat s.root cs with
    | ok n => rw [hst] at h; cases h
    | error e' =>
      rw [hst] at h; simp only [Option.some.injEq] at h; subst h
      simp [Site.op, Site.cls, Os.step, Os.getinfo, Os.getinfoC, Os.vpath, vpath_open _ _ hc, hv, hst, Mem.liftRes, fail]
  | gettype =>
    simp only [Site.errno] at h
    cases hst : Posix.stat s.root cs with
    | ok n => rw [hst] at h; cases h
    | error e' =>
      rw [hst] at h; simp only [Option.some.injEq] at h; subst h
      simp [Site.op, Site.cls, Os.step, Os.gettype, Os.gettypeC, Os.vpath, vpath_open _ _ hc, hv, hst, Mem.liftRes, fail]
  | listdir =>
    simp only [Site.errno] at h
    cases hst : Posix.listdir s.root cs with
    | ok n => rw [hst] at h; cases h
    | error e' =>
      rw [hst] at h; simp only [Option.some.injEq] at h; subst h
      simp [Site.op, Site.cls, Os.step, Os.listdir, Os.vpath, vpath_open _ _ hc, hv, hst, Mem.liftRes, fail]
  | scandir =>
    simp only [Site.errno] at h
    cases hst : Posix.scandir s.root cs with
    | ok n => rw [hst] at h; cases h
    | error e' =>
      rw [hst] at h; simp only [Option.some.injEq] at h; subst h
      simp [Site.op, Site.cls, Os.step, Os.isempty, Os.scandir, Os.vpath, vpath_open _ _ hc, hv, hst, Mem.liftRes, fail]
  | makedir r =>
    simp only [Site.errno] at h
    cases hst : Posix.mkdir s.root cs with
    | ok n => rw [hst] at h; cases h
    | error e' =>
      rw [hst] at h
      by_cases h1 : e' = .ENOENT
      · simp [h1] at h
      · by_cases h2 : (e' = .EEXIST && r) = true
        · simp [h1, h2] at h
        · simp [h1, h2] at h
          subst h
          simp [Site.op, Site.cls, Os.step, Os.makedir, Os.makedirC, Os.vpath, vpath_open _ _ hc, hv, hst, h1, h2, fail]
  | openbin m =>
    simp only [Site.errno] at h
    by_cases hne : cs = []
    · simp [hne] at h
    · simp only [hne, if_false] at h
      cases hm : parseBinMode m with
      | none => simp [hm] at h
      | some md =>
        cases hf : ioOpenFlags (platformBin m) with
        | none => simp [hm, hf] at h
        | some fl =>
          simp only [hm, hf] at h
          cases hst : Posix.open_ s.root cs fl with
          | ok n => rw [hst] at h; cases h
          | error e' =>
            rw [hst] at h; simp only [Option.some.injEq] at h; subst h
            simp [Site.op, Site.cls, Os.step, Os.openbin, Os.openC, Os.vpath, vpath_open _ _ hc, hv, hm, hf, hst, hne, fail]
  | remove =>
    simp only [Site.errno] at h
    cases hst : Posix.unlink s.root cs with
    | ok n => rw [hst] at h; cases h
    | error e' =>
      rw [hst] at h; simp only [Option.some.injEq] at h; subst h
      simp [Site.op, Site.cls, Os.step, Os.remove, Os.removeC, Os.vpath, vpath_open _ _ hc, hv, hst, fail]
  | removedir =>
    simp only [Site.errno] at h
    by_cases hne : cs = []
    · simp [hne] at h
    · simp only [hne, if_false] at h
      cases hst : Posix.rmdir s.root cs with
      | ok n => rw [hst] at h; cases h
      | error e' =>
        rw [hst] at h; simp only [Option.some.injEq] at h; subst h
        simp [Site.op, Site.cls, Os.step, Os.removedir, Os.vpath, vpath_open _ _ hc, hv, hst, hne, fail]
  | removetree =>
    simp only [Site.errno] at h
    cases hst : Posix.stat s.root cs with
    | error e' =>
      rw [hst] at h; simp only [Option.some.injEq] at h; subst h
      simp [Site.op, Site.cls, Os.step, Os.removetree, Os.vpath, vpath_open _ _ hc, hv, hst, Posix.pathIslink, fail]
    | ok n =>
      rw [hst] at h
      simp only at h
      cases hrc : Posix.removeContents n with
      | ok u => rw [hrc] at h; cases h
      | error e' =>
        rw [hrc] at h; simp only [Option.some.injEq] at h; subst h
        simp [Site.op, Site.cls, Os.step, Os.removetree, Os.vpath, vpath_open _ _ hc, hv, hst, hrc, Posix.pathIslink, fail]
  | setinfo =>
    simp only [Site.errno] at h
    by_cases hex : Posix.pathExists s.root cs = true
    · simp only [hex, if_true] at h
      cases hst : Posix.utime s.root cs with
      | ok n => rw [hst] at h; cases h
      | error e' =>
        rw [hst] at h; simp only [Option.some.injEq] at h; subst h
        simp [Site.op, Site.cls, Os.step, Os.setinfo, Os.vpath, vpath_open _ _ hc, hv, hst, hex, fail]
    · simp [hex] at h

theorem table_truthful_of_agree (s : State) (site : Site) (p : Str) (cs : List Name) (e : Errno)
    (hc : s.closed = false) (hd : s.root.isDir = true)
    (hv : validate p = .ok cs) (h : site.errno s.root cs = some e)
    (hs : Ref.step s (site.op p) = step1 s cs (site.op p))
    (hadm : adm s (site.op p) = adm1 s.root cs (site.op p))
    (hag : Agree (adm1 s.root cs (site.op p)) s (Os.step s (site.op p)) (step1 s cs (site.op p))) :
    site.cls e ∈ adm s (site.op p) := by
  have hstep := site_step s site p cs hc hv e h
  rw [hadm]
  rcases hag with heq | ⟨x, x', hm, hr, hx⟩
  · rw [hstep] at heq
    exact QueryLemmas.step1_truthful s cs _ _ hd (by rw [← heq])
  · rw [hstep] at hm
    simp only [Prod.mk.injEq, Res.err.injEq, true_and] at hm
    rw [hm]; exact hx

theorem table_truthful_one (s : State) (site : Site) (p : Str) (cs : List Name) (e : Errno)
    (hc : s.closed = false) (hd : s.root.isDir = true) (hwf : s.root.wf = true)
    (hv : validate p = .ok cs) (h : site.errno s.root cs = some e)
    (hno : ∀ q m, site.op p ≠ .openbin q m) :
    site.cls e ∈ adm s (site.op p) := by
  have hop : (site.op p).paths = [p] := by cases site <;> rfl
  have hs := QueryLemmas.step_one s _ p hc hop hno
  rw [hv] at hs
  have hadm := QueryLemmas.adm_one s _ p hc hop hno
  rw [hv] at hadm
  exact table_truthful_of_agree s site p cs e hc hd hv h hs hadm (os_one s _ p cs hc hd hwf hop hno hv)

/-- ERRNO TABLE TRUTHFUL: for every OSFS method and every errno the POSIX model can return at its
call site (for every tree and every valid path), the class chosen through the generated table is
one whose documented condition holds in the pre-state (`Ref.adm`).  Re-proved from the regenerated
table on every run: swapping or dropping an entry the model can exercise, changing a wrapper's
`directory=` flag, or removing a wrapper makes this theorem (or a `tbl_*` lemma under it) fail. -/
theorem errno_table_truthful (s : State) (site : Site) (p : Str) (cs : List Name) (e : Errno)
    (hc : s.closed = false) (hd : s.root.isDir = true) (hwf : s.root.wf = true)
    (hv : validate p = .ok cs) (h : site.errno s.root cs = some e) :
    site.cls e ∈ adm s (site.op p) := by
  cases site with
  | openbin m =>
    have hne : cs ≠ [] := by rintro rfl; simp [Site.errno] at h
    cases hm : parseBinMode m with
    | none => simp [Site.errno, hne, hm] at h
    | some md =>
      cases hf : ioOpenFlags (platformBin m) with
      | none => simp [Site.errno, hne, hm, hf] at h
      | some fl =>
        have hio : ioModeOk m := by unfold ioModeOk; rw [hf]; rfl
        have hs : Ref.step s (.openbin p m) = step1 s cs (.openbin p m) := by
          rw [QueryLemmas.step_openbin s p m hc, hm, hv]; rfl
        have hadm : adm s (.openbin p m) = adm1 s.root cs (.openbin p m) := by
          rw [QueryLemmas.adm_openbin s p m hc, hv]
        refine table_truthful_of_agree s (.openbin m) p cs e hc hd hv h hs hadm ?_
        show Agree _ s (Os.step s (.openbin p m)) _
        rw [step_openbin_eq_mem s p m hio]; exact mem_openbin s p cs hc hv hd hwf m md hm
  | getinfo => exact table_truthful_one s _ p cs e hc hd hwf hv h (by intro q m; simp [Site.op])
  | gettype => exact table_truthful_one s _ p cs e hc hd hwf hv h (by intro q m; simp [Site.op])
  | listdir => exact table_truthful_one s _ p cs e hc hd hwf hv h (by intro q m; simp [Site.op])
  | scandir => exact table_truthful_one s _ p cs e hc hd hwf hv h (by intro q m; simp [Site.op])
  | makedir r => exact table_truthful_one s _ p cs e hc hd hwf hv h (by intro q m; simp [Site.op])
  | remove => exact table_truthful_one s _ p cs e hc hd hwf hv h (by intro q m; simp [Site.op])
  | removedir => exact table_truthful_one s _ p cs e hc hd hwf hv h (by intro q m; simp [Site.op])
  | removetree => exact table_truthful_one s _ p cs e hc hd hwf hv h (by intro q m; simp [Site.op])
  | setinfo => exact table_truthful_one s _ p cs e hc hd hwf hv h (by intro q m; simp [Site.op])


/-- the errnos the POSIX model can hand to the wrapper at each call site — with `errno_table_rows`
below this is the finite table the structural proof rests on -/
def Site.range : Site → List Errno
  | .getinfo | .gettype | .listdir | .scandir | .removetree => [.ENOENT, .ENOTDIR]
  | .makedir _ => [.ENOTDIR, .EEXIST]
  | .openbin _ => [.ENOENT, .ENOTDIR, .EEXIST, .EISDIR]
  | .remove => [.ENOENT, .ENOTDIR, .EISDIR]
  | .removedir => [.ENOENT, .ENOTDIR, .ENOTEMPTY]
  | .setinfo => []

theorem stat_error_range (t : Node) (cs : List Name) (e : Errno) (h : Posix.stat t cs = .error e) :
    e = .ENOENT ∨ e = .ENOTDIR := by
  rw [stat_eq] at h
  cases hg : t.get cs with
  | some n => rw [hg] at h; cases h
  | none =>
    rw [hg] at h
    simp only [Except.error.injEq] at h
    subst h
    cases blockedByFile t [] cs <;> simp

/-- no other errno reaches a wrapper: `Site.range` is exhaustive for the POSIX model -/
theorem site_errno_range (site : Site) (t : Node) (cs : List Name) (e : Errno)
    (h : site.errno t cs = some e) : e ∈ site.range := by
  cases site with
  | getinfo | gettype =>
    simp only [Site.errno] at h
    cases hst : Posix.stat t cs with
    | ok n => rw [hst] at h; cases h
    | error e' =>
      rw [hst] at h; simp only [Option.some.injEq] at h; subst h
      rcases stat_error_range t cs _ hst with rfl | rfl <;> simp [Site.range]
  | listdir =>
    simp only [Site.errno, Posix.listdir] at h
    cases hst : Posix.stat t cs with
    | ok n => rw [hst] at h; cases n <;> simp at h <;> simp [← h, Site.range]
    | error e' =>
      rw [hst] at h; simp only [Option.some.injEq] at h; subst h
      rcases stat_error_range t cs _ hst with rfl | rfl <;> simp [Site.range]
  | scandir =>
    simp only [Site.errno, Posix.scandir] at h
    cases hst : Posix.stat t cs with
    | ok n => rw [hst] at h; cases n <;> simp at h <;> simp [← h, Site.range]
    | error e' =>
      rw [hst] at h; simp only [Option.some.injEq] at h; subst h
      rcases stat_error_range t cs _ hst with rfl | rfl <;> simp [Site.range]
  | removetree =>
    simp only [Site.errno] at h
    cases hst : Posix.stat t cs with
    | error e' =>
      rw [hst] at h; simp only [Option.some.injEq] at h; subst h
      rcases stat_error_range t cs _ hst with rfl | rfl <;> simp [Site.range]
    | ok n =>
      rw [hst] at h
      cases n with
      | file b => simp [Posix.removeContents] at h; simp [← h, Site.range]
      | dir es => simp [removeContents_ok (.dir es) rfl] at h
  | makedir r =>
    simp only [Site.errno, Posix.mkdir] at h
    by_cases hne : cs = []
    · cases r <;> simp [hne] at h <;> simp [← h, Site.range]
    · simp only [hne, if_false] at h
      cases hst : Posix.stat t cs.dropLast with
      | error e' =>
        rw [hst] at h
        rcases stat_error_range t _ _ hst with rfl | rfl
        · simp at h
        · simp at h; simp [← h, Site.range]
      | ok n =>
        rw [hst] at h
        cases n with
        | file b => simp at h; simp [← h, Site.range]
        | dir es =>
          simp only at h
          cases hl : Ents.lookup (cs.getLast?.getD []) es with
          | none => simp [hl] at h
          | some x => cases r <;> simp [hl] at h <;> simp [← h, Site.range]
  | openbin m =>
    simp only [Site.errno] at h
    by_cases hne : cs = []
    · simp [hne] at h
    · simp only [hne, if_false] at h
      cases hm : parseBinMode m with
      | none => simp [hm] at h
      | some md =>
        cases hf : ioOpenFlags (platformBin m) with
        | none => simp [hm, hf] at h
        | some fl =>
          simp only [hm, hf, Posix.open_, hne, if_false] at h
          cases hst : Posix.stat t cs.dropLast with
          | error e' =>
            rw [hst] at h; simp only [Option.some.injEq] at h; subst h
            rcases stat_error_range t _ _ hst with rfl | rfl <;> simp [Site.range]
          | ok n =>
            rw [hst] at h
            cases n with
            | file b => simp at h; simp [← h, Site.range]
            | dir es =>
              simp only at h
              cases hl : Ents.lookup (cs.getLast?.getD []) es with
              | none =>
                rw [hl] at h
                cases hcr : fl.creat <;> simp [hcr] at h <;> simp [← h, Site.range]
              | some x =>
                rw [hl] at h
                cases x with
                | dir ds => cases hcr : (fl.creat && fl.excl) <;> simp [hcr] at h <;> simp [← h, Site.range]
                | file b =>
                  cases hcr : (fl.creat && fl.excl)
                  · cases htr : fl.trunc <;> simp [hcr, htr] at h
                  · simp [hcr] at h; simp [← h, Site.range]
  | remove =>
    simp only [Site.errno, Posix.unlink] at h
    cases hst : Posix.stat t cs with
    | ok n => rw [hst] at h; cases n <;> simp at h <;> simp [← h, Site.range]
    | error e' =>
      rw [hst] at h; simp only [Option.some.injEq] at h; subst h
      rcases stat_error_range t cs _ hst with rfl | rfl <;> simp [Site.range]
  | removedir =>
    simp only [Site.errno, Posix.rmdir] at h
    by_cases hne : cs = []
    · simp [hne] at h
    · simp only [hne, if_false] at h
      cases hst : Posix.stat t cs with
      | ok n =>
        rw [hst] at h
        cases n with
        | file b => simp at h; simp [← h, Site.range]
        | dir es => cases hes : es.isEmpty <;> simp [hes] at h <;> simp [← h, Site.range]
      | error e' =>
        rw [hst] at h; simp only [Option.some.injEq] at h; subst h
        rcases stat_error_range t cs _ hst with rfl | rfl <;> simp [Site.range]
  | setinfo =>
    simp only [Site.errno, Posix.utime, Posix.pathExists] at h
    cases hst : Posix.stat t cs <;> simp [hst] at h

/-- THE TABLE ROWS IN USE: for every call site and every errno of its range, the class the generated
table yields.  A `decide` over the regenerated table and site list; any change to a row listed here
(in `fs/error_tools.py`), to a `directory=` flag, or to a wrapper (in `fs/osfs.py`) breaks it. -/
theorem errno_table_rows :
    (Site.cls .getinfo .ENOENT, Site.cls .getinfo .ENOTDIR) = (.ResourceNotFound, .ResourceNotFound) ∧
    (Site.cls .gettype .ENOENT, Site.cls .gettype .ENOTDIR) = (.ResourceNotFound, .ResourceNotFound) ∧
    (Site.cls .listdir .ENOENT, Site.cls .listdir .ENOTDIR) = (.ResourceNotFound, .DirectoryExpected) ∧
    (Site.cls .scandir .ENOENT, Site.cls .scandir .ENOTDIR) = (.ResourceNotFound, .DirectoryExpected) ∧
    (Site.cls .removetree .ENOENT, Site.cls .removetree .ENOTDIR) = (.ResourceNotFound, .DirectoryExpected) ∧
    (∀ r, (Site.cls (.makedir r) .ENOTDIR, Site.cls (.makedir r) .EEXIST) = (.DirectoryExpected, .DirectoryExists)) ∧
    (∀ m, (Site.cls (.openbin m) .ENOENT, Site.cls (.openbin m) .ENOTDIR, Site.cls (.openbin m) .EEXIST,
        Site.cls (.openbin m) .EISDIR) = (.ResourceNotFound, .ResourceNotFound, .FileExists, .FileExpected)) ∧
    (Site.cls .remove .ENOENT, Site.cls .remove .ENOTDIR, Site.cls .remove .EISDIR) =
      (.ResourceNotFound, .ResourceNotFound, .FileExpected) ∧
    (Site.cls .removedir .ENOENT, Site.cls .removedir .ENOTDIR, Site.cls .removedir .ENOTEMPTY) =
      (.ResourceNotFound, .DirectoryExpected, .DirectoryNotEmpty) := by
  refine ⟨by decide, by decide, by decide, by decide, by decide, fun _ => ?_, fun _ => ?_, by decide, by decide⟩
  · simp only [Site.cls]; decide
  · simp only [Site.cls]; decide

/-- the one primitive outside every wrapper (`shutil.copy2` in `OSFS.copy`): an `OSError` there
would reach the caller raw (`os_copy_never_leaks`: it cannot happen after `_check_copy`) -/
theorem copy2_is_unwrapped : ∀ e, Os.conv "copy" "shutil.copy2" e = .Leak := by
  intro e
  simp only [Os.conv]
  rw [show Os.siteFlavour "copy" "shutil.copy2" = none by decide]

/-! satisfiability of the hypotheses, and the rows at work -/

example : ∃ s op, s.closed = false ∧ s.root.isDir = true ∧ s.root.wf = true ∧ ¬ knownDeviation op ∧
    (Ref.step s op).2 ≠ .err .OperationFailed :=
  ⟨State.empty, .makedir "a".toList false, rfl, rfl, rfl, fun h => h, by decide⟩

/-- `listdir("f/g")` below the file `f`: `ENOTDIR`, directory flavour → DirectoryExpected -/
example : Site.errno (.dir [("f".toList, .file [])]) ["f".toList, "g".toList] .listdir = some .ENOTDIR ∧
    Site.cls .listdir .ENOTDIR = .DirectoryExpected := by decide
/-- `getinfo("f/g")` below the file `f`: `ENOTDIR`, file flavour → ResourceNotFound -/
example : Site.errno (.dir [("f".toList, .file [])]) ["f".toList, "g".toList] .getinfo = some .ENOTDIR ∧
    Site.cls .getinfo .ENOTDIR = .ResourceNotFound := by decide
/-- `makedir("d")` on an existing directory: `EEXIST`, directory flavour → DirectoryExists -/
example : Site.errno (.dir [("d".toList, .dir [])]) ["d".toList] (.makedir false) = some .EEXIST ∧
    Site.cls (.makedir false) .EEXIST = .DirectoryExists := by decide
/-- … swallowed under `recreate=True` -/
example : Site.errno (.dir [("d".toList, .dir [])]) ["d".toList] (.makedir true) = none := by decide
/-- `openbin("f", "x")` on an existing file: `EEXIST`, file flavour → FileExists -/
example : Site.errno (.dir [("f".toList, .file [])]) ["f".toList] (.openbin "x".toList) = some .EEXIST ∧
    Site.cls (.openbin "x".toList) .EEXIST = .FileExists := by decide
/-- `remove("d")` on a directory: `EISDIR` → FileExpected -/
example : Site.errno (.dir [("d".toList, .dir [])]) ["d".toList] .remove = some .EISDIR ∧
    Site.cls .remove .EISDIR = .FileExpected := by decide
/-- `removedir("d")` on a non-empty directory: `ENOTEMPTY` → DirectoryNotEmpty -/
example : Site.errno (.dir [("d".toList, .dir [("f".toList, .file [])])]) ["d".toList] .removedir = some .ENOTEMPTY ∧
    Site.cls .removedir .ENOTEMPTY = .DirectoryNotEmpty := by decide

/-! ### deviations: witnesses on the model of the code -/

/-- bytes of the file at a path, if there is one -/
def fileAt (t : Node) (q : List Name) : Option Bytes :=
  match t.get q with
  | some (.file b) => some b
  | _ => none

/-- the `movedir`-into-an-ancestor deviation of the base class is OSFS's too (the same witness as
`MemRefines.mem_movedir_ancestor_counterexample`; replayed on the real OSFS by the correspondence) -/
theorem os_movedir_ancestor_counterexample :
    let t : Node := .dir [("a".toList, .dir [("a".toList, .dir [("x".toList, .file [1])])])]
    let s : State := { root := t, closed := false }
    fileAt (Os.step s (.movedir "a".toList "/".toList false)).1.root ["a".toList, "x".toList] = none ∧
    fileAt (Ref.step s (.movedir "a".toList "/".toList false)).1.root ["a".toList, "x".toList] = some [1] := by
  decide

/-- REPAIRED (was `os_openbin_multimode_counterexample`: `openbin("f", "rw")` raised `io.open`'s
`ValueError` on OSFS while the reference truncated the file).  Since `Mode.validate` has `io.open`'s
two rules, every mode string `Mode.validate_bin` accepts is one `io.open` accepts — for all
strings — so `OSFS.openbin` can no longer fail where the reference acts; and on the old witness both
now report the documented `ValueError`, which is in `adm`, and leave the file alone. -/
theorem os_openbin_multimode_repaired :
    (∀ (m : Str) (md : Mode), parseBinMode m = some md → (ioOpenFlags (platformBin m)).isSome = true) ∧
    (let t : Node := .dir [("f".toList, .file [1])]
     let s : State := { root := t, closed := false }
     (Os.step s (.openbin "f".toList "rw".toList)).2 = .err .ValueError ∧
     (Ref.step s (.openbin "f".toList "rw".toList)).2 = .err .ValueError ∧
     fileAt (Os.step s (.openbin "f".toList "rw".toList)).1.root ["f".toList] = some [1] ∧
     Err.ValueError ∈ adm s (.openbin "f".toList "rw".toList)) := by
  refine ⟨io_ok_of_parse, by decide, by decide, by decide, by decide⟩

/-! ### regression theorems for defects that were fixed in fs/osfs.py -/

/-- `OSFS.copy` onto an existing directory is rejected with a truthful class and changes nothing
(the pinned tree let `shutil.copy2` copy the file *into* the directory) -/
theorem os_copy_onto_directory_rejected (s : State) (sp dp : Str) (o : Bool) (ds : Ents)
    (hc : s.closed = false) (hd : s.root.isDir = true) (hwf : s.root.wf = true)
    (hdst : ∃ b, validate dp = .ok b ∧ s.root.get b = some (.dir ds)) :
    ∃ e, Os.step s (.copy sp dp o) = (s, .err e) ∧ e ∈ adm s (.copy sp dp o) := by
  obtain ⟨b, hvb, hgb⟩ := hdst
  have hfail : (Ref.step s (.copy sp dp o)).2.isOk = false := by
    rw [QueryLemmas.step_two s _ sp dp hc rfl]
    cases hva : validate sp with
    | err e => rfl
    | ok a =>
      simp only [hvb, step2]
      by_cases h1 : (!o && (s.root.get b).isSome) = true
      · simp [h1, fail, Res.isOk]
      · by_cases hab : a = b
        · simp [h1, hab, fail, Res.isOk]
        · simp only [h1, hab, if_false, Bool.false_eq_true]
          cases hga : s.root.get a with
          | none => rfl
          | some n =>
            cases n with
            | dir x => rfl
            | file data =>
              by_cases hbne : b = []
              · simp [hbne, fail, Res.isOk]
              · obtain ⟨pes, hp⟩ := TreeLemmas.get_parent_dir hbne hgb
                simp [hbne, parentOf, hp, hgb, fail, Res.isOk]
  have hl : (Ref.step s (.copy sp dp o)).2 ≠ .err .OperationFailed := by
    intro h
    rw [QueryLemmas.step_two s _ sp dp hc rfl] at h
    cases hva : validate sp with
    | err e =>
      rw [hva] at h
      rcases QueryLemmas.validate_err_cases sp e hva with rfl | rfl <;> simp [fail] at h
    | ok a =>
      rw [hva, hvb] at h
      rcases QueryLemmas.step2_truthful s a b _ _ h with h' | h'
      · simp [adm2, admFileArg, admFileTarget] at h'
        split at h' <;> simp at h'
      · simp only [step2] at h
        repeat' split at h
        all_goals simp_all [fail, upd, done]
  have hk : ¬ knownDeviation (.copy sp dp o) := fun h => h
  obtain ⟨h1, _, h3⟩ := os_refines_ref s _ hc hd hwf hk hl
  rw [hfail] at h1
  cases hos : Os.step s (.copy sp dp o) with
  | mk s' r =>
    cases r with
    | ok v => rw [hos] at h1; cases h1
    | err e =>
      obtain ⟨he, hs⟩ := h3 e (by rw [hos])
      rw [hos] at hs
      exact ⟨e, by rw [← hs], he⟩

/-- `shutil.copy2` is the one primitive OSFS calls outside any `convert_os_errors` wrapper; after
`_check_copy` it cannot fail in the POSIX model, so no raw `OSError` (`Leak`) — in particular no
`SameFileError`/`IsADirectoryError`, which the pinned tree let through — ever reaches the caller -/
theorem os_copy_never_leaks (s : State) (sp dp : Str) (o : Bool)
    (hc : s.closed = false) (hd : s.root.isDir = true) (hwf : s.root.wf = true) :
    (Os.step s (.copy sp dp o)).2 ≠ .err .Leak := by
  intro hleak
  cases hva : validate sp with
  | err e =>
    rw [os_step_invalid2 s _ sp dp e hc rfl (Or.inl hva)] at hleak
    rcases QueryLemmas.validate_err_cases sp e hva with rfl | rfl <;> simp [fail] at hleak
  | ok a =>
    cases hvb : validate dp with
    | err e =>
      rw [os_step_invalid2 s _ sp dp e hc rfl (Or.inr ⟨⟨a, hva⟩, hvb⟩)] at hleak
      rcases QueryLemmas.validate_err_cases dp e hvb with rfl | rfl <;> simp [fail] at hleak
    | ok b =>
      have hnl : Err.Leak ∉ adm2 s.root a b (.copy sp dp o) := by
        simp only [adm2, admFileArg, admFileTarget]
        intro h
        simp only [List.mem_append] at h
        rcases h with (((h | h) | h) | h) | h
        all_goals (repeat' split at h) <;> simp at h
      rcases os_copy s sp dp a b hc hva hvb hd hwf o with heq | ⟨e, e', hm, _, he⟩
      · rw [heq] at hleak
        rcases QueryLemmas.step2_truthful s a b _ _ hleak with h' | h'
        · exact hnl h'
        · cases h'
      · rw [hm] at hleak
        simp only [Res.err.injEq] at hleak
        subst hleak
        exact hnl he

/-- `OSFS.removetree` never stops half-way in the POSIX model: `_remove_contents` of a directory
always succeeds (so the failures of `removetree` are exactly the argument checks, which change
nothing) -/
theorem posix_remove_contents_total (n : Node) (h : n.isDir = true) :
    Posix.removeContents n = .ok () :=
  removeContents_ok n h

/-- after a successful `mkdir` the `opendir` that ends `OSFS.makedir` finds the new directory
(the simplification made in `Os.makedirC`) -/
theorem posix_stat_after_mkdir (t t' : Node) (cs : List Name) (h : Posix.mkdir t cs = .ok t') :
    Posix.stat t' cs = .ok (.dir []) := by
  unfold Posix.mkdir at h
  split at h
  · cases h
  · rename_i hne
    rw [stat_eq] at h
    cases hp : t.get cs.dropLast with
    | none => rw [hp] at h; simp at h
    | some n =>
      rw [hp] at h
      cases n with
      | file b => simp at h
      | dir es =>
        simp only at h
        split at h
        · cases h
        · simp only [Except.ok.injEq] at h
          subst h
          exact stat_some (TreeLemmas.get_set_same cs t _ es hne hp)

/-- `FS.move` on OSFS: when `os.rename` fails in the POSIX model the copy fall-back fails as well
(with a translated class) — the two paths never disagree, and a file is never half-moved -/
theorem os_move_all_or_nothing (s : State) (sp dp : Str) (o : Bool) (e : Err)
    (hc : s.closed = false) (hd : s.root.isDir = true) (hwf : s.root.wf = true)
    (he : (Os.step s (.move sp dp o)).2 = .err e) : (Os.step s (.move sp dp o)).1 = s := by
  cases hva : validate sp with
  | err x => rw [os_step_invalid2 s _ sp dp x hc rfl (Or.inl hva)]; rfl
  | ok a =>
    cases hvb : validate dp with
    | err x => rw [os_step_invalid2 s _ sp dp x hc rfl (Or.inr ⟨⟨a, hva⟩, hvb⟩)]; rfl
    | ok b =>
      rcases os_move s sp dp a b hc hva hvb hd hwf o with heq | ⟨x, x', hm, _, _⟩
      · rw [heq] at he ⊢
        exact (QueryLemmas.step2_shape s a b _).err_state he
      · rw [hm]

end Fs.OsRefines
