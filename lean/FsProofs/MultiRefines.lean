/-
  C01 — "… MultiFS with a write layer …": MultiFS **as coded** (FsModel.MultiFs = transcription of
  fs/multifs.py + the fs/base.py / fs/copy.py / fs/move.py / fs/walk.py defaults it inherits, as a functor
  over the step function of its layers) against the reference semantics on the OVERLAY tree.

  Vocabulary (FsModel/MultiFs.lean, FsProofs/Lemmas/MultiFsLemmas.lean):
  * `MState σ`        layers `(name, priority, insertion index, state)` in `_filesystems` order, the write
                      layer, the flags; `order s` = `iterate_fs()` as positions; `writePos s` = `write_fs`;
  * `step fuel F s op` one call on the MultiFS object over layers that step with `F`;
  * `overlay s`       the tree a user sees: for each path the highest-priority layer that has it,
                      directories merged, higher entries first;
  * `Good t`          a layer state `RefinesRef` speaks about: open, a directory root, well-formed;
  * `RefinesRef F`    the refinement statement of `MemRefines.mem_refines_ref` (WrapRefines.lean).
  Helper lemmas live in FsProofs/Lemmas/MultiFsLemmas.lean; this file holds the property theorems.
-/
import FsModel.MultiFs
import FsModel.RouteSpec
import FsProofs.Lemmas.MultiFsLemmas
import FsProofs.Lemmas.MultiFsSingle
import FsProofs.Lemmas.MultiFsListing
import FsProofs.Lemmas.MultiFsUnshadowed
import FsProofs.C17

namespace Fs.MultiRefines
open Fs Fs.Ref Fs.MultiFs Fs.MultiFsLemmas Fs.WrapRefines Fs.MemRefines

/-! ## (e) closed -/

section Closed
variable {σ : Type}

/-- **multi_closed_is_final.**  Every method of a closed MultiFS fails with FilesystemClosed and changes
nothing — neither the MultiFS nor any layer — for every layer function `F`, every operation and path
(`self.check()` comes first in every method; since /repo 433aea4 also in the inherited `FS.removetree`, whose
`abspath(normpath(dir_path))` used to report a path that cannot be normalised as IllegalBackReference before
anything looked at the flag: `multi_closed_removetree_class_repaired`). -/
theorem multi_closed_is_final (fuel : Nat) (F : FS σ) (s : MState σ) (op : Op) (hc : s.closed = true)
    (hop : op ≠ .close) :
    MultiFs.step fuel F s op = (s, .err .FilesystemClosed) := by
  cases op
  case close => exact absurd rfl hop
  all_goals simp [MultiFs.step, hc]

/-- `close()` of a closed MultiFS does nothing (`_filesystems` was cleared by the first `close()`) -/
theorem multi_close_idempotent (fuel : Nat) (F : FS σ) (s : MState σ) (hc : s.closed = true) :
    MultiFs.step fuel F s .close = (s, .ok .unit) := by
  obtain ⟨ls, w, si, c, a⟩ := s
  simp only at hc
  subst hc
  simp [MultiFs.step, closeM]

/-- without `auto_close` a `close()` sets the flag and leaves every layer alone -/
theorem multi_close_keeps_layers (fuel : Nat) (F : FS σ) (s : MState σ) (ha : s.autoClose = false) :
    MultiFs.step fuel F s .close = ({ s with closed := true }, .ok .unit) := by
  simp [MultiFs.step, closeM, ha]

/-- **multi_close_closes_layers_when_auto_close.**  `close()` of an open MultiFS with `auto_close` sets
the flag and closes EVERY layer (one `close()` each, in `_filesystems` order); nothing else about a
layer changes.  (`hok`: the layers' `close()` do not raise — true of every filesystem in the library;
a raising layer stops the loop, `closeLoop`.) -/
theorem multi_close_closes_layers_when_auto_close (fuel : Nat) (F : FS σ) (s : MState σ)
    (hc : s.closed = false) (ha : s.autoClose = true)
    (hok : ∀ l ∈ s.layers, (F l.st .close).2.isOk = true) :
    MultiFs.step fuel F s .close =
      ({ s with closed := true, layers := s.layers.map fun l => { l with st := (F l.st .close).1 } }, .ok .unit) := by
  simp only [MultiFs.step, closeM, ha, hc, Bool.not_false, Bool.and_self, if_true]
  have := closeLoop_all F s.layers [] { s with closed := true } (by simp) hok
  simp only [List.length_nil, List.nil_append, ha] at this
  rw [List.range_eq_range', this]

/-- … over reference layers: every layer is closed afterwards, its tree is what it was, and it answers
every further call with FilesystemClosed -/
theorem multi_close_closes_ref_layers (fuel : Nat) (s : MState State) (hc : s.closed = false)
    (ha : s.autoClose = true) :
    let r := MultiFs.step fuel Ref.step s .close
    r.2 = .ok .unit ∧ r.1.closed = true ∧
    r.1.layers = s.layers.map (fun l => { l with st := { l.st with closed := true } }) ∧
    ∀ l ∈ r.1.layers, ∀ op, op ≠ .close → Ref.step l.st op = (l.st, .err .FilesystemClosed) := by
  have h := multi_close_closes_layers_when_auto_close fuel Ref.step s hc ha (fun l _ => rfl)
  rw [h]
  refine ⟨rfl, rfl, rfl, ?_⟩
  intro l hl op hop
  simp only [List.mem_map] at hl
  obtain ⟨l0, _, rfl⟩ := hl
  exact QueryLemmas.step_closed _ op hop rfl

end Closed


/-! ## (a) `_delegate` is the C17 routing rule -/

/-- the C17 routing state (FsModel.Multi) of a stack of reference layers: member index = position in
`_filesystems` -/
def toRoute (s : MState State) : Multi.MState :=
  { fs := Route.Fss.ofList (s.layers.map (·.st)), entries := entries s, sortIndex := s.sortIndex,
    writeFs := writePos s, closed := s.closed, autoClose := s.autoClose }

/-- **multi_delegate_spec.**  `MultiFS._delegate` of the functor model IS `Multi.delegateLoop` of the C17
routing model on the same stack (`toRoute`), so C17's theorems apply verbatim: the layer it finds
(`C17.multi_read_highest`, not re-proved here) has the path and the maximal `(priority, insertion index)`
among the layers that have it — priority first, then latest added —; when it finds none, no layer has the
path (`C17.multi_read_none`).  Queries never change a reference layer. -/
theorem multi_delegate_spec (s : MState State) (p : Str) :
    (delegate Ref.step s p).1 = s ∧
    (delegate Ref.step s p).2 =
      (Multi.delegateLoop (toRoute s).fs p (Multi.iterateFs (toRoute s))).2.1 ∧
    (∀ i, (delegate Ref.step s p).2 = .ok (some i) →
      ∃ e ∈ (toRoute s).entries, e.fs = i ∧ RouteSpec.Holds (toRoute s).fs p e ∧
        ∀ e' ∈ (toRoute s).entries, RouteSpec.Holds (toRoute s).fs p e' → RouteSpec.KeyLe e' e) ∧
    ((delegate Ref.step s p).2 = .ok none →
      ∀ e ∈ (toRoute s).entries, ¬ RouteSpec.Holds (toRoute s).fs p e) := by
  have hlt : ∀ e ∈ Multi.sortDesc (entries s), e.fs < s.layers.length := fun e he =>
    entries_fs_lt s e ((RouteLemmas.MultiL.mem_sortDesc _ e).1 he)
  have h := delegateLoop_route s p (Multi.sortDesc (entries s)) hlt (toRoute s).fs (fun _ => rfl)
  have hd : delegate Ref.step s p = (s, (Multi.delegateLoop (toRoute s).fs p (Multi.iterateFs (toRoute s))).2.1) := h
  rw [hd]
  exact ⟨rfl, rfl, fun i hi => C17.multi_read_highest (toRoute s) p i hi,
    fun hn => C17.multi_read_none (toRoute s) p hn⟩

/-- … and over ANY layers that refine the reference `_delegate` finds the same layer as over the
reference itself, without changing any layer: the first layer in `iterate_fs` order that has the path
(a path that does not validate is refused with the reference's class by the first layer asked) -/
theorem multi_delegate_generic (F : FS State) (hF : RefinesRef F) (s : MState State) (hg : AllGood s) (p : Str) :
    delegate F s p = delegate Ref.step s p ∧
    delegate F s p = (s, match validate p with
      | .err e => if order s = [] then .ok none else .err e
      | .ok cs => .ok ((order s).find? (hasAt s cs))) := by
  rw [delegate_spec F hF s hg p, delegate_spec Ref.step ref_refines_ref s hg p]
  exact ⟨rfl, rfl⟩


/-! ## (b) ONE layer that is the write layer (the `multi` backend) -/

/-- with ONE layer the overlay is that layer's tree -/
theorem multi_single_overlay (s : MState State) (l : Layer State) (hl : s.layers = [l]) :
    overlay s = { root := l.st.root, closed := s.closed } := by
  have ho : order s = [0] := by simp [order, entries, hl, entriesFrom, Multi.sortDesc, Multi.insertDesc]
  cases hr : l.st.root <;> simp [overlay, rootsInOrder, ho, hl, overlayRoots, overNode, hr]

/-- **multi_single_write_layer_refines** — FULL STATEMENT: a MultiFS with exactly one layer, which is its
write layer (what `fsharness.make_backend("multi")` builds), over ANY layer filesystem `F` that refines
the reference (`RefinesRef F`: MemoryFS as coded, OSFS as coded, a SubFS of them at any depth, …) refines
the reference for EVERY operation: same verdict as `Ref.step` on the layer's tree (= the overlay,
`multi_single_overlay`); on success the same value, the layer ends in the reference's resulting state and
nothing else changes; on failure nothing changes and the class is admissible.

PROVED for the 22 operations that do not walk the filesystem (every query, `makedir(s)`, `writebytes`,
`appendbytes`, `create`, `touch`, `settimes`, `openbin` in every mode string, `remove`, `removedir`, `move`, `copy`);
`close` is `multi_close_closes_layers_when_auto_close` / `multi_close_keeps_layers`.
MISSING: `removetree`, `movedir`, `copydir`.  On a MultiFS they are the base-class walkers (`Walker`,
`copy_structure`, `Copier`) over the MultiFS's own `scandir`/`makedir`/`copy`/`remove`, transcribed operationally
(`rmWalk`, `structLoop`, `filesLoop`); the missing step is that this walk equals the reference's tree-level
merge (`Ref.mergeEnts`) — the statement `FsModel.Mem` and `FsModel.Os` take as their modelling decision for the
same base-class code.  Those three are tied to the real code by the exact correspondence (`multifs.step` on the
`multi` backend, incl. entry order and mid-way failures) and checked on a concrete tree by `decide` below.
NOW PROVED: `FsProofs/BaseWalkLaws.multi_single_write_layer_refines` is the statement for EVERY operation, the
three walkers included (the walk over the MultiFS's own calls computes the reference's tree-level result —
up to the order of entries for `copydir` / `movedir`, under the side conditions listed there); it uses this
theorem for the 22 operations that do not walk. -/
theorem multi_single_write_layer_refines_partial (fuel : Nat) (F : FS State) (hF : RefinesRef F)
    (s : MState State) (l : Layer State) (hl : s.layers = [l]) (hw : s.writeIdx = some l.idx)
    (hc : s.closed = false) (G : Good l.st) (op : Op) (hop : op ≠ .close) (hwk : walker op = false) :
    let r := MultiFs.step fuel F s op
    let ref := Ref.step l.st op
    (r.2.isOk = ref.2.isOk) ∧
    (ref.2.isOk = true → r = ({ s with layers := [{ l with st := ref.1 }] }, ref.2) ∧ overlay r.1 = ref.1) ∧
    (∀ e, r.2 = .err e → r.1 = s ∧ e ∈ adm l.st op) := by
  have S : Single s l := ⟨hl, hw, hc, G⟩
  have hcl : (Ref.step l.st op).1.closed = false := (WrapLemmas.step_closed_same l.st op hop).trans G.opn
  rcases sim1_step fuel F hF s l S op hop hwk with ⟨hok, h⟩ | ⟨e, e', hr, h, ha⟩
  · simp only
    rw [h]
    refine ⟨rfl, fun _ => ⟨rfl, ?_⟩, ?_⟩
    · rw [multi_single_overlay (put1 s l (Ref.step l.st op).1) _ rfl]
      simp only [put1, hc]
      rw [← hcl]
    · intro e he
      simp only at he
      rw [he] at hok; cases hok
  · simp only
    rw [h, hr]
    refine ⟨rfl, fun hk => ?_, ?_⟩
    · simp [Res.isOk] at hk
    · intro x hx
      simp only [Res.err.injEq] at hx
      subst hx
      exact ⟨rfl, ha⟩

/-- instance: MultiFS over MemoryFS **as coded** (`FsModel.Mem`), the configuration the harness runs -/
theorem multi_single_mem_refines (fuel : Nat) (s : MState State) (l : Layer State) (hl : s.layers = [l])
    (hw : s.writeIdx = some l.idx) (hc : s.closed = false) (G : Good l.st) (op : Op) (hop : op ≠ .close)
    (hwk : walker op = false) :
    let r := MultiFs.step fuel Mem.step s op
    let ref := Ref.step l.st op
    (r.2.isOk = ref.2.isOk) ∧
    (ref.2.isOk = true → r = ({ s with layers := [{ l with st := ref.1 }] }, ref.2) ∧ overlay r.1 = ref.1) ∧
    (∀ e, r.2 = .err e → r.1 = s ∧ e ∈ adm l.st op) :=
  multi_single_write_layer_refines_partial fuel Mem.step mem_refines s l hl hw hc G op hop hwk

/-! ## (c) the read side on ANY stack -/

/-- **multi_queries_refine_overlay.**  Any stack: an open MultiFS with at least one layer, over ANY layer
filesystem that refines the reference, every layer in a good state (open, directory root, well-formed),
the layers TYPE-CONSISTENT (no path is a file in one layer and a directory in another: `Consistent`).
Then every query — `exists isdir isfile gettype getsize getinfo readbytes listdir isempty` and `openbin` in
every mode that cannot write — changes nothing (no layer, not the MultiFS) and answers what the reference
answers on the OVERLAY tree: same verdict; on success the same value (for `listdir` the same names in the
same order: the de-duplicated union in `iterate_fs` order); on failure a class that is admissible for the
overlay.  Priorities, insertion order, the position of the write layer and the number of layers are
arbitrary.  Without type consistency the statement is false: `multi_file_over_dir_counterexample`,
`multi_dir_file_dir_counterexample`; without layers: `multi_no_layers_counterexample`.
(`scandir` is the same loop as `listdir` plus one `getinfo` per new name on the layer that listed it —
`MultiFs.scanM`; its names are `listdir`'s; the per-entry `Info` is tied by the exact correspondence
`multifs.scan` only.) -/
theorem multi_queries_refine_overlay (fuel : Nat) (F : FS State) (hF : RefinesRef F) (s : MState State)
    (hc : s.closed = false) (hne : s.layers ≠ []) (hg : AllGood s) (hcons : Consistent s)
    (op : Op) (hq : RouteSpec.isQuery op = true) :
    let r := MultiFs.step fuel F s op
    let ref := Ref.step (overlay s) op
    r.1 = s ∧ ref.1 = overlay s ∧ (r.2.isOk = ref.2.isOk) ∧ (ref.2.isOk = true → r.2 = ref.2) ∧
    (∀ e, r.2 = .err e → e ∈ adm (overlay s) op) := by
  have G : GoodStack s := ⟨hc, hne, hg, hcons⟩
  have hb : bulk op = false := by cases op <;> simp [RouteSpec.isQuery] at hq <;> rfl
  have key : QSim s op (MultiFs.step fuel F s op) := by
    cases op <;> simp only [RouteSpec.isQuery, Bool.false_eq_true] at hq <;>
      simp only [MultiFs.step, hc, Bool.false_eq_true, if_false, stepOpen]
    case exists_ p => exact stack_exists F hF G p
    case isdir p =>
      exact stack_onDelegate F hF G _ p rfl (by intro q m h; cases h) rfl rfl rfl _
        (fun cs _ hg => by simp [step1, hg, done])
    case isfile p =>
      exact stack_onDelegate F hF G _ p rfl (by intro q m h; cases h) rfl rfl rfl _
        (fun cs _ hg => by simp [step1, hg, done])
    case listdir p => exact stack_listdir F hF G p
    case getsize p =>
      exact stack_onDelegate F hF G _ p rfl (by intro q m h; cases h) rfl rfl rfl _
        (fun cs _ hg => by simp [step1, hg, fail])
    case gettype p =>
      exact stack_onDelegate F hF G _ p rfl (by intro q m h; cases h) rfl rfl rfl _
        (fun cs _ hg => by simp [step1, hg, fail])
    case isempty p => exact stack_isempty F hF G p
    case getinfo p => exact stack_getinfo F hF G p
    case readbytes p =>
      exact stack_onDelegate F hF G _ p rfl (by intro q m h; cases h) rfl rfl rfl _
        (fun cs _ hg => by simp [step1, hg, fail])
    case openbin p m =>
      have hcw : Route.checkWritable m = false := by
        simp only [Bool.not_eq_true', Route.checkWritable] at hq ⊢; exact hq
      exact stack_openbin_read F hF G p m hcw
  obtain ⟨h1, h2⟩ := key
  have hst : (Ref.step (overlay s) op).1 = overlay s := RouteLemmas.step_query_state _ _ hq
  refine ⟨h1, hst, ?_⟩
  rcases h2 with h | ⟨e, e', hr, he', ha⟩
  · refine ⟨by rw [h], fun _ => h, ?_⟩
    intro e he
    rw [h] at he
    rcases C06.ref_error_truthful (overlay s) op e (overlay_root_isDir' G) he with h' | h'
    · exact h'
    · subst h'; exact absurd he (not_loose _ op hb)
  · refine ⟨by rw [he', hr]; rfl, fun hk => by rw [hr] at hk; simp [Res.isOk] at hk, ?_⟩
    intro x hx
    rw [he'] at hx
    simp only [Res.err.injEq] at hx
    subst hx; exact ha

/-- instance: any consistent stack of MemoryFS layers as coded -/
theorem multi_queries_refine_overlay_mem (fuel : Nat) (s : MState State) (hc : s.closed = false)
    (hne : s.layers ≠ []) (hg : AllGood s) (hcons : Consistent s) (op : Op) (hq : RouteSpec.isQuery op = true) :
    let r := MultiFs.step fuel Mem.step s op
    let ref := Ref.step (overlay s) op
    r.1 = s ∧ ref.1 = overlay s ∧ (r.2.isOk = ref.2.isOk) ∧ (ref.2.isOk = true → r.2 = ref.2) ∧
    (∀ e, r.2 = .err e → e ∈ adm (overlay s) op) :=
  multi_queries_refine_overlay fuel Mem.step mem_refines s hc hne hg hcons op hq

/-! ## (d) the write side on a stack: which layer a mutator acts on -/

section WriteSide
variable {σ : Type}

/-- the methods MultiFS hands to `write_fs` as they are -/
def directWrite : Op → Bool
  | .makedir _ _ | .makedirs _ _ | .writebytes _ _ | .appendbytes _ _ | .settimes _ => true
  | .openbin _ m => Route.modeOk m && Route.checkWritable m
  | _ => false

/-- **multi_write_goes_to_write_layer.**  `makedir`, `makedirs`, `writebytes`, `appendbytes` (= `open(…, "ab")`),
`settimes`/`setinfo` and `openbin` in every writing mode (`w a x +`; hence `r+` and `a` on a file that lives
in a read layer) are ONE call of the same method, with the same path, on the write layer — whatever the
other layers hold, whatever the priorities: no `_delegate`, no look at the overlay.  Every other layer is
untouched; the outcome is the write layer's.  (Any layer function `F`, any state.) -/
theorem multi_write_goes_to_write_layer (fuel : Nat) (F : FS σ) (s : MState σ) (op : Op)
    (hc : s.closed = false) (hw : directWrite op = true) (w : Nat) (l : Layer σ)
    (hwp : writePos s = some w) (hl : s.layers[w]? = some l) :
    MultiFs.step fuel F s op =
      ({ s with layers := s.layers.set w { l with st := (F l.st op).1 } }, (F l.st op).2) := by
  cases op <;> simp only [directWrite, Bool.false_eq_true, Bool.and_eq_true] at hw <;>
    simp only [MultiFs.step, hc, Bool.false_eq_true, if_false, stepOpen, onWrite, hwp, callLayer_some F s w _ l hl]
  case openbin p m => simp [openbinM, hw.1, hw.2, onWrite, hwp, callLayer_some F s w _ l hl, hc]

/-- … and without a write layer they raise ResourceReadOnly and nothing changes (an invalid mode string
is ValueError first, as everywhere) -/
theorem multi_no_write_layer_read_only (fuel : Nat) (F : FS σ) (s : MState σ) (op : Op)
    (hc : s.closed = false) (hw : directWrite op = true) (hwp : writePos s = none) :
    MultiFs.step fuel F s op = (s, .err .ResourceReadOnly) := by
  cases op <;> simp only [directWrite, Bool.false_eq_true, Bool.and_eq_true] at hw <;>
    simp only [MultiFs.step, hc, Bool.false_eq_true, if_false, stepOpen, onWrite, hwp]
  case openbin p m => simp [openbinM, hw.1, hw.2, onWrite, hwp]

end WriteSide

/-- **multi_remove_acts_on_holder.**  `remove` / `removedir` (and `getsize`, `gettype`, `readbytes`, …) are one
call on the FIRST layer in `iterate_fs` order that has the path — not on the write layer —, ResourceNotFound
when no layer has it; every other layer is untouched.  (Good layers that refine the reference; a path that
does not validate is refused with the reference's class before any layer changes.) -/
theorem multi_remove_acts_on_holder (fuel : Nat) (F : FS State) (hF : RefinesRef F) (s : MState State)
    (hc : s.closed = false) (hg : AllGood s) (op : Op) (p : Str) (hop : op = .remove p ∨ op = .removedir p) :
    MultiFs.step fuel F s op = match validate p with
      | .err e => if order s = [] then (s, .err .ResourceNotFound) else (s, .err e)
      | .ok cs =>
        match (order s).find? (hasAt s cs) with
        | none => (s, .err .ResourceNotFound)
        | some i => callLayer F s i op := by
  rcases hop with rfl | rfl <;>
    simp only [MultiFs.step, hc, Bool.false_eq_true, if_false, stepOpen] <;>
    exact onDelegate_eq F hF s hg p _ _

/-- **multi_remove_reveals.**  `remove(p)` of a file held by the first layer `i0` that has the path (so: the
file the user sees) succeeds, deletes it from THAT layer only — and from then on `_delegate(p)` finds the
NEXT layer in `iterate_fs` order that has the path: if there is one, the path still exists afterwards and
shows that layer's resource (`multi_remove_reveals_counterexample` is the instance the reference cannot
follow); if there is none the path is gone, as in the reference. -/
theorem multi_remove_reveals (fuel : Nat) (F : FS State) (hF : RefinesRef F) (s : MState State)
    (hc : s.closed = false) (hg : AllGood s) (p : Str) (cs : List Name) (hv : validate p = .ok cs)
    (pre post : List Nat) (i0 : Nat) (l0 : Layer State) (b : Bytes)
    (hsplit : order s = pre ++ i0 :: post) (hpre : ∀ j ∈ pre, hasAt s cs j = false)
    (hl0 : s.layers[i0]? = some l0) (hb : l0.st.root.get cs = some (.file b)) :
    let r := MultiFs.step fuel F s (.remove p)
    r.2 = .ok .unit ∧
    r.1 = putW s i0 l0 { l0.st with root := l0.st.root.del cs } ∧
    (order r.1).find? (hasAt r.1 cs) = post.find? (hasAt s cs) := by
  have Gl := hg l0 (List.mem_of_getElem? hl0)
  have hne : cs ≠ [] := by
    rintro rfl
    simp only [Node.get, Option.some.injEq] at hb
    have := Gl.dir; rw [hb] at this; cases this
  have hh0 : hasAt s cs i0 = true := by simp [hasAt, hl0, hb]
  have hfind : (order s).find? (hasAt s cs) = some i0 := by
    rw [hsplit, List.find?_append]
    have : pre.find? (hasAt s cs) = none := List.find?_eq_none.2 (fun j hj => by simp [hpre j hj])
    simp [this, hh0]
  have hrm : Ref.step l0.st (.remove p) = ({ l0.st with root := l0.st.root.del cs }, .ok .unit) := by
    rw [ref_one l0.st Gl.opn _ p rfl (by intro q m h; cases h), hv]
    simp [step1, hne, hb, upd]
  have hstep : MultiFs.step fuel F s (.remove p) = callLayer F s i0 (.remove p) := by
    rw [multi_remove_acts_on_holder fuel F hF s hc hg _ p (Or.inl rfl), hv]
    simp only [hfind]
  have hcall : callLayer F s i0 (.remove p) = (putW s i0 l0 { l0.st with root := l0.st.root.del cs }, .ok .unit) := by
    rcases callLayer_cases F hF s hg i0 l0 hl0 (.remove p) rfl with ⟨_, h⟩ | ⟨e, _, hr, _, _⟩
    · rw [h, hrm]; rfl
    · rw [hrm] at hr; exact absurd (congrArg Prod.snd hr) (by simp)
  simp only
  rw [hstep, hcall]
  refine ⟨rfl, rfl, ?_⟩
  have hgone : (l0.st.root.del cs).get cs = none := by
    have := TreeLemmas.get_del_append cs [] l0.st.root hne Gl.wf
    simpa using this
  rw [(putW_cfg i0 l0 _ hl0).order, hsplit, List.find?_append]
  have hpre' : pre.find? (hasAt (putW s i0 l0 { l0.st with root := l0.st.root.del cs }) cs) = none := by
    apply List.find?_eq_none.2
    intro j hj
    have hji : j ≠ i0 := by
      rintro rfl
      have hnd := order_nodup s
      rw [hsplit] at hnd
      exact (List.nodup_append.1 hnd).2.2 j hj j (by simp) rfl
    rw [hasAt_putW_other i0 l0 _ hl0 cs j hji, hpre j hj]; simp
  have hi0 : hasAt (putW s i0 l0 { l0.st with root := l0.st.root.del cs }) cs i0 = false := by
    rw [hasAt_eq, nodeAt_putW i0 l0 _ hl0 cs i0]; simp [hgone]
  rw [hpre']
  simp only [Option.none_or, List.find?_cons, hi0]
  apply find_congr_mem
  intro j hj
  have hji : j ≠ i0 := by
    rintro rfl
    have hnd := order_nodup s
    rw [hsplit] at hnd
    have := (List.nodup_append.1 hnd).2.1
    exact (List.nodup_cons.1 this).1 hj
  exact hasAt_putW_other i0 l0 _ hl0 cs j hji

/-! ## (d) when a mutator DOES coincide with the reference on the overlay: unshadowed paths -/

/-- the path is refused by validation, or goes through a top-level name that no layer other than the write
layer (position `w`) holds — decidable -/
def unshadowedPath (s : MState State) (w : Nat) (p : Str) : Bool :=
  match validate p with
  | .err _ => true
  | .ok [] => false
  | .ok (c :: _) => (List.range s.layers.length).all fun j => j == w || !(hasAt s [c] j)

/-- **the side condition**: there is a write layer and every path argument is unshadowed (the same
predicate as `unshadowed` in harness/props/_multiexact.py) -/
def unshadowed (s : MState State) (op : Op) : Bool :=
  match writePos s with
  | none => false
  | some w => op.paths.all (unshadowedPath s w)

theorem onlyW_of_unshadowedPath {s : MState State} {w : Nat} {p : Str} (h : unshadowedPath s w p = true)
    {c : Name} {rest : List Name} (hv : validate p = .ok (c :: rest)) : OnlyW s w c := by
  intro j hj
  unfold unshadowedPath at h
  rw [hv] at h
  simp only [List.all_eq_true, List.mem_range, Bool.or_eq_true, beq_iff_eq, Bool.not_eq_eq_eq_not, Bool.not_true] at h
  by_cases hlt : j < s.layers.length
  · rcases h j hlt with h' | h'
    · exact absurd h' hj
    · exact h'
  · simp [hasAt, List.getElem?_eq_none (Nat.le_of_not_lt hlt)]

/-- the one-path mutators (one call on one layer; `create` / `touch`: `exists`, then a call on the write layer) -/
def simpleMutator : Op → Bool
  | .makedir _ _ | .makedirs _ _ | .writebytes _ _ | .appendbytes _ _ | .settimes _ | .remove _ | .removedir _
  | .create _ _ | .touch _ => true
  | .openbin _ m => Route.modeOk m && Route.checkWritable m
  | _ => false

/-- **multi_mutators_refine_when_unshadowed** — FULL STATEMENT: on a stack of good, type-consistent layers
with a write layer `w`, EVERY mutating operation whose path arguments are `unshadowed` (validated to a
non-root path whose first component is held by no other layer) coincides with `Ref.step` on the overlay:
same verdict; on success the same value, the write layer makes the reference's step on its own tree, no
other layer changes, and the new overlay shows at every path what the reference's resulting tree shows
(`ObsEq`: names, types, bytes — the entry ORDER of a new top-level name is the write layer's position in
`iterate_fs`, not "last"); on failure nothing changes and the class is admissible for the overlay.

PROVED for every one-path mutator: `makedir`, `makedirs`, `writebytes`, `appendbytes`, `settimes`, `openbin` in
every writing mode (one call on the write layer), `remove`, `removedir` (one call on the layer that has the
path — here necessarily the write layer), `create`, `touch` (`exists` through the overlay, then `open(…, "wb")`
/ `setinfo` on the write layer).  The proof is the locality of the reference (`step1_agree`: an operation on
`c/…` sees and changes only the top-level entry `c`) plus `overlay_top` (under an unshadowed name the overlay
IS the write layer's entry).
MISSING: the two-path `move`, `copy` (compositions of `exists`/`getinfo`/`readbytes` with `writebytes`/`remove`:
each constituent is covered by this theorem / `multi_queries_refine_overlay`; the composition, and the
two-path locality of `Ref.step2`, are proved for the single-layer stack only) and the three walkers; all of
them are checked against `Ref.step` on the overlay of the real stacks by the `unshadowed` oracle of the
harness (found_input=True). -/
theorem multi_mutators_refine_when_unshadowed_partial (fuel : Nat) (F : FS State) (hF : RefinesRef F)
    (s : MState State) (hc : s.closed = false) (hne : s.layers ≠ []) (hg : AllGood s) (hcons : Consistent s)
    (w : Nat) (lw : Layer State) (hwp : writePos s = some w) (hl : s.layers[w]? = some lw)
    (op : Op) (hm : simpleMutator op = true) (hu : unshadowed s op = true) :
    let r := MultiFs.step fuel F s op
    let ref := Ref.step (overlay s) op
    (r.2.isOk = ref.2.isOk) ∧
    (ref.2.isOk = true →
      r.2 = ref.2 ∧ r.1 = putW s w lw (Ref.step lw.st op).1 ∧ ObsEq (overlay r.1).root ref.1.root) ∧
    (∀ e, r.2 = .err e → r.1 = s ∧ e ∈ adm (overlay s) op) := by
  have G : GoodStack s := ⟨hc, hne, hg, hcons⟩
  have hup : ∀ p, op.paths = [p] → unshadowedPath s w p = true := by
    intro p hp
    simp only [unshadowed, hwp, hp, List.all_cons, List.all_nil, Bool.and_true] at hu
    exact hu
  have hU : ∀ p, op.paths = [p] → ∀ c rest, validate p = .ok (c :: rest) → OnlyW s w c :=
    fun p hp c rest hv => onlyW_of_unshadowedPath (hup p hp) hv
  have hroot : ∀ p, op.paths = [p] → validate p ≠ .ok [] := by
    intro p hp hv
    have := hup p hp
    simp [unshadowedPath, hv] at this
  have key : USim s w lw op (MultiFs.step fuel F s op) := by
    cases op <;> simp only [simpleMutator, Bool.false_eq_true, Bool.and_eq_true] at hm <;>
      simp only [MultiFs.step, hc, Bool.false_eq_true, if_false, stepOpen, onWrite, hwp]
    case makedir p r => exact unshadowed_call F hF G w lw hl _ p rfl rfl (hU p rfl) (hroot p rfl)
    case makedirs p r => exact unshadowed_call F hF G w lw hl _ p rfl rfl (hU p rfl) (hroot p rfl)
    case writebytes p d => exact unshadowed_call F hF G w lw hl _ p rfl rfl (hU p rfl) (hroot p rfl)
    case appendbytes p d => exact unshadowed_call F hF G w lw hl _ p rfl rfl (hU p rfl) (hroot p rfl)
    case settimes p => exact unshadowed_call F hF G w lw hl _ p rfl rfl (hU p rfl) (hroot p rfl)
    case openbin p m =>
      simp only [openbinM, hm.1, hm.2, Bool.not_true, Bool.false_eq_true, if_false, if_true, onWrite, hwp]
      exact unshadowed_call F hF G w lw hl _ p rfl rfl (hU p rfl) (hroot p rfl)
    case create p wp => exact unshadowed_create F hF G w lw hl hwp p wp (hU p rfl) (hroot p rfl)
    case touch p => exact unshadowed_touch F hF G w lw hl hwp p (hU p rfl) (hroot p rfl)
    case remove p =>
      exact unshadowed_onDelegate F hF G w lw hl _ p rfl (by intro q m h; cases h) rfl (hU p rfl) (hroot p rfl)
        (fun cs hcs hg => by simp [step1, hcs, hg, fail])
    case removedir p =>
      exact unshadowed_onDelegate F hF G w lw hl _ p rfl (by intro q m h; cases h) rfl (hU p rfl) (hroot p rfl)
        (fun cs hcs hg => by simp [step1, hcs, hg, fail])
  exact key

/-- non-vacuity of the side condition: a read-only layer on top, the write layer below, a path under a
name only the write layer holds — and what `unshadowed` rules out -/
example :
    let s : MState State := { layers := [⟨"w".toList, 0, 0, ⟨.dir [("mine".toList, .dir [])], false⟩⟩,
                                          ⟨"ro".toList, 1, 1, ⟨.dir [("theirs".toList, .dir [])], false⟩⟩],
                              writeIdx := some 0, sortIndex := 2, closed := false, autoClose := true }
    unshadowed s (.writebytes "mine/f".toList [1]) = true ∧ unshadowed s (.makedir "new".toList false) = true ∧
    unshadowed s (.writebytes "theirs/f".toList [1]) = false ∧ unshadowed s (.remove "/".toList) = false := by
  decide

/-! ## concrete stacks (witnesses; every one of them is replayed on the real MultiFS by the directed
corpus of `harness/props/_multiexact.py`) -/

/-- a reference layer -/
def lay (name : String) (prio : Int) (idx : Nat) (es : Ents) : Layer State :=
  ⟨name.toList, prio, idx, ⟨.dir es, false⟩⟩
/-- a stack; `w` = insertion index of the write layer -/
def stack (ls : List (Layer State)) (w : Option Nat) : MState State :=
  { layers := ls, writeIdx := w, sortIndex := ls.length, closed := false, autoClose := true }
def fl (n : String) (b : Bytes) : Name × Node := (n.toList, .file b)
def dr (n : String) (es : Ents) : Name × Node := (n.toList, .dir es)
/-- what the user sees after the call, through the reference's own queries on the overlay -/
def see (r : MState State × Out) (p : String) : Out := (Ref.step (overlay r.1) (.readbytes p.toList)).2
def has (r : MState State × Out) (p : String) : Out := (Ref.step (overlay r.1) (.exists_ p.toList)).2
/-- the reference's call on the overlay tree, and what is seen afterwards -/
def ref (s : MState State) (op : Op) : State × Out := Ref.step (overlay s) op
def rsee (r : State × Out) (p : String) : Out := (Ref.step r.1 (.readbytes p.toList)).2
def rhas (r : State × Out) (p : String) : Out := (Ref.step r.1 (.exists_ p.toList)).2
/-- one MultiFS call over reference layers -/
def call (s : MState State) (op : Op) : MState State × Out := MultiFs.step 16 Ref.step s op
/-- a read-only layer (priority 1) over the write layer (priority 0) -/
def roOverW (hi lo : Ents) : MState State := stack [lay "w" 0 0 lo, lay "ro" 1 1 hi] (some 0)
/-- the write layer (priority 1) over a read-only layer (priority 0) -/
def wOverRo (hi lo : Ents) : MState State := stack [lay "ro" 0 0 lo, lay "w" 1 1 hi] (some 1)

set_option maxRecDepth 16384

/-! ### (d) mutators on a stack are NOT transparent on the overlay — one decided witness per rule.
Verdict for all of them against the text of C01 ("MultiFS with a write layer … the same observable tree as
the reference"): DOCUMENTED LIMIT, not a finding.  A MultiFS is a union view without copy-up
(docs/source/reference/multifs.rst: "the directory structure of each overlays the previous filesystem");
as soon as a layer other than the write layer holds or shadows the path, no assignment of the call to
one layer can make the union behave like one plain tree.  What C01 covers is the write layer alone
(`multi_single_write_layer_refines`) and every call whose paths are unshadowed
(`multi_mutators_refine_when_unshadowed`).  No witness below is an inconsistency WITHIN the write layer. -/

/-- `remove` acts on the layer that HAS the file (here the read-only one!) and reveals the file of the
same name below it: the call succeeds and the path still exists, with the lower content -/
theorem multi_remove_reveals_counterexample :
    let s := roOverW [fl "f" [1]] [fl "f" [2]]
    let r := call s (.remove "f".toList)
    r.2 = .ok .unit ∧ see r "f" = .ok (.bytes [2]) ∧
    (ref s (.remove "f".toList)).2 = .ok .unit ∧ rhas (ref s (.remove "f".toList)) "f" = .ok (.bool false) := by
  decide

/-- writing a path a higher read-only layer has: the write layer gets the data, the user still reads
the old content -/
theorem multi_write_shadowed_counterexample :
    let s := roOverW [fl "c" [1]] []
    let r := call s (.writebytes "c".toList [9])
    r.2 = .ok .unit ∧ see r "c" = .ok (.bytes [1]) ∧ rsee (ref s (.writebytes "c".toList [9])) "c" = .ok (.bytes [9]) := by
  decide

/-- appending (and `openbin(…, "a")` / `"r+"`) to a file that lives in a read layer below: a NEW file is
created in the write layer with the appended data only (no copy-up) -/
theorem multi_append_read_layer_counterexample :
    let s := wOverRo [] [fl "c" [1]]
    let r := call s (.appendbytes "c".toList [9])
    r.2 = .ok .unit ∧ see r "c" = .ok (.bytes [9]) ∧
    rsee (ref s (.appendbytes "c".toList [9])) "c" = .ok (.bytes [1, 9]) ∧
    (call s (.openbin "c".toList "r+".toList)).2 = .err .ResourceNotFound ∧
    (ref s (.openbin "c".toList "r+".toList)).2 = .ok .unit := by
  decide

/-- writing below a directory that exists only in a read layer: the write layer has no such parent -/
theorem multi_write_below_read_dir_counterexample :
    let s := wOverRo [] [dr "a" []]
    (call s (.writebytes "a/g".toList [9])).2 = .err .ResourceNotFound ∧
    (ref s (.writebytes "a/g".toList [9])).2 = .ok .unit ∧
    (call s (.makedir "a/n".toList false)).2 = .err .ResourceNotFound ∧
    (ref s (.makedir "a/n".toList false)).2 = .ok .unit := by
  decide

/-- `touch` / `settimes` of a file in a read layer: `exists` says yes (overlay), `setinfo` goes to the write
layer, which does not have it -/
theorem multi_touch_read_layer_counterexample :
    let s := wOverRo [] [fl "c" [1]]
    (call s (.touch "c".toList)).2 = .err .ResourceNotFound ∧ (ref s (.touch "c".toList)).2 = .ok .unit ∧
    (call s (.settimes "c".toList)).2 = .err .ResourceNotFound ∧ (ref s (.settimes "c".toList)).2 = .ok .unit := by
  decide

/-- `makedir` / `makedirs` of a directory a read layer already has: created (again) in the write layer
instead of DirectoryExists -/
theorem multi_makedir_read_layer_counterexample :
    let s := wOverRo [] [dr "d" [fl "x" [1]]]
    (call s (.makedir "d".toList false)).2 = .ok .unit ∧ (ref s (.makedir "d".toList false)).2 = .err .DirectoryExists ∧
    (call s (.makedirs "d".toList false)).2 = .ok .unit ∧ (ref s (.makedirs "d".toList false)).2 = .err .DirectoryExists ∧
    see (call s (.makedir "d".toList false)) "d/x" = .ok (.bytes [1]) := by
  decide

/-- `removedir` asks only the highest layer that has the directory: empty THERE is enough, and the
directory (with the lower content) is still there afterwards -/
theorem multi_removedir_counterexample :
    let s := roOverW [dr "d" []] [dr "d" [fl "x" [1]]]
    let r := call s (.removedir "d".toList)
    r.2 = .ok .unit ∧ see r "d/x" = .ok (.bytes [1]) ∧ (ref s (.removedir "d".toList)).2 = .err .DirectoryNotEmpty := by
  decide

/-- `removetree` walks the union once: of every name it removes the highest copy, so shadowed files and
the directories holding them survive -/
theorem multi_removetree_counterexample :
    let s := roOverW [dr "a" [fl "f" [1]]] [dr "a" [fl "f" [2], fl "g" [3]]]
    let r := call s (.removetree "/".toList)
    r.2 = .ok .unit ∧ see r "a/f" = .ok (.bytes [2]) ∧ has r "a/g" = .ok (.bool false) ∧
    rhas (ref s (.removetree "/".toList)) "a" = .ok (.bool false) := by
  decide

/-- `move` reads through the overlay, writes to the write layer and removes from the layer that has the
source — here the read-only one, revealing the write layer's own file of that name -/
theorem multi_move_counterexample :
    let s := roOverW [fl "c" [1]] [fl "c" [2]]
    let r := call s (.move "c".toList "n".toList true)
    r.2 = .ok .unit ∧ see r "n" = .ok (.bytes [1]) ∧ see r "c" = .ok (.bytes [2]) ∧
    rhas (ref s (.move "c".toList "n".toList true)) "c" = .ok (.bool false) := by
  decide

/-- `movedir`: the copy lands in the write layer, then `removetree(src)` leaves what was shadowed -/
theorem multi_movedir_counterexample :
    let s := roOverW [dr "a" [fl "f" [1]]] [dr "a" [fl "f" [2]]]
    let r := call s (.movedir "a".toList "e".toList true)
    r.2 = .ok .unit ∧ see r "e/f" = .ok (.bytes [1]) ∧ see r "a/f" = .ok (.bytes [2]) ∧
    rhas (ref s (.movedir "a".toList "e".toList true)) "a" = .ok (.bool false) := by
  decide +kernel

/-- without a write layer `remove` still removes — from a layer nobody declared writable (the creating
calls raise ResourceReadOnly: `multi_no_write_layer_read_only`) -/
theorem multi_remove_without_write_layer_counterexample :
    let s := stack [lay "a" 0 0 [fl "c" [1]]] none
    let r := call s (.remove "c".toList)
    r.2 = .ok .unit ∧ has r "c" = .ok (.bool false) ∧ (call s (.writebytes "n".toList [])).2 = .err .ResourceReadOnly := by
  decide

/-! ### (c) what happens without type consistency -/

/-- a FILE over a DIRECTORY of the same name: `isfile k`, yet `exists k/inner` and `readbytes k/inner/x`
answer from the lower layer — no tree shows that; `listdir k` is DirectoryExpected.  (On `overlay` the
file wins and hides everything below it.)  This is the `k` of the `multi2` backend. -/
theorem multi_file_over_dir_counterexample :
    let s := roOverW [fl "k" [7]] [dr "k" [dr "inner" [fl "x" [1]]]]
    (call s (.isfile "k".toList)).2 = .ok (.bool true) ∧
    (call s (.exists_ "k/inner".toList)).2 = .ok (.bool true) ∧
    (call s (.readbytes "k/inner/x".toList)).2 = .ok (.bytes [1]) ∧
    (call s (.listdir "k".toList)).2 = .err .DirectoryExpected ∧
    (ref s (.exists_ "k/inner".toList)).2 = .ok (.bool false) := by
  decide

/-- a DIRECTORY over a FILE over a DIRECTORY: the listing is the union of the two directories, the file
in between is skipped (since /repo 8405cc0) — `overlay` (a right fold) stops at the file -/
theorem multi_dir_file_dir_counterexample :
    let s := stack [lay "lo" 0 0 [dr "j" [fl "x" [1]]], lay "mid" 1 1 [fl "j" [2]], lay "hi" 2 2 [dr "j" [fl "y" [3]]]] none
    (call s (.listdir "j".toList)).2 = .ok (.names ["y".toList, "x".toList]) ∧
    (ref s (.listdir "j".toList)).2 = .ok (.names ["y".toList]) := by
  decide

/-- a MultiFS without layers shows no root at all -/
theorem multi_no_layers_counterexample :
    let s := stack [] none
    (call s (.exists_ "/".toList)).2 = .ok (.bool false) ∧ (call s (.listdir "/".toList)).2 = .err .ResourceNotFound ∧
    (ref s (.exists_ "/".toList)).2 = .ok (.bool true) := by
  decide

/-- (e) REPAIRED (/repo 433aea4): the one class difference a closed MultiFS had — `FS.removetree` normalised
its argument before anything looked at the closed flag, so `removetree("..")` raised IllegalBackReference where the
reference says FilesystemClosed — is gone: `removetree` starts with `validatepath`, i.e. with `check()` -/
theorem multi_closed_removetree_class_repaired :
    let s : MState State := { stack [lay "w" 0 0 []] (some 0) with closed := true }
    (call s (.removetree "..".toList)).2 = .err .FilesystemClosed ∧
    (ref s (.removetree "..".toList)).2 = .err .FilesystemClosed ∧
    (call s (.removetree "a".toList)).2 = .err .FilesystemClosed := by
  decide

/-! ### non-vacuity: the order of `iterate_fs`, shadowing, the bulk defaults on a single write layer -/

/-- priorities descending, then latest added first; the listing is the de-duplicated union in that order -/
example :
    let s := stack [lay "x" 0 0 [fl "c" [1], fl "x" []], lay "w" 0 1 [fl "c" [2]], lay "y" 0 2 [fl "c" [3], fl "y" []],
                    lay "top" 5 3 [fl "t" []]] (some 1)
    order s = [3, 2, 1, 0] ∧ (call s (.readbytes "c".toList)).2 = .ok (.bytes [3]) ∧
    (call s (.listdir "/".toList)).2 = .ok (.names ["t".toList, "c".toList, "y".toList, "x".toList]) ∧
    (ref s (.listdir "/".toList)).2 = .ok (.names ["t".toList, "c".toList, "y".toList, "x".toList]) := by
  decide

/-- the walker-based defaults on ONE write layer (the `multi` backend) agree with the reference on a
concrete tree (they are outside `multi_single_write_layer_refines_partial`; tied by the correspondence) -/
example :
    let t : Ents := [dr "a" [fl "f" [1], dr "b" [fl "g" [2]]], fl "c" [3]]
    let s := stack [lay "w" 0 0 t] (some 0)
    (call s (.copydir "a".toList "e".toList true)).2 = .ok .unit ∧
    see (call s (.copydir "a".toList "e".toList true)) "e/b/g" = .ok (.bytes [2]) ∧
    rsee (ref s (.copydir "a".toList "e".toList true)) "e/b/g" = .ok (.bytes [2]) ∧
    has (call s (.movedir "a".toList "e".toList true)) "a" = .ok (.bool false) ∧
    see (call s (.movedir "a".toList "e".toList true)) "e/f" = .ok (.bytes [1]) ∧
    has (call s (.removetree "a".toList)) "a" = .ok (.bool false) ∧
    see (call s (.removetree "a".toList)) "c" = .ok (.bytes [3]) := by
  decide +kernel

end Fs.MultiRefines
