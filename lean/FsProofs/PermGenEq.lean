/-
  PermGenEq — the `Permissions` methods regenerated from `$VERIF_REPO/fs/permissions.py` on every run
  (`FsModel/Generated/PermGen.lean`, written by `harness/extract/permgen.py`) are the hand-written
  `Fs.Info.Permissions.*` (FsModel/Info.lean) that the C10 theorems (`FsProofs/InfoLaws.lean`) are stated over.
  An object is its set of names, `p.perms`.  Where Python uses a loop or a partial operation the generated
  function returns `Res` and the theorem says `.ok …` (`mode`: the fold over `_LINUX_PERMS`; `as_str`: the three
  item assignments `perms[2|5|8] = …` never raise IndexError).
  `pyBitAnd_mask`: Python's two's-complement `mode & mask` for a mask below 4096 is the hand model's
  `(mode % 4096).toNat &&& mask` — for every int, negative ones included — so `Permissions(mode=m)` and the
  `mode` setter are `ofModeInt m` for all `m`.
-/
import FsModel.Generated.PermGen
import FsModel.Info
import FsProofs.Lemmas.WildGenLemmas

namespace Fs.PermGenEq
open Fs Fs.PyStr Fs.PySet Fs.PyStrLemmas Fs.PathGenLemmas Fs.WildGenLemmas Fs.Info

theorem coverage : PermGen.translated =
    ["__contains__", "__init__", "add", "as_str", "check", "dump", "load", "mode", "mode.setter", "parse",
     "remove"] := by decide +kernel

theorem nothing_refused : PermGen.refused = [] := by decide +kernel

/-! ### Python's `mode & mask` for a mask below 4096 is the hand model's `(mode % 4096).toNat &&& mask` -/

theorem and_mod_4096 (a k : Nat) (hk : k < 4096) : (a % 4096) &&& k = a &&& k := by
  apply Nat.eq_of_testBit_eq
  intro i
  have h12 : (4096 : Nat) = 2 ^ 12 := by decide
  rw [Nat.testBit_and, Nat.testBit_and, h12, Nat.testBit_mod_two_pow]
  by_cases hi : i < 12
  · simp [hi]
  · have : k.testBit i = false := by
      apply Nat.testBit_lt_two_pow
      have : 2 ^ 12 ≤ 2 ^ i := Nat.pow_le_pow_right (by decide) (by omega)
      omega
    simp [this]

theorem xor_and_eq (a k : Nat) (hk : k < 4096) :
    k ^^^ (k &&& a) = (4095 - a % 4096) &&& k := by
  apply Nat.eq_of_testBit_eq
  intro i
  have h12 : (4096 : Nat) = 2 ^ 12 := by decide
  have hx : a % 4096 < 2 ^ 12 := by rw [← h12]; exact Nat.mod_lt _ (by decide)
  have e : 4095 - a % 4096 = 2 ^ 12 - (a % 4096 + 1) := by omega
  rw [Nat.testBit_xor, Nat.testBit_and, Nat.testBit_and, e, Nat.testBit_two_pow_sub_succ hx, h12,
    Nat.testBit_mod_two_pow]
  by_cases hi : i < 12
  · cases k.testBit i <;> cases a.testBit i <;> simp [hi]
  · have : k.testBit i = false := by
      apply Nat.testBit_lt_two_pow
      have : 2 ^ 12 ≤ 2 ^ i := Nat.pow_le_pow_right (by decide) (by omega)
      omega
    simp [this, hi]

theorem ofNat_bne_zero (n : Nat) : ((Int.ofNat n) != 0) = (n != 0) := by
  cases n with
  | zero => rfl
  | succ n =>
    have h1 : (Int.ofNat (n + 1) != 0) = true := by
      simp only [bne_iff_ne, ne_eq, Int.ofNat_eq_natCast]; omega
    have h2 : (n + 1 != 0) = true := by simp
    rw [h1, h2]

theorem pyBitAnd_mask (m : Int) (k : Nat) (hk : k < 4096) :
    (pyBitAnd m (Int.ofNat k) != 0) = (((m % 4096).toNat &&& k) != 0) := by
  cases m with
  | ofNat a =>
    have e : (Int.ofNat a % 4096).toNat = a % 4096 := by
      have : (Int.ofNat a % 4096) = Int.ofNat (a % 4096) := by simp
      rw [this]; rfl
    simp only [pyBitAnd, e, and_mod_4096 a k hk]
    exact ofNat_bne_zero _
  | negSucc a =>
    have e : (Int.negSucc a % 4096).toNat = 4095 - a % 4096 := by
      have : Int.negSucc a % 4096 = Int.ofNat (4095 - a % 4096) := by
        rw [Int.negSucc_emod _ (by decide)]
        have : a % 4096 < 4096 := Nat.mod_lt _ (by decide)
        simp; omega
      rw [this]; rfl
    simp only [pyBitAnd, e, xor_and_eq a k hk]
    exact ofNat_bne_zero _


/-! ### the class constants -/

theorem linux_perms_eq : PermGen._LINUX_PERMS = linuxPerms := by decide

theorem linux_perms_names_eq : PermGen._LINUX_PERMS_NAMES = linuxPermsNames := by decide

/-! ### one equality per method (an object is its set of names: `p.perms`) -/

theorem contains_eq (p : Permissions) (n : Str) : PermGen.contains p.perms n = p.contains n := rfl

theorem check_eq (p : Permissions) (ns : List Str) : PermGen.check p.perms ns = p.check ns := by
  simp only [PermGen.check, Permissions.check, Permissions.contains]
  congr 1

theorem add_eq (p : Permissions) (ns : List Str) : PermGen.add p.perms ns = (p.add ns).perms := rfl

theorem remove_eq (p : Permissions) (ns : List Str) : PermGen.remove p.perms ns = (p.remove ns).perms := rfl

theorem dump_eq (p : Permissions) : PermGen.dump p.perms = p.dump := rfl

/-- the `mode` setter and `Permissions(mode=…)`: Python's `mode & mask` on any int, negative ones included -/
theorem mode_filter_eq (m : Int) :
    (List.map (fun it' : Str × Nat => it'.1)
      (List.filter (fun it' : Str × Nat => (pyBitAnd m (Int.ofNat it'.2) != 0)) PermGen._LINUX_PERMS)) =
      (Permissions.ofModeInt m).perms := by
  rw [linux_perms_eq]
  simp only [Permissions.ofModeInt, Permissions.ofMode]
  congr 1
  apply List.filter_congr
  intro x hx
  have hk : x.2 < 4096 := by
    simp only [linuxPerms, List.mem_cons, List.not_mem_nil, or_false] at hx
    rcases hx with h | h | h | h | h | h | h | h | h | h | h | h <;> (subst h; decide)
  exact pyBitAnd_mask m x.2 hk

theorem set_mode_eq (s : List Str) (m : Int) : PermGen.set_mode s m = (Permissions.ofModeInt m).perms := by
  simp only [PermGen.set_mode]
  exact mode_filter_eq m

theorem pyFor_fold {α σ : Type} (g : σ → α → σ) (f : α → σ → Flow σ Empty) (hf : ∀ x s, f x s = .next (g s x))
    (xs : List α) (s : σ) : pyFor xs s f = .done (xs.foldl g s) := by
  induction xs generalizing s with
  | nil => rfl
  | cons x xs ih => rw [pyFor, hf]; simp only []; rw [ih]; rfl

theorem mode_eq (p : Permissions) : PermGen.mode p.perms = .ok (Int.ofNat p.mode) := by
  simp only [PermGen.mode, Permissions.mode, linux_perms_eq]
  rw [pyFor_fold (fun acc (nm : Str × Nat) => if p.contains nm.1 then acc ||| nm.2 else acc)]
  intro x s
  by_cases h : p.contains x.1 = true
  · have h' : List.contains p.perms x.1 = true := h
    simp only [h, h', if_true]
  · have h' : ¬ List.contains p.perms x.1 = true := h
    simp only [h, h', if_false, Bool.false_eq_true]

theorem pyOrOpt_nil (x : Option Str) : pyOrOpt x [] = x.getD [] := by
  cases x with
  | none => rfl
  | some s => cases s <;> rfl

theorem ugo_eq (pre : Char) (s : Str) :
    List.map (fun it' : Str => [pre, '_'] ++ it') (List.filter (fun it' : Str => (it' != ['-'])) (pyChars s)) =
      Permissions.ugo pre s := by
  induction s with
  | nil => rfl
  | cons c r ih =>
    simp only [pyChars, List.map_cons, Permissions.ugo, List.filter_cons] at ih ⊢
    by_cases hc : c = '-'
    · subst hc; simpa using ih
    · have h1 : (([c] : Str) != ['-']) = true := by simp [hc]
      have h2 : (c != '-') = true := by simp [hc]
      simp only [h1, h2, if_true, List.map_cons, List.cons.injEq]
      exact ⟨rfl, ih⟩

theorem init_eq (names : Option (List Str)) (mode : Option Int) (user group other : Option Str)
    (sticky setuid setguid : Option Bool) :
    PermGen.init names mode user group other sticky setuid setguid =
      (Permissions.init names mode user group other (sticky == some true) (setuid == some true)
        (setguid == some true)).perms := by
  simp only [PermGen.init, Permissions.init]
  cases names with
  | some ns =>
    cases (sticky == some true) <;> cases (setuid == some true) <;> cases (setguid == some true) <;> simp
  | none =>
    cases mode with
    | some m =>
      simp only [mode_filter_eq]
      cases (sticky == some true) <;> cases (setuid == some true) <;> cases (setguid == some true) <;> simp
    | none =>
      simp only [pyOrOpt_nil, ugo_eq, List.nil_append]
      cases (sticky == some true) <;> cases (setuid == some true) <;> cases (setguid == some true) <;>
        simp [List.append_assoc]

theorem load_eq (ns : List Str) : PermGen.load ns = (Permissions.ofNames ns).perms := by
  simp [PermGen.load, init_eq, Permissions.init, Permissions.ofNames]

theorem parse_eq (ls : Str) : PermGen.parse ls = (Permissions.parse ls).perms := by
  simp only [PermGen.parse, init_eq, Permissions.parse, Permissions.ofUGO]
  have e1 : List.drop 3 (List.take 6 ls) = List.take 3 (List.drop 3 ls) := by rw [List.drop_take]
  have e2 : List.drop 6 (List.take 9 ls) = List.take 3 (List.drop 6 ls) := by rw [List.drop_take]
  rw [e1, e2]
  rfl


/-! ### `as_str`: the generated list of one-character strings is the hand model's list of characters -/

theorem ite_single (c : Bool) (a b : Char) : (if c = true then [a] else [b]) = [if c = true then a else b] := by
  cases c <;> rfl

theorem join_map_single (l : List Char) : pyJoinS [] (l.map fun c => [c]) = l := by
  rw [pyJoinS_nil]
  induction l with
  | nil => rfl
  | cons a r ih => simp [ih]

theorem as_str_eq (p : Permissions) : PermGen.as_str p.perms = .ok p.asStr := by
  have hinit : (List.map (fun it' : Str × Str => if List.contains p.perms it'.1 = true then it'.2 else ['-'])
      (List.zip (pySliceFrom PermGen._LINUX_PERMS_NAMES (-9 : Int)) (pyChars ['r', 'w', 'x', 'r', 'w', 'x', 'r', 'w', 'x']))) =
      (((linuxPermsNames.drop (linuxPermsNames.length - 9)).zip "rwxrwxrwx".toList).map
        fun nc => if p.contains nc.1 then nc.2 else '-').map (fun c => [c]) := by
    have e : pySliceFrom PermGen._LINUX_PERMS_NAMES (-9 : Int) = linuxPermsNames.drop (linuxPermsNames.length - 9) := by
      decide
    rw [e]
    have e2 : linuxPermsNames.drop (linuxPermsNames.length - 9) =
        ["u_r".toList, "u_w".toList, "u_x".toList, "g_r".toList, "g_w".toList, "g_x".toList,
         "o_r".toList, "o_w".toList, "o_x".toList] := by decide
    rw [e2]
    simp only [pyChars, List.map_cons, List.map_nil, List.zip_cons_cons, List.zip_nil_right, String.toList,
      Permissions.contains, ite_single]
    rfl
  simp only [PermGen.as_str, hinit, Permissions.asStr]
  generalize hl : (((linuxPermsNames.drop (linuxPermsNames.length - 9)).zip "rwxrwxrwx".toList).map
        fun nc => if p.contains nc.1 then nc.2 else '-') = l0
  have hlen : l0.length = 9 := by rw [← hl]; simp [linuxPermsNames, linuxPerms]
  have c1 : List.contains p.perms ['s', 'e', 't', 'u', 'i', 'd'] = p.contains "setuid".toList := rfl
  have c2 : List.contains p.perms ['s', 'e', 't', 'g', 'u', 'i', 'd'] = p.contains "setguid".toList := rfl
  have c3 : List.contains p.perms ['s', 't', 'i', 'c', 'k', 'y'] = p.contains "sticky".toList := rfl
  have c4 : List.contains p.perms ['u', '_', 'x'] = p.contains "u_x".toList := rfl
  have c5 : List.contains p.perms ['g', '_', 'x'] = p.contains "g_x".toList := rfl
  have c6 : List.contains p.perms ['o', '_', 'x'] = p.contains "o_x".toList := rfl
  simp only [c1, c2, c3, c4, c5, c6, ite_single]
  have hL : (l0.map fun c => [c]).length = 9 := by simp [hlen]
  generalize hLdef : (l0.map fun c => [c]) = L at hL ⊢
  have sI : ∀ (M : List Str) (i : Nat) (w : Str), i < M.length →
      pySetItem M (Int.ofNat i) w = .ok (M.set i w) := by
    intro M i w h
    have h0 : ¬ (Int.ofNat i < 0) := by simp
    have h1 : (Int.ofNat i).toNat < M.length := by simpa using h
    simp only [pySetItem, h0, if_false, h1, if_true]
    rfl
  have s2 : ∀ (M : List Str) (w : Str), M.length = 9 → pySetItem M (2 : Int) w = .ok (M.set 2 w) :=
    fun M w h => sI M 2 w (by omega)
  have s5 : ∀ (M : List Str) (w : Str), M.length = 9 → pySetItem M (5 : Int) w = .ok (M.set 5 w) :=
    fun M w h => sI M 5 w (by omega)
  have s8 : ∀ (M : List Str) (w : Str), M.length = 9 → pySetItem M (8 : Int) w = .ok (M.set 8 w) :=
    fun M w h => sI M 8 w (by omega)
  have fin : ∀ (l : List Char), pyJoinS [] (l.map fun c => [c]) = l := join_map_single
  have sm : ∀ (l : List Char) (i : Nat) (a : Char),
      (l.map fun c => [c]).set i [a] = (l.set i a).map fun c => [c] := by
    intro l i a; simp [List.map_set]
  cases p.contains "setuid".toList <;> cases p.contains "setguid".toList <;> cases p.contains "sticky".toList <;>
    simp only [Bool.false_eq_true, if_false, if_true, s2, s5, s8, hL, List.length_set] <;>
    subst hLdef <;>
    simp only [sm, fin]

/-! non-vacuity -/
example : PermGen.as_str (PermGen.parse "rwxr-x--x".toList) = .ok "rwxr-x--x".toList := by decide
example : PermGen.mode (PermGen.init (mode := some (-1))) = .ok 4095 := by decide

end Fs.PermGenEq
