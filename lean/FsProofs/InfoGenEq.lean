/-
  InfoGenEq — the accessors of `class Info`, regenerated from `$VERIF_REPO/fs/info.py` on every run
  (`FsModel/Generated/InfoGen.lean`, written by harness/extract/infogen.py), against the hand model
  `Fs.Info.Info.*` (FsModel/Info.lean) that InfoLaws / C10 are stated over.  An object is its raw dictionary
  (`i.raw`); a result of the hand model (`IRes`) is read in the generated module's vocabulary through the
  injective `ofIRes` (FsModel/PyInfo.lean).  An accessor whose hand version is total (`get`, `name`, `is_dir`,
  `is_file`, `has_namespace`) never raises.
-/
import FsModel.Generated.InfoGen
import FsProofs.Lemmas.PyStrLemmas
import FsProofs.Lemmas.PathLemmas

-- the unfolding lists name helpers that only some shapes of the source use
set_option linter.unusedSimpArgs false

namespace Fs.InfoGenEq
open Fs Fs.Path Fs.PyStr Fs.Info Fs.InfoGen Fs.PathLemmas Fs.PyStrLemmas

theorem coverage : InfoGen.translated =
    ["_make_datetime", "_require_namespace", "accessed", "created", "get", "gid", "group", "has_namespace", "is_dir",
     "is_file", "is_link", "is_writeable", "metadata_changed", "modified", "name", "permissions", "size", "stem",
     "suffix", "suffixes", "target", "type", "uid", "user"] := by decide +kernel

theorem nothing_refused : InfoGen.refused = [] := by decide +kernel

/-! the string constants of the hand model, spelled as the generated code spells them -/
theorem lit_basic : "basic".toList = (['b', 'a', 's', 'i', 'c'] : Str) := by decide
theorem lit_details : "details".toList = (['d', 'e', 't', 'a', 'i', 'l', 's'] : Str) := by decide
theorem lit_access : "access".toList = (['a', 'c', 'c', 'e', 's', 's'] : Str) := by decide
theorem lit_link : "link".toList = (['l', 'i', 'n', 'k'] : Str) := by decide
theorem lit_name : "name".toList = (['n', 'a', 'm', 'e'] : Str) := by decide
theorem lit_is_dir : "is_dir".toList = (['i', 's', '_', 'd', 'i', 'r'] : Str) := by decide
theorem lit_write : "_write".toList = (['_', 'w', 'r', 'i', 't', 'e'] : Str) := by decide
theorem lit_target : "target".toList = (['t', 'a', 'r', 'g', 'e', 't'] : Str) := by decide
theorem lit_type : "type".toList = (['t', 'y', 'p', 'e'] : Str) := by decide
theorem lit_permissions : "permissions".toList = (['p', 'e', 'r', 'm', 'i', 's', 's', 'i', 'o', 'n', 's'] : Str) := by decide

/-- spell every string constant as the generated code does -/
local macro "norm_lits" : tactic => `(tactic| simp only [kBasic, kDetails, kAccess, kLink, lit_basic, lit_details, lit_access, lit_link, lit_name, lit_is_dir, lit_write, lit_target, lit_type, lit_permissions])

theorem ofIRes_injective {α : Type} (a b : IRes α) (h : (ofIRes a : InfoGen.Res α) = ofIRes b) : a = b := by
  cases a with
  | ok x => cases b with
    | ok y => simp only [ofIRes, InfoGen.Res.ok.injEq] at h; rw [h]
    | error e => simp [ofIRes] at h
  | error e => cases b with
    | ok y => simp [ofIRes] at h
    | error f =>
      simp only [ofIRes, InfoGen.Res.err.injEq] at h
      cases e <;> cases f <;> first | rfl | (simp [ofIErr] at h)

/-- `get`: the `try … except KeyError` around `self.raw[namespace].get(key, default)` never lets anything out -/
theorem get_eq (i : Info) (ns key : Str) (d : JVal) :
    InfoGen.get i.raw ns key d = .ok (i.get ns key d) := by
  match hd : dictGet? ns i.raw with
  | none => simp [InfoGen.get, Info.get, pyDictIdx, pyDictGet, pyDictHas, hd]
  | some v => simp [InfoGen.get, Info.get, pyDictIdx, pyDictGet, pyDictHas, hd]

theorem has_namespace_eq (i : Info) (ns : Str) : InfoGen.has_namespace i.raw ns = i.hasNamespace ns := rfl

theorem require_namespace_eq (i : Info) (ns : Str) :
    InfoGen._require_namespace i.raw ns = ofIRes (i.requireNamespace ns) := by
  unfold InfoGen._require_namespace Info.requireNamespace Info.hasNamespace pyDictHas
  cases (dictGet? ns i.raw).isSome <;> rfl

theorem make_datetime_eq (r : Raw) (t : JVal) : InfoGen._make_datetime r t = ofIRes (Info.makeDatetime t) := by
  unfold InfoGen._make_datetime Info.makeDatetime pyToDatetime
  cases t with
  | null => rfl
  | bool b => simp only [pyIsNone, JVal.num?]; cases epochToDatetimeQ (if b then 1 else 0) 1 <;> rfl
  | int n => simp only [pyIsNone, JVal.num?]; cases epochToDatetimeQ n 1 <;> rfl
  | float n d => simp only [pyIsNone, JVal.num?]; cases epochToDatetimeQ n d <;> rfl
  | str s => rfl
  | list l => rfl

theorem is_writeable_eq (i : Info) (ns key : Str) :
    InfoGen.is_writeable i.raw ns key = ofIRes (i.isWriteable ns key) := by
  unfold InfoGen.is_writeable Info.isWriteable
  rw [get_eq]
  simp only [pyAnyIn, lit_write]
  cases i.get ns ['_', 'w', 'r', 'i', 't', 'e'] (.list []) <;> rfl

theorem name_eq (i : Info) : InfoGen.name i.raw = .ok i.name := by
  unfold InfoGen.name; rw [get_eq]; rfl

theorem is_dir_eq (i : Info) : InfoGen.is_dir i.raw = .ok i.isDir := by
  unfold InfoGen.is_dir; rw [get_eq]; rfl

theorem is_file_eq (i : Info) : InfoGen.is_file i.raw = .ok i.isFile := by
  unfold InfoGen.is_file; rw [get_eq]; rfl

theorem rpartition_suffix (s : Str) :
    (match pyRpartition s '.' with
      | (_, dot, ext) => (if (!dot.isEmpty) then (['.'] ++ ext) else ([] : Str)))
      = (let r := Info.rpartition '.' s; if r.2.1 then '.' :: r.2.2 else []) := by
  unfold pyRpartition Info.rpartition
  cases rsplit1 '.' s with
  | none => rfl
  | some ht => rfl

theorem suffix_eq (i : Info) : InfoGen.suffix i.raw = ofIRes i.suffix := by
  unfold InfoGen.suffix Info.suffix Info.nameStr Info.name
  rw [get_eq]
  simp only [kBasic, lit_basic, lit_name]
  cases i.get ['b', 'a', 's', 'i', 'c'] ['n', 'a', 'm', 'e'] with
  | str s =>
    simp only [pyStrMethod, pyStartsWith, startsWith_single, pyCount, Except.map, ofIRes, suffixOf, dotStart]
    rcases Bool.eq_false_or_eq_true (s.head? == some '.') with h1 | h1
    · rcases Bool.eq_false_or_eq_true (List.count '.' s == 1) with h2 | h2
      · simp only [h1, h2, Bool.and_self, if_true]
      · simp only [h1, h2, Bool.true_and, Bool.false_eq_true, if_true, if_false]
        exact congrArg InfoGen.Res.ok (rpartition_suffix s)
    · simp only [h1, Bool.false_and, Bool.false_eq_true, if_false]
      exact congrArg InfoGen.Res.ok (rpartition_suffix s)
  | null => rfl
  | bool b => rfl
  | int n => rfl
  | float n d => rfl
  | list l => rfl

theorem suffixes_eq (i : Info) : InfoGen.suffixes i.raw = ofIRes i.suffixes := by
  unfold InfoGen.suffixes Info.suffixes Info.nameStr Info.name
  rw [get_eq]
  simp only [kBasic, lit_basic, lit_name]
  cases i.get ['b', 'a', 's', 'i', 'c'] ['n', 'a', 'm', 'e'] with
  | str s =>
    simp only [pyStrMethod, pyStartsWith, startsWith_single, pyCount, Except.map, ofIRes, suffixesOf, dotStart, pySplit]
    rcases Bool.eq_false_or_eq_true (s.head? == some '.') with h1 | h1
    · rcases Bool.eq_false_or_eq_true (List.count '.' s == 1) with h2 | h2
      · simp only [h1, h2, Bool.and_self, if_true]
      · simp only [h1, h2, Bool.true_and, Bool.false_eq_true, if_true, if_false]; rfl
    · simp only [h1, Bool.false_and, Bool.false_eq_true, if_false]; rfl
  | null => rfl
  | bool b => rfl
  | int n => rfl
  | float n d => rfl
  | list l => rfl

/-- `stem` hands out the raw name itself when it starts with a dot, the text before the first dot otherwise -/
theorem stem_eq (i : Info) : InfoGen.stem i.raw = ofIRes (i.stem.map JVal.str) := by
  unfold InfoGen.stem Info.stem Info.nameStr Info.name
  rw [get_eq]
  simp only [kBasic, lit_basic, lit_name]
  cases i.get ['b', 'a', 's', 'i', 'c'] ['n', 'a', 'm', 'e'] with
  | str s =>
    simp only [pyStrMethod, pyStartsWith, startsWith_single, Except.map, ofIRes, stemOf, dotStart, pySplit]
    rcases Bool.eq_false_or_eq_true (s.head? == some '.') with h1 | h1
    · simp only [h1, if_true]
    · simp only [h1, Bool.false_eq_true, if_false]
      have hne := splitOn_ne_nil '.' s
      cases hs : splitOn '.' s with
      | nil => exact absurd hs hne
      | cons a t => rfl
  | null => rfl
  | bool b => rfl
  | int n => rfl
  | float n d => rfl
  | list l => rfl

theorem is_link_eq (i : Info) : InfoGen.is_link i.raw = ofIRes i.isLink := by
  unfold InfoGen.is_link Info.isLink
  rw [require_namespace_eq, get_eq]
  norm_lits
  cases i.requireNamespace ['l', 'i', 'n', 'k'] with
  | error e => rfl
  | ok u =>
    show InfoGen.Res.ok _ = ofIRes (Except.ok _)
    cases i.get ['l', 'i', 'n', 'k'] ['t', 'a', 'r', 'g', 'e', 't'] <;> rfl

/-- the shape shared by `size`, `user`, `uid`, `group`, `gid`, `target`: require the namespace, hand the raw value on -/
theorem require_then_get (i : Info) (ns key : Str) :
    (match InfoGen._require_namespace i.raw ns with
      | .err e' => (.err e')
      | .ok _ =>
        (match InfoGen.get i.raw ns key (Info.JVal.null) with
          | .err e' => (.err e')
          | .ok t2' => (.ok t2')))
      = ofIRes (do i.requireNamespace ns; pure (i.get ns key)) := by
  rw [require_namespace_eq, get_eq]
  cases i.requireNamespace ns <;> rfl

theorem size_eq (i : Info) : InfoGen.size i.raw = ofIRes i.size := require_then_get i _ _
theorem target_eq (i : Info) : InfoGen.target i.raw = ofIRes i.target := require_then_get i _ _
theorem user_eq (i : Info) : InfoGen.user i.raw = ofIRes i.user := require_then_get i _ _
theorem uid_eq (i : Info) : InfoGen.uid i.raw = ofIRes i.uid := require_then_get i _ _
theorem group_eq (i : Info) : InfoGen.group i.raw = ofIRes i.group := require_then_get i _ _
theorem gid_eq (i : Info) : InfoGen.gid i.raw = ofIRes i.gid := require_then_get i _ _

theorem type_eq (i : Info) : InfoGen.type i.raw = ofIRes i.type := by
  unfold InfoGen.type Info.type
  rw [require_namespace_eq, get_eq]
  norm_lits
  cases i.requireNamespace ['d', 'e', 't', 'a', 'i', 'l', 's'] with
  | error e => rfl
  | ok u =>
    show (match pyResourceType _ with | .err e' => InfoGen.Res.err e' | .ok t3' => .ok t3') = ofIRes (Info.resourceType _)
    unfold pyResourceType
    cases Info.resourceType (i.get ['d', 'e', 't', 'a', 'i', 'l', 's'] ['t', 'y', 'p', 'e'] (.int 0)) <;> rfl

/-- the four time accessors -/
theorem time_accessor (i : Info) (key : Str) :
    (match InfoGen._require_namespace i.raw ['d', 'e', 't', 'a', 'i', 'l', 's'] with
      | .err e' => (.err e')
      | .ok _ =>
        (match InfoGen.get i.raw ['d', 'e', 't', 'a', 'i', 'l', 's'] key (Info.JVal.null) with
          | .err e' => (.err e')
          | .ok t2' =>
            (match InfoGen._make_datetime i.raw (t2') with
              | .err e' => (.err e')
              | .ok t3' =>
                let _time : Option Info.DT := t3'
                (.ok _time))))
      = ofIRes (i.timeAcc key) := by
  unfold Info.timeAcc
  rw [require_namespace_eq, get_eq]
  norm_lits
  cases i.requireNamespace ['d', 'e', 't', 'a', 'i', 'l', 's'] with
  | error e => rfl
  | ok u =>
    show (match InfoGen._make_datetime i.raw _ with | .err e' => InfoGen.Res.err e' | .ok t3' => .ok t3') = ofIRes (Info.makeDatetime _)
    rw [make_datetime_eq]
    cases Info.makeDatetime (i.get ['d', 'e', 't', 'a', 'i', 'l', 's'] key) <;> rfl

theorem accessed_eq (i : Info) : InfoGen.accessed i.raw = ofIRes i.accessed := time_accessor i _
theorem modified_eq (i : Info) : InfoGen.modified i.raw = ofIRes i.modified := time_accessor i _
theorem created_eq (i : Info) : InfoGen.created i.raw = ofIRes i.created := time_accessor i _
theorem metadata_changed_eq (i : Info) : InfoGen.metadata_changed i.raw = ofIRes i.metadataChanged := time_accessor i _

theorem permissions_eq (i : Info) : InfoGen.permissions i.raw = ofIRes i.permissions := by
  unfold InfoGen.permissions Info.permissions
  rw [require_namespace_eq, get_eq]
  norm_lits
  cases i.requireNamespace ['a', 'c', 'c', 'e', 's', 's'] with
  | error e => rfl
  | ok u =>
    show _ = ofIRes (match i.get ['a', 'c', 'c', 'e', 's', 's'] ['p', 'e', 'r', 'm', 'i', 's', 's', 'i', 'o', 'n', 's'] with
      | .null => pure none
      | .list l => (match Info.strNames l with | some ns => pure (some (Permissions.ofNames ns)) | none => .error .outside)
      | .str s => pure (some (Permissions.ofNames (s.map fun c => [c])))
      | _ => .error .typeError)
    cases i.get ['a', 'c', 'c', 'e', 's', 's'] ['p', 'e', 'r', 'm', 'i', 's', 's', 'i', 'o', 'n', 's'] with
    | null => rfl
    | list l => simp only [pyIsNone, pyPermissions]; cases Info.strNames l <;> rfl
    | str s => rfl
    | bool b => rfl
    | int n => rfl
    | float n d => rfl

end Fs.InfoGenEq
