/-
  MemoryFS, as coded (FsModel.Mem = transcription of fs/memoryfs.py + inherited fs/base.py
  defaults), implements the reference semantics (FsModel.Ref) — part of C01.
-/
import FsModel.Ref
import FsModel.RefAdm
import FsModel.Mem
import FsProofs.Lemmas.TreeLemmas
import FsProofs.Lemmas.MemLemmas
import FsProofs.Lemmas.QueryLemmas
import FsProofs.C06

namespace Fs.MemRefines
open Fs Fs.Ref Fs.MemLemmas

/-- The one class of calls in which MemoryFS (through the base-class `move_dir` = copy, then
remove the source) is known to deviate from the contract: `movedir` whose destination is a
proper ancestor of the source (recorded as an open finding). -/
def knownDeviation (op : Op) : Prop :=
  match op with
  | .movedir sp dp _ => ∃ a b, validate sp = .ok a ∧ validate dp = .ok b ∧ b <+: a ∧ a ≠ b
  | _ => False

/-! ### from per-operation agreement to the refinement statement -/

/-- the conclusion of the refinement, for one pair of outcomes -/
def Refines (s : State) (op : Op) (m r : State × Out) : Prop :=
  (m.2.isOk = r.2.isOk) ∧ (r.2.isOk = true → m = r) ∧
  (∀ e, m.2 = .err e → e ∈ adm s op ∧ m.1 = s)

theorem refines_of_eq (s : State) (op : Op) (hd : s.root.isDir = true)
    (hl : (Ref.step s op).2 ≠ .err .OperationFailed) (h : Mem.step s op = Ref.step s op) :
    Refines s op (Mem.step s op) (Ref.step s op) := by
  rw [h]
  refine ⟨rfl, fun _ => rfl, fun e he => ⟨?_, C06.failed_step_unchanged s op e he⟩⟩
  rcases C06.ref_error_truthful s op e hd he with h' | h'
  · exact h'
  · subst h'; exact absurd he hl

theorem refines_of_agree (s : State) (op : Op) (A : List Err) (hd : s.root.isDir = true)
    (hl : (Ref.step s op).2 ≠ .err .OperationFailed) (hA : A = adm s op)
    (h : Agree A s (Mem.step s op) (Ref.step s op)) :
    Refines s op (Mem.step s op) (Ref.step s op) := by
  rcases h with h | ⟨e, e', hm, hr, he⟩
  · exact refines_of_eq s op hd hl h
  · rw [hm]
    refine ⟨by simp [Res.isOk, hr], fun h => by simp [hr, Res.isOk] at h, ?_⟩
    intro x hx
    simp only [Res.err.injEq] at hx
    subst hx
    exact ⟨hA ▸ he, rfl⟩

/-- one-path operations other than `openbin`, valid path -/
theorem mem_one (s : State) (op : Op) (p : Str) (cs : List Name) (hc : s.closed = false)
    (hd : s.root.isDir = true) (hwf : s.root.wf = true) (hp : op.paths = [p])
    (hno : ∀ q m, op ≠ .openbin q m) (hv : validate p = .ok cs) :
    Agree (adm1 s.root cs op) s (Mem.step s op) (step1 s cs op) := by
  cases op <;> simp only [Op.paths, List.cons.injEq, and_true, reduceCtorEq, and_false] at hp
  all_goals first
    | exact absurd rfl (hno _ _)
    | (subst hp
       first
        | exact Or.inl (mem_exists s _ cs hc hv)
        | exact Or.inl (mem_isdir s _ cs hc hv)
        | exact Or.inl (mem_isfile s _ cs hc hv)
        | exact Or.inl (mem_listdir s _ cs hc hv)
        | exact Or.inl (mem_getsize s _ cs hc hv)
        | exact Or.inl (mem_gettype s _ cs hc hv)
        | exact Or.inl (mem_isempty s _ cs hc hv)
        | exact Or.inl (mem_getinfo s _ cs hc hv)
        | exact Or.inl (mem_settimes s _ cs hc hv)
        | exact Or.inl (mem_makedir s _ cs hc hv _)
        | exact Or.inl (mem_readbytes s _ cs hc hv hd hwf)
        | exact Or.inl (mem_writebytes s _ cs hc hv hd hwf _)
        | exact Or.inl (mem_appendbytes s _ cs hc hv hd hwf _)
        | exact Or.inl (mem_create s _ cs hc hv hd hwf _)
        | exact Or.inl (mem_touch s _ cs hc hv hd hwf)
        | exact Or.inl (mem_removetree s _ cs hc hv hd hwf)
        | exact Or.inl (mem_removedir s _ cs hc hv hd hwf)
        | exact mem_remove s _ cs hc hv hd hwf
        | exact mem_makedirs s _ cs hc hv hd _)

/-- two-path operations, valid paths -/
theorem mem_two (s : State) (op : Op) (p q : Str) (a b : List Name) (hc : s.closed = false)
    (hd : s.root.isDir = true) (hwf : s.root.wf = true) (hp : op.paths = [p, q])
    (hk : ¬ knownDeviation op) (hva : validate p = .ok a) (hvb : validate q = .ok b) :
    Agree (adm2 s.root a b op) s (Mem.step s op) (step2 s a b op) := by
  cases op <;> simp only [Op.paths, List.cons.injEq, and_true, reduceCtorEq, and_false] at hp
  all_goals obtain ⟨rfl, rfl⟩ := hp
  · exact mem_move s _ _ a b hc hva hvb hd hwf _
  · exact Or.inl (mem_copy s _ _ a b hc hva hvb hd hwf _)
  · refine Or.inl (mem_movedir s _ _ a b hc hva hvb hd hwf _ ?_)
    intro h
    exact hk ⟨a, b, hva, hvb, h.1, h.2⟩
  · exact Or.inl (mem_copydir s _ _ a b hc hva hvb hd hwf _)

/-- REFINEMENT (one step): on an open filesystem, for every operation outside the known
deviation whose reference outcome is not the loose mid-way failure, MemoryFS gives the same
verdict; on success the same value and the same tree; on failure a truthful error class and
an unchanged state. -/
theorem mem_refines_ref (s : State) (op : Op) (hc : s.closed = false)
    (hd : s.root.isDir = true) (hwf : s.root.wf = true) (hk : ¬ knownDeviation op)
    (hl : (Ref.step s op).2 ≠ .err .OperationFailed) :
    ((Mem.step s op).2.isOk = (Ref.step s op).2.isOk) ∧
    ((Ref.step s op).2.isOk = true → Mem.step s op = Ref.step s op) ∧
    (∀ e, (Mem.step s op).2 = .err e → e ∈ adm s op ∧ (Mem.step s op).1 = s) := by
  change Refines s op (Mem.step s op) (Ref.step s op)
  rcases QueryLemmas.op_cases op with rfl | ⟨p, m, rfl⟩ | ⟨p, hp, hno⟩ | ⟨p, q, hp⟩
  · exact refines_of_eq s _ hd hl rfl
  · cases hm : parseBinMode m with
    | none =>
      apply refines_of_eq s _ hd hl
      rw [mem_step_badmode s p m hm, QueryLemmas.step_openbin s p m hc, hm]; rfl
    | some md =>
      cases hv : validate p with
      | err e =>
        apply refines_of_eq s _ hd hl
        rw [mem_step_invalid_openbin s p m md e hc hm hv, QueryLemmas.step_openbin s p m hc, hm, hv]
        rfl
      | ok cs =>
        have hs : Ref.step s (.openbin p m) = step1 s cs (.openbin p m) := by
          rw [QueryLemmas.step_openbin s p m hc, hm, hv]; rfl
        refine refines_of_agree s _ (adm1 s.root cs (.openbin p m)) hd hl ?_ ?_
        · rw [QueryLemmas.adm_openbin s p m hc, hv]
        · rw [hs]; exact mem_openbin s p cs hc hv hd hwf m md hm
  · cases hv : validate p with
    | err e =>
      apply refines_of_eq s _ hd hl
      rw [mem_step_invalid1 s op p e hc hp hno hv, QueryLemmas.step_one s op p hc hp hno, hv]
    | ok cs =>
      have hs : Ref.step s op = step1 s cs op := by
        rw [QueryLemmas.step_one s op p hc hp hno, hv]
      refine refines_of_agree s _ (adm1 s.root cs op) hd hl ?_ ?_
      · rw [QueryLemmas.adm_one s op p hc hp hno, hv]
      · rw [hs]; exact mem_one s op p cs hc hd hwf hp hno hv
  · cases hva : validate p with
    | err e =>
      apply refines_of_eq s _ hd hl
      rw [mem_step_invalid2 s op p q e hc hp (Or.inl hva), QueryLemmas.step_two s op p q hc hp, hva]
    | ok a =>
      cases hvb : validate q with
      | err e =>
        apply refines_of_eq s _ hd hl
        rw [mem_step_invalid2 s op p q e hc hp (Or.inr ⟨⟨a, hva⟩, hvb⟩),
          QueryLemmas.step_two s op p q hc hp, hva, hvb]
      | ok b =>
        have hs : Ref.step s op = step2 s a b op := by
          rw [QueryLemmas.step_two s op p q hc hp, hva, hvb]
        refine refines_of_agree s _ (adm2 s.root a b op) hd hl ?_ ?_
        · rw [QueryLemmas.adm_two s op p q hc hp, hva, hvb]
        · rw [hs]; exact mem_two s op p q a b hc hd hwf hp hk hva hvb

/-- a closed MemoryFS never changes and never answers -/
theorem mem_closed_is_final (s : State) (op : Op) (hc : s.closed = true) (hop : op ≠ .close) :
    (Mem.step s op).1 = s ∧ ∃ e, (Mem.step s op).2 = .err e := by
  cases op with
  | close => exact absurd rfl hop
  | openbin p m =>
    cases hm : parseBinMode m <;> simp [Mem.step, Mem.openbin, hm, Mem.vpath, hc, fail]
  | create p w =>
    cases w <;>
      simp [Mem.step, Mem.create, Mem.exists_, Mem.getinfo, Mem.openbin, mode_wb, Mem.vpath, hc, fail]
  | _ =>
    simp [Mem.step, Mem.liftRes, Mem.exists_, Mem.isdir, Mem.isfile, Mem.listdir, Mem.isempty,
      Mem.getinfo, Mem.readbytes, Mem.openbin, mode_rb, mode_wb, mode_ab, Mem.makedir, Mem.makedirs,
      Mem.writebytes, Mem.appendbytes, Mem.create, Mem.touch, Mem.setinfo, Mem.remove, Mem.removedir,
      Mem.removetree, Mem.move, Mem.copy, Mem.movedir, Mem.copydir, Mem.vpath, hc, fail]

/-- hence whole histories of MemoryFS calls agree with the reference on every step that is
neither loose nor in the known deviation class (lifted with `C01.stepwise_agreement_lifts`) -/
theorem mem_refines_ref_ok_steps (s : State) (op : Op) (hc : s.closed = false)
    (hd : s.root.isDir = true) (hwf : s.root.wf = true) (v : Val)
    (hk : ¬ knownDeviation op) (hok : (Ref.step s op).2 = .ok v) :
    Mem.step s op = Ref.step s op :=
  (mem_refines_ref s op hc hd hwf hk (by rw [hok]; exact fun h => by cases h)).2.1
    (by rw [hok]; rfl)

/-- bytes of the file at a path, if there is one -/
def fileAt (t : Node) (q : List Name) : Option Bytes :=
  match t.get q with
  | some (.file b) => some b
  | _ => none

/-- the deviation is real: witness on the model of the code (replayed on the real MemoryFS by
the correspondence: `movedir('a', '/')` with `a/a/x`) -/
theorem mem_movedir_ancestor_counterexample :
    let t : Node := .dir [("a".toList, .dir [("a".toList, .dir [("x".toList, .file [1])])])]
    let s : State := { root := t, closed := false }
    fileAt (Mem.step s (.movedir "a".toList "/".toList false)).1.root ["a".toList, "x".toList] = none ∧
    fileAt (Ref.step s (.movedir "a".toList "/".toList false)).1.root ["a".toList, "x".toList] = some [1] := by
  decide

end Fs.MemRefines
