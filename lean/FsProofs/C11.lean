/-
  C11 — equivalent spellings of a path are interchangeable everywhere (reference semantics).
-/
import FsModel.Ref
import FsProofs.Lemmas.QueryLemmas
import FsProofs.Lemmas.PathLemmas
import FsProofs.C12

namespace Fs.C11
open Fs Fs.Ref Fs.Path

/-- two spellings are equivalent when they normalise to the same absolute path -/
def Equiv (p p' : Str) : Prop :=
  ∃ q q', normpath p = .ok q ∧ normpath p' = .ok q' ∧ abspath q = abspath q'

/-- replace every path argument of an operation -/
def mapPaths (f : Str → Str) : Op → Op
  | .exists_ p => .exists_ (f p) | .isdir p => .isdir (f p) | .isfile p => .isfile (f p)
  | .listdir p => .listdir (f p) | .getsize p => .getsize (f p) | .gettype p => .gettype (f p)
  | .isempty p => .isempty (f p) | .getinfo p => .getinfo (f p) | .readbytes p => .readbytes (f p)
  | .makedir p r => .makedir (f p) r | .makedirs p r => .makedirs (f p) r
  | .writebytes p d => .writebytes (f p) d | .appendbytes p d => .appendbytes (f p) d
  | .create p w => .create (f p) w | .touch p => .touch (f p) | .settimes p => .settimes (f p)
  | .openbin p m => .openbin (f p) m
  | .remove p => .remove (f p) | .removedir p => .removedir (f p) | .removetree p => .removetree (f p)
  | .move s d o => .move (f s) (f d) o | .copy s d o => .copy (f s) (f d) o
  | .movedir s d c => .movedir (f s) (f d) c | .copydir s d c => .copydir (f s) (f d) c
  | .close => .close

/-- equivalent spellings validate to the same component path -/
theorem equiv_validate (p p' : Str) (h : Equiv p p') : validate p = validate p' := by
  sorry

/-- SPELLING INVARIANCE: re-spelling every path argument by an equivalent spelling changes
neither the result (value or error class) nor the resulting tree, for every operation. -/
theorem spelling_invariant (s : State) (op : Op) (f : Str → Str)
    (hf : ∀ p ∈ op.paths, Equiv p (f p)) : step s (mapPaths f op) = step s op := by
  sorry

/-! the rewrite steps the spelling generator uses preserve the normalised absolute path -/

theorem equiv_leading_slash (p q : Str) (h : normpath p = .ok q) : Equiv p ('/' :: p) := by
  sorry

theorem equiv_trailing_slash (p q : Str) (h : normpath p = .ok q) (hne : p ≠ []) :
    Equiv p (p ++ ['/']) := by
  sorry

theorem equiv_dot_prefix (p q : Str) (h : normpath p = .ok q) (hrel : startsWithSlash p = false) :
    Equiv p ('.' :: '/' :: p) := by
  sorry

theorem equiv_detour_prefix (x p q : Str) (h : normpath p = .ok q) (hrel : startsWithSlash p = false)
    (hx : PathSpec.CleanComp x) : Equiv p (x ++ '/' :: '.' :: '.' :: '/' :: p) := by
  sorry

example : Equiv "a/b".toList "/a//./x/../b/".toList :=
  ⟨"a/b".toList, "/a/b".toList, by decide, by decide, by decide⟩

end Fs.C11
