/-
  C11 — equivalent spellings of a path are interchangeable everywhere (reference semantics).
-/
import FsModel.Ref
import FsProofs.Lemmas.QueryLemmas
import FsProofs.Lemmas.PathLemmas
import FsProofs.C12

namespace Fs.C11
open Fs Fs.Ref Fs.Path Fs.QueryLemmas

/-- two spellings are equivalent when they normalise to the same absolute path -/
def Equiv (p p' : Str) : Prop :=
  ∃ q q', normpath p = .ok q ∧ normpath p' = .ok q' ∧ abspath q = abspath q'

/-- replace every path argument of an operation -/
def mapPaths (f : Str → Str) : Op → Op
  | .exists_ p => .exists_ (f p) | .isdir p => .isdir (f p) | .isfile p => .isfile (f p)
  | .listdir p => .listdir (f p) | .getsize p => .getsize (f p) | .gettype p => .gettype (f p)
  | .isempty p => .isempty (f p) | .getinfo p => .getinfo (f p) | .readbytes p => .readbytes (f p)
  | .makedir p r => .makedir (f p) r | .makedirs p r => .makedirs (f p) r
  | .writebytes p d => .writebytes (f p) d | .appendbytes p d => .appendbytes (f p) d
  | .create p w => .create (f p) w | .touch p => .touch (f p) | .settimes p => .settimes (f p)
  | .openbin p m => .openbin (f p) m
  | .remove p => .remove (f p) | .removedir p => .removedir (f p) | .removetree p => .removetree (f p)
  | .move s d o => .move (f s) (f d) o | .copy s d o => .copy (f s) (f d) o
  | .movedir s d c => .movedir (f s) (f d) c | .copydir s d c => .copydir (f s) (f d) c
  | .close => .close

/- ORIGINAL STATEMENT (false as written):

    theorem equiv_validate (p p' : Str) (h : Equiv p p') : validate p = validate p'

`validatepath` rejects a NUL character anywhere in the *raw* string, before normalisation, but a
component holding the NUL can be cancelled by a following `..`.  Counterexample:
`p = "\x00/.."`, `p' = ""`: both normalise to `""` (absolute path `/`), yet
`validate p = InvalidCharsInPath` and `validate p' = ok []`.  The added hypothesis `h0` excludes
exactly this class (one spelling contains NUL, the other does not). -/
theorem equiv_validate_counterexample :
    ∃ p p' : Str, Equiv p p' ∧ validate p ≠ validate p' :=
  ⟨['\x00', '/', '.', '.'], [], ⟨[], [], by decide, by decide, by decide⟩, by decide⟩

/-- equivalent spellings validate to the same component path -/
theorem equiv_validate (p p' : Str) (h : Equiv p p') (h0 : '\x00' ∈ p ↔ '\x00' ∈ p') :
    validate p = validate p' := by
  obtain ⟨q, q', hq, hq', ha⟩ := h
  obtain ⟨cs, _, hr, hr'⟩ := resolve_of_norm_abs p p' q q' hq hq' ha
  unfold validate
  rw [iteratepath_of_resolve p cs hr, iteratepath_of_resolve p' cs hr']
  by_cases hp : '\x00' ∈ p
  · have hp' := h0.1 hp
    simp [hp, hp']
  · have hp' : '\x00' ∉ p' := fun h => hp (h0.2 h)
    simp [hp, hp']

/- ORIGINAL STATEMENT (false as written, for the same reason as `equiv_validate`):

    theorem spelling_invariant (s : State) (op : Op) (f : Str → Str)
        (hf : ∀ p ∈ op.paths, Equiv p (f p)) : step s (mapPaths f op) = step s op

Counterexample: `s = State.empty`, `op = exists "\x00/.."`, `f = fun _ => ""`:
`exists "\x00/.."` raises `InvalidCharsInPath`, `exists ""` returns `true`. -/
theorem spelling_invariant_counterexample :
    ∃ (s : State) (op : Op) (f : Str → Str), (∀ p ∈ op.paths, Equiv p (f p)) ∧
      (step s (mapPaths f op)).2 ≠ (step s op).2 :=
  ⟨State.empty, .exists_ ['\x00', '/', '.', '.'], fun _ => [],
    by
      intro p hp
      simp only [Op.paths, List.mem_cons, List.not_mem_nil, or_false] at hp
      subst hp
      exact ⟨[], [], by decide, by decide, by decide⟩,
    by decide⟩

/-- SPELLING INVARIANCE: re-spelling every path argument by an equivalent spelling changes
neither the result (value or error class) nor the resulting tree, for every operation. -/
theorem spelling_invariant (s : State) (op : Op) (f : Str → Str)
    (hf : ∀ p ∈ op.paths, Equiv p (f p))
    (h0 : ∀ p ∈ op.paths, ('\x00' ∈ p ↔ '\x00' ∈ f p)) : step s (mapPaths f op) = step s op := by
  have hv : ∀ p ∈ op.paths, validate (f p) = validate p :=
    fun p hp => (equiv_validate p (f p) (hf p hp) (h0 p hp)).symm
  cases op <;> simp only [Op.paths, List.mem_cons, List.not_mem_nil, or_false, forall_eq_or_imp,
      forall_eq] at hv
  all_goals simp only [mapPaths, step, Op.paths, mapM_one, mapM_two, hv]
  all_goals first
    | rfl
    | (generalize validate _ = va
       cases va <;> first
         | rfl
         | (generalize validate _ = vb; cases vb <;> rfl))


/-! the rewrite steps the spelling generator uses preserve the normalised absolute path -/

theorem equiv_leading_slash (p q : Str) (h : normpath p = .ok q) : Equiv p ('/' :: p) := by
  obtain ⟨cs, _, hr, _⟩ := normpath_ok_resolve p q h
  refine norm_abs_of_resolve p _ cs hr ?_
  simp only [splitSlash]
  rw [PathLemmas.splitOn_cons_sep, resolve_cons_nil]
  exact hr

set_option linter.unusedVariables false in
theorem equiv_trailing_slash (p q : Str) (h : normpath p = .ok q) (hne : p ≠ []) :
    Equiv p (p ++ ['/']) := by
  obtain ⟨cs, _, hr, _⟩ := normpath_ok_resolve p q h
  refine norm_abs_of_resolve p _ cs hr ?_
  simp only [splitSlash]
  rw [splitOn_snoc_sep, resolve_snoc_nil]
  exact hr

set_option linter.unusedVariables false in
theorem equiv_dot_prefix (p q : Str) (h : normpath p = .ok q) (hrel : startsWithSlash p = false) :
    Equiv p ('.' :: '/' :: p) := by
  obtain ⟨cs, _, hr, _⟩ := normpath_ok_resolve p q h
  refine norm_abs_of_resolve p _ cs hr ?_
  simp only [splitSlash]
  rw [show ('.' :: '/' :: p) = ['.'] ++ '/' :: p from rfl,
    PathLemmas.splitOn_append_sep '/' ['.'] p (by decide), resolve_cons_dot]
  exact hr

set_option linter.unusedVariables false in
theorem equiv_detour_prefix (x p q : Str) (h : normpath p = .ok q) (hrel : startsWithSlash p = false)
    (hx : PathSpec.CleanComp x) : Equiv p (x ++ '/' :: '.' :: '.' :: '/' :: p) := by
  obtain ⟨cs, _, hr, _⟩ := normpath_ok_resolve p q h
  refine norm_abs_of_resolve p _ cs hr ?_
  simp only [splitSlash]
  rw [PathLemmas.splitOn_append_sep '/' x _ hx.2.2.2,
    show ('.' :: '.' :: '/' :: p) = ['.', '.'] ++ '/' :: p from rfl,
    PathLemmas.splitOn_append_sep '/' ['.', '.'] p (by decide), resolve_detour x _ hx]
  exact hr

/-! the same rewrite steps neither add nor remove a NUL character (the side condition `h0` of
`equiv_validate` / `spelling_invariant`); the detour component must itself be NUL-free -/

theorem nul_leading_slash (p : Str) : '\x00' ∈ p ↔ '\x00' ∈ '/' :: p := by
  simp [List.mem_cons]

theorem nul_trailing_slash (p : Str) : '\x00' ∈ p ↔ '\x00' ∈ p ++ ['/'] := by
  simp [List.mem_append]

theorem nul_dot_prefix (p : Str) : '\x00' ∈ p ↔ '\x00' ∈ '.' :: '/' :: p := by
  simp [List.mem_cons]

theorem nul_detour_prefix (x p : Str) (hx : '\x00' ∉ x) :
    '\x00' ∈ p ↔ '\x00' ∈ x ++ '/' :: '.' :: '.' :: '/' :: p := by
  simp [List.mem_append, List.mem_cons, hx]

example : Equiv "a/b".toList "/a//./x/../b/".toList :=
  ⟨"a/b".toList, "/a/b".toList, by decide, by decide, by decide⟩

end Fs.C11
