/-
  Lemmas for C08: when every thread is one locked block on the same lock, every executable
  complete schedule is a permutation of whole blocks (mutual exclusion), for any number of
  threads and any block bodies.
-/
import FsModel.Conc

namespace Fs.Conc
variable {σ τ : Type}

theorem seqExec_append (bodies : List (List (σ → τ → σ × τ))) (a b : List Nat) (x : σ × List τ) :
    seqExec bodies (a ++ b) x = seqExec bodies b (seqExec bodies a x) := by
  induction a generalizing x with
  | nil => rfl
  | cons i is ih =>
    simp only [List.cons_append, seqExec]
    split <;> exact ih _

theorem seqExec_length (bodies : List (List (σ → τ → σ × τ))) (o : List Nat) (x : σ × List τ) :
    (seqExec bodies o x).2.length = x.2.length := by
  induction o generalizing x with
  | nil => rfl
  | cons i is ih =>
    simp only [seqExec]
    split
    · rw [ih]; simp
    · exact ih _

theorem set_self_of_getElem? {α : Type} {l : List α} {i : Nat} {a : α} (h : l[i]? = some a) : l.set i a = l := by
  apply List.ext_getElem?
  intro k
  by_cases hk : i = k
  · subst hk
    rcases List.getElem?_eq_some_iff.mp h with ⟨hlt, he⟩
    simp [hlt, he]
  · simp [List.getElem?_set_ne hk]

/-- the program a thread shows while idle: untouched, or finished -/
def idleProg (bodies : List (List (σ → τ → σ × τ))) (order : List Nat) (j : Nat) : Option (List (Instr σ τ)) :=
  match bodies[j]? with
  | some b => some (if j ∈ order then [] else lockedProg 0 b)
  | none => none

/-- invariant of every reachable configuration -/
inductive Inv (bodies : List (List (σ → τ → σ × τ))) (s0 : σ) (l0 : List τ) (c : Cfg σ τ) : Prop where
  | idle (order : List Nat) (hnd : order.Nodup) (hlt : ∀ i ∈ order, i < bodies.length)
      (hown : c.owner 0 = none)
      (hprogs : ∀ j, c.progs[j]? = idleProg bodies order j)
      (hst : (c.sh, c.locs) = seqExec bodies order (s0, l0))
  | busy (order : List Nat) (i : Nat) (rest : List (σ → τ → σ × τ)) (loc : τ)
      (hnd : order.Nodup) (hlt : ∀ i ∈ order, i < bodies.length)
      (hi : i < bodies.length) (hni : i ∉ order)
      (hown : c.owner 0 = some i)
      (hpi : c.progs[i]? = some (rest.map Instr.step ++ [Instr.rel 0]))
      (hprogs : ∀ j, j ≠ i → c.progs[j]? = idleProg bodies order j)
      (hloc : c.locs[i]? = some loc)
      (hst : ((runBody rest (c.sh, loc)).1, c.locs.set i (runBody rest (c.sh, loc)).2)
              = seqExec bodies (order ++ [i]) (s0, l0))

theorem inv_init (bodies : List (List (σ → τ → σ × τ))) (s0 : σ) (l0 : List τ) :
    Inv bodies s0 l0 (Cfg.init s0 l0 (bodies.map (lockedProg 0))) := by
  refine .idle [] List.nodup_nil (by simp) rfl ?_ rfl
  intro j
  simp only [Cfg.init, idleProg, List.getElem?_map]
  cases bodies[j]? <;> simp

theorem progs_len_of_inv {bodies : List (List (σ → τ → σ × τ))} {s0 : σ} {l0 : List τ} {c : Cfg σ τ}
    (h : Inv bodies s0 l0 c) : ∀ j, (c.progs[j]?).isSome = decide (j < bodies.length) := by
  intro j
  have key : ∀ order, (idleProg (σ := σ) (τ := τ) bodies order j).isSome = decide (j < bodies.length) := by
    intro order
    unfold idleProg
    by_cases hj : j < bodies.length
    · simp [List.getElem?_eq_getElem hj, hj]
    · simp [List.getElem?_eq_none (Nat.le_of_not_lt hj), hj]
  cases h with
  | idle order _ _ _ hprogs _ => rw [hprogs j]; exact key order
  | busy order i rest loc _ _ hi _ _ hpi hprogs _ _ =>
    by_cases hji : j = i
    · subst hji; rw [hpi]; simp [hi]
    · rw [hprogs j hji]; exact key order

theorem inv_step {bodies : List (List (σ → τ → σ × τ))} {s0 : σ} {l0 : List τ} (hl : l0.length = bodies.length)
    {c c' : Cfg σ τ} {j : Nat} (h : Inv bodies s0 l0 c) (hs : c.stepT j = some c') :
    Inv bodies s0 l0 c' := by
  cases h with
  | idle order hnd hlt hown hprogs hst =>
    have hpj := hprogs j
    unfold idleProg at hpj
    unfold Cfg.stepT at hs
    cases hb : bodies[j]? with
    | none => rw [hb] at hpj; simp [hpj] at hs
    | some b =>
      rw [hb] at hpj
      have hjlt : j < bodies.length := by
        rcases List.getElem?_eq_some_iff.mp hb with ⟨h, _⟩; exact h
      have hlen : c.locs.length = bodies.length := by
        have := congrArg (fun x => x.2.length) hst
        simp only [seqExec_length] at this
        rw [this, hl]
      have hlj : c.locs[j]? = some (c.locs[j]'(by rw [hlen]; exact hjlt)) :=
        List.getElem?_eq_getElem _
      by_cases hmem : j ∈ order
      · simp [hpj, hmem, hlj] at hs
      · simp only [hpj, hmem, if_false, lockedProg, hlj, hown, Option.isNone_none, if_true] at hs
        cases hs
        refine .busy order j b (c.locs[j]'(by rw [hlen]; exact hjlt)) hnd hlt hjlt hmem (by simp) ?_ ?_ hlj ?_
        · have : j < c.progs.length := by
            have := progs_len_of_inv (.idle order hnd hlt hown hprogs hst) j
            simp [hjlt] at this
            exact this
          simp [List.getElem?_set, this]
        · intro k hk
          have hk' : j ≠ k := fun e => hk e.symm
          simp only [List.getElem?_set_ne hk']
          exact hprogs k
        · rw [seqExec_append, ← hst]
          simp only [seqExec, hb, hlj]
  | busy order i rest loc hnd hlt hi hni hown hpi hprogs hloc hst =>
    unfold Cfg.stepT at hs
    by_cases hji : j = i
    · subst hji
      have hjlen : j < c.progs.length := by
        rcases List.getElem?_eq_some_iff.mp hpi with ⟨h, _⟩; exact h
      have hjll : j < c.locs.length := by
        rcases List.getElem?_eq_some_iff.mp hloc with ⟨h, _⟩; exact h
      cases rest with
      | nil =>
        simp only [hpi, hloc, List.map_nil, List.nil_append] at hs
        cases hs
        refine .idle (order ++ [j]) ?_ ?_ (by simp) ?_ ?_
        · exact List.nodup_append.mpr ⟨hnd, by simp, by
            intro a ha b hb; simp at hb; subst hb; exact fun e => hni (e ▸ ha)⟩
        · intro k hk
          rcases List.mem_append.mp hk with h | h
          · exact hlt k h
          · simp at h; subst h; exact hi
        · intro k
          by_cases hk : k = j
          · subst hk
            simp [List.getElem?_set, hjlen, idleProg, List.getElem?_eq_getElem hi]
          · have hk' : j ≠ k := fun e => hk e.symm
            simp only [List.getElem?_set_ne hk']
            rw [hprogs k hk]
            unfold idleProg
            cases bodies[k]? with
            | none => rfl
            | some b => simp [hk]
        · simp only [runBody] at hst
          rw [← hst]
          congr 1
          exact (set_self_of_getElem? hloc).symm
      | cons f rest' =>
        simp only [hpi, hloc, List.map_cons, List.cons_append] at hs
        cases hs
        refine .busy order j rest' (f c.sh loc).2 hnd hlt hi hni hown ?_ ?_ ?_ ?_
        · simp [List.getElem?_set, hjlen]
        · intro k hk
          have hk' : j ≠ k := fun e => hk e.symm
          simp only [List.getElem?_set_ne hk']
          exact hprogs k hk
        · simp [List.getElem?_set, hjll]
        · simp only [runBody] at hst
          simp only [List.set_set]
          exact hst
    · have hpj := hprogs j hji
      unfold idleProg at hpj
      cases hb : bodies[j]? with
      | none => rw [hb] at hpj; simp [hpj] at hs
      | some b =>
        rw [hb] at hpj
        by_cases hmem : j ∈ order
        · simp only [hpj, hmem, if_true] at hs
          cases hlj : c.locs[j]? <;> simp [hlj] at hs
        · simp only [hpj, hmem, if_false, lockedProg] at hs
          cases hlj : c.locs[j]? with
          | none => simp [hlj] at hs
          | some l => simp [hlj, hown] at hs

theorem inv_exec {bodies : List (List (σ → τ → σ × τ))} {s0 : σ} {l0 : List τ} (hl : l0.length = bodies.length)
    (sched : List Nat) {c c' : Cfg σ τ} (h : Inv bodies s0 l0 c) (hs : c.exec sched = some c') :
    Inv bodies s0 l0 c' := by
  induction sched generalizing c with
  | nil => simp only [Cfg.exec] at hs; cases hs; exact h
  | cons i is ih =>
    simp only [Cfg.exec] at hs
    cases hst : c.stepT i with
    | none => rw [hst] at hs; cases hs
    | some c1 => rw [hst] at hs; exact ih (inv_step hl h hst) hs

/-- **Mutual exclusion makes every interleaving a permutation**: any number of threads, each one
locked block on the same lock, any bodies, any executable complete schedule. -/
theorem locked_blocks_serialize (bodies : List (List (σ → τ → σ × τ))) (s0 : σ) (l0 : List τ)
    (hl : l0.length = bodies.length) (sched : List Nat) (c' : Cfg σ τ)
    (hexec : (Cfg.init s0 l0 (bodies.map (lockedProg 0))).exec sched = some c') (hdone : c'.done = true) :
    ∃ order, order.Perm (List.range bodies.length) ∧ (c'.sh, c'.locs) = seqExec bodies order (s0, l0) := by
  have hinv := inv_exec hl sched (inv_init bodies s0 l0) hexec
  have hall : ∀ (j : Nat) (p : List (Instr σ τ)), c'.progs[j]? = some p → p = [] := by
    intro j p hp
    have := List.all_eq_true.mp hdone p (List.mem_of_getElem? hp)
    simpa using this
  cases hinv with
  | busy order i rest loc _ _ _ _ _ hpi _ _ _ =>
    have := hall i _ hpi
    simp at this
  | idle order hnd hlt hown hprogs hst =>
    refine ⟨order, ?_, hst⟩
    refine (List.perm_ext_iff_of_nodup hnd List.nodup_range).mpr ?_
    intro a
    constructor
    · intro ha; exact List.mem_range.mpr (hlt a ha)
    · intro ha
      have halt := List.mem_range.mp ha
      have hp := hprogs a
      unfold idleProg at hp
      rw [List.getElem?_eq_getElem halt] at hp
      by_cases hmem : a ∈ order
      · exact hmem
      · simp only [hmem, if_false] at hp
        have := hall a _ hp
        simp [lockedProg] at this

/-- in the one-lock setting no reachable configuration is deadlocked -/
theorem inv_not_deadlocked {bodies : List (List (σ → τ → σ × τ))} {s0 : σ} {l0 : List τ}
    (hl : l0.length = bodies.length) {c : Cfg σ τ} (h : Inv bodies s0 l0 c) : c.deadlocked = false := by
  unfold Cfg.deadlocked
  have hplen : c.progs.length = bodies.length := by
    have h1 := progs_len_of_inv h
    apply Nat.le_antisymm
    · apply Nat.le_of_not_lt
      intro hlt
      have := h1 bodies.length
      simp [List.getElem?_eq_getElem hlt] at this
    · apply Nat.le_of_not_lt
      intro hlt
      have := h1 c.progs.length
      simp [hlt] at this
  cases h with
  | idle order hnd hlt hown hprogs hst =>
    have hlen : c.locs.length = bodies.length := by
      have := congrArg (fun x => x.2.length) hst
      simp only [seqExec_length] at this
      rw [this, hl]
    by_cases hd : c.done = true
    · simp [hd]
    · simp only [Bool.not_eq_true] at hd
      simp only [hd, Bool.not_false, Bool.true_and]
      -- some thread is unfinished: it is untouched, the lock is free, so it is enabled
      unfold Cfg.done at hd
      have : ∃ p ∈ c.progs, p.isEmpty = false := by
        have := List.all_eq_false.mp hd
        rcases this with ⟨p, hp, hpe⟩
        exact ⟨p, hp, by simpa using hpe⟩
      rcases this with ⟨p, hp, hpe⟩
      rcases List.getElem_of_mem hp with ⟨j, hj, hjp⟩
      have hpj : c.progs[j]? = some p := by rw [List.getElem?_eq_getElem hj, hjp]
      have hjb : j < bodies.length := hplen ▸ hj
      have hidle := hprogs j
      unfold idleProg at hidle
      rw [List.getElem?_eq_getElem hjb, hpj] at hidle
      have hmem : j ∉ order := by
        intro hm
        simp [hm] at hidle
        subst hidle
        simp at hpe
      simp only [hmem, if_false, Option.some.injEq] at hidle
      have hen : j ∈ c.enabled := by
        unfold Cfg.enabled
        refine List.mem_filter.mpr ⟨List.mem_range.mpr hj, ?_⟩
        unfold Cfg.stepT
        have hlj : c.locs[j]? = some (c.locs[j]'(hlen ▸ hjb)) := List.getElem?_eq_getElem _
        simp [hpj, hidle, lockedProg, hlj, hown]
      cases he : c.enabled with
      | nil => rw [he] at hen; cases hen
      | cons a as => rfl
  | busy order i rest loc hnd hlt hi hni hown hpi hprogs hloc hst =>
    have hen : i ∈ c.enabled := by
      unfold Cfg.enabled
      refine List.mem_filter.mpr ⟨List.mem_range.mpr (hplen ▸ hi), ?_⟩
      unfold Cfg.stepT
      cases rest <;> simp [hpi, hloc]
    cases he : c.enabled with
    | nil => rw [he] at hen; cases hen
    | cons a as => simp

/-! ### `whole` bodies: sequential execution of the model = the calls run through `Ref.step` -/

open Fs.Ref in
theorem seqExec_whole (calls : List Op) (order : List Nat) (x : State × List Loc)
    (y : State × List (Option Out))
    (hnd : order.Nodup) (hx : x.1 = y.1) (hm : x.2.map (·.out) = y.2)
    (hfresh : ∀ i ∈ order, ∀ l, x.2[i]? = some l → l.out = none)
    (hlen : x.2.length = calls.length) :
    (seqExec (calls.map fun c => [whole c]) order x).1 = (seqRef calls order y).1 ∧
    (seqExec (calls.map fun c => [whole c]) order x).2.map (·.out) = (seqRef calls order y).2 := by
  induction order generalizing x y with
  | nil => exact ⟨hx, hm⟩
  | cons i is ih =>
    have hnd' := (List.nodup_cons.mp hnd).2
    have hni := (List.nodup_cons.mp hnd).1
    simp only [seqExec, seqRef, List.getElem?_map]
    cases hc : calls[i]? with
    | none =>
      simp only [Option.map_none]
      exact ih x y hnd' hx hm (fun k hk => hfresh k (List.mem_cons_of_mem _ hk)) hlen
    | some op =>
      have hilt : i < calls.length := by
        rcases List.getElem?_eq_some_iff.mp hc with ⟨h, _⟩; exact h
      have hli : x.2[i]? = some (x.2[i]'(hlen ▸ hilt)) := List.getElem?_eq_getElem _
      have hnone := hfresh i (List.mem_cons_self) _ hli
      simp only [Option.map_some, hli]
      apply ih
      · exact hnd'
      · simp only [runBody, whole, hnone, hx]
      · simp only [runBody, whole, hnone, List.map_set, hm, hx]
      · intro k hk l hl
        have hki : i ≠ k := fun e => hni (e ▸ hk)
        simp only [List.getElem?_set_ne hki] at hl
        exact hfresh k (List.mem_cons_of_mem _ hk) l hl
      · simp [hlen]

open Fs.Ref in
theorem mapM_validate_single_ok (p : Str) (cs : List Name) (h : validate p = .ok cs) :
    List.mapM validate [p] = .ok [cs] := by
  simp [List.mapM, List.mapM.loop, h, Bind.bind, Res.bind, Pure.pure]

open Fs.Ref in
theorem mapM_validate_single_err (p : Str) (e : Err) (h : validate p = .err e) :
    List.mapM validate [p] = .err e := by
  simp [List.mapM, List.mapM.loop, h, Bind.bind, Res.bind]

end Fs.Conc
