/-
  Helper lemmas for FsProofs/BaseWalkLaws.lean, part 8: the lifting of `BaseWalkLift`, for an ARBITRARY state
  type.  `P : Prim σ` is any primitive interface whose states are reached through `emb : State → σ` (a
  filesystem object wrapping ONE reference state: a single-layer MultiFS, …); `PrimSim P emb` says that each of its
  nine calls follows the corresponding call of the reference's primitives `PR`.  Then every bulk algorithm of
  `FsModel.BaseWalk` run over `P` follows the run over `PR` (`LiftE`).
-/
import FsProofs.Lemmas.BaseWalkLift
import FsProofs.WrapRefines

namespace Fs.BaseWalkSim
open Fs Fs.Path Fs.Ref Fs.BaseWalk Fs.BaseWalkPrim Fs.BaseWalkRm Fs.BaseWalkLift Fs.WrapRefines

section
variable {σ : Type}

/-- the run over `P` (in states `emb t`) follows the run over the reference's primitives -/
def LiftE {α : Type} (emb : State → σ) (rM : σ × Res α) (rR : State × Res α) : Prop :=
  (∃ t v, rR = (t, .ok v) ∧ rM = (emb t, .ok v)) ∨ (∃ t e e', rR = (t, .err e) ∧ rM = (emb t, .err e'))

theorem liftE_refl {α : Type} (emb : State → σ) (t : State) (r : Res α) : LiftE emb (emb t, r) (t, r) := by
  cases r with
  | ok v => exact Or.inl ⟨t, v, rfl, rfl⟩
  | err e => exact Or.inr ⟨t, e, e, rfl, rfl⟩

theorem liftE_err {α : Type} (emb : State → σ) (t : State) (e e' : Err) :
    LiftE (α := α) emb (emb t, .err e') (t, .err e) := Or.inr ⟨t, e, e', rfl, rfl⟩

/-- every call of `P` follows the reference's -/
structure PrimSim (P : Prim σ) (emb : State → σ) : Prop where
  validatepath : ∀ t p, GoodS t → LiftE emb (P.validatepath (emb t) p) (PR.validatepath t p)
  exists_ : ∀ t p, GoodS t → LiftE emb (P.exists_ (emb t) p) (PR.exists_ t p)
  getinfo : ∀ t p, GoodS t → LiftE emb (P.getinfo (emb t) p) (PR.getinfo t p)
  scandir : ∀ t p, GoodS t → LiftE emb (P.scandir (emb t) p) (PR.scandir t p)
  makedir : ∀ t p, GoodS t → LiftE emb (P.makedir (emb t) p) (PR.makedir t p)
  makedirs : ∀ t p, GoodS t → LiftE emb (P.makedirs (emb t) p) (PR.makedirs t p)
  copy : ∀ t a b, GoodS t → LiftE emb (P.copy (emb t) a b) (PR.copy t a b)
  remove : ∀ t p, GoodS t → LiftE emb (P.remove (emb t) p) (PR.remove t p)
  removedir : ∀ t p, GoodS t → LiftE emb (P.removedir (emb t) p) (PR.removedir t p)

/-! the reference side preserves goodness (`BaseWalkLift` with `F := Ref.step`) -/
theorem good_call (t : State) (G : GoodS t) (op : Op) (hop : op ≠ .close) : GoodS (Ref.step t op).1 := goodS_step G op hop

theorem good_scan (t : State) (G : GoodS t) (p : Str) : GoodS (PR.scandir t p).1 :=
  (lift_scanOf Ref.step ref_refines_ref t G p).2

theorem good_validate (t : State) (G : GoodS t) (p : Str) : GoodS (PR.validatepath t p).1 :=
  (lift_validateOf Ref.step ref_refines_ref t G p).2

variable (P : Prim σ) (emb : State → σ) (H : PrimSim P emb)
include H

theorem sim_rmEntries (visitM : Str → σ → σ × Out) (visitR : Str → State → State × Out)
    (hv : ∀ d t, GoodS t → LiftE emb (visitM d (emb t)) (visitR d t) ∧ GoodS (visitR d t).1) (d : Str) :
    ∀ (l : List ScanInfo) (t : State), GoodS t →
      LiftE emb (rmEntries P visitM d l (emb t)) (rmEntries PR visitR d l t) ∧ GoodS (rmEntries PR visitR d l t).1
  | [], t, G => ⟨liftE_refl emb t _, G⟩
  | (n, isDir, sz) :: rest, t, G => by
    simp only [rmEntries]
    cases isDir with
    | true =>
      simp only [if_true]
      obtain ⟨hl, G1⟩ := hv (combine d n) t G
      rcases hl with ⟨s, v, hr, hf⟩ | ⟨s, e, e', hr, hf⟩
      · rw [hr] at G1
        rw [hr, hf]
        simp only
        have G2 : GoodS (PR.removedir s (combine d n)).1 := good_call s G1 _ (by intro h; cases h)
        rcases H.removedir s (combine d n) G1 with ⟨s2, v2, hr2, hf2⟩ | ⟨s2, e2, e2', hr2, hf2⟩
        · rw [hr2] at G2
          rw [hr2, hf2]
          exact sim_rmEntries visitM visitR hv d rest s2 G2
        · rw [hr2] at G2
          rw [hr2, hf2]
          exact ⟨liftE_err emb _ _ _, G2⟩
      · rw [hr] at G1
        rw [hr, hf]
        exact ⟨liftE_err emb _ _ _, G1⟩
    | false =>
      simp only [Bool.false_eq_true, if_false]
      have G2 : GoodS (PR.remove t (combine d n)).1 := good_call t G _ (by intro h; cases h)
      rcases H.remove t (combine d n) G with ⟨s2, v2, hr2, hf2⟩ | ⟨s2, e2, e2', hr2, hf2⟩
      · rw [hr2] at G2
        rw [hr2, hf2]
        exact sim_rmEntries visitM visitR hv d rest s2 G2
      · rw [hr2] at G2
        rw [hr2, hf2]
        exact ⟨liftE_err emb _ _ _, G2⟩

theorem sim_rmWalk : ∀ (fuel : Nat) (d : Str) (t : State), GoodS t →
    LiftE emb (rmWalk P fuel d (emb t)) (rmWalk PR fuel d t) ∧ GoodS (rmWalk PR fuel d t).1
  | 0, _, t, G => ⟨liftE_refl emb t _, G⟩
  | fuel + 1, d, t, G => by
    simp only [rmWalk]
    have G1 := good_scan t G d
    rcases H.scandir t d G with ⟨s, v, hr, hf⟩ | ⟨s, e, e', hr, hf⟩
    · rw [hr] at G1
      rw [hr, hf]
      exact sim_rmEntries P emb H _ _ (fun d' t' G' => sim_rmWalk fuel d' t' G') d v s G1
    · rw [hr] at G1
      rw [hr, hf]
      exact ⟨liftE_err emb _ _ _, G1⟩

theorem sim_removetreeBody (fuel : Nat) (t : State) (G : GoodS t) (p np : Str) :
    LiftE emb (removetreeBody P fuel (emb t) p np) (removetreeBody PR fuel t p np) ∧
    GoodS (removetreeBody PR fuel t p np).1 := by
  simp only [removetreeBody]
  obtain ⟨hl, G1⟩ := sim_rmWalk P emb H fuel np t G
  rcases hl with ⟨s, v, hr, hf⟩ | ⟨s, e, e', hr, hf⟩
  · rw [hr] at G1
    rw [hr, hf]
    simp only
    split
    · exact ⟨liftE_refl emb s _, G1⟩
    · exact ⟨H.removedir s p G1, good_call s G1 _ (by intro h; cases h)⟩
  · rw [hr] at G1
    rw [hr, hf]
    exact ⟨liftE_err emb _ _ _, G1⟩

theorem sim_removetree (fuel : Nat) (t : State) (G : GoodS t) (p : Str) :
    LiftE emb (removetree P fuel (emb t) p) (removetree PR fuel t p) ∧ GoodS (removetree PR fuel t p).1 := by
  simp only [removetree]
  have G1 := good_validate t G p
  rcases H.validatepath t p G with ⟨s, np, hr, hf⟩ | ⟨s, e, e', hr, hf⟩
  · rw [hr] at G1
    rw [hr, hf]
    exact sim_removetreeBody P emb H fuel s G1 p np
  · rw [hr] at G1
    rw [hr, hf]
    exact ⟨liftE_err emb _ _ _, G1⟩

theorem sim_structEntries (a b d : Str) : ∀ (l : List ScanInfo) (q : List Str) (t : State), GoodS t →
    LiftE emb (structEntries P a b d l q (emb t)) (structEntries PR a b d l q t) ∧ GoodS (structEntries PR a b d l q t).1
  | [], _, t, G => ⟨liftE_refl emb t _, G⟩
  | (n, isDir, sz) :: rest, q, t, G => by
    simp only [structEntries]
    cases isDir with
    | false => simpa using sim_structEntries a b d rest q t G
    | true =>
      simp only [if_true]
      cases target a b (combine d n) with
      | err e => exact ⟨liftE_refl emb t _, G⟩
      | ok tg =>
        simp only
        have G2 : GoodS (PR.makedir t tg).1 := good_call t G _ (by intro h; cases h)
        rcases H.makedir t tg G with ⟨s2, v2, hr2, hf2⟩ | ⟨s2, e2, e2', hr2, hf2⟩
        · rw [hr2] at G2
          rw [hr2, hf2]
          exact sim_structEntries a b d rest _ s2 G2
        · rw [hr2] at G2
          rw [hr2, hf2]
          exact ⟨liftE_err emb _ _ _, G2⟩

theorem sim_copyFileInternal (t : State) (G : GoodS t) (a b : Str) :
    LiftE emb (copyFileInternal P (emb t) a b) (copyFileInternal PR t a b) ∧ GoodS (copyFileInternal PR t a b).1 := by
  simp only [copyFileInternal]
  have G1 := good_validate t G a
  rcases H.validatepath t a G with ⟨s, v, hr, hf⟩ | ⟨s, e, e', hr, hf⟩
  · rw [hr] at G1
    rw [hr, hf]
    simp only
    have G2 := good_validate s G1 b
    rcases H.validatepath s b G1 with ⟨s2, v2, hr2, hf2⟩ | ⟨s2, e2, e2', hr2, hf2⟩
    · rw [hr2] at G2
      rw [hr2, hf2]
      simp only
      split
      · exact ⟨liftE_refl emb s2 _, G2⟩
      · exact ⟨H.copy s2 a b G2, good_call s2 G2 _ (by intro h; cases h)⟩
    · rw [hr2] at G2
      rw [hr2, hf2]
      exact ⟨liftE_err emb _ _ _, G2⟩
  · rw [hr] at G1
    rw [hr, hf]
    exact ⟨liftE_err emb _ _ _, G1⟩

theorem sim_fileEntries (a b d : Str) : ∀ (l : List ScanInfo) (q : List Str) (t : State), GoodS t →
    LiftE emb (fileEntries P a b d l q (emb t)) (fileEntries PR a b d l q t) ∧ GoodS (fileEntries PR a b d l q t).1
  | [], _, t, G => ⟨liftE_refl emb t _, G⟩
  | (n, isDir, sz) :: rest, q, t, G => by
    simp only [fileEntries]
    cases isDir with
    | true => simpa using sim_fileEntries a b d rest _ t G
    | false =>
      simp only [Bool.false_eq_true, if_false]
      cases target a b (combine d n) with
      | err e => exact ⟨liftE_refl emb t _, G⟩
      | ok tg =>
        simp only
        obtain ⟨hl, G2⟩ := sim_copyFileInternal P emb H t G (combine d n) tg
        rcases hl with ⟨s2, v2, hr2, hf2⟩ | ⟨s2, e2, e2', hr2, hf2⟩
        · rw [hr2] at G2
          rw [hr2, hf2]
          exact sim_fileEntries a b d rest _ s2 G2
        · rw [hr2] at G2
          rw [hr2, hf2]
          exact ⟨liftE_err emb _ _ _, G2⟩

theorem sim_walkBreadth (visitM : Str → List ScanInfo → List Str → σ → σ × Res (List Str))
    (visitR : Str → List ScanInfo → List Str → State → State × Res (List Str))
    (hv : ∀ d l q t, GoodS t → LiftE emb (visitM d l q (emb t)) (visitR d l q t) ∧ GoodS (visitR d l q t).1) :
    ∀ (fuel : Nat) (Q : List Str) (t : State), GoodS t →
      LiftE emb (walkBreadth P visitM fuel Q (emb t)) (walkBreadth PR visitR fuel Q t) ∧
      GoodS (walkBreadth PR visitR fuel Q t).1
  | 0, _, t, G => ⟨liftE_refl emb t _, G⟩
  | _ + 1, [], t, G => ⟨liftE_refl emb t _, G⟩
  | fuel + 1, d :: Q, t, G => by
    simp only [walkBreadth]
    have G1 := good_scan t G d
    rcases H.scandir t d G with ⟨s, v, hr, hf⟩ | ⟨s, e, e', hr, hf⟩
    · rw [hr] at G1
      rw [hr, hf]
      simp only
      obtain ⟨hl2, G2⟩ := hv d v Q s G1
      rcases hl2 with ⟨s2, v2, hr2, hf2⟩ | ⟨s2, e2, e2', hr2, hf2⟩
      · rw [hr2] at G2
        rw [hr2, hf2]
        exact sim_walkBreadth visitM visitR hv fuel v2 s2 G2
      · rw [hr2] at G2
        rw [hr2, hf2]
        exact ⟨liftE_err emb _ _ _, G2⟩
    · rw [hr] at G1
      rw [hr, hf]
      exact ⟨liftE_err emb _ _ _, G1⟩

theorem sim_copyDir (fuel : Nat) (t : State) (G : GoodS t) (a b : Str) :
    LiftE emb (copyDir P fuel (emb t) a b) (copyDir PR fuel t a b) ∧ GoodS (copyDir PR fuel t a b).1 := by
  simp only [copyDir]
  cases normRes a with
  | err e => exact ⟨liftE_refl emb t _, G⟩
  | ok na =>
    cases normRes b with
    | err e => exact ⟨liftE_refl emb t _, G⟩
    | ok nb =>
      simp only
      have G1 := good_validate t G a
      rcases H.validatepath t a G with ⟨s, ra, hr, hf⟩ | ⟨s, e, e', hr, hf⟩
      · rw [hr] at G1
        rw [hr, hf]
        simp only
        have G2 := good_validate s G1 b
        rcases H.validatepath s b G1 with ⟨s2, rb, hr2, hf2⟩ | ⟨s2, e2, e2', hr2, hf2⟩
        · rw [hr2] at G2
          rw [hr2, hf2]
          simp only
          split
          · exact ⟨liftE_refl emb s2 _, G2⟩
          · have G3 : GoodS (PR.makedirs s2 rb).1 := good_call s2 G2 _ (by intro h; cases h)
            rcases H.makedirs s2 rb G2 with ⟨s3, v3, hr3, hf3⟩ | ⟨s3, e3, e3', hr3, hf3⟩
            · rw [hr3] at G3
              rw [hr3, hf3]
              simp only [structLoop, filesLoop]
              obtain ⟨hl4, G4⟩ := sim_walkBreadth P emb H _ _
                (fun d l q t' G' => sim_structEntries P emb H ra rb d l q t' G') fuel [ra] s3 G3
              rcases hl4 with ⟨s4, v4, hr4, hf4⟩ | ⟨s4, e4, e4', hr4, hf4⟩
              · rw [hr4] at G4
                rw [hr4, hf4]
                exact sim_walkBreadth P emb H _ _ (fun d l q t' G' => sim_fileEntries P emb H na nb d l q t' G') fuel [na] s4 G4
              · rw [hr4] at G4
                rw [hr4, hf4]
                exact ⟨liftE_err emb _ _ _, G4⟩
            · rw [hr3] at G3
              rw [hr3, hf3]
              exact ⟨liftE_err emb _ _ _, G3⟩
        · rw [hr2] at G2
          rw [hr2, hf2]
          exact ⟨liftE_err emb _ _ _, G2⟩
      · rw [hr] at G1
        rw [hr, hf]
        exact ⟨liftE_err emb _ _ _, G1⟩

theorem sim_whenDir (rM : σ × Out) (rR : State × Out) (h : LiftE emb rM rR) (G1 : GoodS rR.1) (kM : σ → σ × Out)
    (kR : State → State × Out) (hk : ∀ s, GoodS s → LiftE emb (kM (emb s)) (kR s) ∧ GoodS (kR s).1) :
    LiftE emb (whenDir rM kM) (whenDir rR kR) ∧ GoodS (whenDir rR kR).1 := by
  rcases h with ⟨s, v, hr, hf⟩ | ⟨s, e, e', hr, hf⟩
  · rw [hr] at G1
    rw [hr, hf]
    simp only [whenDir]
    cases v with
    | info nm d sz =>
      cases d with
      | true => exact hk s G1
      | false => exact ⟨liftE_refl emb s _, G1⟩
    | _ => exact ⟨liftE_refl emb s _, G1⟩
  · rw [hr] at G1
    rw [hr, hf]
    exact ⟨liftE_err emb _ _ _, G1⟩

theorem sim_whenExists (create : Bool) (p : Str) (t : State) (G : GoodS t) (kM : σ → σ × Out)
    (kR : State → State × Out) (hk : ∀ s, GoodS s → LiftE emb (kM (emb s)) (kR s) ∧ GoodS (kR s).1) :
    LiftE emb (whenExists create (fun s => P.exists_ s p) (emb t) kM) (whenExists create (fun s => PR.exists_ s p) t kR) ∧
    GoodS (whenExists create (fun s => PR.exists_ s p) t kR).1 := by
  cases create with
  | true => simpa [whenExists] using hk t G
  | false =>
    simp only [whenExists, Bool.false_eq_true, if_false]
    have G3 : GoodS (PR.exists_ t p).1 := good_call t G _ (by intro h; cases h)
    rcases H.exists_ t p G with ⟨s3, v3, hr3, hf3⟩ | ⟨s3, e3, e3', hr3, hf3⟩
    · rw [hr3] at G3
      rw [hr3, hf3]
      cases v3 with
      | bool bb =>
        cases bb with
        | false => exact ⟨liftE_refl emb s3 _, G3⟩
        | true => exact hk s3 G3
      | _ => exact hk s3 G3
    · rw [hr3] at G3
      rw [hr3, hf3]
      exact ⟨liftE_err emb _ _ _, G3⟩

theorem sim_copydir (fuel : Nat) (t : State) (G : GoodS t) (a b : Str) (create : Bool) :
    LiftE emb (copydir P fuel (emb t) a b create) (copydir PR fuel t a b create) ∧
    GoodS (copydir PR fuel t a b create).1 := by
  simp only [copydir]
  have G1 := good_validate t G a
  rcases H.validatepath t a G with ⟨s, ns, hr, hf⟩ | ⟨s, e, e', hr, hf⟩
  · rw [hr] at G1
    rw [hr, hf]
    simp only
    have G2 := good_validate s G1 b
    rcases H.validatepath s b G1 with ⟨s2, nd, hr2, hf2⟩ | ⟨s2, e2, e2', hr2, hf2⟩
    · rw [hr2] at G2
      rw [hr2, hf2]
      simp only
      split
      · exact ⟨liftE_refl emb s2 _, G2⟩
      · refine sim_whenExists P emb H create nd s2 G2 _ _ (fun s' G' => ?_)
        exact sim_whenDir P emb H _ _ (H.getinfo s' ns G') (good_call s' G' _ (by intro h; cases h)) _ _
          (fun s'' G'' => sim_copyDir P emb H fuel s'' G'' ns nd)
    · rw [hr2] at G2
      rw [hr2, hf2]
      exact ⟨liftE_err emb _ _ _, G2⟩
  · rw [hr] at G1
    rw [hr, hf]
    exact ⟨liftE_err emb _ _ _, G1⟩

theorem sim_moveDir (rtM : σ → Str → σ × Out) (rtR : State → Str → State × Out)
    (hrt : ∀ s p, GoodS s → LiftE emb (rtM (emb s) p) (rtR s p) ∧ GoodS (rtR s p).1)
    (fuel : Nat) (t : State) (G : GoodS t) (a b : Str) :
    LiftE emb (moveDir P rtM fuel (emb t) a b) (moveDir PR rtR fuel t a b) ∧ GoodS (moveDir PR rtR fuel t a b).1 := by
  simp only [moveDir]
  refine sim_whenDir P emb H _ _ (H.getinfo t a G) (good_call t G _ (by intro h; cases h)) _ _ (fun s G1 => ?_)
  simp only [moveDirBody, andThen]
  have G2 : GoodS (PR.makedir s b).1 := good_call s G1 _ (by intro h; cases h)
  rcases H.makedir s b G1 with ⟨s2, v2, hr2, hf2⟩ | ⟨s2, e2, e2', hr2, hf2⟩
  · rw [hr2] at G2
    rw [hr2, hf2]
    simp only
    obtain ⟨hl3, G3⟩ := sim_copyDir P emb H fuel s2 G2 a b
    rcases hl3 with ⟨s3, v3, hr3, hf3⟩ | ⟨s3, e3, e3', hr3, hf3⟩
    · rw [hr3] at G3
      rw [hr3, hf3]
      exact hrt s3 a G3
    · rw [hr3] at G3
      rw [hr3, hf3]
      exact ⟨liftE_err emb _ _ _, G3⟩
  · rw [hr2] at G2
    rw [hr2, hf2]
    exact ⟨liftE_err emb _ _ _, G2⟩

theorem sim_movedir (rtM : σ → Str → σ × Out) (rtR : State → Str → State × Out)
    (hrt : ∀ s p, GoodS s → LiftE emb (rtM (emb s) p) (rtR s p) ∧ GoodS (rtR s p).1)
    (fuel : Nat) (t : State) (G : GoodS t) (a b : Str) (create : Bool) :
    LiftE emb (movedir P rtM fuel (emb t) a b create) (movedir PR rtR fuel t a b create) ∧
    GoodS (movedir PR rtR fuel t a b create).1 := by
  simp only [movedir]
  have G1 := good_validate t G a
  rcases H.validatepath t a G with ⟨s, ns, hr, hf⟩ | ⟨s, e, e', hr, hf⟩
  · rw [hr] at G1
    rw [hr, hf]
    simp only
    have G2 := good_validate s G1 b
    rcases H.validatepath s b G1 with ⟨s2, nd, hr2, hf2⟩ | ⟨s2, e2, e2', hr2, hf2⟩
    · rw [hr2] at G2
      rw [hr2, hf2]
      simp only
      split
      · exact ⟨liftE_refl emb s2 _, G2⟩
      · split
        · exact ⟨liftE_refl emb s2 _, G2⟩
        · exact sim_whenExists P emb H create b s2 G2 _ _
            (fun s' G' => sim_moveDir P emb H rtM rtR hrt fuel s' G' a b)
    · rw [hr2] at G2
      rw [hr2, hf2]
      exact ⟨liftE_err emb _ _ _, G2⟩
  · rw [hr] at G1
    rw [hr, hf]
    exact ⟨liftE_err emb _ _ _, G1⟩

end

end Fs.BaseWalkSim
