/-
  C09 helper: every open handle is held by exactly one owner (producer, a queued task, a worker).
-/
import FsProofs.Lemmas.BulkLemmas

namespace Fs.BulkLemmas
open Fs Fs.Bulk
set_option linter.unusedSimpArgs false

/-- handles a transfer body in phase `ph` still has to close (`a` is closed first) -/
def phaseHandles (i : Nat) (a : Side) : Phase → List (Nat × Side)
  | .reading _ => [(i, a), (i, a.other)]
  | .writing _ => [(i, a), (i, a.other)]
  | .closeA _ => [(i, a), (i, a.other)]
  | .closeB _ => [(i, a.other)]

def nextHandles (i : Nat) (a : Side) : BNext → List (Nat × Side)
  | .cont ph => phaseHandles i a ph
  | .fin _ => []

def wHandles : W → List (Nat × Side)
  | .run i ph => phaseHandles i .src ph
  | _ => []

def qItemHandles : Option Nat → List (Nat × Side)
  | some i => [(i, .src), (i, .dst)]
  | none => []

def prodHandles (c : Cfg) : Prod → List (Nat × Side)
  | .srcOpen i _ => [(i, .src)]
  | .failClose i _ => [(i, .src)]
  | .bothOpen i _ => [(i, .src), (i, .dst)]
  | .inl i .second _ => [(i, firstSide c)]
  | .inl i .failClose _ => [(i, firstSide c)]
  | .inl i (.body ph) _ => phaseHandles i (firstSide c).other ph
  | _ => []

def held (c : Cfg) (s : St) : List (Nat × Side) :=
  prodHandles c s.prod ++ s.queue.flatMap qItemHandles ++ s.workers.flatMap wHandles

def Hand (c : Cfg) (s : St) : Prop := ∀ h, List.count h s.opened = List.count h (held c s)

theorem other_other (a : Side) : a.other.other = a := by cases a <;> rfl
theorem other_ne (a : Side) : a.other ≠ a := by cases a <;> simp [Side.other]

theorem prodHandles_afterBody (c : Cfg) (b : Bool) : prodHandles c (afterBody c b) = [] := by
  unfold afterBody; split <;> rfl
theorem prodHandles_nextLoop (c : Cfg) (r : List Nat) : prodHandles c (nextLoop c r) = [] := by
  cases r with
  | nil => exact prodHandles_afterBody c false
  | cons i r => rfl
theorem prodHandles_ptimesNext (c : Cfg) (l : List Nat) (b : Bool) : prodHandles c (ptimesNext l b) = [] := by
  cases l <;> rfl
theorem prodHandles_afterJoin (c : Cfg) (l : List Nat) (b : Bool) : prodHandles c (afterJoin c l b) = [] := by
  unfold afterJoin; split
  · exact prodHandles_ptimesNext c l b
  · rfl

/-- effect of a body step on the open set, relative to what the body holds -/
theorem BTrans.handles {c : Cfg} {s s1 : St} {i : Nat} {a : Side} {ph : Phase} {nx : BNext} {e : Ev}
    (hb : BTrans c s i a ph nx e s1) (h : Nat × Side)
    (hge : List.count h (phaseHandles i a ph) ≤ List.count h s.opened) :
    List.count h s1.opened + List.count h (phaseHandles i a ph)
      = List.count h s.opened + List.count h (nextHandles i a nx) := by
  have hne := other_ne a
  cases hb <;>
    simp_all [phaseHandles, nextHandles, List.count_cons, List.count_erase] <;>
    (repeat' split) <;> simp_all <;> omega

theorem hand_init (c : Cfg) : Hand c (init c) := by
  intro h
  simp [init, held, prodHandles_nextLoop, flatMap_replicate_nil wHandles W.idle rfl]


theorem hand_worker {c : Cfg} {s s' : St} {w : Nat} {e : Ev} (h : Hand c s)
    (hs : WTrans c s w s' e) : Hand c s' := by
  intro x
  have hx := h x
  cases hs with
  | getTask i q hw hq =>
    have := count_flatMap_set wHandles x s.workers w .idle (.run i (.reading 0)) hw
    simp [held, hq, wHandles, phaseHandles, qItemHandles, Side.other, List.count_append, List.count_cons,
      List.flatMap_cons] at hx this ⊢
    omega
  | getSentinel q hw hq =>
    have := count_flatMap_set wHandles x s.workers w .idle .stopping hw
    simp [held, hq, wHandles, qItemHandles, List.count_append, List.flatMap_cons] at hx this ⊢
    omega
  | bodyCont i ph ph' e s1 hw hb =>
    obtain ⟨h1, h2, h3, _, _, _, _, _⟩ := hb.frame
    have hset := count_flatMap_set wHandles x s.workers w (.run i ph) (.run i ph') hw
    have hown := count_le_flatMap wHandles x s.workers w (.run i ph) hw
    have hb' := hb.handles x (by simp [held, wHandles, List.count_append] at hx hown ⊢; omega)
    simp [held, h1, h2, h3, wHandles, nextHandles, List.count_append] at hx hset hb' hown ⊢
    omega
  | bodyFin i ph exc e s1 hw hb =>
    obtain ⟨h1, h2, h3, _, _, _, _, _⟩ := hb.frame
    have hset := count_flatMap_set wHandles x s.workers w (.run i ph) (.ending i exc) hw
    have hown := count_le_flatMap wHandles x s.workers w (.run i ph) hw
    have hb' := hb.handles x (by simp [held, wHandles, List.count_append] at hx hown ⊢; omega)
    simp [held, h1, h2, h3, wHandles, nextHandles, List.count_append] at hx hset hb' hown ⊢
    omega
  | endTask i exc hw =>
    have := count_flatMap_set wHandles x s.workers w (.ending i exc) .idle hw
    simp [held, wHandles, List.count_append] at hx this ⊢
    omega
  | exitW hw =>
    have := count_flatMap_set wHandles x s.workers w .stopping .exited hw
    simp [held, wHandles, List.count_append] at hx this ⊢
    omega


theorem hand_prod {c : Cfg} {s s' : St} {e : Ev} (h : Hand c s)
    (hs : PTrans c s s' e) : Hand c s' := by
  intro x
  have hx := h x
  have hne := other_ne (firstSide c)
  cases hs
  case inlBodyCont =>
    have hb := ‹BTrans c s _ _ _ _ _ _›
    have hp := ‹s.prod = _›
    obtain ⟨h1, h2, h3, _, _, _, _, _⟩ := hb.frame
    have hb' := hb.handles x (by simp [held, hp, prodHandles, List.count_append] at hx ⊢; omega)
    simp [held, hp, h1, h2, h3, prodHandles, nextHandles, List.count_append] at hx hb' ⊢
    omega
  case inlBodyRaise =>
    have hb := ‹BTrans c s _ _ _ _ _ _›
    have hp := ‹s.prod = _›
    obtain ⟨h1, h2, h3, _, _, _, _, _⟩ := hb.frame
    have hb' := hb.handles x (by simp [held, hp, prodHandles, List.count_append] at hx ⊢; omega)
    simp only [held, raiseP, prodHandles_afterBody] at hx ⊢
    simp [hp, h1, h2, h3, prodHandles, nextHandles, List.count_append] at hx hb' ⊢
    omega
  case inlBodyToPtime =>
    have hb := ‹BTrans c s _ _ _ _ _ _›
    have hp := ‹s.prod = _›
    obtain ⟨h1, h2, h3, _, _, _, _, _⟩ := hb.frame
    have hb' := hb.handles x (by simp [held, hp, prodHandles, List.count_append] at hx ⊢; omega)
    simp [held, hp, h1, h2, h3, prodHandles, nextHandles, List.count_append] at hx hb' ⊢
    omega
  case inlBodyNext =>
    have hb := ‹BTrans c s _ _ _ _ _ _›
    have hp := ‹s.prod = _›
    obtain ⟨h1, h2, h3, _, _, _, _, _⟩ := hb.frame
    have hb' := hb.handles x (by simp [held, hp, prodHandles, List.count_append] at hx ⊢; omega)
    simp only [held, prodHandles_nextLoop] at hx ⊢
    simp [hp, h1, h2, h3, prodHandles, nextHandles, List.count_append] at hx hb' ⊢
    omega
  all_goals
    (try simp only [held, raiseP, prodHandles_nextLoop, prodHandles_afterBody, prodHandles_afterJoin,
      prodHandles_ptimesNext, apply_ite (prodHandles c)] at hx ⊢) <;>
    simp_all [prodHandles, qItemHandles, phaseHandles, List.count_append, List.count_cons, List.count_erase,
      List.flatMap_append, List.flatMap_cons, other_other] <;>
    omega

end Fs.BulkLemmas
