/-
  Helper lemmas for FsProofs/TextLaws.lean: the concrete codecs (UTF-8, UTF-32-LE, UTF-16-LE,
  latin-1/ascii), the line splitter, the newline translations, mode-string membership.
-/
import FsModel.Text
import FsProofs.Lemmas.FileLemmas

namespace Fs.TextLemmas
open Fs Fs.File Fs.Text

set_option linter.unusedSimpArgs false
set_option linter.unusedVariables false

/-! ## codecs -/

theorem b8_toNat (n : Nat) (h : n < 256) : (b8 n).toNat = n := by
  simp [b8, Nat.mod_eq_of_lt h]

theorem char_bounds (c : Char) : c.toNat < 0xD800 ∨ (0xE000 ≤ c.toNat ∧ c.toNat < 0x110000) := by
  have := c.valid
  simp only [Char.toNat, UInt32.isValidChar, Nat.isValidChar] at *
  omega

theorem dec1 (b0 : UInt8) (rest : Bytes) (h : b0.toNat < 0x80) :
    utf8Dec (b0 :: rest) = consO b0.toNat (utf8Dec rest) := by
  conv => lhs; unfold utf8Dec
  simp [h]

theorem dec2 (b0 b1 : UInt8) (rest : Bytes) (h0 : 0xC2 ≤ b0.toNat) (h0' : b0.toNat < 0xE0)
    (h1 : isCont b1 = true) :
    utf8Dec (b0 :: b1 :: rest) = consO ((b0.toNat - 0xC0) * 64 + (b1.toNat - 0x80)) (utf8Dec rest) := by
  rw [utf8Dec]
  have e1 : ¬ b0.toNat < 0x80 := by omega
  have e2 : ¬ b0.toNat < 0xC2 := by omega
  simp [e1, e2, h0', h1]

theorem dec3 (b0 b1 b2 : UInt8) (rest : Bytes) (h0 : 0xE0 ≤ b0.toNat) (h0' : b0.toNat < 0xF0)
    (h1 : isCont b1 = true) (h2 : isCont b2 = true)
    (hn : 0x800 ≤ (b0.toNat - 0xE0) * 4096 + (b1.toNat - 0x80) * 64 + (b2.toNat - 0x80))
    (hs : scalar ((b0.toNat - 0xE0) * 4096 + (b1.toNat - 0x80) * 64 + (b2.toNat - 0x80)) = true) :
    utf8Dec (b0 :: b1 :: b2 :: rest) =
      consO ((b0.toNat - 0xE0) * 4096 + (b1.toNat - 0x80) * 64 + (b2.toNat - 0x80)) (utf8Dec rest) := by
  rw [utf8Dec]
  have e1 : ¬ b0.toNat < 0x80 := by omega
  have e2 : ¬ b0.toNat < 0xC2 := by omega
  have e3 : ¬ b0.toNat < 0xE0 := by omega
  simp [e1, e2, e3, h0', h1, h2, hn, hs]

theorem dec4 (b0 b1 b2 b3 : UInt8) (rest : Bytes) (h0 : 0xF0 ≤ b0.toNat) (h0' : b0.toNat < 0xF5)
    (h1 : isCont b1 = true) (h2 : isCont b2 = true) (h3 : isCont b3 = true)
    (hn : 0x10000 ≤ (b0.toNat - 0xF0) * 262144 + (b1.toNat - 0x80) * 4096 + (b2.toNat - 0x80) * 64 + (b3.toNat - 0x80))
    (hm : (b0.toNat - 0xF0) * 262144 + (b1.toNat - 0x80) * 4096 + (b2.toNat - 0x80) * 64 + (b3.toNat - 0x80) < 0x110000) :
    utf8Dec (b0 :: b1 :: b2 :: b3 :: rest) =
      consO ((b0.toNat - 0xF0) * 262144 + (b1.toNat - 0x80) * 4096 + (b2.toNat - 0x80) * 64 + (b3.toNat - 0x80))
        (utf8Dec rest) := by
  rw [utf8Dec]
  have e1 : ¬ b0.toNat < 0x80 := by omega
  have e2 : ¬ b0.toNat < 0xC2 := by omega
  have e3 : ¬ b0.toNat < 0xE0 := by omega
  have e4 : ¬ b0.toNat < 0xF0 := by omega
  simp [e1, e2, e3, e4, h0', h1, h2, h3, hn, hm]

theorem isCont_b8 (k : Nat) (h : k < 64) : isCont (b8 (0x80 + k)) = true := by
  simp only [isCont, b8_toNat _ (show 0x80 + k < 256 by omega)]
  simp; omega

theorem utf8_char (c : Char) (rest : Bytes) :
    utf8Dec (utf8EncChar c ++ rest) = consO c.toNat (utf8Dec rest) := by
  have hb := char_bounds c
  unfold utf8EncChar
  simp only []
  split
  · rename_i h1
    simp only [List.cons_append, List.nil_append]
    rw [dec1 _ _ (by rw [b8_toNat _ (by omega)]; exact h1), b8_toNat _ (by omega)]
  · split
    · rename_i h1 h2
      simp only [List.cons_append, List.nil_append]
      have t0 : (b8 (0xC0 + c.toNat / 64)).toNat = 0xC0 + c.toNat / 64 := b8_toNat _ (by omega)
      have t1 : (b8 (0x80 + c.toNat % 64)).toNat = 0x80 + c.toNat % 64 := b8_toNat _ (by omega)
      have ev : (0xC0 + c.toNat / 64 - 0xC0) * 64 + (0x80 + c.toNat % 64 - 0x80) = c.toNat := by omega
      rw [dec2 _ _ _ (by rw [t0]; omega) (by rw [t0]; omega) (isCont_b8 _ (by omega)), t0, t1, ev]
    · split
      · rename_i h1 h2 h3
        simp only [List.cons_append, List.nil_append]
        have t0 : (b8 (0xE0 + c.toNat / 4096)).toNat = 0xE0 + c.toNat / 4096 := b8_toNat _ (by omega)
        have t1 : (b8 (0x80 + c.toNat / 64 % 64)).toNat = 0x80 + c.toNat / 64 % 64 := b8_toNat _ (by omega)
        have t2 : (b8 (0x80 + c.toNat % 64)).toNat = 0x80 + c.toNat % 64 := b8_toNat _ (by omega)
        have ev : (0xE0 + c.toNat / 4096 - 0xE0) * 4096 + (0x80 + c.toNat / 64 % 64 - 0x80) * 64 +
            (0x80 + c.toNat % 64 - 0x80) = c.toNat := by omega
        rw [dec3 _ _ _ _ (by rw [t0]; omega) (by rw [t0]; omega) (isCont_b8 _ (by omega)) (isCont_b8 _ (by omega))
          (by rw [t0, t1, t2, ev]; omega) (by rw [t0, t1, t2, ev]; simp [scalar]; omega), t0, t1, t2, ev]
      · rename_i h1 h2 h3
        simp only [List.cons_append, List.nil_append]
        have t0 : (b8 (0xF0 + c.toNat / 262144)).toNat = 0xF0 + c.toNat / 262144 := b8_toNat _ (by omega)
        have t1 : (b8 (0x80 + c.toNat / 4096 % 64)).toNat = 0x80 + c.toNat / 4096 % 64 := b8_toNat _ (by omega)
        have t2 : (b8 (0x80 + c.toNat / 64 % 64)).toNat = 0x80 + c.toNat / 64 % 64 := b8_toNat _ (by omega)
        have t3 : (b8 (0x80 + c.toNat % 64)).toNat = 0x80 + c.toNat % 64 := b8_toNat _ (by omega)
        have ev : (0xF0 + c.toNat / 262144 - 0xF0) * 262144 + (0x80 + c.toNat / 4096 % 64 - 0x80) * 4096 +
            (0x80 + c.toNat / 64 % 64 - 0x80) * 64 + (0x80 + c.toNat % 64 - 0x80) = c.toNat := by omega
        have c1 := isCont_b8 (c.toNat / 4096 % 64) (by omega)
        have c2 := isCont_b8 (c.toNat / 64 % 64) (by omega)
        have c3 := isCont_b8 (c.toNat % 64) (by omega)
        have g0 : 0xF0 ≤ (b8 (0xF0 + c.toNat / 262144)).toNat := by rw [t0]; omega
        have g1 : (b8 (0xF0 + c.toNat / 262144)).toNat < 0xF5 := by rw [t0]; omega
        have := dec4 _ _ _ _ rest g0 g1 c1 c2 c3 (by rw [t0, t1, t2, t3, ev]; omega) (by rw [t0, t1, t2, t3, ev]; omega)
        rw [this, t0, t1, t2, t3, ev]

theorem utf8Dec_enc (s : Str) : utf8Dec (utf8Enc s) = some s := by
  induction s with
  | nil => simp [utf8Enc, utf8Dec]
  | cons c cs ih =>
    rw [utf8Enc, utf8_char, ih]
    simp [consO, Char.ofNat_toNat]


theorem utf8Enc_append (s t : Str) : utf8Enc (s ++ t) = utf8Enc s ++ utf8Enc t := by
  induction s with
  | nil => simp [utf8Enc]
  | cons c cs ih => simp [utf8Enc, ih]

theorem consO_char (c : Char) (s : Str) : consO c.toNat (some s) = some (c :: s) := by
  simp [consO, Char.ofNat_toNat]

/-! ### strictness: the decoder accepts only what the encoder produces -/

theorem ofNat_toNat_valid (n : Nat) (h : scalar n = true) : (Char.ofNat n).toNat = n := by
  have hv : n.isValidChar := by
    simp only [scalar, Bool.or_eq_true, decide_eq_true_eq, Bool.and_eq_true] at h
    simp only [Nat.isValidChar]
    omega
  simp [Char.ofNat, hv, Char.ofNatAux, Char.toNat]

theorem b8_toNat_self (b : UInt8) : b8 b.toNat = b := by
  simp [b8]

theorem consO_some (n : Nat) (r : Option Str) (s : Str) (h : consO n r = some s) :
    ∃ s', r = some s' ∧ s = Char.ofNat n :: s' := by
  cases r with
  | none => simp [consO] at h
  | some s' => simp [consO] at h; exact ⟨s', rfl, h.symm⟩


theorem isCont_bounds (b : UInt8) (h : isCont b = true) : 0x80 ≤ b.toNat ∧ b.toNat < 0xC0 := by
  simpa [isCont] using h

theorem utf8Enc_dec (b : Bytes) : ∀ s, utf8Dec b = some s → utf8Enc s = b := by
  induction b using utf8Dec.induct with
  | case1 => intro s h; simp [utf8Dec] at h; subst h; rfl
  | case2 b0 rest n0 h1 ih =>
    intro s h
    rw [dec1 _ _ h1] at h
    obtain ⟨s', hs', rfl⟩ := consO_some _ _ _ h
    have hv : scalar b0.toNat = true := by simp [scalar]; omega
    rw [utf8Enc, ih s' hs']
    unfold utf8EncChar
    simp only [ofNat_toNat_valid _ hv]
    have : b0.toNat < 128 := h1
    simp [this, b8_toNat_self]
  | case3 b0 rest n0 h1 h2 =>
    intro s h
    have g1 : ¬ b0.toNat < 128 := h1
    have g2 : b0.toNat < 194 := h2
    have : utf8Dec (b0 :: rest) = none := by
      conv => lhs; unfold utf8Dec
      simp [g1, g2]
    rw [this] at h; cases h
  | case4 b0 n0 h1 h2 h3 b1 r1 hc ih =>
    intro s h
    have g2 : ¬ b0.toNat < 194 := h2
    have g3 : b0.toNat < 224 := h3
    rw [dec2 _ _ _ (by omega) g3 hc] at h
    obtain ⟨s', hs', rfl⟩ := consO_some _ _ _ h
    have ⟨c1, c2⟩ := isCont_bounds b1 hc
    have hv : scalar ((b0.toNat - 0xC0) * 64 + (b1.toNat - 0x80)) = true := by simp [scalar]; omega
    rw [utf8Enc, ih s' hs']
    unfold utf8EncChar
    simp only [ofNat_toNat_valid _ hv]
    have e1 : ¬ ((b0.toNat - 0xC0) * 64 + (b1.toNat - 0x80) < 0x80) := by omega
    have e2 : (b0.toNat - 0xC0) * 64 + (b1.toNat - 0x80) < 0x800 := by omega
    have e3 : 0xC0 + ((b0.toNat - 0xC0) * 64 + (b1.toNat - 0x80)) / 64 = b0.toNat := by omega
    have e4 : 0x80 + ((b0.toNat - 0xC0) * 64 + (b1.toNat - 0x80)) % 64 = b1.toNat := by omega
    simp only [e1, e2, if_false, if_true, e3, e4, b8_toNat_self]
    rfl
  | case5 b0 n0 h1 h2 h3 b1 r1 hc =>
    intro s h
    have g1 : ¬ b0.toNat < 128 := h1
    have g2 : ¬ b0.toNat < 194 := h2
    have g3 : b0.toNat < 224 := h3
    have : utf8Dec (b0 :: b1 :: r1) = none := by
      rw [utf8Dec]; simp [g1, g2, g3, hc]
    rw [this] at h; cases h
  | case6 b0 rest n0 h1 h2 h3 hr =>
    intro s h
    have g1 : ¬ b0.toNat < 128 := h1
    have g2 : ¬ b0.toNat < 194 := h2
    have g3 : b0.toNat < 224 := h3
    cases rest with
    | nil =>
      have : utf8Dec [b0] = none := by
        conv => lhs; unfold utf8Dec
        simp [g1, g2, g3]
      rw [this] at h; cases h
    | cons b1 r1 => exact absurd rfl (fun e => hr b1 r1 e)
  | case7 b0 n0 h1 h2 h3 h4 b1 b2 r2 n hc ih =>
    intro s h
    have g3 : ¬ b0.toNat < 224 := h3
    have g4 : b0.toNat < 240 := h4
    have hc' : (isCont b1 && isCont b2 && decide (2048 ≤ (b0.toNat - 224) * 4096 + (b1.toNat - 128) * 64 + (b2.toNat - 128)) &&
        scalar ((b0.toNat - 224) * 4096 + (b1.toNat - 128) * 64 + (b2.toNat - 128))) = true := hc
    simp only [Bool.and_eq_true, decide_eq_true_eq] at hc'
    obtain ⟨⟨⟨k1, k2⟩, k3⟩, k4⟩ := hc'
    rw [dec3 _ _ _ _ (by omega) g4 k1 k2 k3 k4] at h
    obtain ⟨s', hs', rfl⟩ := consO_some _ _ _ h
    have ⟨c1, c2⟩ := isCont_bounds b1 k1
    have ⟨d1, d2⟩ := isCont_bounds b2 k2
    rw [utf8Enc, ih s' hs']
    unfold utf8EncChar
    simp only [ofNat_toNat_valid _ k4]
    have e1 : ¬ ((b0.toNat - 224) * 4096 + (b1.toNat - 128) * 64 + (b2.toNat - 128) < 0x80) := by omega
    have e2 : ¬ ((b0.toNat - 224) * 4096 + (b1.toNat - 128) * 64 + (b2.toNat - 128) < 0x800) := by omega
    have e2' : (b0.toNat - 224) * 4096 + (b1.toNat - 128) * 64 + (b2.toNat - 128) < 0x10000 := by omega
    have e3 : 0xE0 + ((b0.toNat - 224) * 4096 + (b1.toNat - 128) * 64 + (b2.toNat - 128)) / 4096 = b0.toNat := by omega
    have e4 : 0x80 + ((b0.toNat - 224) * 4096 + (b1.toNat - 128) * 64 + (b2.toNat - 128)) / 64 % 64 = b1.toNat := by omega
    have e5 : 0x80 + ((b0.toNat - 224) * 4096 + (b1.toNat - 128) * 64 + (b2.toNat - 128)) % 64 = b2.toNat := by omega
    simp only [e1, e2, e2', if_false, if_true, e3, e4, e5, b8_toNat_self]
    rfl
  | case8 b0 n0 h1 h2 h3 h4 b1 b2 r2 n hc =>
    intro s h
    have g1 : ¬ b0.toNat < 128 := h1
    have g2 : ¬ b0.toNat < 194 := h2
    have g3 : ¬ b0.toNat < 224 := h3
    have g4 : b0.toNat < 240 := h4
    have hc' : ¬ (isCont b1 && isCont b2 && decide (2048 ≤ (b0.toNat - 224) * 4096 + (b1.toNat - 128) * 64 + (b2.toNat - 128)) &&
        scalar ((b0.toNat - 224) * 4096 + (b1.toNat - 128) * 64 + (b2.toNat - 128))) = true := hc
    have : utf8Dec (b0 :: b1 :: b2 :: r2) = none := by
      conv => lhs; unfold utf8Dec
      simp only [g1, g2, g3, g4, if_false, if_true, hc']
      simp
    rw [this] at h; cases h
  | case9 b0 rest n0 h1 h2 h3 h4 hr =>
    intro s h
    have g1 : ¬ b0.toNat < 128 := h1
    have g2 : ¬ b0.toNat < 194 := h2
    have g3 : ¬ b0.toNat < 224 := h3
    have g4 : b0.toNat < 240 := h4
    have : utf8Dec (b0 :: rest) = none := by
      conv => lhs; unfold utf8Dec
      match rest, hr with
      | [], _ => simp [g1, g2, g3, g4]
      | [b1], _ => simp [g1, g2, g3, g4]
      | b1 :: b2 :: r2, hr => exact absurd rfl (fun e => hr b1 b2 r2 e)
    rw [this] at h; cases h
  | case10 b0 n0 h1 h2 h3 h4 h5 b1 b2 b3 r3 n hc ih =>
    intro s h
    have g4 : ¬ b0.toNat < 240 := h4
    have g5 : b0.toNat < 245 := h5
    have hc' : (isCont b1 && isCont b2 && isCont b3 &&
        decide (65536 ≤ (b0.toNat - 240) * 262144 + (b1.toNat - 128) * 4096 + (b2.toNat - 128) * 64 + (b3.toNat - 128)) &&
        decide ((b0.toNat - 240) * 262144 + (b1.toNat - 128) * 4096 + (b2.toNat - 128) * 64 + (b3.toNat - 128) < 1114112)) = true := hc
    simp only [Bool.and_eq_true, decide_eq_true_eq] at hc'
    obtain ⟨⟨⟨⟨k1, k2⟩, k3⟩, k4⟩, k5⟩ := hc'
    rw [dec4 _ _ _ _ _ (by omega) g5 k1 k2 k3 k4 k5] at h
    obtain ⟨s', hs', rfl⟩ := consO_some _ _ _ h
    have ⟨c1, c2⟩ := isCont_bounds b1 k1
    have ⟨d1, d2⟩ := isCont_bounds b2 k2
    have ⟨f1, f2⟩ := isCont_bounds b3 k3
    have hv : scalar ((b0.toNat - 240) * 262144 + (b1.toNat - 128) * 4096 + (b2.toNat - 128) * 64 + (b3.toNat - 128)) = true := by
      simp [scalar]; omega
    rw [utf8Enc, ih s' hs']
    unfold utf8EncChar
    simp only [ofNat_toNat_valid _ hv]
    have e1 : ¬ ((b0.toNat - 240) * 262144 + (b1.toNat - 128) * 4096 + (b2.toNat - 128) * 64 + (b3.toNat - 128) < 0x80) := by omega
    have e2 : ¬ ((b0.toNat - 240) * 262144 + (b1.toNat - 128) * 4096 + (b2.toNat - 128) * 64 + (b3.toNat - 128) < 0x800) := by omega
    have e2' : ¬ ((b0.toNat - 240) * 262144 + (b1.toNat - 128) * 4096 + (b2.toNat - 128) * 64 + (b3.toNat - 128) < 0x10000) := by omega
    have e3 : 0xF0 + ((b0.toNat - 240) * 262144 + (b1.toNat - 128) * 4096 + (b2.toNat - 128) * 64 + (b3.toNat - 128)) / 262144 = b0.toNat := by omega
    have e4 : 0x80 + ((b0.toNat - 240) * 262144 + (b1.toNat - 128) * 4096 + (b2.toNat - 128) * 64 + (b3.toNat - 128)) / 4096 % 64 = b1.toNat := by omega
    have e5 : 0x80 + ((b0.toNat - 240) * 262144 + (b1.toNat - 128) * 4096 + (b2.toNat - 128) * 64 + (b3.toNat - 128)) / 64 % 64 = b2.toNat := by omega
    have e6 : 0x80 + ((b0.toNat - 240) * 262144 + (b1.toNat - 128) * 4096 + (b2.toNat - 128) * 64 + (b3.toNat - 128)) % 64 = b3.toNat := by omega
    simp only [e1, e2, e2', if_false, e3, e4, e5, e6, b8_toNat_self]
    rfl
  | case11 b0 n0 h1 h2 h3 h4 h5 b1 b2 b3 r3 n hc =>
    intro s h
    have g1 : ¬ b0.toNat < 128 := h1
    have g2 : ¬ b0.toNat < 194 := h2
    have g3 : ¬ b0.toNat < 224 := h3
    have g4 : ¬ b0.toNat < 240 := h4
    have g5 : b0.toNat < 245 := h5
    have hc' : ¬ (isCont b1 && isCont b2 && isCont b3 &&
        decide (65536 ≤ (b0.toNat - 240) * 262144 + (b1.toNat - 128) * 4096 + (b2.toNat - 128) * 64 + (b3.toNat - 128)) &&
        decide ((b0.toNat - 240) * 262144 + (b1.toNat - 128) * 4096 + (b2.toNat - 128) * 64 + (b3.toNat - 128) < 1114112)) = true := hc
    have : utf8Dec (b0 :: b1 :: b2 :: b3 :: r3) = none := by
      conv => lhs; unfold utf8Dec
      simp only [g1, g2, g3, g4, g5, if_false, if_true, hc']
      simp
    rw [this] at h; cases h
  | case12 b0 rest n0 h1 h2 h3 h4 h5 hr =>
    intro s h
    have g1 : ¬ b0.toNat < 128 := h1
    have g2 : ¬ b0.toNat < 194 := h2
    have g3 : ¬ b0.toNat < 224 := h3
    have g4 : ¬ b0.toNat < 240 := h4
    have g5 : b0.toNat < 245 := h5
    have : utf8Dec (b0 :: rest) = none := by
      conv => lhs; unfold utf8Dec
      match rest, hr with
      | [], _ => simp [g1, g2, g3, g4, g5]
      | [b1], _ => simp [g1, g2, g3, g4, g5]
      | [b1, b2], _ => simp [g1, g2, g3, g4, g5]
      | b1 :: b2 :: b3 :: r3, hr => exact absurd rfl (fun e => hr b1 b2 b3 r3 e)
    rw [this] at h; cases h
  | case13 b0 rest n0 h1 h2 h3 h4 h5 =>
    intro s h
    have g1 : ¬ b0.toNat < 128 := h1
    have g2 : ¬ b0.toNat < 194 := h2
    have g3 : ¬ b0.toNat < 224 := h3
    have g4 : ¬ b0.toNat < 240 := h4
    have g5 : ¬ b0.toNat < 245 := h5
    have : utf8Dec (b0 :: rest) = none := by
      conv => lhs; unfold utf8Dec
      simp [g1, g2, g3, g4, g5]
    rw [this] at h; cases h

/-! ### UTF-32-LE -/

theorem utf32_char (c : Char) (rest : Bytes) :
    utf32Dec (utf32EncChar c ++ rest) = consO c.toNat (utf32Dec rest) := by
  have hb := char_bounds c
  unfold utf32EncChar
  simp only [List.cons_append, List.nil_append]
  rw [utf32Dec]
  have t0 : (b8 (c.toNat % 256)).toNat = c.toNat % 256 := b8_toNat _ (by omega)
  have t1 : (b8 (c.toNat / 256 % 256)).toNat = c.toNat / 256 % 256 := b8_toNat _ (by omega)
  have t2 : (b8 (c.toNat / 65536)).toNat = c.toNat / 65536 := b8_toNat _ (by omega)
  have t3 : (0 : UInt8).toNat = 0 := rfl
  have ev : c.toNat % 256 + c.toNat / 256 % 256 * 256 + c.toNat / 65536 * 65536 + 0 * 16777216 = c.toNat := by
    omega
  simp only [t0, t1, t2, t3, ev]
  have hs : scalar c.toNat = true := by simp [scalar]; omega
  simp [hs]

theorem utf32Dec_enc (s : Str) : utf32Dec (utf32Enc s) = some s := by
  induction s with
  | nil => simp [utf32Enc, utf32Dec]
  | cons c cs ih => rw [utf32Enc, utf32_char, ih, consO_char]

theorem utf32Enc_append (s t : Str) : utf32Enc (s ++ t) = utf32Enc s ++ utf32Enc t := by
  induction s with
  | nil => simp [utf32Enc]
  | cons c cs ih => simp [utf32Enc, ih]

/-! ### UTF-16-LE -/

theorem le16_toNat (u : Nat) (h : u < 65536) :
    (b8 (u % 256)).toNat + (b8 (u / 256)).toNat * 256 = u := by
  rw [b8_toNat _ (by omega), b8_toNat _ (by omega)]; omega

theorem utf16_dec_bmp (b0 b1 : UInt8) (rest : Bytes)
    (h : b0.toNat + b1.toNat * 256 < 0xD800 ∨ 0xE000 ≤ b0.toNat + b1.toNat * 256) :
    utf16Dec (b0 :: b1 :: rest) = consO (b0.toNat + b1.toNat * 256) (utf16Dec rest) := by
  conv => lhs; unfold utf16Dec
  have : (decide (b0.toNat + b1.toNat * 256 < 0xD800) || decide (0xE000 ≤ b0.toNat + b1.toNat * 256)) = true := by
    rcases h with h | h <;> simp [h]
  simp only [this, if_true]

theorem utf16_dec_pair (b0 b1 b2 b3 : UInt8) (rest : Bytes)
    (h0 : 0xD800 ≤ b0.toNat + b1.toNat * 256) (h0' : b0.toNat + b1.toNat * 256 < 0xDC00)
    (h1 : 0xDC00 ≤ b2.toNat + b3.toNat * 256) (h1' : b2.toNat + b3.toNat * 256 < 0xE000) :
    utf16Dec (b0 :: b1 :: b2 :: b3 :: rest) =
      consO (0x10000 + (b0.toNat + b1.toNat * 256 - 0xD800) * 1024 + (b2.toNat + b3.toNat * 256 - 0xDC00))
        (utf16Dec rest) := by
  rw [utf16Dec]
  have e1 : ¬ (b0.toNat + b1.toNat * 256 < 0xD800) := by omega
  have e2 : ¬ (0xE000 ≤ b0.toNat + b1.toNat * 256) := by omega
  simp [e1, e2, h0', h1, h1']

theorem utf16_char (c : Char) (rest : Bytes) :
    utf16Dec (utf16EncChar c ++ rest) = consO c.toNat (utf16Dec rest) := by
  have hb := char_bounds c
  unfold utf16EncChar
  simp only []
  split
  · rename_i h1
    simp only [le16, List.cons_append, List.nil_append]
    have e := le16_toNat c.toNat (by omega)
    rw [utf16_dec_bmp _ _ _ (by rw [e]; omega), e]
  · rename_i h1
    simp only [le16, List.cons_append, List.nil_append, List.append_assoc]
    have eh := le16_toNat (0xD800 + (c.toNat - 0x10000) / 1024) (by omega)
    have el := le16_toNat (0xDC00 + (c.toNat - 0x10000) % 1024) (by omega)
    rw [utf16_dec_pair _ _ _ _ _ (by rw [eh]; omega) (by rw [eh]; omega) (by rw [el]; omega) (by rw [el]; omega),
      eh, el]
    have ev : 0x10000 + (0xD800 + (c.toNat - 0x10000) / 1024 - 0xD800) * 1024 +
        (0xDC00 + (c.toNat - 0x10000) % 1024 - 0xDC00) = c.toNat := by omega
    rw [ev]

theorem utf16Dec_enc (s : Str) : utf16Dec (utf16Enc s) = some s := by
  induction s with
  | nil => simp [utf16Enc, utf16Dec]
  | cons c cs ih => rw [utf16Enc, utf16_char, ih, consO_char]

theorem utf16Enc_append (s t : Str) : utf16Enc (s ++ t) = utf16Enc s ++ utf16Enc t := by
  induction s with
  | nil => simp [utf16Enc]
  | cons c cs ih => simp [utf16Enc, ih]

/-! ### single-byte codecs, strict -/

theorem byteDec_enc (lim : Nat) (hl : lim ≤ 256) (s : Str) (b : Bytes)
    (h : byteEnc lim .strict s = some b) : byteDec lim .strict b = some s := by
  induction s generalizing b with
  | nil => simp [byteEnc] at h; subst h; simp [byteDec]
  | cons c cs ih =>
    simp only [byteEnc] at h
    split at h
    · cases h
    · rename_i r hr
      split at h
      · rename_i hc
        injection h with h; subst h
        simp only [byteDec, ih r hr]
        rw [b8_toNat _ (by omega)]
        simp [hc, Char.ofNat_toNat]
      · cases h

theorem byteEnc_append (lim : Nat) (em : ErrMode) (s t : Str) (a b : Bytes)
    (hs : byteEnc lim em s = some a) (ht : byteEnc lim em t = some b) :
    byteEnc lim em (s ++ t) = some (a ++ b) := by
  induction s generalizing a with
  | nil => simp [byteEnc] at hs; subst hs; simpa using ht
  | cons c cs ih =>
    simp only [byteEnc, List.cons_append] at hs ⊢
    split at hs
    · cases hs
    · rename_i r hr
      rw [ih r hr]
      simp only
      split
      · rename_i hc; simp only [hc, if_true] at hs; injection hs with hs; subst hs; rfl
      · rename_i hc
        simp only [hc, if_false] at hs
        cases em <;> simp_all <;> (subst hs; rfl)

/-! ## the line splitter -/

theorem firstLine_append (t : Str → Nat) (s : Str) : (firstLine t s).1 ++ (firstLine t s).2 = s := by
  induction s with
  | nil => simp [firstLine]
  | cons c cs ih =>
    simp only [firstLine]
    split
    · simp [ih]
    · exact List.take_append_drop _ _

theorem firstLine_ne_nil (t : Str → Nat) (s : Str) (h : s ≠ []) : (firstLine t s).1 ≠ [] := by
  cases s with
  | nil => exact absurd rfl h
  | cons c cs =>
    simp only [firstLine]
    split
    · simp
    · rename_i hk
      cases hk' : t (c :: cs) with
      | zero => exact absurd hk' hk
      | succ k => simp

theorem firstLine_rest_length (t : Str → Nat) (s : Str) (h : s ≠ []) :
    (firstLine t s).2.length < s.length := by
  have h1 := congrArg List.length (firstLine_append t s)
  have h2 := firstLine_ne_nil t s h
  have h3 : 0 < (firstLine t s).1.length := List.length_pos_iff.mpr h2
  simp only [List.length_append] at h1
  omega

/-- the first line ends at the first offset where a terminator is recognised; without one it is
everything -/
theorem firstLine_spec (t : Str → Nat) (s : Str) :
    (∃ p, p < s.length ∧ t (s.drop p) ≠ 0 ∧ (∀ k, k < p → t (s.drop k) = 0) ∧
      (firstLine t s).1 = s.take p ++ (s.drop p).take (t (s.drop p)) ∧
      (firstLine t s).2 = (s.drop p).drop (t (s.drop p))) ∨
    ((∀ k, k < s.length → t (s.drop k) = 0) ∧ (firstLine t s).1 = s ∧ (firstLine t s).2 = []) := by
  induction s with
  | nil => right; simp [firstLine]
  | cons c cs ih =>
    by_cases hk : t (c :: cs) = 0
    · have e1 : (firstLine t (c :: cs)).1 = c :: (firstLine t cs).1 := by simp [firstLine, hk]
      have e2 : (firstLine t (c :: cs)).2 = (firstLine t cs).2 := by simp [firstLine, hk]
      rcases ih with ⟨p, hp, ht, hmin, hl, hr⟩ | ⟨hnone, hl, hr⟩
      · left
        refine ⟨p + 1, by simp; omega, by simpa using ht, ?_, ?_, ?_⟩
        · intro k hkp
          cases k with
          | zero => simpa using hk
          | succ k => simpa using hmin k (by omega)
        · rw [e1, hl]; simp
        · rw [e2, hr]; simp
      · right
        refine ⟨?_, by rw [e1, hl], by rw [e2, hr]⟩
        intro k hkl
        cases k with
        | zero => simpa using hk
        | succ k => simpa using hnone k (by simpa using hkl)
    · left
      refine ⟨0, by simp, by simpa using hk, by intro k hk0; omega, ?_, ?_⟩
      · simp [firstLine, hk]
      · simp [firstLine, hk]

theorem linesFuel_nil (t : Str → Nat) (fuel : Nat) : linesFuel t fuel [] = [] := by
  cases fuel <;> simp [linesFuel]

theorem linesFuel_flatten (t : Str → Nat) (fuel : Nat) (s : Str) (h : s.length ≤ fuel) :
    (linesFuel t fuel s).flatten = s := by
  induction fuel generalizing s with
  | zero =>
    have : s = [] := List.eq_nil_of_length_eq_zero (by omega)
    subst this; simp [linesFuel]
  | succ f ih =>
    cases s with
    | nil => simp [linesFuel]
    | cons c cs =>
      have hne : (c :: cs) ≠ [] := by simp
      have hl := firstLine_rest_length t (c :: cs) hne
      simp only [linesFuel, List.isEmpty_cons, Bool.false_eq_true, if_false, List.flatten_cons]
      rw [ih _ (by simp at h hl ⊢; omega)]
      exact firstLine_append t (c :: cs)

theorem linesFuel_ne_nil (t : Str → Nat) (fuel : Nat) (s : Str) :
    ∀ l ∈ linesFuel t fuel s, l ≠ [] := by
  induction fuel generalizing s with
  | zero => simp [linesFuel]
  | succ f ih =>
    cases s with
    | nil => simp [linesFuel]
    | cons c cs =>
      simp only [linesFuel, List.isEmpty_cons, Bool.false_eq_true, if_false, List.mem_cons]
      intro l hl
      rcases hl with rfl | hl
      · exact firstLine_ne_nil t _ (by simp)
      · exact ih _ l hl

/-- every line that is followed by another one satisfies `P`, when `P` holds of every first line
that leaves something behind -/
theorem linesFuel_dropLast (t : Str → Nat) (P : Str → Prop)
    (hP : ∀ s, (firstLine t s).2 ≠ [] → P (firstLine t s).1) (fuel : Nat) (s : Str) :
    ∀ l ∈ (linesFuel t fuel s).dropLast, P l := by
  induction fuel generalizing s with
  | zero => simp [linesFuel]
  | succ f ih =>
    cases s with
    | nil => simp [linesFuel]
    | cons c cs =>
      simp only [linesFuel, List.isEmpty_cons, Bool.false_eq_true, if_false]
      intro l hl
      cases hrest : linesFuel t f (firstLine t (c :: cs)).2 with
      | nil => rw [hrest] at hl; simp at hl
      | cons l2 ls =>
        rw [hrest, List.dropLast_cons_cons] at hl
        rcases List.mem_cons.mp hl with rfl | hl
        · apply hP
          intro he
          rw [he, linesFuel_nil] at hrest
          cases hrest
        · have := ih (firstLine t (c :: cs)).2 l
          rw [hrest] at this
          exact this hl

theorem endsWith_prepend (nl : Newline) (p l : Str) (h : EndsWith nl l) : EndsWith nl (p ++ l) := by
  cases nl <;> simp only [EndsWith] at h ⊢
  · obtain ⟨q, rfl⟩ := h; exact ⟨p ++ q, by simp⟩
  · obtain ⟨q, hq⟩ := h
    rcases hq with rfl | rfl
    · exact ⟨p ++ q, Or.inl (by simp)⟩
    · exact ⟨p ++ q, Or.inr (by simp)⟩
  · obtain ⟨q, rfl⟩ := h; exact ⟨p ++ q, by simp⟩
  · obtain ⟨q, rfl⟩ := h; exact ⟨p ++ q, by simp⟩
  · obtain ⟨q, rfl⟩ := h; exact ⟨p ++ q, by simp⟩

/-- the characters `termLen` recognises are a terminator of the setting -/
theorem termLen_take (nl : Newline) (s : Str) (h : termLen nl s ≠ 0) :
    EndsWith nl (s.take (termLen nl s)) := by
  cases nl <;> simp only [termLen] at h ⊢
  · -- none
    cases s with
    | nil => simp at h
    | cons c cs =>
      simp only at h ⊢
      by_cases hc : c = '\n'
      · subst hc; exact ⟨[], by simp⟩
      · simp [hc] at h
  · -- empty
    cases s with
    | nil => simp at h
    | cons c cs =>
      simp only at h ⊢
      by_cases hc : c = '\n'
      · subst hc; exact ⟨[], Or.inl (by simp)⟩
      · by_cases hr : c = '\r'
        · subst hr
          cases cs with
          | nil => exact ⟨[], Or.inr (by simp)⟩
          | cons d ds =>
            by_cases hd : d = '\n'
            · subst hd; exact ⟨['\r'], Or.inl (by simp)⟩
            · exact ⟨[], Or.inr (by simp [hd])⟩
        · simp [hc, hr] at h
  · -- lf
    cases s with
    | nil => simp at h
    | cons c cs =>
      simp only at h ⊢
      by_cases hc : c = '\n'
      · subst hc; exact ⟨[], by simp⟩
      · simp [hc] at h
  · -- cr
    cases s with
    | nil => simp at h
    | cons c cs =>
      simp only at h ⊢
      by_cases hc : c = '\r'
      · subst hc; exact ⟨[], by simp⟩
      · simp [hc] at h
  · -- crlf
    match s, h with
    | [], h => simp at h
    | [c], h => simp at h
    | c :: d :: ds, h =>
      simp only at h ⊢
      by_cases hc : (c = '\r' ∧ d = '\n')
      · obtain ⟨rfl, rfl⟩ := hc; exact ⟨[], by simp⟩
      · have : (decide (c = '\r') && decide (d = '\n')) = false := by
          simp only [Bool.and_eq_false_imp, decide_eq_true_eq, decide_eq_false_iff_not]
          intro h1 h2; exact hc ⟨h1, h2⟩
        simp [this] at h

/-- a first line that leaves something behind ends with a terminator -/
theorem firstLine_endsWith (nl : Newline) (s : Str) (h : (firstLine (termLen nl) s).2 ≠ []) :
    EndsWith nl (firstLine (termLen nl) s).1 := by
  rcases firstLine_spec (termLen nl) s with ⟨p, hp, ht, hmin, hl, hr⟩ | ⟨hnone, hl, hr⟩
  · rw [hl]
    exact endsWith_prepend nl _ _ (termLen_take nl _ ht)
  · exact absurd hr h

/-! ## newline translation -/

theorem univ_cons_ne (c : Char) (l : Str) (h : c ≠ '\r') : univ (c :: l) = c :: univ l := by
  cases l with
  | nil => simp [univ, h]
  | cons d ds => simp [univ, h]

theorem univ_cr_cons (l : Str) (h : l.head? ≠ some '\n') : univ ('\r' :: l) = '\n' :: univ l := by
  cases l with
  | nil => simp [univ]
  | cons d ds =>
    have hd : d ≠ '\n' := by intro e; apply h; simp [e]
    simp [univ, hd]

theorem univ_noCR (s : Str) (h : '\r' ∉ s) : univ s = s := by
  induction s with
  | nil => simp [univ]
  | cons c cs ih =>
    have hc : c ≠ '\r' := by intro e; apply h; simp [e]
    rw [univ_cons_ne c cs hc, ih (by intro hm; apply h; simp [hm])]

theorem replaceLf_head (r : Str) (hr : r.head? ≠ some '\n') (hrn : r ≠ []) (s : Str) :
    (replaceLf r s).head? ≠ some '\n' := by
  cases s with
  | nil => simp [replaceLf]
  | cons c cs =>
    simp only [replaceLf]
    split
    · cases r with
      | nil => exact absurd rfl hrn
      | cons a as => simpa using hr
    · rename_i hc
      simp only [List.head?_cons, ne_eq, Option.some.injEq]
      exact hc

theorem univ_replace_cr (s : Str) (h : '\r' ∉ s) : univ (replaceLf ['\r'] s) = s := by
  induction s with
  | nil => simp [replaceLf, univ]
  | cons c cs ih =>
    have hc : c ≠ '\r' := by intro e; apply h; simp [e]
    have ih' := ih (by intro hm; apply h; simp [hm])
    simp only [replaceLf]
    split
    · rename_i hcn
      subst hcn
      simp only [List.cons_append, List.nil_append]
      rw [univ_cr_cons _ (replaceLf_head ['\r'] (by decide) (by simp) cs), ih']
    · rw [univ_cons_ne c _ hc, ih']

theorem univ_replace_crlf (s : Str) (h : '\r' ∉ s) : univ (replaceLf ['\r', '\n'] s) = s := by
  induction s with
  | nil => simp [replaceLf, univ]
  | cons c cs ih =>
    have hc : c ≠ '\r' := by intro e; apply h; simp [e]
    have ih' := ih (by intro hm; apply h; simp [hm])
    simp only [replaceLf]
    split
    · rename_i hcn
      subst hcn
      simp only [List.cons_append, List.nil_append]
      simp [univ, ih']
    · rw [univ_cons_ne c _ hc, ih']

/-! ## mode strings -/

theorem filter_t_contains (m : Str) (c : Char) (hc : c ≠ 't') :
    (m.filter fun x => x != 't').contains c = m.contains c := by
  rw [Bool.eq_iff_iff]
  simp only [List.contains_eq_mem, List.mem_filter, bne_iff_ne, ne_eq, decide_eq_true_eq]
  constructor
  · intro h; exact h.1
  · intro h; exact ⟨h, hc⟩

/-- what `Mode.validate` guarantees about the membership flags: exactly one of `r w x a`, not both
`t` and `b`; and `io.open` accepts the string too -/
theorem validate_facts (m : Str) (h : Mode.validate m = .ok ()) :
    PyMode.b2n (m.contains 'x') + PyMode.b2n (m.contains 'r') + PyMode.b2n (m.contains 'w') +
      PyMode.b2n (m.contains 'a') = 1 ∧
    (m.contains 't' && m.contains 'b') = false ∧
    (PyMode.ioOpenRawMode m).isSome = true := by
  unfold Mode.validate at h
  split at h
  · cases h
  · rename_i c0 rest
    split at h
    · cases h
    · rename_i hall
      split at h
      · cases h
      · split at h
        · cases h
        · rename_i htb
          split at h
          · cases h
          · rename_i hdup
            split at h
            · cases h
            · rename_i hone
              have hall' : ((c0 :: rest).all fun c => ['a', 'x', 'r', 'w', 'b', '+', 't'].contains c) = true := by
                simp only [Bool.not_eq_true, Bool.not_eq_false'] at hall
                rw [List.all_eq_true] at hall ⊢
                intro c hc
                have := hall c hc
                simp only [Mode.validChars, List.contains_eq_mem, List.mem_cons, List.not_mem_nil, or_false,
                  decide_eq_true_eq] at this ⊢
                rcases this with h | h | h | h | h | h | h <;> simp [h]
              have hdup' : ¬ ((c0 :: rest).eraseDups.length < (c0 :: rest).length) := by
                simp only [bne_iff_ne, ne_eq, Decidable.not_not] at hdup
                omega
              unfold PyMode.ioOpenRawMode
              simp only [hall', Bool.not_true, Bool.false_eq_true, if_false, hdup', decide_false]
              simp only [Mode.has] at htb hone
              simp only [Mode.firstChars, List.filter] at hone
              generalize (c0 :: rest).contains 'x' = bx at hone htb ⊢
              generalize (c0 :: rest).contains 'r' = br at hone htb ⊢
              generalize (c0 :: rest).contains 'w' = bw at hone htb ⊢
              generalize (c0 :: rest).contains 'a' = ba at hone htb ⊢
              generalize (c0 :: rest).contains '+' = bp at hone htb ⊢
              generalize (c0 :: rest).contains 't' = bt at hone htb ⊢
              generalize (c0 :: rest).contains 'b' = bb at hone htb ⊢
              cases bx <;> cases br <;> cases bw <;> cases ba <;> simp at hone <;>
                cases bt <;> cases bb <;> simp at htb <;> simp [PyMode.b2n]

/-! ## buffering -/

theorem write1_closed (fl : Flags) (s : IoState) (d : Bytes) : (IoRef.write1 fl s d).closed = s.closed := by
  unfold IoRef.write1; split <;> rfl

theorem foldl_write1_closed (fl : Flags) (ds : List Bytes) (s : IoState) :
    (ds.foldl (IoRef.write1 fl) s).closed = s.closed := by
  induction ds generalizing s with
  | nil => rfl
  | cons d ds ih => simp [List.foldl_cons, ih, write1_closed]

theorem step_write (fl : Flags) (s : IoState) (d : Bytes) :
    IoRef.step fl s (.write d) =
      if s.closed then (s, .err .closed)
      else if !fl.writing then (s, .err .notPermitted)
      else (IoRef.write1 fl s d, .nat d.length) := by
  simp only [IoRef.step, IoRef.isReadline0, Bool.false_eq_true, if_false]
  split
  · rfl
  · simp [IoRef.stepOpen]

end Fs.TextLemmas
