/-
  The fs/base.py defaults as programs over the methods a composite filesystem defines
  (`Route.Prog`, FsModel/RouteBase.lean), run over ANY primitive semantics that refines the reference
  (`PrimSem`): each program then refines the reference's compound operation.  Instantiated with the
  MountFS primitives (`MountLemmas.prim_spec`) in FsProofs/MountRefines.lean.
-/
import FsProofs.Lemmas.MountPrims

namespace Fs.BaseProgs
open Fs Fs.Path Fs.PathSpec Fs.PathLemmas Fs.Ref Fs.Route Fs.MountLemmas Fs.WrapLemmas Fs.TreeLemmas

/-- a filesystem given by the methods it defines (`sem`), read through `abs` on the states of `inv`:
every method refines its reference meaning, `validatepath` is the reference's `validate` -/
structure PrimSem {σ : Type} (sem : Sem σ) (abs : σ → State) (inv : σ → Prop) (fix : σ → List (List Name)) : Prop where
  std : ∀ s, inv s → sem.closed s = false ∧ (abs s).closed = false ∧ (abs s).root.wf = true ∧ (abs s).root.isDir = true
  prim : ∀ s pr, inv s → usedPrim pr = true → ¬ hitsFixture (fix s) (primOp pr) →
    inv (sem.prim s pr).1 ∧ fix (sem.prim s pr).1 = fix s ∧
    abs (sem.prim s pr).1 = (Ref.step (abs s) (primOp pr)).1 ∧
    OutRel (abs s) (primOp pr) (sem.prim s pr).2.1 (Ref.step (abs s) (primOp pr)).2
  validate : ∀ s p, inv s →
    (sem.validate s p).1 = (match validate p with | .ok _ => .ok () | .err e => .err e)

section
variable {σ : Type} {sem : Sem σ} {abs : σ → State} {inv : σ → Prop} {fix : σ → List (List Name)}

/-- a run refines the reference's `op` from state `s` -/
def ProgOk (abs : σ → State) (inv : σ → Prop) (fix : σ → List (List Name)) (op : Op) (s : σ)
    (st : σ) (o : Out) : Prop :=
  inv st ∧ fix st = fix s ∧ abs st = (Ref.step (abs s) op).1 ∧ OutRel (abs s) op o (Ref.step (abs s) op).2

/-- `self.validatepath(p)` in front of a program -/
theorem run_validate (sem : Sem σ) (p : Str) (k : Prog) (s : σ) :
    (∀ e, (sem.validate s p).1 = .err e →
      ((Prog.validate p k).run sem s).1 = s ∧ ((Prog.validate p k).run sem s).2.1 = .err e) ∧
    ((sem.validate s p).1 = .ok () →
      ((Prog.validate p k).run sem s).1 = (k.run sem s).1 ∧
      ((Prog.validate p k).run sem s).2.1 = (k.run sem s).2.1) := by
  simp only [Prog.run]
  generalize sem.validate s p = vr
  obtain ⟨v1, v2⟩ := vr
  cases v1 with
  | ok u => simp
  | err e => simp

theorem run_one (pr : Prim) (s : σ) :
    ((one pr).run sem s).1 = (sem.prim s pr).1 ∧ ((one pr).run sem s).2.1 = (sem.prim s pr).2.1 := by
  simp [one, Prog.run]

/-- a program that is one method call -/
theorem one_ok (H : PrimSem sem abs inv fix) (pr : Prim) (s : σ) (hs : inv s) (hu : usedPrim pr = true)
    (hfix : ¬ hitsFixture (fix s) (primOp pr)) :
    ProgOk abs inv fix (primOp pr) s ((one pr).run sem s).1 ((one pr).run sem s).2.1 := by
  obtain ⟨h1, h2⟩ := run_one (sem := sem) pr s
  obtain ⟨a, b, c, d⟩ := H.prim s pr hs hu hfix
  exact ⟨by rw [h1]; exact a, by rw [h1]; exact b, by rw [h1]; exact c, by rw [h2]; exact d⟩

/-! ### `getinfo` as the existence test of `FS.exists` -/

/-- a query leaves the reference state alone -/
theorem getinfo_state (s : State) (p : Str) : (Ref.step s (.getinfo p)).1 = s :=
  RouteLemmas.step_query_state s (.getinfo p) rfl

/-- `getinfo` through the primitives answers EXACTLY what the reference answers (error class included) -/
theorem getinfo_exact (H : PrimSem sem abs inv fix) (s : σ) (hs : inv s) (p : Str) :
    inv (sem.prim s (.getinfo p)).1 ∧ fix (sem.prim s (.getinfo p)).1 = fix s ∧
    abs (sem.prim s (.getinfo p)).1 = abs s ∧
    (sem.prim s (.getinfo p)).2.1 = (Ref.step (abs s) (.getinfo p)).2 := by
  obtain ⟨a, b, c, d⟩ := H.prim s (.getinfo p) hs rfl (by simp [hitsFixture, primOp, Prim.memberOp])
  simp only [primOp, Prim.memberOp, Prim.path] at c d
  refine ⟨a, b, by rw [c, getinfo_state], ?_⟩
  cases h : (Ref.step (abs s) (.getinfo p)).2 with
  | ok v => exact d.1 (by rw [h]; rfl) |>.trans h
  | err e =>
    obtain ⟨e2, g1, _, g3⟩ := d.2 e h
    rw [g1, g3 trivial]

/-- what `exists` answers on an open reference state -/
def refExists (s : State) (p : Str) : Res Bool :=
  match validate p with
  | .err e => .err e
  | .ok cs => .ok (s.root.get cs).isSome

theorem getinfo_out_of_refExists {s : State} (hc : s.closed = false) (p : Str) :
    (∀ e, refExists s p = .err e → (Ref.step s (.getinfo p)).2 = .err e ∧ e ≠ .ResourceNotFound) ∧
    (refExists s p = .ok true → ∃ v, (Ref.step s (.getinfo p)).2 = .ok v) ∧
    (refExists s p = .ok false → (Ref.step s (.getinfo p)).2 = .err .ResourceNotFound) := by
  unfold refExists
  cases hv : validate p with
  | err e =>
    refine ⟨?_, by simp, by simp⟩
    intro e' he'
    simp only [Res.err.injEq] at he'
    subst he'
    rw [QueryLemmas.step_one s _ p hc rfl (by simp), hv]
    refine ⟨rfl, ?_⟩
    rcases QueryLemmas.validate_err_cases p e hv with h | h <;> rw [h] <;> simp
  | ok cs =>
    refine ⟨by simp, ?_, ?_⟩
    · intro h
      simp only [Res.ok.injEq] at h
      rw [step_of_validate hc rfl hv]
      simp only [step1]
      cases hg : s.root.get cs with
      | none => simp [hg] at h
      | some n => cases n <;> exact ⟨_, rfl⟩
    · intro h
      simp only [Res.ok.injEq] at h
      rw [step_of_validate hc rfl hv]
      simp only [step1]
      cases hg : s.root.get cs with
      | none => rfl
      | some n => simp [hg] at h

/-- **`FS.exists`-then**: the run of `existsThen p k` is the run of `k` on the reference's answer, from a
state that reads the same; a validation error ends the program with that error -/
theorem existsThen_run (H : PrimSem sem abs inv fix) (s : σ) (hs : inv s) (p : Str)
    (k : Bool → Prog) :
    ∃ s', inv s' ∧ fix s' = fix s ∧ abs s' = abs s ∧
      (∀ e, refExists (abs s) p = .err e →
        ((existsThen p k).run sem s).1 = s' ∧ ((existsThen p k).run sem s).2.1 = .err e) ∧
      (∀ b, refExists (abs s) p = .ok b →
        ((existsThen p k).run sem s).1 = ((k b).run sem s').1 ∧
        ((existsThen p k).run sem s).2.1 = ((k b).run sem s').2.1) := by
  obtain ⟨a, b, c, d⟩ := getinfo_exact H s hs p
  obtain ⟨_, hc, _, _⟩ := H.std s hs
  obtain ⟨g1, g2, g3⟩ := getinfo_out_of_refExists hc p
  refine ⟨(sem.prim s (.getinfo p)).1, a, b, c, ?_, ?_⟩
  · intro e he
    obtain ⟨h1, h2⟩ := g1 e he
    simp only [existsThen, Prog.run, d, h1]
    cases e <;> first | exact absurd rfl h2 | simp
  · intro bb hb
    cases bb with
    | true =>
      obtain ⟨v, hv⟩ := g2 hb
      simp [existsThen, Prog.run, d, hv]
    | false =>
      have hv := g3 hb
      simp [existsThen, Prog.run, d, hv]

/-! ### composing runs (goal-directed forms: the continuation is found by unification) -/

theorem run_call (sem : Sem σ) (pr : Prim) (k : Out → Prog) (s : σ) :
    ((Prog.call pr k).run sem s).1 = ((k (sem.prim s pr).2.1).run sem (sem.prim s pr).1).1 ∧
    ((Prog.call pr k).run sem s).2.1 = ((k (sem.prim s pr).2.1).run sem (sem.prim s pr).1).2.1 := by
  simp [Prog.run]

theorem run_ret (sem : Sem σ) (o : Out) (s : σ) : ((Prog.ret o).run sem s).1 = s ∧ ((Prog.ret o).run sem s).2.1 = o := by
  simp [Prog.run]

/-- `validatepath(p)` in front of `k`: an invalid path ends the program with its error, from `s` -/
theorem progOk_validate (H : PrimSem sem abs inv fix) (s : σ) (hs : inv s) (p : Str)
    (k : Prog) (op : Op)
    (herr : ∀ e, validate p = .err e → ProgOk abs inv fix op s s (.err e))
    (hok : ∀ cs, validate p = .ok cs → ProgOk abs inv fix op s (k.run sem s).1 (k.run sem s).2.1) :
    ProgOk abs inv fix op s ((Prog.validate p k).run sem s).1 ((Prog.validate p k).run sem s).2.1 := by
  obtain ⟨v1, v2⟩ := run_validate sem p k s
  have hv := H.validate s p hs
  cases h : validate p with
  | err e =>
    rw [h] at hv
    obtain ⟨x1, x2⟩ := v1 e hv
    rw [x1, x2]; exact herr e h
  | ok cs =>
    rw [h] at hv
    obtain ⟨x1, x2⟩ := v2 hv
    rw [x1, x2]; exact hok cs h

/-- `if self.exists(p)` in front of `k`: the reference's answer, from a state that reads the same -/
theorem progOk_existsThen (H : PrimSem sem abs inv fix) (s s0 : σ) (hs : inv s) (p : Str)
    (k : Bool → Prog) (op : Op)
    (herr : ∀ e s', inv s' → fix s' = fix s → abs s' = abs s → refExists (abs s) p = .err e →
      ProgOk abs inv fix op s0 s' (.err e))
    (hok : ∀ b s', inv s' → fix s' = fix s → abs s' = abs s → refExists (abs s) p = .ok b →
      ProgOk abs inv fix op s0 ((k b).run sem s').1 ((k b).run sem s').2.1) :
    ProgOk abs inv fix op s0 ((existsThen p k).run sem s).1 ((existsThen p k).run sem s).2.1 := by
  obtain ⟨s', i1, i2, i3, he, hb⟩ := existsThen_run H s hs p k
  cases h : refExists (abs s) p with
  | err e =>
    obtain ⟨x1, x2⟩ := he e h
    rw [x1, x2]; exact herr e s' i1 i2 i3 h
  | ok b =>
    obtain ⟨x1, x2⟩ := hb b h
    rw [x1, x2]; exact hok b s' i1 i2 i3 h

/-- a failing outcome with an admissible class and an unchanged reading refines a failing reference step -/
theorem progOk_fail {op : Op} {s st : σ} {e e' : Err} (hi : inv st) (hf : fix st = fix s) (ha : abs st = abs s)
    (hstep : Ref.step (abs s) op = fail (abs s) e') (hadm : e ∈ adm (abs s) op) (hex : ¬ exactOp op) :
    ProgOk abs inv fix op s st (.err e) := by
  refine ⟨hi, hf, by rw [ha, hstep]; rfl, ?_⟩
  rw [hstep]
  refine ⟨fun h => by simp [fail, Res.isOk] at h, ?_⟩
  intro e'' _
  exact ⟨e, rfl, hadm, fun h => absurd h hex⟩

/-- `abspath(normpath(p))` of a path that validates: the absolute spelling of its components -/
theorem absnorm_of_validate {p : Str} {cs : List Name} (h : validate p = .ok cs) : absnorm p = mkp true cs := by
  have hc : Clean cs := clean_of_cleanName (validate_clean p cs h)
  simp only [absnorm, normpath_of_validate h, abspath_mkp hc]

theorem validate_absnorm {p : Str} {cs : List Name} (h : validate p = .ok cs) : validate (absnorm p) = .ok cs := by
  rw [absnorm_of_validate h]; exact validate_mkp true (validate_clean p cs h)

theorem noNul_absnorm {p : Str} {cs : List Name} (h : validate p = .ok cs) : '\x00' ∉ absnorm p := by
  rw [absnorm_of_validate h]; exact noNul_mkp true (validate_clean p cs h)

theorem absnorm_eq_iff {p q : Str} {a b : List Name} (hp : validate p = .ok a) (hq : validate q = .ok b) :
    absnorm p = absnorm q ↔ a = b := by
  rw [absnorm_of_validate hp, absnorm_of_validate hq]
  constructor
  · exact mkp_inj (clean_of_cleanName (validate_clean p a hp)) (clean_of_cleanName (validate_clean q b hq))
  · intro h; rw [h]

/-- **`FS.exists`** over refining primitives refines the reference's `exists` -/
theorem exists_ok (H : PrimSem sem abs inv fix) (s : σ) (hs : inv s) (p : Str) :
    ProgOk abs inv fix (.exists_ p) s ((baseExists p).run sem s).1 ((baseExists p).run sem s).2.1 := by
  obtain ⟨_, hc, _, _⟩ := H.std s hs
  obtain ⟨s', i1, i2, i3, he, hb⟩ := existsThen_run H s hs p (fun b => .ret (.ok (.bool b)))
  simp only [baseExists]
  cases hv : validate p with
  | err e =>
    obtain ⟨h1, h2⟩ := he e (by simp [refExists, hv])
    have hstep : Ref.step (abs s) (.exists_ p) = fail (abs s) e := by
      rw [QueryLemmas.step_one _ _ p hc rfl (by simp), hv]
    refine ⟨by rw [h1]; exact i1, by rw [h1]; exact i2, by rw [h1, i3, hstep]; rfl, ?_⟩
    rw [h2, hstep]
    refine ⟨fun h => by simp [fail, Res.isOk] at h, ?_⟩
    intro e' he'
    simp only [fail, Res.err.injEq] at he'
    subst he'
    refine ⟨_, rfl, ?_, fun h => by simp [exactOp] at h⟩
    rw [QueryLemmas.adm_one _ _ p hc rfl (by simp), hv]; simp
  | ok cs =>
    obtain ⟨h1, h2⟩ := hb ((abs s).root.get cs).isSome (by simp [refExists, hv])
    simp only [Prog.run] at h1 h2
    have hstep : Ref.step (abs s) (.exists_ p) = done (abs s) (.bool ((abs s).root.get cs).isSome) := by
      rw [step_of_validate hc rfl hv]; rfl
    refine ⟨by rw [h1]; exact i1, by rw [h1]; exact i2, by rw [h1, i3, hstep]; rfl, ?_⟩
    rw [h2, hstep]
    exact ⟨fun _ => rfl, fun e' he' => by simp [done] at he'⟩

/-! ### `FS.copy` -/

theorem step_two_of_validate {s : State} {op : Op} {p q : Str} {a b : List Name} (hc : s.closed = false)
    (hp : op.paths = [p, q]) (hv1 : validate p = .ok a) (hv2 : validate q = .ok b) :
    Ref.step s op = step2 s a b op ∧ adm s op = adm2 s.root a b op := by
  rw [QueryLemmas.step_two s op p q hc hp, QueryLemmas.adm_two s op p q hc hp, hv1, hv2]
  exact ⟨rfl, rfl⟩

/-- reading the source of a copy: what `readbytes` on the normalised spelling says -/
theorem readbytes_eq {s : State} {p : Str} {a : List Name} (hc : s.closed = false) (hv : validate p = .ok a) :
    Ref.step s (.readbytes p) =
      (match s.root.get a with
       | none => fail s .ResourceNotFound
       | some (.dir _) => fail s .FileExpected
       | some (.file b) => done s (.bytes b)) ∧
    adm s (.readbytes p) = admFileArg s.root a := by
  rw [step_of_validate hc rfl hv, adm_of_validate hc rfl hv]
  exact ⟨rfl, rfl⟩

theorem writebytes_eq {s : State} {p : Str} {b : List Name} (data : Bytes) (hc : s.closed = false)
    (hv : validate p = .ok b) :
    Ref.step s (.writebytes p data) = writeFile s b (fun _ => data) ∧
    adm s (.writebytes p data) = admFileTarget s.root b := by
  rw [step_of_validate hc rfl hv, adm_of_validate hc rfl hv]
  exact ⟨rfl, rfl⟩

/-- the tail of the reference's `copy` once the source is known to be the file `data`: exactly
`writebytes` of that content at the destination -/
theorem copy_tail_eq (s : State) (b : List Name) (data : Bytes) :
    (if b = [] then fail s .FileExpected
     else match s.root.get (parentOf b) with
       | none => fail s .ResourceNotFound
       | some (.file _) => fail s .ResourceNotFound
       | some (.dir _) =>
         match s.root.get b with
         | some (.dir _) => fail s .FileExpected
         | _ => upd s (s.root.set b (.file data))) = writeFile s b (fun _ => data) := by
  simp only [writeFile]
  by_cases hb : b = []
  · simp [hb]
  · simp only [hb, if_false]
    cases s.root.get (parentOf b) with
    | none => rfl
    | some n =>
      cases n with
      | file _ => rfl
      | dir _ =>
        cases s.root.get b with
        | none => rfl
        | some m => cases m <;> rfl

/-- the body of `FS.copy` after the destination test -/
def copyBody (ns nd : Str) : Prog :=
  if ns = nd then .ret (.err .IllegalDestination)
  else .call (.openRead ns) fun
    | .err e => .ret (.err e)
    | .ok rd => one (.upload nd (bytesOf (.ok rd)))

theorem baseCopy_eq (src dst : Str) (ow : Bool) :
    baseCopy src dst ow = .validate src (.validate dst
      (if ow then copyBody (absnorm src) (absnorm dst)
       else existsThen (absnorm dst) fun b =>
         if b then .ret (.err .DestinationExists) else copyBody (absnorm src) (absnorm dst))) := rfl

theorem kindAt_ne_none {t : Node} {b : List Name} (h : (t.get b).isSome = true) : kindAt t b ≠ none := by
  simp only [kindAt]
  cases hg : t.get b with
  | none => simp [hg] at h
  | some n => cases n <;> simp

/-- **`FS.copy`** over refining primitives (`validatepath` ×2, `exists(dst)`, same-path test,
`open(src, "rb")`, `upload(dst)`) refines the reference's `copy` — whichever filesystems own the two paths -/
theorem copy_ok (H : PrimSem sem abs inv fix) (s : σ) (hs : inv s) (src dst : Str) (ow : Bool)
    :
    ProgOk abs inv fix (.copy src dst ow) s ((baseCopy src dst ow).run sem s).1
      ((baseCopy src dst ow).run sem s).2.1 := by
  obtain ⟨hsc, hc, _, hd⟩ := H.std s hs
  have hop : (Op.copy src dst ow).paths = [src, dst] := rfl
  have hnex : ¬ exactOp (.copy src dst ow) := by simp [exactOp]
  rw [baseCopy_eq]
  refine progOk_validate H s hs src _ _ ?_ ?_
  · intro e hv1
    refine progOk_fail hs rfl rfl (e' := e) ?_ ?_ hnex
    · rw [QueryLemmas.step_two _ _ src dst hc hop, hv1]
    · rw [QueryLemmas.adm_two _ _ src dst hc hop, hv1]; cases validate dst <;> simp
  intro a hv1
  refine progOk_validate H s hs dst _ _ ?_ ?_
  · intro e hv2
    refine progOk_fail hs rfl rfl (e' := e) ?_ ?_ hnex
    · rw [QueryLemmas.step_two _ _ src dst hc hop, hv1, hv2]
    · rw [QueryLemmas.adm_two _ _ src dst hc hop, hv1, hv2]; simp
  intro b hv2
  obtain ⟨hstep, hadm⟩ := step_two_of_validate hc hop hv1 hv2
  have hva := validate_absnorm hv1
  have hvb := validate_absnorm hv2
  have heq : (absnorm src = absnorm dst) ↔ a = b := absnorm_eq_iff hv1 hv2
  -- the body after the DestinationExists test, from any state that reads like `s`
  have body : ∀ s1, inv s1 → fix s1 = fix s → abs s1 = abs s →
      (ow = true ∨ ((abs s).root.get b).isSome = false) →
      ProgOk abs inv fix (.copy src dst ow) s
        ((copyBody (absnorm src) (absnorm dst)).run sem s1).1 ((copyBody (absnorm src) (absnorm dst)).run sem s1).2.1 := by
    intro s1 j1 j2 j3 hex
    have hnd : (!ow && ((abs s).root.get b).isSome) = false := by
      rcases hex with h | h <;> simp [h]
    simp only [copyBody]
    by_cases hab : a = b
    · have : absnorm src = absnorm dst := heq.2 hab
      simp only [this, if_true]
      obtain ⟨x1, x2⟩ := run_ret sem (.err .IllegalDestination) s1
      rw [x1, x2]
      refine progOk_fail j1 j2 j3 (e' := .IllegalDestination) ?_ ?_ hnex
      · rw [hstep]; simp [step2, hnd, hab]
      · rw [hadm]; simp [adm2, hab]
    · have hne : ¬ absnorm src = absnorm dst := fun h => hab (heq.1 h)
      simp only [hne, if_false]
      obtain ⟨c1, c2⟩ := run_call sem (.openRead (absnorm src)) (fun
        | .err e => Prog.ret (.err e)
        | .ok rd => one (.upload (absnorm dst) (bytesOf (.ok rd)))) s1
      rw [c1, c2]
      obtain ⟨k1, k2, k3, k4⟩ := H.prim s1 (.openRead (absnorm src)) j1 rfl
        (by simp [hitsFixture, primOp, Prim.memberOp])
      simp only [primOp, Prim.memberOp, Prim.path] at k3 k4
      rw [j3] at k3 k4
      obtain ⟨r1, r2⟩ := readbytes_eq hc hva
      rw [r1] at k3 k4
      have hsrcfail : ∀ e', (∀ ds, (abs s).root.get a ≠ some (.file ds)) →
          (match (abs s).root.get a with
            | none => fail (abs s) .ResourceNotFound
            | some (.dir _) => fail (abs s) .FileExpected
            | some (.file b) => done (abs s) (.bytes b)) = fail (abs s) e' →
          ProgOk abs inv fix (.copy src dst ow) s
            (((fun (x : Out) => match x with
              | .err e => Prog.ret (.err e)
              | .ok rd => one (.upload (absnorm dst) (bytesOf (.ok rd)))) (sem.prim s1 (.openRead (absnorm src))).2.1).run sem
                (sem.prim s1 (.openRead (absnorm src))).1).1
            (((fun (x : Out) => match x with
              | .err e => Prog.ret (.err e)
              | .ok rd => one (.upload (absnorm dst) (bytesOf (.ok rd)))) (sem.prim s1 (.openRead (absnorm src))).2.1).run sem
                (sem.prim s1 (.openRead (absnorm src))).1).2.1 := by
        intro e' hnf hm
        rw [hm] at k3 k4
        obtain ⟨e, g1, g2, _⟩ := k4.2 e' rfl
        simp only [g1]
        obtain ⟨x1, x2⟩ := run_ret sem (.err e) (sem.prim s1 (.openRead (absnorm src))).1
        rw [x1, x2]
        refine progOk_fail k1 (by rw [k2, j2]) (by rw [k3]; rfl) (e' := e') ?_ ?_ hnex
        · rw [hstep]
          simp only [step2, hnd, hab, Bool.false_eq_true, if_false]
          cases hga : (abs s).root.get a with
          | none => rw [hga] at hm; simpa using hm
          | some n =>
            cases n with
            | dir _ => rw [hga] at hm; simpa using hm
            | file ds => exact absurd hga (hnf ds)
        · rw [hadm, adm2]; rw [r2] at g2
          exact List.mem_append_left _ (List.mem_append_left _ g2)
      cases hga : (abs s).root.get a with
      | none => exact hsrcfail .ResourceNotFound (by intro ds; rw [hga]; simp) (by rw [hga])
      | some n =>
        cases n with
        | dir es => exact hsrcfail .FileExpected (by intro ds; rw [hga]; simp) (by rw [hga])
        | file data =>
          rw [hga] at k3 k4
          have g1 := k4.1 rfl
          simp only [done] at g1 k3
          simp only [g1, bytesOf]
          obtain ⟨u1, u2⟩ := run_one (sem := sem) (.upload (absnorm dst) data) (sem.prim s1 (.openRead (absnorm src))).1
          obtain ⟨m1, m2, m3, m4⟩ := H.prim (sem.prim s1 (.openRead (absnorm src))).1 (.upload (absnorm dst) data)
            k1 rfl (by simp [hitsFixture, primOp, Prim.memberOp])
          simp only [primOp, Prim.memberOp, Prim.path] at m3 m4
          rw [k3] at m3 m4
          obtain ⟨w1', w2'⟩ := writebytes_eq data hc hvb
          have hcopy : step2 (abs s) a b (.copy src dst ow) = writeFile (abs s) b (fun _ => data) := by
            simp only [step2, hnd, hab, hga, Bool.false_eq_true, if_false]
            exact copy_tail_eq (abs s) b data
          rw [w1'] at m3 m4
          refine ⟨by rw [u1]; exact m1, by rw [u1, m2, k2, j2], by rw [u1, m3, hstep, hcopy], ?_⟩
          rw [u2, hstep, hcopy]
          refine ⟨m4.1, ?_⟩
          intro e' he'
          obtain ⟨e, g1', g2', _⟩ := m4.2 e' he'
          refine ⟨e, g1', ?_, fun h => absurd h hnex⟩
          rw [hadm, adm2]; rw [w2'] at g2'
          simp only [hab, if_false]
          exact List.mem_append_right _ g2'
  cases ow with
  | true => simpa using body s hs rfl rfl (Or.inl rfl)
  | false =>
    simp only [Bool.false_eq_true, if_false]
    refine progOk_existsThen H s s hs (absnorm dst) _ _ ?_ ?_
    · intro e s' _ _ _ hre
      simp [refExists, hvb] at hre
    · intro bb s' i1 i2 i3 hre
      simp only [refExists, hvb, Res.ok.injEq] at hre
      cases bb with
      | true =>
        simp only [if_true]
        obtain ⟨x1, x2⟩ := run_ret sem (.err .DestinationExists) s'
        rw [x1, x2]
        refine progOk_fail i1 i2 i3 (e' := .DestinationExists) ?_ ?_ hnex
        · rw [hstep]; simp [step2, hre]
        · rw [hadm]; simp [adm2, kindAt_ne_none hre]
      | false =>
        simp only [Bool.false_eq_true, if_false]
        exact body s' i1 i2 i3 (Or.inr hre)

/-! ### `FS.move` -/

/-- the body of `FS.move` after the destination test -/
def moveBody (ns nd : Str) : Prog :=
  .call (.getinfo ns) fun
    | .err e => .ret (.err e)
    | .ok v =>
      if isDirInfo v then .ret (.err .FileExpected)
      else if ns = nd then .ret (.ok .unit)
      else .call (.openRead ns) fun
        | .err e => .ret (.err e)
        | .ok rd => .call (.upload nd (bytesOf (.ok rd))) fun
          | .err e => .ret (.err e)
          | .ok _ => one (.remove ns)

theorem baseMove_eq (src dst : Str) (ow : Bool) :
    baseMove src dst ow = .validate src (.validate dst
      (if ow then moveBody (absnorm src) (absnorm dst)
       else existsThen (absnorm dst) fun b =>
         if b then .ret (.err .DestinationExists) else moveBody (absnorm src) (absnorm dst))) := rfl

theorem getinfo_eq {s : State} {p : Str} {a : List Name} (hc : s.closed = false) (hv : validate p = .ok a) :
    (Ref.step s (.getinfo p)).2 =
      (match s.root.get a with
       | none => .err .ResourceNotFound
       | some (.file b) => .ok (.info (lastName a) false b.length)
       | some (.dir _) => .ok (.info (lastName a) true 0)) := by
  rw [step_of_validate hc rfl hv]
  simp only [step1]
  cases s.root.get a with
  | none => rfl
  | some n => cases n <;> rfl

theorem remove_eq {s : State} {p : Str} {a : List Name} (hc : s.closed = false) (hv : validate p = .ok a) :
    Ref.step s (.remove p) = step1 s a (.remove p) := step_of_validate hc rfl hv

/-- the tail of the reference's `move` once the source is the file `data`, the destination test passed
and the paths differ: `writebytes` at the destination, then the source entry deleted -/
theorem move_tail_eq (s : State) (a b : List Name) (data : Bytes) :
    (if b = [] then fail s .FileExpected
     else match s.root.get (parentOf b) with
       | none => fail s .ResourceNotFound
       | some (.file _) => fail s .ResourceNotFound
       | some (.dir _) =>
         match s.root.get b with
         | some (.dir _) => fail s .FileExpected
         | _ => upd s ((s.root.set b (.file data)).del a)) =
      (match (writeFile s b (fun _ => data)).2 with
       | .err e => fail s e
       | .ok _ => upd s ((writeFile s b (fun _ => data)).1.root.del a)) := by
  simp only [writeFile]
  by_cases hb : b = []
  · simp [hb, fail]
  · simp only [hb, if_false]
    cases s.root.get (parentOf b) with
    | none => rfl
    | some n =>
      cases n with
      | file _ => rfl
      | dir _ =>
        cases s.root.get b with
        | none => rfl
        | some m => cases m <;> rfl

/-- a successful `writeFile` at `b` leaves a file at a different path `a` in place -/
theorem writeFile_keeps {s : State} {a b : List Name} {data data' : Bytes} {v : Val}
    (ha : s.root.get a = some (.file data')) (hab : a ≠ b)
    (hok : (writeFile s b (fun _ => data) v).2.isOk = true) :
    (writeFile s b (fun _ => data) v).1.root.get a = some (.file data') := by
  have hnp : ¬ b <+: a := by
    intro hp
    obtain ⟨es, hes⟩ := get_proper_prefix_dir hp (Ne.symm hab) ha
    simp only [writeFile] at hok
    by_cases hb : b = []
    · simp [hb, fail, Res.isOk] at hok
    · simp only [hb, if_false, hes] at hok
      cases hpp : s.root.get (parentOf b) with
      | none => rw [hpp] at hok; simp [fail, Res.isOk] at hok
      | some n => rw [hpp] at hok; cases n <;> simp [fail, Res.isOk] at hok
  simp only [writeFile] at hok ⊢
  by_cases hb : b = []
  · simp [hb, fail, Res.isOk] at hok
  · simp only [hb, if_false] at hok ⊢
    cases hp : s.root.get (parentOf b) with
    | none => rw [hp] at hok; simp [fail, Res.isOk] at hok
    | some n =>
      cases n with
      | file _ => rw [hp] at hok; simp [fail, Res.isOk] at hok
      | dir _ =>
        cases hg : s.root.get b with
        | none => simp only [upd]; exact get_set_file _ _ _ _ _ ha hnp
        | some m =>
          cases m with
          | dir _ => rw [hp, hg] at hok; simp [fail, Res.isOk] at hok
          | file _ => simp only [upd]; exact get_set_file _ _ _ _ _ ha hnp

/-- **`FS.move`** over refining primitives (`validatepath` ×2, `exists(dst)`, `getinfo(src)`, same-path
exit, `open(src, "rb")`, `upload(dst)`, `remove(src)`) refines the reference's `move` — whichever
filesystems own the two paths; the source must not be a fixture -/
theorem move_ok (H : PrimSem sem abs inv fix) (s : σ) (hs : inv s) (src dst : Str) (ow : Bool)
    (hfx : ∀ a, validate src = .ok a → a ∉ fix s) :
    ProgOk abs inv fix (.move src dst ow) s ((baseMove src dst ow).run sem s).1
      ((baseMove src dst ow).run sem s).2.1 := by
  obtain ⟨hsc, hc, _, hd⟩ := H.std s hs
  have hop : (Op.move src dst ow).paths = [src, dst] := rfl
  have hnex : ¬ exactOp (.move src dst ow) := by simp [exactOp]
  rw [baseMove_eq]
  refine progOk_validate H s hs src _ _ ?_ ?_
  · intro e hv1
    refine progOk_fail hs rfl rfl (e' := e) ?_ ?_ hnex
    · rw [QueryLemmas.step_two _ _ src dst hc hop, hv1]
    · rw [QueryLemmas.adm_two _ _ src dst hc hop, hv1]; cases validate dst <;> simp
  intro a hv1
  refine progOk_validate H s hs dst _ _ ?_ ?_
  · intro e hv2
    refine progOk_fail hs rfl rfl (e' := e) ?_ ?_ hnex
    · rw [QueryLemmas.step_two _ _ src dst hc hop, hv1, hv2]
    · rw [QueryLemmas.adm_two _ _ src dst hc hop, hv1, hv2]; simp
  intro b hv2
  obtain ⟨hstep, hadm⟩ := step_two_of_validate hc hop hv1 hv2
  have hva := validate_absnorm hv1
  have hvb := validate_absnorm hv2
  have heq : (absnorm src = absnorm dst) ↔ a = b := absnorm_eq_iff hv1 hv2
  have body : ∀ s1, inv s1 → fix s1 = fix s → abs s1 = abs s →
      (ow = true ∨ ((abs s).root.get b).isSome = false) →
      ProgOk abs inv fix (.move src dst ow) s
        ((moveBody (absnorm src) (absnorm dst)).run sem s1).1 ((moveBody (absnorm src) (absnorm dst)).run sem s1).2.1 := by
    intro s1 j1 j2 j3 hex
    have hnd : (!ow && ((abs s).root.get b).isSome) = false := by
      rcases hex with h | h <;> simp [h]
    simp only [moveBody]
    obtain ⟨c1, c2⟩ := run_call sem (.getinfo (absnorm src)) (fun
      | .err e => Prog.ret (.err e)
      | .ok v =>
        if isDirInfo v then .ret (.err .FileExpected)
        else if absnorm src = absnorm dst then .ret (.ok .unit)
        else .call (.openRead (absnorm src)) fun
          | .err e => .ret (.err e)
          | .ok rd => .call (.upload (absnorm dst) (bytesOf (.ok rd))) fun
            | .err e => .ret (.err e)
            | .ok _ => one (.remove (absnorm src))) s1
    rw [c1, c2]
    obtain ⟨k1, k2, k3, k4⟩ := getinfo_exact H s1 j1 (absnorm src)
    rw [j3] at k3 k4
    rw [getinfo_eq hc hva] at k4
    cases hga : (abs s).root.get a with
    | none =>
      rw [hga] at k4
      simp only [k4]
      obtain ⟨x1, x2⟩ := run_ret sem (.err .ResourceNotFound) (sem.prim s1 (.getinfo (absnorm src))).1
      rw [x1, x2]
      refine progOk_fail k1 (by rw [k2, j2]) k3 (e' := .ResourceNotFound) ?_ ?_ hnex
      · rw [hstep]; simp [step2, hga]
      · rw [hadm]; simp [adm2, admFileArg, kindAt, hga]
    | some n =>
      cases n with
      | dir es =>
        rw [hga] at k4
        simp only [k4, isDirInfo, if_true]
        obtain ⟨x1, x2⟩ := run_ret sem (.err .FileExpected) (sem.prim s1 (.getinfo (absnorm src))).1
        rw [x1, x2]
        refine progOk_fail k1 (by rw [k2, j2]) k3 (e' := .FileExpected) ?_ ?_ hnex
        · rw [hstep]; simp [step2, hga]
        · rw [hadm]; simp [adm2, admFileArg, kindAt, hga]
      | file data =>
        rw [hga] at k4
        simp only [k4, isDirInfo, Bool.false_eq_true, if_false]
        by_cases hab : a = b
        · have : absnorm src = absnorm dst := heq.2 hab
          rw [if_pos this]
          obtain ⟨x1, x2⟩ := run_ret sem (.ok .unit) (sem.prim s1 (.getinfo (absnorm src))).1
          rw [x1, x2]
          have hst : step2 (abs s) a b (.move src dst ow) = done (abs s) := by
            simp only [step2, hga, hnd, Bool.false_eq_true, if_false]
            simp [hab]
          refine ⟨k1, by rw [k2, j2], by rw [k3, hstep, hst]; rfl, ?_⟩
          rw [hstep, hst]
          exact ⟨fun _ => rfl, fun e' he' => by simp [done] at he'⟩
        · have hne : ¬ absnorm src = absnorm dst := fun h => hab (heq.1 h)
          rw [if_neg hne]
          -- open(src, "rb")
          obtain ⟨d1, d2⟩ := run_call sem (.openRead (absnorm src)) (fun
            | .err e => Prog.ret (.err e)
            | .ok rd => .call (.upload (absnorm dst) (bytesOf (.ok rd))) fun
              | .err e => .ret (.err e)
              | .ok _ => one (.remove (absnorm src))) (sem.prim s1 (.getinfo (absnorm src))).1
          rw [d1, d2]
          obtain ⟨m1, m2, m3, m4⟩ := H.prim (sem.prim s1 (.getinfo (absnorm src))).1 (.openRead (absnorm src)) k1 rfl
            (by simp [hitsFixture, primOp, Prim.memberOp])
          simp only [primOp, Prim.memberOp, Prim.path] at m3 m4
          rw [k3] at m3 m4
          obtain ⟨r1, _⟩ := readbytes_eq hc hva
          rw [r1, hga] at m3 m4
          have g1 := m4.1 rfl
          simp only [done] at g1 m3
          simp only [g1, bytesOf]
          generalize hs2 : (sem.prim (sem.prim s1 (.getinfo (absnorm src))).1 (.openRead (absnorm src))).1 = s2 at m1 m2 m3 ⊢
          -- upload(dst)
          obtain ⟨u1, u2⟩ := run_call sem (.upload (absnorm dst) data) (fun
            | .err e => Prog.ret (.err e)
            | .ok _ => one (.remove (absnorm src))) s2
          rw [u1, u2]
          obtain ⟨n1, n2, n3, n4⟩ := H.prim s2 (.upload (absnorm dst) data) m1 rfl
            (by simp [hitsFixture, primOp, Prim.memberOp])
          simp only [primOp, Prim.memberOp, Prim.path] at n3 n4
          rw [m3] at n3 n4
          obtain ⟨w1, w2⟩ := writebytes_eq data hc hvb
          rw [w1] at n3 n4
          have htail : step2 (abs s) a b (.move src dst ow) =
              (match (writeFile (abs s) b (fun _ => data)).2 with
               | .err e => fail (abs s) e
               | .ok _ => upd (abs s) ((writeFile (abs s) b (fun _ => data)).1.root.del a)) := by
            simp only [step2, hga, hnd, hab, Bool.false_eq_true, if_false]
            exact move_tail_eq (abs s) a b data
          generalize hs3 : (sem.prim s2 (.upload (absnorm dst) data)).1 = s3 at n1 n2 n3 ⊢
          cases hw : (writeFile (abs s) b (fun _ => data)).2 with
          | err e' =>
            rw [hw] at n4 htail
            obtain ⟨e, g2, g3, _⟩ := n4.2 e' rfl
            simp only [g2]
            obtain ⟨x1, x2⟩ := run_ret sem (.err e) s3
            rw [x1, x2]
            have hsame : (writeFile (abs s) b (fun _ => data)).1 = abs s := by
              have := QueryLemmas.writeFile_shape (abs s) b (fun _ => data) .unit
              exact QueryLemmas.Shape.err_state this hw
            refine progOk_fail n1 (by rw [n2, m2, k2, j2]) (by rw [n3, hsame]) (e' := e') ?_ ?_ hnex
            · rw [hstep, htail]
            · rw [hadm, adm2]; rw [w2] at g3
              rw [if_pos hab]
              exact List.mem_append_right _ g3
          | ok v =>
            rw [hw] at n4 htail
            have g2 := n4.1 rfl
            simp only [g2]
            -- remove(src)
            obtain ⟨o1, o2⟩ := run_one (sem := sem) (.remove (absnorm src)) s3
            rw [o1, o2]
            have hfx3 : ¬ hitsFixture (fix s3) (primOp (.remove (absnorm src))) := by
              simp only [primOp, Prim.memberOp, Prim.path, hitsFixture]
              intro ⟨cs, h1, h2⟩
              rw [hva] at h1; cases h1
              rw [n2, m2, k2, j2] at h2
              exact hfx a hv1 h2
            obtain ⟨q1, q2, q3, q4⟩ := H.prim s3 (.remove (absnorm src)) n1 rfl hfx3
            simp only [primOp, Prim.memberOp, Prim.path] at q3 q4
            rw [n3] at q3 q4
            have hkeep := writeFile_keeps (v := .unit) hga hab (by rw [hw]; rfl)
            have hcl : (writeFile (abs s) b (fun _ => data)).1.closed = false := by
              have := QueryLemmas.writeFile_shape (abs s) b (fun _ => data) .unit
              rcases this with ⟨o, h⟩ | ⟨t, v', h⟩ <;> rw [h] <;> simp [upd, hc]
            have hane : a ≠ [] := by
              intro h0; subst h0
              simp only [Node.get, Option.some.injEq] at hga
              rw [hga] at hd; simp [Node.isDir] at hd
            have hrm : Ref.step (writeFile (abs s) b (fun _ => data)).1 (.remove (absnorm src)) =
                upd (writeFile (abs s) b (fun _ => data)).1 ((writeFile (abs s) b (fun _ => data)).1.root.del a) := by
              rw [remove_eq hcl hva]
              simp [step1, hane, hkeep]
            rw [hrm] at q3 q4
            have hres : upd (writeFile (abs s) b (fun _ => data)).1 ((writeFile (abs s) b (fun _ => data)).1.root.del a) =
                upd (abs s) ((writeFile (abs s) b (fun _ => data)).1.root.del a) := by
              have := QueryLemmas.writeFile_shape (abs s) b (fun _ => data) .unit
              rcases this with ⟨o, h⟩ | ⟨t, v', h⟩ <;> rw [h] <;> rfl
            refine ⟨q1, by rw [q2, n2, m2, k2, j2], by rw [q3, hstep, htail, hres], ?_⟩
            rw [hstep, htail]
            refine ⟨fun _ => q4.1 rfl, fun e' he' => by simp [upd] at he'⟩
  cases ow with
  | true => simpa using body s hs rfl rfl (Or.inl rfl)
  | false =>
    simp only [Bool.false_eq_true, if_false]
    refine progOk_existsThen H s s hs (absnorm dst) _ _ ?_ ?_
    · intro e s' _ _ _ hre
      simp [refExists, hvb] at hre
    · intro bb s' i1 i2 i3 hre
      simp only [refExists, hvb, Res.ok.injEq] at hre
      cases bb with
      | true =>
        simp only [if_true]
        obtain ⟨x1, x2⟩ := run_ret sem (.err .DestinationExists) s'
        rw [x1, x2]
        -- the reference fails too (for the source's reason or for this one); its class may differ
        have hfails : ∃ e', Ref.step (abs s) (.move src dst false) = fail (abs s) e' := by
          rw [hstep]
          simp only [step2]
          cases (abs s).root.get a with
          | none => exact ⟨_, rfl⟩
          | some n =>
            cases n with
            | dir _ => exact ⟨_, rfl⟩
            | file _ => exact ⟨.DestinationExists, by simp [hre]⟩
        obtain ⟨e', he'⟩ := hfails
        refine progOk_fail i1 i2 i3 (e' := e') he' ?_ hnex
        rw [hadm]; simp [adm2, kindAt_ne_none hre]
      | false =>
        simp only [Bool.false_eq_true, if_false]
        exact body s' i1 i2 i3 (Or.inr hre)

/-! ### `FS.create`, `FS.touch` -/

/-- `open(p, "wb")` … `close()` on the reference: an empty file written at `p` -/
theorem openwb_eq {s : State} {p : Str} {cs : List Name} (hc : s.closed = false) (hv : validate p = .ok cs) :
    Ref.step s (.openbin p modeWb) = writeFile s cs (fun _ => []) ∧
    adm s (.openbin p modeWb) = admFileTarget s.root cs := by
  have hm : parseBinMode modeWb = some ⟨false, true, true, true, false, false⟩ := by decide
  constructor
  · rw [QueryLemmas.step_openbin s p modeWb hc, hv]
    simp only [hm, Option.isNone_some, Bool.false_eq_true, if_false, step1, writeFile]
    by_cases hb : cs = []
    · simp [hb]
    · simp only [hb, if_false]
      cases s.root.get (parentOf cs) with
      | none => rfl
      | some n =>
        cases n with
        | file _ => rfl
        | dir _ =>
          cases s.root.get cs with
          | none => rfl
          | some m => cases m <;> rfl
  · rw [QueryLemmas.adm_openbin s p modeWb hc, hv]
    simp [adm1, hm]

theorem openwb_invalid {s : State} {p : Str} {e : Err} (hc : s.closed = false) (hv : validate p = .err e) :
    Ref.step s (.openbin p modeWb) = fail s e ∧ adm s (.openbin p modeWb) = [e] := by
  have hm : (parseBinMode modeWb).isNone = false := by decide
  rw [QueryLemmas.step_openbin s p modeWb hc, QueryLemmas.adm_openbin s p modeWb hc, hv]
  simp [hm]

/-- **`FS.create`-then** (`if not wipe and self.exists(path): …; with self.open(path, "wb"): pass`) in
front of `k created` -/
theorem progOk_createThen (H : PrimSem sem abs inv fix) (s : σ) (hs : inv s) (p : Str)
    (wipe : Bool) (k : Bool → Prog) (op : Op)
    (hinvalid : ∀ e s', inv s' → fix s' = fix s → abs s' = abs s → validate p = .err e →
      ProgOk abs inv fix op s s' (.err e))
    (hfalse : ∀ cs s', inv s' → fix s' = fix s → abs s' = abs s → validate p = .ok cs → wipe = false →
      ((abs s).root.get cs).isSome = true →
      ProgOk abs inv fix op s ((k false).run sem s').1 ((k false).run sem s').2.1)
    (hfail : ∀ cs e e' s', inv s' → fix s' = fix s → abs s' = abs s → validate p = .ok cs →
      (wipe = true ∨ ((abs s).root.get cs).isSome = false) →
      writeFile (abs s) cs (fun _ => []) = fail (abs s) e' → e ∈ admFileTarget (abs s).root cs →
      ProgOk abs inv fix op s s' (.err e))
    (htrue : ∀ cs s', inv s' → fix s' = fix s → validate p = .ok cs →
      (wipe = true ∨ ((abs s).root.get cs).isSome = false) →
      (writeFile (abs s) cs (fun _ => [])).2.isOk = true → abs s' = (writeFile (abs s) cs (fun _ => [])).1 →
      ProgOk abs inv fix op s ((k true).run sem s').1 ((k true).run sem s').2.1) :
    ProgOk abs inv fix op s ((createThen p wipe k).run sem s).1 ((createThen p wipe k).run sem s).2.1 := by
  obtain ⟨_, hc, _, _⟩ := H.std s hs
  -- `open(p, "wb")` from a state that reads like `s`
  have doCreate : ∀ s1, inv s1 → fix s1 = fix s → abs s1 = abs s →
      (∀ cs, validate p = .ok cs → (wipe = true ∨ ((abs s).root.get cs).isSome = false)) →
      ProgOk abs inv fix op s
        ((Prog.call (.openWrite p) fun
          | .ok _ => k true
          | .err e => .ret (.err e)).run sem s1).1
        ((Prog.call (.openWrite p) fun
          | .ok _ => k true
          | .err e => .ret (.err e)).run sem s1).2.1 := by
    intro s1 j1 j2 j3 hcond
    obtain ⟨c1, c2⟩ := run_call sem (.openWrite p) (fun
      | .ok _ => k true
      | .err e => .ret (.err e)) s1
    rw [c1, c2]
    obtain ⟨m1, m2, m3, m4⟩ := H.prim s1 (.openWrite p) j1 rfl (by simp [hitsFixture, primOp, Prim.memberOp])
    simp only [primOp, Prim.memberOp, Prim.path] at m3 m4
    rw [j3] at m3 m4
    cases hv : validate p with
    | err e =>
      obtain ⟨w1, w2⟩ := openwb_invalid (p := p) hc hv
      rw [w1] at m3 m4
      obtain ⟨e2, g1, g2, _⟩ := m4.2 e rfl
      rw [w2] at g2
      simp only [List.mem_singleton] at g2
      subst g2
      simp only [g1]
      obtain ⟨x1, x2⟩ := run_ret sem (.err e2) (sem.prim s1 (.openWrite p)).1
      rw [x1, x2]
      exact hinvalid e2 _ m1 (by rw [m2, j2]) (by rw [m3]; rfl) hv
    | ok cs =>
      obtain ⟨w1, w2⟩ := openwb_eq (p := p) hc hv
      rw [w1] at m3 m4
      cases hw : (writeFile (abs s) cs (fun _ => [])).2 with
      | err e' =>
        obtain ⟨e2, g1, g2, _⟩ := m4.2 e' hw
        rw [w2] at g2
        simp only [g1]
        obtain ⟨x1, x2⟩ := run_ret sem (.err e2) (sem.prim s1 (.openWrite p)).1
        rw [x1, x2]
        have hsame : (writeFile (abs s) cs (fun _ => [])).1 = abs s :=
          QueryLemmas.Shape.err_state (QueryLemmas.writeFile_shape (abs s) cs (fun _ => []) .unit) hw
        have hwf : writeFile (abs s) cs (fun _ => []) = fail (abs s) e' := by
          have : writeFile (abs s) cs (fun _ => []) = ((writeFile (abs s) cs (fun _ => [])).1, (writeFile (abs s) cs (fun _ => [])).2) := rfl
          rw [this, hsame, hw]; rfl
        exact hfail cs e2 e' _ m1 (by rw [m2, j2]) (by rw [m3, hsame]) hv (hcond cs hv) hwf g2
      | ok v =>
        have g1 := m4.1 (by rw [hw]; rfl)
        rw [hw] at g1
        simp only [g1]
        exact htrue cs _ m1 (by rw [m2, j2]) hv (hcond cs hv) (by rw [hw]; rfl) m3
  simp only [createThen]
  cases wipe with
  | true =>
    simp only [if_true]
    exact doCreate s hs rfl rfl (fun _ _ => Or.inl rfl)
  | false =>
    simp only [Bool.false_eq_true, if_false]
    refine progOk_existsThen H s s hs p _ _ ?_ ?_
    · intro e s' i1 i2 i3 hre
      have : validate p = .err e := by
        simp only [refExists] at hre
        cases hv : validate p with
        | err e' => rw [hv] at hre; simpa using hre
        | ok cs => rw [hv] at hre; cases hre
      exact hinvalid e s' i1 i2 i3 this
    · intro b s' i1 i2 i3 hre
      obtain ⟨cs, hv, hb⟩ : ∃ cs, validate p = .ok cs ∧ b = ((abs s).root.get cs).isSome := by
        simp only [refExists] at hre
        cases hv : validate p with
        | err e' => rw [hv] at hre; cases hre
        | ok cs => rw [hv] at hre; exact ⟨cs, rfl, by simpa using hre.symm⟩
      cases b with
      | true =>
        simp only [if_true]
        exact hfalse cs s' i1 i2 i3 hv rfl hb.symm
      | false =>
        simp only [Bool.false_eq_true, if_false]
        refine doCreate s' i1 i2 i3 ?_
        intro cs' hv'
        rw [hv] at hv'; cases hv'
        exact Or.inr hb.symm

theorem create_eq {s : State} {p : Str} {cs : List Name} (w : Bool) (hc : s.closed = false) (hv : validate p = .ok cs) :
    Ref.step s (.create p w) =
      (if !w && (s.root.get cs).isSome then done s (.bool false) else writeFile s cs (fun _ => []) (.bool true)) ∧
    adm s (.create p w) = admFileTarget s.root cs := by
  rw [step_of_validate hc rfl hv, adm_of_validate hc rfl hv]
  exact ⟨rfl, rfl⟩

theorem touch_eq {s : State} {p : Str} {cs : List Name} (hc : s.closed = false) (hv : validate p = .ok cs) :
    Ref.step s (.touch p) =
      (if (s.root.get cs).isSome then done s else writeFile s cs (fun _ => [])) ∧
    adm s (.touch p) = admFileTarget s.root cs := by
  rw [step_of_validate hc rfl hv, adm_of_validate hc rfl hv]
  exact ⟨rfl, rfl⟩

/-- `writeFile` with another return value: same state, same verdict, same error -/
theorem writeFile_val (s : State) (cs : List Name) (f : Option Bytes → Bytes) (v : Val) :
    (writeFile s cs f v).1 = (writeFile s cs f).1 ∧
    ((writeFile s cs f v).2.isOk = (writeFile s cs f).2.isOk) ∧
    (∀ e, (writeFile s cs f).2 = .err e → (writeFile s cs f v).2 = .err e) ∧
    ((writeFile s cs f).2.isOk = true → (writeFile s cs f v).2 = .ok v) := by
  simp only [writeFile]
  by_cases hb : cs = []
  · simp [hb, fail, Res.isOk]
  · simp only [hb, if_false]
    cases s.root.get (parentOf cs) with
    | none => simp [fail, Res.isOk]
    | some n =>
      cases n with
      | file _ => simp [fail, Res.isOk]
      | dir _ =>
        cases s.root.get cs with
        | none => simp [upd, Res.isOk]
        | some m => cases m <;> simp [upd, fail, Res.isOk]

theorem validate_fail_ok {op : Op} {p : Str} {e : Err} {s st : σ} (hc : (abs s).closed = false)
    (hp : op.paths = [p]) (hno : ∀ q m, op ≠ .openbin q m) (hv : validate p = .err e)
    (hi : inv st) (hf : fix st = fix s) (ha : abs st = abs s) (hex : ¬ exactOp op) :
    ProgOk abs inv fix op s st (.err e) := by
  refine progOk_fail hi hf ha (e' := e) ?_ ?_ hex
  · rw [QueryLemmas.step_one _ _ p hc hp hno, hv]
  · rw [QueryLemmas.adm_one _ _ p hc hp hno, hv]; simp

/-- **`FS.create`** over refining primitives refines the reference's `create` -/
theorem create_ok (H : PrimSem sem abs inv fix) (s : σ) (hs : inv s) (p : Str) (w : Bool) :
    ProgOk abs inv fix (.create p w) s ((baseCreate p w).run sem s).1 ((baseCreate p w).run sem s).2.1 := by
  obtain ⟨_, hc, _, _⟩ := H.std s hs
  have hnex : ¬ exactOp (.create p w) := by simp [exactOp]
  simp only [baseCreate]
  refine progOk_createThen H s hs p w _ _ ?_ ?_ ?_ ?_
  · intro e s' i1 i2 i3 hv
    exact validate_fail_ok hc rfl (by simp) hv i1 i2 i3 hnex
  · intro cs s' i1 i2 i3 hv hw hex
    obtain ⟨x1, x2⟩ := run_ret sem (.ok (.bool false)) s'
    rw [x1, x2]
    obtain ⟨e1, _⟩ := create_eq w hc hv
    have : Ref.step (abs s) (.create p w) = done (abs s) (.bool false) := by
      rw [e1]; simp [hw, hex]
    refine ⟨i1, i2, by rw [i3, this]; rfl, ?_⟩
    rw [this]
    exact ⟨fun _ => rfl, fun e' he' => by simp [done] at he'⟩
  · intro cs e e' s' i1 i2 i3 hv hcond hwf hadm
    obtain ⟨e1, e2⟩ := create_eq w hc hv
    have hnd : (!w && ((abs s).root.get cs).isSome) = false := by rcases hcond with h | h <;> simp [h]
    obtain ⟨_, _, v3, _⟩ := writeFile_val (abs s) cs (fun _ => []) (.bool true)
    have hsame : (writeFile (abs s) cs (fun _ => []) (.bool true)).1 = abs s := by
      rw [(writeFile_val (abs s) cs (fun _ => []) (.bool true)).1, hwf]; rfl
    refine progOk_fail i1 i2 i3 (e' := e') ?_ (by rw [e2]; exact hadm) hnex
    rw [e1]
    simp only [hnd, Bool.false_eq_true, if_false]
    have h2 := v3 e' (by rw [hwf]; rfl)
    have : writeFile (abs s) cs (fun _ => []) (.bool true) =
        ((writeFile (abs s) cs (fun _ => []) (.bool true)).1, (writeFile (abs s) cs (fun _ => []) (.bool true)).2) := rfl
    rw [this, hsame, h2]; rfl
  · intro cs s' i1 i2 hv hcond hok habs
    obtain ⟨x1, x2⟩ := run_ret sem (.ok (.bool true)) s'
    rw [x1, x2]
    obtain ⟨e1, _⟩ := create_eq w hc hv
    have hnd : (!w && ((abs s).root.get cs).isSome) = false := by rcases hcond with h | h <;> simp [h]
    obtain ⟨v1, _, _, v4⟩ := writeFile_val (abs s) cs (fun _ => []) (.bool true)
    refine ⟨i1, i2, ?_, ?_⟩
    · rw [habs, e1]; simp only [hnd, Bool.false_eq_true, if_false]; exact v1.symm
    · rw [e1]; simp only [hnd, Bool.false_eq_true, if_false]
      rw [v4 hok]
      exact ⟨fun _ => rfl, fun e' he' => by cases he'⟩

/-- **`FS.touch`** over refining primitives refines the reference's `touch` -/
theorem touch_ok (H : PrimSem sem abs inv fix) (s : σ) (hs : inv s) (p : Str) :
    ProgOk abs inv fix (.touch p) s ((baseTouch p).run sem s).1 ((baseTouch p).run sem s).2.1 := by
  obtain ⟨_, hc, _, _⟩ := H.std s hs
  have hnex : ¬ exactOp (.touch p) := by simp [exactOp]
  simp only [baseTouch]
  refine progOk_createThen H s hs p false _ _ ?_ ?_ ?_ ?_
  · intro e s' i1 i2 i3 hv
    exact validate_fail_ok hc rfl (by simp) hv i1 i2 i3 hnex
  · intro cs s' i1 i2 i3 hv _ hex
    -- the file exists: `setinfo(path, {... times ...})`
    simp only [Bool.false_eq_true, if_false]
    obtain ⟨o1, o2⟩ := run_one (sem := sem) (.setinfo p) s'
    rw [o1, o2]
    obtain ⟨m1, m2, m3, m4⟩ := H.prim s' (.setinfo p) i1 rfl (by simp [hitsFixture, primOp, Prim.memberOp])
    simp only [primOp, Prim.memberOp, Prim.path] at m3 m4
    rw [i3] at m3 m4
    have hset : Ref.step (abs s) (.settimes p) = done (abs s) := by
      rw [step_of_validate hc rfl hv]; simp [step1, hex]
    obtain ⟨e1, _⟩ := touch_eq hc hv
    have hto : Ref.step (abs s) (.touch p) = done (abs s) := by rw [e1]; simp [hex]
    rw [hset] at m3 m4
    refine ⟨m1, by rw [m2, i2], by rw [m3, hto], ?_⟩
    rw [hto]
    exact ⟨fun _ => m4.1 rfl, fun e' he' => by simp [done] at he'⟩
  · intro cs e e' s' i1 i2 i3 hv hcond hwf hadm
    obtain ⟨e1, e2⟩ := touch_eq hc hv
    have hex : ((abs s).root.get cs).isSome = false := by rcases hcond with h | h <;> simp_all
    refine progOk_fail i1 i2 i3 (e' := e') ?_ (by rw [e2]; exact hadm) hnex
    rw [e1]; simp [hex, hwf]
  · intro cs s' i1 i2 hv hcond hok habs
    simp only [if_true]
    obtain ⟨x1, x2⟩ := run_ret sem (.ok .unit) s'
    rw [x1, x2]
    obtain ⟨e1, _⟩ := touch_eq hc hv
    have hex : ((abs s).root.get cs).isSome = false := by rcases hcond with h | h <;> simp_all
    obtain ⟨_, _, _, v4⟩ := writeFile_val (abs s) cs (fun _ => []) .unit
    refine ⟨i1, i2, by rw [habs, e1]; simp [hex], ?_⟩
    rw [e1]; simp only [hex, Bool.false_eq_true, if_false]
    rw [v4 hok]
    exact ⟨fun _ => rfl, fun e' he' => by cases he'⟩

end
end Fs.BaseProgs
