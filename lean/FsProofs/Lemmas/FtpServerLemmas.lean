/-
  Lemmas about the modelled FTP server (`FsModel.FtpServer`): decimal rendering, the wire form of a
  path, and the LISTING ROUND TRIP — what the server renders (C20's renderers over the profile) is
  parsed back by the library's parsers (C20's round-trip theorems) into exactly the entries of the
  directory.
-/
import FsModel.FtpServer
import FsModel.Ftp
import FsProofs.Lemmas.FtpLemmas
import FsProofs.Lemmas.PathLemmas
import FsProofs.Lemmas.TreeLemmas
import FsProofs.Lemmas.MemLemmas

namespace Fs.FtpServerLemmas
open Fs Fs.Path Fs.Parse Fs.FtpParse Fs.FtpServer Fs.FtpLemmas
set_option linter.unusedSimpArgs false
set_option linter.unusedVariables false

/-! ### decimal rendering -/

theorem natOfDigits_snoc (ds : Str) (d : Char) : natOfDigits (ds ++ [d]) = natOfDigits ds * 10 + (d.toNat - 48) := by
  simp [natOfDigits, List.foldl_append]

theorem decimalAux_spec : ∀ (f n : Nat), n < f →
    natOfDigits (decimalAux f n) = n ∧ decimalAux f n ≠ [] ∧ ∀ c ∈ decimalAux f n, isDigit c = true
  | 0, n, h => absurd h (Nat.not_lt_zero n)
  | f + 1, n, h => by
    unfold decimalAux
    by_cases h10 : n < 10
    · simp only [h10, if_true]
      refine ⟨?_, by simp, ?_⟩
      · have := digitChar_val n
        simp only [natOfDigits, List.foldl_cons, List.foldl_nil, Nat.zero_mul, Nat.zero_add]
        rw [this]; exact Nat.mod_eq_of_lt h10
      · intro c hc; simp only [List.mem_singleton] at hc; subst hc; exact digitChar_isDigit n
    · simp only [h10, if_false]
      have hlt : n / 10 < f := by omega
      obtain ⟨h1, h2, h3⟩ := decimalAux_spec f (n / 10) hlt
      refine ⟨?_, by simp, ?_⟩
      · rw [natOfDigits_snoc, h1, digitChar_val]; omega
      · intro c hc
        rcases List.mem_append.1 hc with hc | hc
        · exact h3 c hc
        · simp only [List.mem_singleton] at hc; subst hc; exact digitChar_isDigit n

theorem decimal_val (n : Nat) : natOfDigits (decimal n) = n := (decimalAux_spec (n + 1) n (Nat.lt_succ_self n)).1
theorem decimal_ne (n : Nat) : decimal n ≠ [] := (decimalAux_spec (n + 1) n (Nat.lt_succ_self n)).2.1
theorem decimal_digits (n : Nat) : ∀ c ∈ decimal n, isDigit c = true :=
  (decimalAux_spec (n + 1) n (Nat.lt_succ_self n)).2.2

/-! ### the wire form of a path -/

def wireDirs (cs : List Name) : Str := cs.flatMap fun c => '/' :: c

theorem wirePath_ne (cs : List Name) (hne : cs ≠ []) : wirePath cs = wireDirs cs := by
  cases cs with
  | nil => exact absurd rfl hne
  | cons c r => rfl

theorem wirePath_snoc (pre : List Name) (c : Name) : wirePath (pre ++ [c]) = wireDirs pre ++ '/' :: c := by
  rw [wirePath_ne _ (by simp)]
  simp [wireDirs, List.flatMap_append]

theorem clean_parts {c : Name} (h : cleanName c = true) :
    c ≠ [] ∧ c ≠ ['.'] ∧ c ≠ ['.', '.'] ∧ '/' ∉ c := by
  simp only [cleanName, Bool.and_eq_true, bne_iff_ne, ne_eq, Bool.not_eq_true', List.contains_eq_mem,
    decide_eq_false_iff_not] at h
  exact ⟨h.1.1.1.1, h.1.1.1.2, h.1.1.2, h.1.2⟩

theorem wfName_of_clean {c : Name} (h : cleanName c = true) : WFName c :=
  ⟨(clean_parts h).1, (clean_parts h).2.2.2, (clean_parts h).2.1, (clean_parts h).2.2.1⟩

theorem basename_wire (a c : Str) (hne : c ≠ []) (hs : '/' ∉ c) : basename (rstripSlash (a ++ '/' :: c)) = c := by
  have he : endsWithSlash (a ++ '/' :: c) = false := by
    rw [PathLemmas.endsWithSlash_append _ _ (by simp)]
    have : ('/' :: c) = ['/'] ++ c := rfl
    rw [this, PathLemmas.endsWithSlash_append _ _ hne]
    exact PathLemmas.endsWithSlash_of_not_mem _ hs
  rw [PathLemmas.rstripSlash_of_not_ends _ he]
  unfold basename split
  rw [PathLemmas.rsplit1_some _ _ _ hs]

/-- the entry line of an `MLST` reply states the fully qualified pathname; the library takes its last
    component -/
theorem pathName_wire (cs : List Name) (hne : cs ≠ []) (hcl : ∀ c ∈ cs, cleanName c = true) :
    pathName (wirePath cs) = some (cs.getLast?.getD []) := by
  have hsplit := MemLemmas.split_last cs hne
  have hc := clean_parts (hcl _ (MemLemmas.last_mem cs hne))
  generalize cs.getLast?.getD [] = c at hsplit hc
  rw [← hsplit, wirePath_snoc]
  unfold pathName
  have h1 : ¬ (wireDirs cs.dropLast ++ '/' :: c = [] ∨ wireDirs cs.dropLast ++ '/' :: c = ['/']) := by
    rintro (h | h)
    · simp at h
    · have := congrArg List.length h
      cases hc' : c with
      | nil => exact hc.1 hc'
      | cons x r => rw [hc'] at this; simp at this; omega
  simp only [h1, if_false, basename_wire _ c hc.1 hc.2.2.2, hc.1, Option.some.injEq, hc.2.1, hc.2.2.1, or_self]

/-! ### the facts of an entry are well-formed -/

theorem stops_of_head (p : Char → Bool) (s : Str) (h : ∀ c r, s = c :: r → p c = false) : Stops p s := h

theorem digits_stripped (s : Str) (h : ∀ c ∈ s, isDigit c = true) : Stripped s := by
  constructor
  · intro c r hs; exact digit_nonspace c (h c (by rw [hs]; simp))
  · intro c r hs
    exact digit_nonspace c (h c (by
      have : c ∈ s.reverse := by rw [hs]; simp
      simpa using this))

theorem digits_not_mem (s : Str) (h : ∀ c ∈ s, isDigit c = true) (x : Char) (hx : isDigit x = false) : x ∉ s := by
  intro hm; rw [h x hm] at hx; cases hx

theorem wf_type_dir : WFFact (kType, kDir) :=
  ⟨by decide, by decide, by decide, by decide, by decide,
   ⟨fun c r h => by cases h; decide, fun c r h => by cases h; decide⟩,
   ⟨fun c r h => by cases h; decide, fun c r h => by cases h; decide⟩⟩

theorem wf_type_file : WFFact (kType, kFile) :=
  ⟨by decide, by decide, by decide, by decide, by decide,
   ⟨fun c r h => by cases h; decide, fun c r h => by cases h; decide⟩,
   ⟨fun c r h => by cases h; decide, fun c r h => by cases h; decide⟩⟩

theorem wf_size (n : Nat) : WFFact (kSize, decimal n) :=
  ⟨show '=' ∉ kSize by decide, show ';' ∉ kSize by decide, show ' ' ∉ kSize by decide,
   digits_not_mem _ (decimal_digits n) ';' (by decide), digits_not_mem _ (decimal_digits n) ' ' (by decide),
   ⟨fun c r h => by cases h; decide, fun c r h => by cases h; decide⟩,
   digits_stripped _ (decimal_digits n)⟩

theorem entryFacts_wf (cfg : Profile) (hcf : Conforming cfg) (name : Name) (n : Node) :
    ∀ kv ∈ entryFacts cfg name n, WFFact kv := by
  intro kv hkv
  simp only [entryFacts, List.mem_cons] at hkv
  rcases hkv with rfl | rfl | h
  · cases n.isDir
    · exact wf_type_file
    · exact wf_type_dir
  · exact wf_size _
  · exact hcf.facts_wf name n kv h

theorem entryFacts_ne (cfg : Profile) (name : Name) (n : Node) : entryFacts cfg name n ≠ [] := by
  simp [entryFacts]

/-- the facts as the library stores them: keys lower-cased -/
def parsedFacts (cfg : Profile) (name : Name) (n : Node) : List (Str × Str) :=
  (entryFacts cfg name n).map fun kv => (lower kv.1, kv.2)

theorem parsedFacts_eq (cfg : Profile) (name : Name) (n : Node) :
    parsedFacts cfg name n = (kType, if n.isDir then kDir else kFile) :: (kSize, decimal (sizeOf cfg n)) ::
      (cfg.facts name n).map fun kv => (lower kv.1, kv.2) := by
  simp only [parsedFacts, entryFacts, List.map_cons]
  rw [show lower kType = kType by decide, show lower kSize = kSize by decide]

/-- a size the listing can state -/
def StatesSize (cfg : Profile) (n : Node) : Prop := (decimal (sizeOf cfg n)).length ≤ maxStrDigits

theorem statesSize_of (cfg : Profile) (hcf : Conforming cfg) (n : Node) (h : SizeOk n) : StatesSize cfg n := by
  cases n with
  | file b => exact h
  | dir es => exact hcf.dir_size

/-- C20's `mlsd_roundtrip` for an arbitrary pathname text behind the facts -/
theorem parseMlsxLine_text (facts : List (Str × Str)) (text nm : Str)
    (hf : ∀ kv ∈ facts, WFFact kv) (hne : facts ≠ [])
    (hnd : (facts.map (fun kv => lower kv.1)).Nodup) (hp : pathName (rstripEol text) = some nm)
    (ty : Str) (hty : (dictGet kType (facts.map (fun kv => (lower kv.1, kv.2)))).getD kFile = ty)
    (htyok : ty = kDir ∨ ty = kFile)
    (sz : Nat) (hsz : mlsdSize (facts.map (fun kv => (lower kv.1, kv.2))) = .ok sz)
    (mo cr : Option (Option Int))
    (hmo : mlsdTime (facts.map (fun kv => (lower kv.1, kv.2))) kModify = .ok mo)
    (hcr : mlsdTime (facts.map (fun kv => (lower kv.1, kv.2))) kCreate = .ok cr) :
    parseMlsxLine (renderMlsd facts text) =
      .ok (some ⟨nm, ty = kDir, facts.map (fun kv => (lower kv.1, kv.2)), sz, mo, cr⟩) := by
  unfold parseMlsxLine
  simp only [parseFacts_line facts text hf hne hnd, hp, hty, hsz, hmo, hcr]
  have : ¬ (ty ≠ kDir ∧ ty ≠ kFile) := by
    rcases htyok with h | h <;> simp [h]
  rw [if_neg this]

/-- ONE ENTRY LINE: for any pathname text behind the facts whose `pathName` is `nm`, the library reads the
    entry `nm` with the type and the size the server stated -/
theorem entry_line (cfg : Profile) (hcf : Conforming cfg) (text nm : Str) (k : Name) (n : Node)
    (hsz : StatesSize cfg n) (hp : pathName (rstripEol text) = some nm) :
    ∃ mo cr, parseMlsxLine (renderMlsd (entryFacts cfg k n) text) =
      .ok (some ⟨nm, n.isDir, parsedFacts cfg k n, sizeOf cfg n, mo, cr⟩) := by
  obtain ⟨mo, hmo⟩ := mlsdTime_ok (parsedFacts cfg k n) kModify
  obtain ⟨cr, hcr⟩ := mlsdTime_ok (parsedFacts cfg k n) kCreate
  refine ⟨mo, cr, ?_⟩
  have hsize : mlsdSize (parsedFacts cfg k n) = .ok (sizeOf cfg n) := by
    have := mlsdSize_digits (parsedFacts cfg k n) (decimal (sizeOf cfg n))
      (by rw [parsedFacts_eq]; simp [dictGet, show kType ≠ kSize by decide])
      (decimal_ne _) (decimal_digits _) hsz
    rw [this, decimal_val]
  have hty : (dictGet kType (parsedFacts cfg k n)).getD kFile = (if n.isDir then kDir else kFile) := by
    rw [parsedFacts_eq]; simp [dictGet]
  have := parseMlsxLine_text (entryFacts cfg k n) text nm (entryFacts_wf cfg hcf k n) (entryFacts_ne cfg k n)
    (hcf.facts_nodup k n) hp _ hty (by cases n.isDir <;> simp) _ hsize mo cr hmo hcr
  rw [this]
  cases hd : n.isDir
  · simp [parsedFacts, show kFile ≠ kDir by decide]
  · simp [parsedFacts]

/-- what the library makes of one entry of a directory -/
def entOf (cfg : Profile) (kv : Name × Node) : Name × Bool × Nat := (kv.1, kv.2.isDir, sizeOf cfg kv.2)

/-- an entry the MLSD format carries faithfully (C20: `WFName`, `NoEol`) and whose size can be stated -/
def MlsdOk (cfg : Profile) (kv : Name × Node) : Prop := WFName kv.1 ∧ NoEol kv.1 ∧ StatesSize cfg kv.2

/-- LISTING ROUND TRIP (MLSD): the lines the server renders for the entries of a directory are parsed
    back into exactly those entries, in order -/
theorem mlsd_listing (cfg : Profile) (hcf : Conforming cfg) (es : Ents) (h : ∀ kv ∈ es, MlsdOk cfg kv) :
    ∃ infos, parseMlsx (es.map fun kv => mlsxLine cfg kv.1 kv.2) = .ok infos ∧
      infos.map (fun i => (i.name, i.isDir, i.size)) = es.map (entOf cfg) := by
  induction es with
  | nil => exact ⟨[], rfl, rfl⟩
  | cons e es ih =>
    obtain ⟨k, v⟩ := e
    obtain ⟨infos, hp, hm⟩ := ih (fun kv hkv => h kv (List.mem_cons_of_mem _ hkv))
    obtain ⟨hn, heol, hsz⟩ := h (k, v) (by simp)
    obtain ⟨mo, cr, hl⟩ := entry_line cfg hcf k k k v hsz (by rw [rstripEol_noEol k heol, pathName_wf k hn])
    refine ⟨⟨k, v.isDir, parsedFacts cfg k v, sizeOf cfg v, mo, cr⟩ :: infos, ?_, ?_⟩
    · show parseMlsx (mlsxLine cfg k v :: es.map fun kv => mlsxLine cfg kv.1 kv.2) = _
      unfold parseMlsx
      rw [show mlsxLine cfg k v = renderMlsd (entryFacts cfg k v) k from rfl, hl, hp]
    · simp [hm, entOf]

/-! ### the MLST reply -/

theorem noBreak_append {a b : Str} (ha : NoBreak a) (hb : NoBreak b) : NoBreak (a ++ b) := by
  intro c hc
  rcases List.mem_append.1 hc with h | h
  · exact ha c h
  · exact hb c h

theorem noBreak_cons {c : Char} {s : Str} (hc : isLineBreak c = false) (hs : NoBreak s) : NoBreak (c :: s) := by
  intro x hx
  rcases List.mem_cons.1 hx with rfl | h
  · exact hc
  · exact hs x h

theorem noBreak_nil : NoBreak [] := by intro c hc; cases hc

/-- a text without the character `x` -/
theorem not_mem_wireDirs (x : Char) (hx : x ≠ '/') (cs : List Name) (h : ∀ c ∈ cs, x ∉ c) : x ∉ wireDirs cs := by
  simp only [wireDirs, List.mem_flatMap, not_exists, not_and]
  intro c hc hm
  rcases List.mem_cons.1 hm with h' | h'
  · exact hx h'
  · exact h c hc h'

theorem not_mem_wirePath (x : Char) (hx : x ≠ '/') (cs : List Name) (h : ∀ c ∈ cs, x ∉ c) : x ∉ wirePath cs := by
  cases cs with
  | nil => simpa [wirePath] using hx
  | cons c r => exact not_mem_wireDirs x hx _ h

theorem not_mem_renderMlsd (x : Char) (h1 : x ≠ '=') (h2 : x ≠ ';') (h3 : x ≠ ' ') (facts : List (Str × Str)) (text : Str)
    (hf : ∀ kv ∈ facts, x ∉ kv.1 ∧ x ∉ kv.2) (ht : x ∉ text) : x ∉ renderMlsd facts text := by
  unfold renderMlsd
  intro hm
  rcases List.mem_append.1 hm with h | h
  · obtain ⟨kv, hkv, hx⟩ := List.mem_flatMap.1 h
    rcases List.mem_append.1 hx with h' | h'
    · rcases List.mem_append.1 h' with h'' | h''
      · exact (hf kv hkv).1 h''
      · rcases List.mem_cons.1 h'' with e | e
        · exact h1 e
        · exact (hf kv hkv).2 e
    · simp only [List.mem_singleton] at h'; exact h2 h'
  · rcases List.mem_cons.1 h with e | e
    · exact h3 e
    · exact ht e

theorem entryFacts_noNl (cfg : Profile) (hcf : Conforming cfg) (name : Name) (n : Node) :
    ∀ kv ∈ entryFacts cfg name n, '\n' ∉ kv.1 ∧ '\n' ∉ kv.2 := by
  intro kv hkv
  simp only [entryFacts, List.mem_cons] at hkv
  rcases hkv with rfl | rfl | h
  · cases n.isDir
    · exact ⟨show '\n' ∉ kType by decide, show '\n' ∉ kFile by decide⟩
    · exact ⟨show '\n' ∉ kType by decide, show '\n' ∉ kDir by decide⟩
  · exact ⟨show '\n' ∉ kSize by decide, digits_not_mem _ (decimal_digits _) '\n' (by decide)⟩
  · exact hcf.facts_line name n kv h

/-- the three lines of an `MLST` reply as `response.split("\n")` cuts them (79535c4) — for EVERY path whose
    components contain no line feed -/
theorem split_mlst (cfg : Profile) (hcf : Conforming cfg) (p : List Name) (n : Node)
    (hp : ∀ c ∈ p, '\n' ∉ c) :
    ((splitOn '\n' (mlstText cfg p n)).drop 1).dropLast =
      [' ' :: renderMlsd (entryFacts cfg (p.getLast?.getD []) n) (wirePath p)] := by
  have hwire : '\n' ∉ wirePath p := not_mem_wirePath _ (by decide) p hp
  have h1 : '\n' ∉ "250-Listing \"".toList ++ wirePath p ++ "\":".toList := by
    simp only [List.mem_append, not_or]
    exact ⟨⟨by decide, hwire⟩, by decide⟩
  have h2 : '\n' ∉ ' ' :: renderMlsd (entryFacts cfg (p.getLast?.getD []) n) (wirePath p) := by
    simp only [List.mem_cons, not_or]
    exact ⟨by decide, not_mem_renderMlsd _ (by decide) (by decide) (by decide) _ _ (entryFacts_noNl cfg hcf _ n) hwire⟩
  unfold mlstText
  rw [List.append_assoc, List.cons_append, PathLemmas.splitOn_append_sep _ _ _ h1,
    PathLemmas.splitOn_append_sep _ _ _ h2, PathLemmas.splitOn_of_not_mem _ _ (by decide)]
  simp

/-- LISTING ROUND TRIP (MLST): the reply for the node at `p` is read as the entry named like the last
    component of `p`, with the node's type and size — for every path without CR / LF -/
theorem mlst_reply (cfg : Profile) (hcf : Conforming cfg) (p : List Name) (n : Node) (hne : p ≠ [])
    (hcl : ∀ c ∈ p, cleanName c = true) (hp : ∀ c ∈ p, NoCrLf c) (hsz : StatesSize cfg n) :
    ∃ i, parseMlsx (((splitOn '\n' (mlstText cfg p n)).drop 1).dropLast) = .ok [i] ∧
      (i.name, i.isDir, i.size) = (p.getLast?.getD [], n.isDir, sizeOf cfg n) := by
  rw [split_mlst cfg hcf p n (fun c hc => (hp c hc).2)]
  have heol : rstripEol (wirePath p) = wirePath p := by
    apply rstripEol_noEol
    intro c r hcr
    have hm : c ∈ wirePath p := by
      have : c ∈ (wirePath p).reverse := by rw [hcr]; simp
      simpa using this
    have hr : c ≠ '\r' := by
      rintro rfl; exact not_mem_wirePath _ (by decide) p (fun x hx => (hp x hx).1) hm
    have hn : c ≠ '\n' := by
      rintro rfl; exact not_mem_wirePath _ (by decide) p (fun x hx => (hp x hx).2) hm
    simp [isEol, hr, hn]
  obtain ⟨mo, cr, hl⟩ := entry_line cfg hcf (wirePath p) (p.getLast?.getD []) (p.getLast?.getD []) n hsz
    (by rw [heol, pathName_wire p hne hcl])
  refine ⟨⟨p.getLast?.getD [], n.isDir, parsedFacts cfg (p.getLast?.getD []) n, sizeOf cfg n, mo, cr⟩, ?_, rfl⟩
  simp only [parseMlsx]
  rw [parseMlsxLine_lead_space _ (render_head _ _ (entryFacts_wf cfg hcf _ n) (entryFacts_ne cfg _ n)), hl]

/-! ### LIST -/

/-- an entry the LIST format carries faithfully (C20: `WFLinuxName`) and whose size can be stated -/
def ListOk (cfg : Profile) (kv : Name × Node) : Prop := Stops isSpace kv.1 ∧ '\n' ∉ kv.1 ∧ StatesSize cfg kv.2

theorem listEntry_name (cfg : Profile) (k : Name) (v : Node) (h : ListOk cfg (k, v)) :
    WFLinuxName (listEntry cfg k v) where
  start := h.1
  nl := h.2.1
  nl_target := by intro t ht; cases ht
  link := by
    intro hl
    cases v <;> simp [listEntry, Node.isDir] at hl
  target := by intro t ht; cases ht

theorem listEntry_wf (cfg : Profile) (hcf : Conforming cfg) (k : Name) (v : Node) (h : ListOk cfg (k, v)) :
    WFLinux cfg.cy (listEntry cfg k v) where
  ty := by cases v <;> simp [listEntry, Node.isDir, isTypeChar]
  perms := hcf.list_perms v
  suffix := Or.inl rfl
  links := hcf.list_links v
  uid := hcf.list_uid
  gid := hcf.list_gid
  size := ⟨decimal_ne _, decimal_digits _, h.2.2⟩
  time := hcf.list_time
  name := listEntry_name cfg k v h

theorem dropWhile_nil_all (p : Char → Bool) : ∀ (l : Str), l.dropWhile p = [] → ∀ c ∈ l, p c = true
  | [], _, c, hc => by cases hc
  | x :: xs, h, c, hc => by
    by_cases hx : p x = true
    · simp only [List.dropWhile, hx] at h
      rcases List.mem_cons.1 hc with rfl | hm
      · exact hx
      · exact dropWhile_nil_all p xs h c hm
    · simp [List.dropWhile, hx] at h

theorem strip_ne_nil (c : Char) (r : Str) (h : isSpace c = false) : strip (c :: r) ≠ [] := by
  unfold strip lstrip rstrip
  rw [dropWhile_head_false _ c r h]
  intro he
  have hrev : ((c :: r).reverse.dropWhile isSpace) = [] := by
    have := congrArg List.reverse he
    simpa using this
  have := dropWhile_nil_all isSpace _ hrev c (by simp)
  rw [h] at this
  cases this

theorem listLine_head (cfg : Profile) (k : Name) (v : Node) :
    ∃ c r, listLine cfg k v = c :: r ∧ isSpace c = false := by
  refine ⟨if v.isDir then 'd' else '-', _, rfl, ?_⟩
  cases v.isDir <;> decide

/-- LISTING ROUND TRIP (LIST): one line -/
theorem list_line (cfg : Profile) (hcf : Conforming cfg) (k : Name) (v : Node) (h : ListOk cfg (k, v)) :
    ∃ i, parseLine cfg.cy (listLine cfg k v) = .ok (some i) ∧ Ftp.listEnt i = entOf cfg (k, v) := by
  refine ⟨_, linux_line_roundtrip_core cfg.cy (listEntry cfg k v) (listEntry_wf cfg hcf k v h), ?_⟩
  simp only [Ftp.listEnt, entOf, listEntry, Option.getD_some, decimal_val]
  cases v <;> simp [Node.isDir]

/-- LISTING ROUND TRIP (LIST): the lines the server renders for the entries of a directory are parsed back
    into exactly those entries, in order -/
theorem list_listing (cfg : Profile) (hcf : Conforming cfg) (es : Ents) (h : ∀ kv ∈ es, ListOk cfg kv) :
    ∃ infos, parse cfg.cy (es.map fun kv => listLine cfg kv.1 kv.2) = .ok infos ∧
      infos.map Ftp.listEnt = es.map (entOf cfg) := by
  induction es with
  | nil => exact ⟨[], rfl, rfl⟩
  | cons e es ih =>
    obtain ⟨k, v⟩ := e
    obtain ⟨infos, hp, hm⟩ := ih (fun kv hkv => h kv (List.mem_cons_of_mem _ hkv))
    obtain ⟨i, hi, he⟩ := list_line cfg hcf k v (h (k, v) (by simp))
    obtain ⟨c, r, hcr, hc⟩ := listLine_head cfg k v
    refine ⟨i :: infos, ?_, ?_⟩
    · show parse cfg.cy (listLine cfg k v :: es.map fun kv => listLine cfg kv.1 kv.2) = _
      unfold parse
      rw [if_neg (by rw [hcr]; exact strip_ne_nil c r hc), hi, hp]
    · simp [hm, he]

/-! ### the ordered dictionary of `_read_dir` -/

theorem odSet_new (e : Ftp.Ent) (l : List Ftp.Ent) (h : e.1 ∉ l.map (·.1)) : Ftp.odSet e l = l ++ [e] := by
  induction l with
  | nil => rfl
  | cons x rest ih =>
    simp only [List.map_cons, List.mem_cons, not_or] at h
    simp only [Ftp.odSet, if_neg (Ne.symm h.1), ih h.2, List.cons_append]

theorem odOf_nodup_aux (l acc : List Ftp.Ent) (h : ((acc ++ l).map (·.1)).Nodup) :
    l.foldl (fun a e => Ftp.odSet e a) acc = acc ++ l := by
  induction l generalizing acc with
  | nil => simp
  | cons e rest ih =>
    simp only [List.foldl_cons]
    have hnew : e.1 ∉ acc.map (·.1) := by
      simp only [List.map_append, List.map_cons] at h
      have := (List.nodup_append.1 h).2.2
      intro hm
      exact this _ hm _ (by simp) rfl
    rw [odSet_new e acc hnew, ih _ (by simpa using h)]
    simp

theorem odOf_nodup (l : List Ftp.Ent) (h : (l.map (·.1)).Nodup) : Ftp.odOf l = l := by
  unfold Ftp.odOf
  simpa using odOf_nodup_aux l [] (by simpa using h)

theorem odGet_entries (cfg : Profile) (name : Name) (es : Ents) :
    Ftp.odGet name (es.map (entOf cfg)) = (Ents.lookup name es).map fun v => entOf cfg (name, v) := by
  induction es with
  | nil => rfl
  | cons e rest ih =>
    obtain ⟨k, v⟩ := e
    by_cases hk : k = name
    · subst hk; simp [Ftp.odGet, Ents.lookup, entOf]
    · simp [Ftp.odGet, Ents.lookup, entOf, hk, ih]

theorem names_entries (cfg : Profile) (es : Ents) : (es.map (entOf cfg)).map (·.1) = Ents.names es := by
  simp [entOf, Ents.names]

end Fs.FtpServerLemmas
