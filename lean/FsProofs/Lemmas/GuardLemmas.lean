/-
  Helper lemmas for C04 / C18: the `Safe` fixpoint, its soundness for the operational semantics
  `Exec`, and the facts about `Ref.step` the wrapper semantics needs.
-/
import FsModel.Guard

namespace Fs.GuardLemmas
open Fs Fs.Ref Fs.Guard Fs.Generated

/-! ### table plumbing -/

theorem shapeOf_missing_of_not_mem (cls m : String) (h : m ∉ methodsOf cls) :
    shapeOf cls m = .missing := by
  unfold shapeOf
  have : (shapeRowsOf cls).find? (fun r => r.1 == m) = none := by
    rw [List.find?_eq_none]
    intro r hr hp
    apply h
    simp only [methodsOf, List.mem_map]
    exact ⟨r, hr, by simpa using hp⟩
  rw [this]

theorem mem_methodsOf_of_shape (cls m : String) (h : shapeOf cls m ≠ .missing) : m ∈ methodsOf cls := by
  by_cases hm : m ∈ methodsOf cls
  · exact hm
  · exact absurd (shapeOf_missing_of_not_mem cls m hm) h

/-! ### the `Safe` fixpoint -/

theorem harmlessStep_mono (cls : String) (f g : String → Bool) (hfg : ∀ m, f m = true → g m = true)
    (m : String) (h : harmlessStep cls f m = true) : harmlessStep cls g m = true := by
  unfold harmlessStep at *
  split
  · rename_i hs
    rw [hs] at h
    simp only [Bool.and_eq_true, List.all_eq_true] at h ⊢
    exact ⟨fun c hc => hfg c (h.1 c hc), h.2⟩
  · rename_i s hs
    split at h
    · rename_i hs'
      exact absurd hs' hs
    · exact h

theorem harmlessN_mono (cls : String) (n : Nat) : ∀ m, harmlessN cls n m = true → harmlessN cls (n + 1) m = true := by
  induction n with
  | zero => intro m h; simp [harmlessN] at h
  | succ n ih =>
    intro m h
    show harmlessStep cls (harmlessN cls (n + 1)) m = true
    exact harmlessStep_mono cls (harmlessN cls n) (harmlessN cls (n + 1)) ih m h

/-- once two consecutive levels agree, all later levels agree: the depth bound suffices -/
theorem harmlessN_stable (cls : String) (b : Nat)
    (h : ∀ m, harmlessN cls (b + 1) m = harmlessN cls b m) :
    ∀ k m, harmlessN cls (b + k) m = harmlessN cls b m := by
  intro k
  induction k with
  | zero => intro m; rfl
  | succ k ih =>
    intro m
    have e : harmlessN cls (b + k) = harmlessN cls b := funext ih
    show harmlessStep cls (harmlessN cls (b + k)) m = harmlessN cls b m
    rw [e]
    exact h m

/-- agreement of two levels only has to be checked on the names of the table -/
theorem harmlessN_agree_of_table (cls : String) (b : Nat)
    (h : ∀ m ∈ methodsOf cls, harmlessN cls (b + 2) m = harmlessN cls (b + 1) m) :
    ∀ m, harmlessN cls (b + 2) m = harmlessN cls (b + 1) m := by
  intro m
  by_cases hm : m ∈ methodsOf cls
  · exact h m hm
  · have hs := shapeOf_missing_of_not_mem cls m hm
    show harmlessStep cls _ m = harmlessStep cls _ m
    unfold harmlessStep
    rw [hs]

/-! ### modes -/

theorem not_writing_of_covers (chars : List Char) (mode : Str) (hc : coversWriting chars = true)
    (hr : rejects chars mode = false) : isWritingMode mode = false := by
  unfold coversWriting at hc
  unfold rejects at hr
  unfold isWritingMode
  simp only [Bool.and_eq_true, List.all_eq_true] at hc
  rw [List.any_eq_false] at hr ⊢
  intro c hcm hw
  have hw' : c ∈ wchars := by simpa using hw
  have := hc.2 c hw'
  exact hr c hcm this

/-- what is assumed of the underlying filesystem: passive methods and opens in a non-writing
mode do not change its state -/
structure Honest {σ : Type} (I : Inner σ) : Prop where
  passive : ∀ m s s', isPassive m = true → I.call m s s' → s' = s
  readOpen : ∀ mode s s', isWritingMode mode = false → I.openAs mode s s' → s' = s

theorem seqOf_id {σ : Type} (R : String → σ → σ → Prop) (A : String → Prop)
    (h : ∀ c s s', A c → R c s s' → s' = s) : ∀ s s', SeqOf R A s s' → s' = s := by
  intro s s' hs
  induction hs with
  | nil s => rfl
  | cons c hA hR _ ih => rw [ih]; exact h c _ _ hA hR

/-- a mode string that `validate_bin` accepts is accepted by the `Mode(..)` constructor -/
theorem modeValid_of_parse (m : Str) (h : (parseBinMode m).isSome = true) : modeValid m = true := by
  unfold parseBinMode at h
  unfold modeValid
  split at h
  · simp at h
  · rename_i c cs
    split at h
    · simp at h
    · rename_i h1
      split at h
      · simp at h
      · rename_i h2
        split at h
        · simp at h
        · rename_i h3
          rw [Bool.and_eq_true, Bool.and_eq_true]
          refine ⟨⟨?_, ?_⟩, ?_⟩
          · cases hx : (c :: cs).all (fun x => modeValidChars.contains x) with
            | true => rfl
            | false => rw [hx] at h1; exact absurd rfl h1
          · cases hx : ['r', 'w', 'x', 'a'].contains c with
            | true => rfl
            | false => rw [hx] at h2; exact absurd rfl h2
          · cases hx : (c :: cs).contains 't' with
            | true => exact absurd hx h3
            | false => rfl

/-- `r` is not a writing mode character of this tree's `Mode.writing` -/
theorem r_not_writing : isWritingMode ['r'] = false := by decide

/-- shapes that are harmless on their own are sound -/
theorem execShape_sound_simple {σ : Type} (cls : String) (I : Inner σ) (hI : Honest I)
    (R : String → σ → σ → Prop) (m : String) (s s' : σ) (sh : Shape)
    (hb : sh ≠ .baseDefault) (hh : harmlessShape m sh = true)
    (hx : execShape cls I R m s s' sh) : s' = s := by
  cases sh with
  | raisesReadOnly => exact hx
  | modeGuarded chars passes validates =>
    obtain ⟨mode, hm⟩ := hx
    by_cases hv : (validates && !modeValid mode) = true
    · simpa [hv] using hm
    have hv' : (validates && !modeValid mode) = false := by simpa using hv
    simp only [hv', Bool.false_eq_true, if_false] at hm
    by_cases hr : rejects chars mode = true
    · simpa [hr] using hm
    · have hr' : rejects chars mode = false := by simpa using hr
      simp only [hr'] at hm
      cases passes with
      | true =>
        simp only [harmlessShape, Bool.not_true, Bool.or_false, Bool.and_eq_true] at hh
        exact hI.readOpen mode s s' (not_writing_of_covers chars mode hh.2 hr') (by simpa using hm)
      | false => exact hI.readOpen ['r'] s s' r_not_writing (by simpa using hm)
  | delegates => exact hI.passive m s s' hh hx
  | other => exact hx
  | baseDefault => exact absurd rfl hb
  | abstract => simp [harmlessShape] at hh
  | unknown => simp [harmlessShape] at hh
  | missing => exact False.elim hx

/-- Lemma A: when every overridden method is harmless, no call at all changes the state -/
theorem exec_id_of_overridden {σ : Type} (cls : String) (I : Inner σ) (hI : Honest I)
    (ho : overriddenHarmless cls = true) :
    ∀ n m s s', ExecN cls I n m s s' → s' = s := by
  intro n
  induction n with
  | zero => intro m s s' h; exact False.elim h
  | succ n ih =>
    intro m s s' h
    have hx : execShape cls I (ExecN cls I n) m s s' (shapeOf cls m) := h
    by_cases hb : shapeOf cls m = .baseDefault
    · rw [hb] at hx
      exact seqOf_id _ _ (fun c a b _ hR => ih c a b hR) s s' hx
    · have hm : m ∈ methodsOf cls := by
        apply mem_methodsOf_of_shape
        intro hmiss
        rw [hmiss] at hx
        exact hx
      have hh : harmlessShape m (shapeOf cls m) = true := by
        unfold overriddenHarmless at ho
        rw [List.all_eq_true] at ho
        exact ho m hm
      exact execShape_sound_simple cls I hI _ m s s' _ hb hh hx

/-- Soundness of `Safe`: a method that is harmless at some depth never changes the state of the
underlying filesystem, whatever the call depth of the execution. -/
theorem harmless_sound {σ : Type} (cls : String) (I : Inner σ) (hI : Honest I) :
    ∀ n k m s s', harmlessN cls k m = true → ExecN cls I n m s s' → s' = s := by
  intro n
  induction n with
  | zero => intro k m s s' _ h; exact False.elim h
  | succ n ih =>
    intro k m s s' hk h
    cases k with
    | zero => simp [harmlessN] at hk
    | succ k =>
      have hx : execShape cls I (ExecN cls I n) m s s' (shapeOf cls m) := h
      have hs : harmlessStep cls (harmlessN cls k) m = true := hk
      by_cases hb : shapeOf cls m = .baseDefault
      · rw [hb] at hx
        unfold harmlessStep at hs
        rw [hb] at hs
        simp only [Bool.and_eq_true, List.all_eq_true, Bool.or_eq_true, Bool.not_eq_eq_eq_not,
          Bool.not_true] at hs
        refine seqOf_id _ _ ?_ s s' hx
        intro c a b hA hR
        cases hA with
        | inl hc => exact ih k c a b (hs.1 c hc) hR
        | inr he =>
          cases hs.2 with
          | inl hne => rw [he.1] at hne; exact absurd hne (by decide)
          | inr ho => exact exec_id_of_overridden cls I hI ho n c a b hR
      · have hh : harmlessShape m (shapeOf cls m) = true := by
          unfold harmlessStep at hs
          split at hs
          · rename_i hb'; exact absurd hb' hb
          · exact hs
        exact execShape_sound_simple cls I hI _ m s s' _ hb hh hx


/-! ### facts about `Ref.step` -/

theorem ref_closed_final (s : State) (op : Op) (h : s.closed = true) (hop : op ≠ .close) :
    step s op = (s, .err .FilesystemClosed) := by
  cases op <;> first | exact absurd rfl hop | simp [step, h, fail]

theorem step1_query_pure (s : State) (cs : List Name) (op : Op) (h : isPassive (opMeth op) = true) :
    (step1 s cs op).1 = s := by
  cases op <;> first | (exfalso; simp only [opMeth] at h; revert h; decide) | (simp only [step1, done, fail]; repeat' split) <;> rfl

theorem step2_query_pure (st : State) (a b : List Name) (op : Op) (h : isPassive (opMeth op) = true) :
    (step2 st a b op).1 = st := by
  cases op <;> first | (exfalso; simp only [opMeth] at h; revert h; decide) | (simp only [step2, done])

theorem ref_passive_pure (s : State) (op : Op) (h : isPassive (opMeth op) = true) (hop : op ≠ .close) :
    (step s op).1 = s := by
  cases op <;> first | exact absurd rfl hop | (exfalso; simp only [opMeth] at h; revert h; decide) | skip
  all_goals
    simp only [step]
    split
    · rfl
    · split <;> first | rfl | exact step1_query_pure _ _ _ h | exact step2_query_pure _ _ _ h


theorem wchars_eq : wchars = ['w', 'a', '+', 'x'] := by decide

theorem contains_false_of_not_writing (m : Str) (h : isWritingMode m = false) (c : Char) (hc : c ∈ wchars) :
    m.contains c = false := by
  unfold isWritingMode at h
  rw [List.any_eq_false] at h
  cases hm : m.contains c with
  | false => rfl
  | true =>
    have : c ∈ m := by simpa using hm
    exact absurd (by simpa using hc) (h c this)

theorem mode_flags_of_not_writing (m : Str) (md : Mode) (h : isWritingMode m = false)
    (hp : parseBinMode m = some md) : md.create = false ∧ md.truncate = false ∧ md.exclusive = false := by
  have hw := contains_false_of_not_writing m h 'w' (by rw [wchars_eq]; decide)
  have ha := contains_false_of_not_writing m h 'a' (by rw [wchars_eq]; decide)
  have hx := contains_false_of_not_writing m h 'x' (by rw [wchars_eq]; decide)
  unfold parseBinMode at hp
  split at hp
  · exact absurd hp (by simp)
  · split at hp
    · exact absurd hp (by simp)
    · split at hp
      · exact absurd hp (by simp)
      · split at hp
        · exact absurd hp (by simp)
        · split at hp
          · exact absurd hp (by simp)
          · split at hp
            · exact absurd hp (by simp)
            · simp only [Option.some.injEq] at hp
              subst hp
              refine ⟨?_, ?_, ?_⟩ <;> simp only [hw, ha, hx] <;> decide

theorem step1_openbin_read_pure (s : State) (cs : List Name) (p m : Str) (h : isWritingMode m = false) :
    (step1 s cs (.openbin p m)).1 = s := by
  simp only [step1]
  split
  · rfl
  · rename_i md hp
    obtain ⟨hc, ht, hx⟩ := mode_flags_of_not_writing m md h hp
    simp only [hc, ht, hx, fail, done]
    repeat' split
    all_goals first | rfl | simp_all

theorem ref_openbin_read_pure (s : State) (p m : Str) (h : isWritingMode m = false) :
    (step s (.openbin p m)).1 = s := by
  simp only [step]
  split
  · rfl
  · split
    · rfl
    · split <;> first | rfl | exact step1_openbin_read_pure _ _ _ _ h


/-! ### the wrapper semantics `RO.step` -/

theorem safe_shape (cls m : String) (h : Safe cls m = true) (hb : shapeOf cls m ≠ .baseDefault) :
    harmlessShape m (shapeOf cls m) = true := by
  have hs : harmlessStep cls (harmlessN cls 5) m = true := h
  unfold harmlessStep at hs
  split at hs
  · rename_i hb'; exact absurd hb' hb
  · exact hs

theorem asRead_pure (s : Ref.State) (op : Op) (h : isOpener (opMeth op) = true) : (Ref.step s (asRead op)).1 = s := by
  cases op <;> first | (exfalso; simp only [opMeth] at h; revert h; decide) | skip
  exact ref_openbin_read_pure _ _ _ r_not_writing

theorem opener_read_pure (s : Ref.State) (op : Op) (h : isOpener (opMeth op) = true)
    (hw : isWritingMode (opMode op) = false) : (Ref.step s op).1 = s := by
  cases op <;> first | (exfalso; simp only [opMeth] at h; revert h; decide) | skip
  exact ref_openbin_read_pure _ _ _ hw

/-- `RO.step` for anything but `close` -/
theorem ro_step_eq (cls : String) (st : RO.State) (op : Op) (hop : op ≠ .close) :
    RO.step cls st op =
        (if st.closed && guardOf cls (opMeth op) == .guarded then (st, .err .FilesystemClosed)
         else match shapeOf cls (opMeth op) with
          | .raisesReadOnly => (st, .err .ResourceReadOnly)
          | .modeGuarded chars passes validates =>
              if validates && !modeValid (opMode op) then (st, .err .ValueError)
              else if rejects chars (opMode op) then (st, .err .ResourceReadOnly)
              else if passes then RO.pass st op else RO.pass st (asRead op)
          | .baseDefault =>
              if Safe cls (opMeth op) then
                (st, if refMutating op then .err .ResourceReadOnly else (Ref.step st.inner op).2)
              else RO.pass st op
          | .other => (st, (Ref.step st.inner op).2)
          | .missing => (st, .err .Unsupported)
          | _ => RO.pass st op) := by
  cases op <;> first | exact absurd rfl hop | rfl

/-- one step through a wrapper whose method is `Safe` leaves the wrapped state alone -/
theorem ro_step_inner (cls : String) (st : RO.State) (op : Op) (h : Safe cls (opMeth op) = true) :
    (RO.step cls st op).1.inner = st.inner := by
  by_cases hop : op = .close
  · subst hop; rfl
  · rw [ro_step_eq cls st op hop]
    split
    · rfl
    · cases hs : shapeOf cls (opMeth op) with
      | raisesReadOnly => rfl
      | modeGuarded chars passes validates =>
        have hh := safe_shape cls _ h (by rw [hs]; simp)
        rw [hs] at hh
        simp only [harmlessShape, Bool.and_eq_true] at hh
        simp only
        split
        · rfl
        split
        · rfl
        · rename_i _ hr
          have hr' : rejects chars (opMode op) = false := by simpa using hr
          cases passes with
          | true =>
            simp only [Bool.not_true, Bool.or_false] at hh
            have hw := not_writing_of_covers chars _ hh.2 hr'
            simp only [if_true, RO.pass]
            exact opener_read_pure _ _ hh.1 hw
          | false =>
            simp only [RO.pass]
            exact asRead_pure _ _ hh.1
      | delegates =>
        have hh := safe_shape cls _ h (by rw [hs]; simp)
        rw [hs] at hh
        simp only [RO.pass]
        exact ref_passive_pure _ _ hh hop
      | baseDefault => simp only
      | other => rfl
      | missing => rfl
      | abstract =>
        have hh := safe_shape cls _ h (by rw [hs]; simp)
        rw [hs] at hh
        simp [harmlessShape] at hh
      | unknown =>
        have hh := safe_shape cls _ h (by rw [hs]; simp)
        rw [hs] at hh
        simp [harmlessShape] at hh

/-- a table all of whose names are `Safe` makes every *reference* operation safe: names outside
the table resolve to nothing (`missing`) -/
theorem ro_step_inner_of_table (cls : String) (hT : TableSafe cls = true) (st : RO.State) (op : Op) :
    (RO.step cls st op).1.inner = st.inner := by
  by_cases hm : opMeth op ∈ methodsOf cls
  · apply ro_step_inner
    unfold TableSafe at hT
    rw [List.all_eq_true] at hT
    exact hT _ hm
  · by_cases hop : op = .close
    · subst hop; rfl
    · rw [ro_step_eq cls st op hop, shapeOf_missing_of_not_mem cls _ hm]
      split <;> rfl

theorem ro_run_inner (cls : String) (hT : TableSafe cls = true) :
    ∀ (ops : List Op) (st : RO.State), (RO.run cls st ops).1.inner = st.inner := by
  intro ops
  induction ops with
  | nil => intro st; rfl
  | cons op ops ih =>
    intro st
    show (RO.run cls (RO.step cls st op).1 ops).1.inner = st.inner
    rw [ih, ro_step_inner_of_table cls hT]

theorem ro_mutator_raises (cls : String) (st : RO.State) (op : Op)
    (hs : Safe cls (opMeth op) = true) (hm : refMutating op = true)
    (hc : (st.closed && guardOf cls (opMeth op) == .guarded) = false)
    (hrej : ∀ chars passes validates, shapeOf cls (opMeth op) = .modeGuarded chars passes validates →
      (validates && !modeValid (opMode op)) = false ∧ rejects chars (opMode op) = true) :
    (RO.step cls st op).2 = .err .ResourceReadOnly := by
  have hop : op ≠ .close := by
    intro h; subst h; revert hm; decide
  rw [ro_step_eq cls st op hop, hc]
  simp only [Bool.false_eq_true, if_false]
  cases hsh : shapeOf cls (opMeth op) with
  | raisesReadOnly => rfl
  | modeGuarded chars passes validates =>
    simp only [(hrej chars passes validates hsh).1, (hrej chars passes validates hsh).2, if_true, Bool.false_eq_true, if_false]
  | delegates =>
    have hh := safe_shape cls _ hs (by rw [hsh]; simp)
    rw [hsh] at hh
    exfalso
    unfold refMutating isMutator isOpener at hm
    unfold harmlessShape isPassive at hh
    revert hm hh
    cases kindOf (opMeth op) with
    | none => simp
    | some k => cases k <;> simp
  | baseDefault => simp only [hs, if_true, hm]
  | other =>
    have hh := safe_shape cls _ hs (by rw [hsh]; simp)
    rw [hsh] at hh
    exfalso
    unfold refMutating isMutator isOpener at hm
    unfold harmlessShape isPassive at hh
    revert hm hh
    cases kindOf (opMeth op) with
    | none => simp
    | some k => cases k <;> simp
  | missing =>
    have hh := safe_shape cls _ hs (by rw [hsh]; simp)
    rw [hsh] at hh
    simp [harmlessShape] at hh
  | abstract =>
    have hh := safe_shape cls _ hs (by rw [hsh]; simp)
    rw [hsh] at hh
    simp [harmlessShape] at hh
  | unknown =>
    have hh := safe_shape cls _ hs (by rw [hsh]; simp)
    rw [hsh] at hh
    simp [harmlessShape] at hh

/-! ### witnesses for the classification -/

/-- decidable fingerprint of a tree: every path with the bytes of the file there -/
def flat (t : Node) : List (List Name × Option Bytes) :=
  (t.walk []).map fun (p, n) => (p, match n with | .file b => some b | .dir _ => none)

theorem ne_of_flat {a b : Node} (h : flat a ≠ flat b) : a ≠ b := fun e => h (by rw [e])

def a : Str := ['a']
def b : Str := ['b']
def s0 : State := State.empty
def sF : State := { root := .dir [(a, .file [1])], closed := false }     -- one file `a`
def sD : State := { root := .dir [(a, .dir [])], closed := false }       -- one empty directory `a`
def sDF : State := { root := .dir [(a, .dir [(b, .file [1])])], closed := false }  -- `a/b`

def witness : String → Option (State × Op)
  | "makedir" => some (s0, .makedir a false)
  | "makedirs" => some (s0, .makedirs a false)
  | "writebytes" => some (s0, .writebytes a [1])
  | "appendbytes" => some (s0, .appendbytes a [1])
  | "create" => some (s0, .create a false)
  | "touch" => some (s0, .touch a)
  | "openbin" => some (s0, .openbin a ['w'])
  | "remove" => some (sF, .remove a)
  | "removedir" => some (sD, .removedir a)
  | "removetree" => some (sDF, .removetree a)
  | "move" => some (sF, .move a b false)
  | "copy" => some (sF, .copy a b false)
  | "movedir" => some (sDF, .movedir a b true)
  | "copydir" => some (sDF, .copydir a b true)
  | _ => none

def witnessOk (m : String) : Bool :=
  match witness m with
  | some (s, op) => opMeth op == m && !s.closed && s.root.wf && flat (step s op).1.root != flat s.root
  | none => false

theorem witness_ok : ∀ m ∈ refMethods, (isMutator m || isOpener m) = true → m ≠ "settimes" →
    witnessOk m = true := by
  decide

theorem passive_of_not_mut : ∀ m ∈ refMethods, (isMutator m || isOpener m) = false → isPassive m = true := by
  decide


end Fs.GuardLemmas
